(* C04 - the link between the theorems and the trace checker: on every history that meets the hypotheses of
   the theorems, the trace the model produces passes `satisfies` (and trivially `agrees`).  Hence, for any
   observed trace on which the real code agrees with the model, `satisfies` can only fail where a hypothesis
   fails (the three recorded findings) - and where it holds it holds for the reason the theorems give. *)
From Coq Require Import List Arith NArith Lia Bool ZifyNat ZifyN ZifyBool.
From V Require Import Lib.Check Gen.Params C04_RecordIDs.Model C04_RecordIDs.Proofs.
Import ListNotations.
Local Open Scope N_scope.

(* ---------- the trace of the model ---------- *)
Definition out_obs (o : out) : obs :=
  match o with
  | Rejected => mkObs false [] [] [] [] []
  | Accepted ev' rep => mkObs true rep (e_arg ev') (e_creates ev') (e_updates ev') (e_creates ev')
  end.

Fixpoint model_trace_gen (au ps : bool) (st : state) (h : list iop) : trace :=
  match h with
  | [] => []
  | IRestart :: t => ORestart :: model_trace_gen au ps (step_gen au ps st IRestart) t
  | IEvent ws ev :: t =>
      OEvent ws ev (out_obs (snd (step_event_gen au ps (st ws) ev)))
      :: model_trace_gen au ps (upd st ws (fst (step_event_gen au ps (st ws) ev))) t
  end.
Definition model_trace := model_trace_gen c04_arg_updates_on_sync c04_plans_shared.

(* ---------- reflexivity of the comparisons ---------- *)
Lemma list_eqb_refl {T} (eqb : T -> T -> bool) : (forall x, eqb x x = true) -> forall l, list_eqb eqb l l = true.
Proof. intros H l. induction l as [|x l IH]; cbn; [reflexivity|]. rewrite H, IH. reflexivity. Qed.
Lemma row_eqb_refl r : row_eqb r r = true.
Proof. unfold row_eqb. rewrite !N.eqb_refl, (list_eqb_refl N.eqb N.eqb_refl). reflexivity. Qed.
Lemma rows_eqb_refl l : rows_eqb l l = true.
Proof. apply list_eqb_refl. exact row_eqb_refl. Qed.
Lemma pair_eqb_refl p : pair_eqb p p = true.
Proof. unfold pair_eqb. rewrite !N.eqb_refl. reflexivity. Qed.

(* ---------- plans list their own keys ---------- *)
Lemma plan_self p : NoDup (map fst p) -> Forall (fun k => is_raw k = true) (map fst p) ->
  p = map (fun k => (k, sub_cud p k)) (map fst p).
Proof.
  induction p as [|[a b] t IH]; cbn [map fst]; intros ND F; [reflexivity|].
  inversion ND as [|? ? NI ND']; subst. inversion F as [|? ? Ra Ft]; subst. f_equal.
  - unfold sub_cud. rewrite Ra, plan_get_cons_fresh by exact NI. reflexivity.
  - rewrite (IH ND' Ft) at 1. apply map_ext_in. intros k Hk. f_equal.
    unfold sub_cud. destruct (is_raw k); [|reflexivity]. rewrite plan_get_cons_other; [reflexivity|].
    intros E. subst. contradiction.
Qed.

(* ---------- the oracle's pieces on rows rewritten by one map ---------- *)
Section Rewritten.
Variable m : N -> N.
Hypothesis m_fix : forall v, is_raw v = false -> m v = v.

Lemma declared_map ins :
  declared ins (map (map_row m) ins) = map (fun r => (r_id r, m (r_id r))) (filter (fun r => is_raw (r_id r)) ins).
Proof. induction ins as [|r t IH]; cbn; [reflexivity|]. destruct (is_raw (r_id r)); cbn; rewrite IH; reflexivity. Qed.

Lemma lookup_declared ins v : In v (ids ins) -> is_raw v = true ->
  lookup (declared ins (map (map_row m) ins)) v = Some (m v).
Proof.
  rewrite declared_map. induction ins as [|r t IH]; cbn; intros I R; [contradiction|].
  destruct (is_raw (r_id r)) eqn:Rr; cbn.
  - destruct (N.eqb_spec (r_id r) v) as [->|NE]; [reflexivity|]. apply IH; [|exact R]. destruct I; [contradiction|assumption].
  - apply IH; [|exact R]. destruct I as [E|I]; [congruence|exact I].
Qed.

Variable mu : list (N * N).
Definition covered (v : N) : Prop := is_raw v = true -> lookup mu v = Some (m v).

Lemma val_ok_m v : covered v -> val_ok mu v (m v) = true.
Proof.
  intros C. unfold val_ok. destruct (is_raw v) eqn:R.
  - rewrite (C R). apply N.eqb_refl.
  - rewrite m_fix by exact R. apply N.eqb_refl.
Qed.

Lemma vals_ok_m vs : Forall covered vs -> vals_ok mu vs (map m vs) = true.
Proof. induction 1 as [|v t C F IH]; cbn; [reflexivity|]. rewrite (val_ok_m v C), IH. reflexivity. Qed.

Lemma rows_ok_m rows : Forall (fun r => Forall covered (row_vals r)) rows -> rows_ok mu rows (map (map_row m) rows) = true.
Proof.
  induction 1 as [|r t C F IH]; cbn [rows_ok map]; [reflexivity|]. rewrite IH, andb_true_r.
  cbn in C. inversion C as [|? ? C1 C']; subst. inversion C' as [|? ? C2 C3]; subst.
  unfold row_ok. cbn. rewrite (val_ok_m _ C1), (val_ok_m _ C2), (vals_ok_m _ C3). reflexivity.
Qed.

Lemma expected_map singles ins :
  expected_newids singles ins (map (map_row m) ins)
  = map (fun r => (r_id r, m (r_id r))) (filter (fun r => is_raw (r_id r) && (negb singles || (r_single r =? 0))) ins).
Proof.
  induction ins as [|r t IH]; cbn; [reflexivity|].
  destruct (is_raw (r_id r) && (negb singles || (r_single r =? 0))); cbn; rewrite IH; reflexivity.
Qed.
End Rewritten.

(* ---------- one accepted event passes subst_ok ---------- *)
Lemma subst_ok_weaken b ev o : subst_ok ev o = true -> subst_ok_gen b ev o = true.
Proof.
  unfold subst_ok, subst_ok_gen. cbn [andb]. rewrite !orb_false_r, !andb_true_iff.
  intros [[A B] C]. rewrite B, C. cbn [orb]. split; [split; [exact A|reflexivity]|reflexivity].
Qed.

Lemma filter_ext_in {T} (f g : T -> bool) l : (forall x, In x l -> f x = g x) -> filter f l = filter g l.
Proof.
  induction l as [|x t IH]; cbn; intros H; [reflexivity|]. rewrite (H x (or_introl eq_refl)), IH; [reflexivity|].
  intros y Hy. apply H. right. exact Hy.
Qed.

Lemma raw_ids_as_rows rows : raw_ids rows = map r_id (filter (fun r => is_raw (r_id r)) rows).
Proof. unfold raw_ids, ids. induction rows as [|r t IH]; cbn; [reflexivity|]. destruct (is_raw (r_id r)); cbn; rewrite IH; reflexivity. Qed.

Lemma subst_ok_model au ps g ev g' ev' rep :
  valid ev = true -> Forall single_ok (e_creates ev) -> c04_first_user_id <= g ->
  room 0 g (e_arg ev ++ e_creates ev) ->
  ps = true \/ cud_refs_arg_free ev ->
  c04_arg_plain_checked = true \/ arg_fields_closed ev ->
  regenerate_gen au ps g ev = (g', ev', rep) ->
  subst_ok ev (out_obs (Accepted ev' rep)) = true.
Proof.
  intros Hv Hs Hg Hr Hsh Hpl E.
  destruct (regenerate_passes au ps 0 g ev Hv Hg Hr g' ev' rep E) as (pa & pc & g1 & repc & P).
  pose proof (valid_spec ev Hv) as VF.
  pose proof (stored_arg au ps 0 g ev Hv Hg g' ev' rep pa pc g1 repc P (argrefs_all ev Hv Hpl)) as SA.
  pose proof (stored_creates au ps 0 g ev Hv Hs Hg g' ev' rep pa pc g1 repc P Hsh) as SC.
  pose proof (stored_updates au ps 0 g ev Hv Hs Hg g' ev' rep pa pc g1 repc P Hsh) as SU.
  pose proof (vf_nonnull _ VF) as NN. rewrite Forall_forall in NN.
  set (m := mu pa pc) in *.
  assert (MFIX : forall v, is_raw v = false -> m v = v) by (intros v; apply mu_not_raw).
  unfold subst_ok, subst_ok_gen, out_obs. cbn [o_arg o_creates o_updates o_newids o_recs andb]. rewrite !orb_false_r.
  rewrite SA, SC, SU, !map_length, !Nat.eqb_refl, rows_eqb_refl, andb_true_r. cbn [andb].
  rewrite <- map_app.
  set (ins := e_arg ev ++ e_creates ev) in *.
  set (dm := declared ins (map (map_row m) ins)).
  (* every raw value that occurs in the event is the ID of a declaring row *)
  assert (COV : forall v, In v (ids ins) -> covered m dm v).
  { intros v I R. apply lookup_declared; assumption. }
  assert (COVK : forall v, val_known (ids (e_arg ev)) v -> covered m dm v).
  { intros v [Z|[I|NR]] R; [subst; rewrite is_raw_0 in R; discriminate| |congruence].
    apply COV; [|exact R]. unfold ins, ids. rewrite map_app. apply in_or_app. left. exact I. }
  assert (COVA : forall v, val_known (all_ids ev) v -> covered m dm v).
  { intros v [Z|[I|NR]] R; [subst; rewrite is_raw_0 in R; discriminate| |congruence].
    unfold all_ids in I. apply in_app_or in I. destruct I as [I|I].
    - apply COV; [|exact R]. unfold ins, ids. rewrite map_app. apply in_or_app. left. exact I.
    - apply in_app_or in I. destruct I as [I|I]; [|exfalso; exact (raw_not_update ev Hv v R I)].
      apply COV; [|exact R]. unfold ins, ids. rewrite map_app. apply in_or_app. right. exact I. }
  rewrite !andb_true_iff. repeat split.
  - (* declared IDs became storage IDs *)
    apply forallb_forall. intros [k s] I. unfold dm in I. rewrite (declared_map m) in I.
    apply in_map_iff in I. destruct I as [r [EQ I]]. inversion EQ; subst; clear EQ. apply filter_In in I. destruct I as [I _].
    assert (ST : is_raw (m (r_id r)) = false /\ m (r_id r) <> 0).
    { unfold ins in I. apply in_app_or in I. destruct I as [I|I].
      - apply (mu_declared_arg au ps 0 g ev Hv Hg g' ev' rep pa pc g1 repc P);
          [unfold ids; apply in_map; exact I | apply NN; apply in_or_app; left; exact I].
      - apply (mu_declared_create au ps 0 g ev Hs Hg g' ev' rep pa pc g1 repc P r I). apply NN. apply in_or_app. right. exact I. }
    destruct ST as [A B]. unfold storage_id. cbn [snd]. rewrite A. apply andb_true_iff. split; [|reflexivity].
    apply negb_true_iff. apply N.eqb_neq. exact B.
  - (* argument rows and creates *)
    apply (rows_ok_m m MFIX). unfold ins. apply Forall_app. split.
    + apply Forall_forall. intros r I. cbn. constructor; [|constructor].
      * apply COV. unfold ins, ids. rewrite map_app. apply in_or_app. left. apply in_map. exact I.
      * apply COVK. pose proof (vf_parent _ VF) as PAR. rewrite Forall_forall in PAR. exact (PAR r I).
      * pose proof (argrefs_all ev Hv Hpl) as REFS. unfold arg_fields_closed in REFS. rewrite Forall_forall in REFS. eapply Forall_impl; [|exact (REFS r I)]. exact COVK.
    + apply Forall_forall. intros r I.
      pose proof (vf_cudvals _ VF) as CV. rewrite Forall_forall in CV.
      eapply Forall_impl; [|exact (CV r (in_or_app _ _ _ (or_introl I)))]. exact COVA.
  - (* updates *)
    apply (rows_ok_m m MFIX). apply Forall_forall. intros r I.
    pose proof (vf_cudvals _ VF) as CV. rewrite Forall_forall in CV.
    eapply Forall_impl; [|exact (CV r (in_or_app _ _ _ (or_intror I)))]. exact COVA.
  - (* the reported pairs are exactly the expected ones, in the same order *)
    assert (REP : expected_newids false (e_arg ev) (map (map_row m) (e_arg ev))
                  ++ expected_newids true (e_creates ev) (map (map_row m) (e_creates ev)) = rep).
    { rewrite !expected_map, (ps_rep _ _ _ _ _ _ _ _ _ _ _ _ P). f_equal.
      - cbn [negb orb]. rewrite (filter_ext_in _ (fun r => is_raw (r_id r))) by (intros; apply andb_true_r).
        assert (KA : map fst pa = raw_ids (e_arg ev)) by exact (ps_keys_a _ _ _ _ _ _ _ _ _ _ _ _ P).
        transitivity (map (fun k => (k, sub_cud pa k)) (map fst pa)).
        + rewrite KA, raw_ids_as_rows, map_map. apply map_ext_in. intros r I. apply filter_In in I. destruct I as [I _].
          f_equal. apply (mu_arg_id au ps 0 g ev Hv g' ev' rep pa pc g1 repc P). unfold ids. apply in_map. exact I.
        + symmetry. apply plan_self.
          * rewrite KA. apply nodup_arg. exact Hv.
          * rewrite KA. apply Forall_forall. intros k I. apply raw_ids_In in I. apply I.
      - rewrite (ps_repc _ _ _ _ _ _ _ _ _ _ _ _ P). cbn [negb orb]. unfold reported. apply map_ext_in. intros r I.
        apply filter_In in I. destruct I as [I _]. f_equal.
        apply (mu_create_id au ps 0 g ev g' ev' rep pa pc g1 repc P). unfold ids. apply in_map. exact I. }
    rewrite REP. apply list_eqb_refl. exact pair_eqb_refl.
Qed.

(* ---------- one accepted new event stores only issued IDs ---------- *)
Lemma issued_ok_map (m : N -> N) gen ins :
  (forall r, In r ins -> In (m (r_id r)) gen \/ (r_single r <> 0 /\ m (r_id r) = r_single r)) ->
  issued_ok gen ins (map (map_row m) ins) = true.
Proof.
  induction ins as [|r t IH]; intros H; cbn [issued_ok map]; [reflexivity|].
  rewrite IH by (intros a Ha; apply H; right; exact Ha). rewrite andb_true_r. cbn [r_id map_row].
  destruct (H r (or_introl eq_refl)) as [I|[NZ E]].
  - apply memb_In in I. rewrite I. reflexivity.
  - rewrite E, N.eqb_refl. apply N.eqb_neq in NZ. rewrite NZ. apply orb_true_r.
Qed.

Lemma new_event_ok_model au ps g ev g' ev' rep :
  valid ev = true -> Forall single_ok (e_creates ev) -> c04_first_user_id <= g ->
  room 0 g (e_arg ev ++ e_creates ev) ->
  ps = true \/ cud_refs_arg_free ev ->
  c04_arg_plain_checked = true \/ arg_fields_closed ev ->
  regenerate_gen au ps g ev = (g', ev', rep) ->
  new_event_ok ev (out_obs (Accepted ev' rep)) = true.
Proof.
  intros Hv Hs Hg Hr Hsh Hpl E. unfold new_event_ok, out_obs. cbn [o_newids o_arg o_creates].
  destruct (e_sync ev) eqn:S; [reflexivity|]. cbn [orb].
  destruct (substitution_proved au ps g ev g' ev' rep Hv Hs Hg Hr Hsh Hpl E) as (m & _ & _ & SA & SC & _ & _ & REP & SING & _).
  rewrite SA, SC, <- map_app. apply issued_ok_map. intros r I.
  pose proof (vf_raw _ (valid_spec ev Hv) S) as RAW. rewrite Forall_forall in RAW. specialize (RAW r I).
  apply in_app_or in I. destruct I as [I|I].
  - left. assert (IN : In (r_id r, m (r_id r)) rep) by (apply REP; [left; exact I|exact RAW]).
    apply (in_map snd) in IN. exact IN.
  - destruct (N.eq_dec (r_single r) 0) as [Z|NZ].
    + left. assert (IN : In (r_id r, m (r_id r)) rep) by (apply REP; [right; split; assumption|exact RAW]).
      apply (in_map snd) in IN. exact IN.
    + right. split; [exact NZ|]. apply SING; assumption.
Qed.

(* ---------- histories ---------- *)
Lemma satisfies_from_ext t : forall s1 s2, (forall k, s1 k = s2 k) -> satisfies_from s1 t = satisfies_from s2 t.
Proof.
  induction t as [|[ws ev o| |ws ev o] t IH]; intros s1 s2 H; cbn; [reflexivity| |apply IH; exact H|];
    (destruct (o_ok o); [|apply IH; exact H]; rewrite (H ws); f_equal; apply IH;
     intros k; destruct (k =? ws); [reflexivity|apply H]).
Qed.

Definition f12_free (h : list iop) : Prop := forall ws ev, In (IEvent ws ev) h -> cud_refs_arg_free ev.
(* explicit IDs of sync clients lie above the singleton band *)
(* the F46 exclusion: every RecordID field of the argument rows is closed over the argument's own IDs *)
Definition args_closed (h : list iop) : Prop := forall ws ev, In (IEvent ws ev) h -> arg_fields_closed ev.
Definition explicit_apart (h : list iop) : Prop := forall ws ev, In (IEvent ws ev) h -> explicit_above_singletons ev.
(* no explicit IDs at all (only needed for the code without the pre-pass over explicit IDs, F43) *)
Definition explicit_free (h : list iop) : Prop :=
  forall ws ev, In (IEvent ws ev) h -> Forall (fun r => is_raw (r_id r) = true) (e_arg ev ++ e_creates ev).

(* ---------- singletons: the slot guard and the log ---------- *)
(* every logged ID is the ID of a created record or lies above the singleton band (argument rows) *)
Definition logq (w : wstate) : Prop := Forall (fun x => In x (w_recs w) \/ c04_max_singleton_id < x) (w_log w).

Lemma step_event_slot au ps w ev w' ev' rep :
  step_event_gen au ps w ev = (w', Accepted ev' rep) ->
  slot_free (w_recs w) ev = true /\ w_recs w' = w_recs w ++ ids (e_creates ev').
Proof.
  unfold step_event_gen. destruct (accepts w ev) eqn:AC; [|discriminate].
  unfold accepts in AC. apply andb_true_iff in AC. destruct AC as [_ SF].
  destruct (regenerate_gen au ps (w_next w) ev) as [[g' e'] r']. intros E. inversion E; subst. cbn. auto.
Qed.

Lemma step_event_logq au ps K w ev w' o :
  inv (N.of_nat (ev_rows ev) + K) w ->
  Forall (fun x => x + 1 + N.of_nat (ev_rows ev) + K < two64) (ev_ids ev) ->
  Forall single_ok (e_creates ev) -> explicit_above_singletons ev -> logq w ->
  step_event_gen au ps w ev = (w', o) -> logq w'.
Proof.
  intros I0 B0 HS0 HX0 Q E. destruct o as [|ev' rep].
  - unfold step_event_gen in E. destruct (accepts w ev).
    + destruct (regenerate_gen au ps (w_next w) ev) as [[a b] c]. discriminate.
    + inversion E; subst. exact Q.
  - destruct (step_event_accepts au ps w ev _ _ _ E) as (Hv & RG & LOG).
    destruct (step_event_slot au ps w ev _ _ _ E) as (_ & RECS).
    pose proof I0 as (A0 & _ & _).
    pose proof (step_room K w ev I0 B0) as RM.
    destruct (regenerate_passes au ps K (w_next w) ev Hv A0 RM _ _ _ RG) as (pa & pc & g1 & repc & P).
    unfold logq. rewrite LOG, RECS. unfold event_ids. apply Forall_app. split; [|apply Forall_app; split].
    + eapply Forall_impl; [|exact Q]. cbn. intros x [I|G]; [left; apply in_or_app; left; exact I|right; exact G].
    + apply Forall_forall. intros x I. left. apply in_or_app. right. exact I.
    + apply Forall_forall. intros x I. right.
      rewrite (ps_arg _ _ _ _ _ _ _ _ _ _ _ _ P) in I. unfold ids in I. rewrite map_map in I. apply in_map_iff in I.
      destruct I as [r [EQ I]]. rewrite (stored_arg_id au ps K (w_next w) ev Hv A0 _ _ _ pa pc g1 repc P r I) in EQ. subst x.
      pose proof layout_singletons_reserved as [_ LS].
      destruct (is_raw (r_id r)) eqn:R.
      * assert (J : In (r_id r) (raw_ids (e_arg ev))) by (apply raw_ids_In; split; [unfold ids; apply in_map; exact I|exact R]).
        destruct (pa_value au ps K (w_next w) ev _ _ _ pa pc g1 repc P _ J). lia.
      * rewrite sub_cud_not_raw by exact R. unfold explicit_above_singletons in HX0. rewrite Forall_forall in HX0.
        apply HX0; [apply in_or_app; left; exact I|exact R].
Qed.

Lemma assigned_fresh_map (m : N -> N) seen ins :
  (forall r, In r ins -> is_raw (r_id r) = true -> ~ In (m (r_id r)) seen) ->
  assigned_fresh seen ins (map (map_row m) ins) = true.
Proof.
  induction ins as [|r t IH]; intros H; cbn [assigned_fresh map]; [reflexivity|].
  rewrite IH by (intros a Ha; apply H; right; exact Ha). rewrite andb_true_r. cbn [r_id map_row].
  destruct (is_raw (r_id r)) eqn:R; [|reflexivity]. cbn [negb orb]. apply negb_true_iff. apply memb_false.
  apply H; [left; reflexivity|exact R].
Qed.

Lemma model_satisfies_gen au ps : forall h K st,
  (forall ws, inv (N.of_nat (hist_rows h) + K) (st ws)) -> (forall ws, inv_u (st ws)) ->
  Forall (fun x => x + 1 + N.of_nat (hist_rows h) + K < two64) (hist_ids h) ->
  singles_ok h -> au = true \/ arg_ids_raw h -> ps = true \/ f12_free h ->
  explicit_apart h -> c04_sync_prepass = true \/ explicit_free h ->
  c04_singleton_slot_guard = true -> (forall ws, logq (st ws)) ->
  c04_arg_plain_checked = true \/ args_closed h ->
  satisfies_from (fun k => w_log (st k)) (model_trace_gen au ps st h) = true.
Proof.
  induction h as [|[ws0 ev|] t IH]; intros K st HI HU HB HS HA HF HX HP SG HQ HPL; [reflexivity| |].
  - cbn [model_trace_gen satisfies_from]. cbn [hist_rows hist_ids] in HI, HB.
    apply Forall_app in HB. destruct HB as [HB1 HB2].
    assert (HS0 : Forall single_ok (e_creates ev)) by (apply (HS ws0 ev); left; reflexivity).
    assert (HSt : singles_ok t) by (intros a b I; apply (HS a b); right; exact I).
    assert (HAt : au = true \/ arg_ids_raw t).
    { destruct HA as [AU|RAW]; [left; exact AU|right]. intros a b I. apply (RAW a b). right. exact I. }
    assert (HFt : ps = true \/ f12_free t).
    { destruct HF as [PS|FR]; [left; exact PS|right]. intros a b I. apply (FR a b). right. exact I. }
    assert (HA0 : au = true \/ Forall (fun r => is_raw (r_id r) = true) (e_arg ev)).
    { destruct HA as [AU|RAW]; [left; exact AU|right; apply (RAW ws0 ev); left; reflexivity]. }
    assert (HXt : explicit_apart t) by (intros a b I; apply (HX a b); right; exact I).
    assert (HPt : c04_sync_prepass = true \/ explicit_free t).
    { destruct HP as [PP|FR]; [left; exact PP|right]. intros a b I. apply (FR a b). right. exact I. }
    assert (HX0 : explicit_above_singletons ev) by (apply (HX ws0 ev); left; reflexivity).
    assert (HP0 : forall g0, c04_sync_prepass = true \/ explicit_below g0 ev).
    { intros g0. destruct HP as [PP|FR]; [left; exact PP|right]. unfold explicit_below.
      eapply Forall_impl; [|exact (FR ws0 ev (or_introl eq_refl))]. cbn. intros r R C. congruence. }
    assert (HPLt : c04_arg_plain_checked = true \/ args_closed t).
    { destruct HPL as [PC|CL]; [left; exact PC|right]. intros a b I. apply (CL a b). right. exact I. }
    assert (HPL0 : c04_arg_plain_checked = true \/ arg_fields_closed ev).
    { destruct HPL as [PC|CL]; [left; exact PC|right; apply (CL ws0 ev); left; reflexivity]. }
    assert (HF0 : ps = true \/ cud_refs_arg_free ev).
    { destruct HF as [PS|FR]; [left; exact PS|right; apply (FR ws0 ev); left; reflexivity]. }
    destruct (step_event_gen au ps (st ws0) ev) as [w' o] eqn:E. cbn [fst snd].
    assert (I0 : inv (N.of_nat (ev_rows ev) + (N.of_nat (hist_rows t) + K)) (st ws0)).
    { eapply inv_weaken; [|apply HI]. lia. }
    assert (B0 : Forall (fun x => x + 1 + N.of_nat (ev_rows ev) + (N.of_nat (hist_rows t) + K) < two64) (ev_ids ev)).
    { eapply Forall_impl; [|exact HB1]. cbn. intros; lia. }
    assert (HI' : forall ws, inv (N.of_nat (hist_rows t) + K) (upd st ws0 w' ws)).
    { intros ws. destruct (N.eq_dec ws ws0) as [->|NE].
      - rewrite upd_same. eapply (step_event_inv au ps _ (st ws0) ev I0 B0 HS0). exact E.
      - rewrite upd_other by exact NE. eapply inv_weaken; [|apply HI]. lia. }
    assert (HU' : forall ws, inv_u (upd st ws0 w' ws)).
    { intros ws. destruct (N.eq_dec ws ws0) as [->|NE].
      - rewrite upd_same. eapply (step_event_inv_u au ps _ (st ws0) ev I0 B0 HS0 (HU ws0) HA0). exact E.
      - rewrite upd_other by exact NE. apply HU. }
    assert (HB' : Forall (fun x => x + 1 + N.of_nat (hist_rows t) + K < two64) (hist_ids t)).
    { eapply Forall_impl; [|exact HB2]. cbn. intros; lia. }
    assert (HQ' : forall ws, logq (upd st ws0 w' ws)).
    { intros ws. destruct (N.eq_dec ws ws0) as [->|NE].
      - rewrite upd_same. exact (step_event_logq au ps _ (st ws0) ev w' o I0 B0 HS0 HX0 (HQ ws0) E).
      - rewrite upd_other by exact NE. apply HQ. }
    specialize (IH K (upd st ws0 w') HI' HU' HB' HSt HAt HFt HXt HPt SG HQ' HPLt).
    destruct o as [|ev' rep]; cbn [out_obs o_ok].
    + (* rejected: nothing stored *)
      assert (W : w' = st ws0).
      { unfold step_event_gen in E. destruct (accepts (st ws0) ev).
        - destruct (regenerate_gen au ps (w_next (st ws0)) ev) as [[a b] c]. discriminate.
        - inversion E. reflexivity. }
      rewrite <- IH. apply satisfies_from_ext. intros k. unfold upd. destruct (k =? ws0) eqn:EK; [|reflexivity].
      apply N.eqb_eq in EK. rewrite W, EK. reflexivity.
    + destruct (step_event_accepts au ps (st ws0) ev _ _ _ E) as (Hv & RG & LOG).
      destruct I0 as (A0 & B00 & C0).
      assert (I0' : inv (N.of_nat (ev_rows ev) + (N.of_nat (hist_rows t) + K)) (st ws0)) by (split; [exact A0|split; assumption]).
      pose proof (step_room (N.of_nat (hist_rows t) + K) (st ws0) ev I0' B0) as RM.
      assert (RM0 : room 0 (w_next (st ws0)) (e_arg ev ++ e_creates ev)).
      { destruct RM as [R1 R2]. split; [lia|]. eapply Forall_impl; [|exact R2]. cbn. intros; lia. }
      pose proof (subst_ok_model au ps _ ev _ ev' rep Hv HS0 A0 RM0 HF0 HPL0 RG) as SO. cbn [out_obs] in SO.
      rewrite (subst_ok_weaken _ _ _ SO). cbn [andb].
      pose proof (new_event_ok_model au ps _ ev _ ev' rep Hv HS0 A0 RM0 HF0 HPL0 RG) as NE. cbn [out_obs] in NE.
      rewrite NE. cbn [andb].
      (* freshness *)
      destruct (regenerate_passes au ps 0 (w_next (st ws0)) ev Hv A0 RM0 _ _ _ RG) as (pa & pc & g1 & repc & P).
      assert (CH : chain (w_next (st ws0)) (map snd rep) (w_next w')).
      { rewrite (ps_rep _ _ _ _ _ _ _ _ _ _ _ _ P), map_app.
        eapply chain_app; [exact (ps_chain_a _ _ _ _ _ _ _ _ _ _ _ _ P)|exact (ps_chain_c _ _ _ _ _ _ _ _ _ _ _ _ P)]. }
      assert (FR : fresh_ok (w_log (st ws0)) (mkObs true rep (e_arg ev') (e_creates ev') (e_updates ev') (e_creates ev')) = true).
      { unfold fresh_ok. cbn [o_newids]. rewrite !andb_true_iff. repeat split.
        - apply forallb_forall. intros x I. pose proof (chain_bounds _ _ _ CH x I). lia.
        - apply nodupb_NoDup. eapply chain_NoDup. exact CH.
        - apply forallb_forall. intros x I. apply negb_true_iff. apply memb_false. intros J.
          pose proof (chain_bounds _ _ _ CH x I) as [L _]. pose proof (HU ws0) as U. unfold inv_u in U.
          rewrite Forall_forall in U. specialize (U x J). lia.
        - apply nodupb_NoDup. cbn [o_creates o_arg].
          exact (stored_ids_distinct_proved au ps _ ev _ ev' rep Hv HS0 A0 RM0 HX0 (HP0 _) RG). }
      rewrite FR. cbn [andb o_creates o_arg].
      assert (AF : assigned_fresh (w_log (st ws0)) (e_arg ev ++ e_creates ev) (e_arg ev' ++ e_creates ev') = true).
      { destruct (substitution_proved au ps _ ev _ ev' rep Hv HS0 A0 RM0 HF0 HPL0 RG) as (m & _ & _ & SA & SC & _ & _ & REP & SING & _).
        rewrite SA, SC, <- map_app. apply assigned_fresh_map. intros r I R J.
        assert (GEN : In (r_id r, m (r_id r)) rep -> False).
        { intros IN. apply (in_map snd) in IN. cbn in IN. pose proof (chain_bounds _ _ _ CH _ IN) as [L _].
          pose proof (HU ws0) as U. unfold inv_u in U. rewrite Forall_forall in U. specialize (U _ J). lia. }
        apply in_app_or in I. destruct I as [I|I]; [apply GEN; apply REP; [left; exact I|exact R]|].
        destruct (N.eq_dec (r_single r) 0) as [Z|NZ]; [apply GEN; apply REP; [right; split; assumption|exact R]|].
        rewrite (SING r I R NZ) in J.
        destruct (step_event_slot au ps (st ws0) ev _ _ _ E) as (SF & _).
        unfold slot_free, slot_free_gen in SF. rewrite SG in SF. rewrite forallb_forall in SF. specialize (SF r I).
        apply N.eqb_neq in NZ. rewrite NZ in SF. cbn in SF. apply negb_true_iff in SF. apply memb_false in SF.
        pose proof (HQ ws0) as Q. unfold logq in Q. rewrite Forall_forall in Q. destruct (Q _ J) as [IR|GT]; [contradiction|].
        rewrite Forall_forall in HS0. apply N.eqb_neq in NZ. destruct (HS0 r I) as [Z|[_ LE]]; [congruence|lia]. }
      rewrite AF. cbn [andb].
      rewrite <- IH. apply satisfies_from_ext. intros k. unfold upd. destruct (k =? ws0) eqn:EK; [|reflexivity].
      rewrite LOG. unfold event_ids. reflexivity.
  - cbn [model_trace_gen satisfies_from step_gen]. cbn [hist_rows hist_ids] in HI, HB.
    assert (HSt : singles_ok t) by (intros a b I; apply (HS a b); right; exact I).
    assert (HAt : au = true \/ arg_ids_raw t).
    { destruct HA as [AU|RAW]; [left; exact AU|right]. intros a b I. apply (RAW a b). right. exact I. }
    assert (HFt : ps = true \/ f12_free t).
    { destruct HF as [PS|FR]; [left; exact PS|right]. intros a b I. apply (FR a b). right. exact I. }
    assert (HI' : forall ws, inv (N.of_nat (hist_rows t) + K) (recover (st ws))) by (intros ws; apply recover_inv; apply HI).
    assert (HU' : forall ws, inv_u (recover (st ws))) by (intros ws; apply (recover_inv _ _ (HI ws))).
    assert (HXt : explicit_apart t) by (intros a b I; apply (HX a b); right; exact I).
    assert (HPt : c04_sync_prepass = true \/ explicit_free t).
    { destruct HP as [PP|FR]; [left; exact PP|right]. intros a b I. apply (FR a b). right. exact I. }
    assert (HQ' : forall ws, logq (recover (st ws))) by (intros ws; exact (HQ ws)).
    assert (HPLt : c04_arg_plain_checked = true \/ args_closed t).
    { destruct HPL as [PC|CL]; [left; exact PC|right]. intros a b I. apply (CL a b). right. exact I. }
    rewrite <- (IH K (fun k => recover (st k)) HI' HU' HB HSt HAt HFt HXt HPt SG HQ' HPLt). apply satisfies_from_ext. intros k. reflexivity.
Qed.

Theorem model_satisfies_proved : forall au ps h,
  bounded h -> singles_ok h -> au = true \/ arg_ids_raw h -> ps = true \/ f12_free h ->
  explicit_apart h -> c04_sync_prepass = true \/ explicit_free h ->
  c04_singleton_slot_guard = true -> c04_arg_plain_checked = true \/ args_closed h ->
  satisfies (model_trace_gen au ps st_init h) = true.
Proof.
  intros au ps h [B1 B2] HS HA HF HX HP SG HPL. unfold satisfies.
  rewrite (satisfies_from_ext _ (fun _ => []) (fun k => w_log (st_init k))) by reflexivity.
  apply (model_satisfies_gen au ps h 0); try assumption.
  - intros ws. apply init_inv. lia.
  - intros ws. apply (init_inv 0). pose proof layout_user_fits. lia.
  - eapply Forall_impl; [|exact B2]. cbn. intros; lia.
  - intros ws. constructor.
Qed.

(* the model agrees with its own trace (sanity of `agrees`: it accepts exactly what the model does) *)
Lemma sort_refl l : list_eqb pair_eqb (sort_pairs l) (sort_pairs l) = true.
Proof. apply list_eqb_refl. exact pair_eqb_refl. Qed.

Definition f12_freeb (h : list iop) : bool :=
  forallb (fun o => match o with IEvent _ ev => arg_freeb ev | IRestart => true end) h.
Lemma f12_freeb_sound h : f12_freeb h = true -> f12_free h.
Proof.
  unfold f12_freeb, f12_free. rewrite forallb_forall. intros H ws ev I. apply arg_freeb_sound. exact (H _ I).
Qed.

Definition explicit_apartb (h : list iop) : bool :=
  forallb (fun o => match o with
                    | IEvent _ ev => forallb (fun r => is_raw (r_id r) || (c04_max_singleton_id <? r_id r)) (e_arg ev ++ e_creates ev)
                    | IRestart => true end) h.
Lemma explicit_apartb_sound h : explicit_apartb h = true -> explicit_apart h.
Proof.
  unfold explicit_apartb, explicit_apart, explicit_above_singletons. rewrite forallb_forall. intros H ws ev I.
  specialize (H _ I). cbn in H. apply forallb_Forall in H. eapply Forall_impl; [|exact H]. cbn. intros r A R. lia.
Qed.

(* ====================================================================================== *)
(* no two rows in a workspace's log share a storage ID                                     *)
(* ====================================================================================== *)
(* what the system cannot enforce by itself when an event arrives: a sync client must not send an explicit ID the
   workspace already stored (F45: nothing checks it before the log is written), and a singleton is created once *)
Definition event_fresh (w : wstate) (ev : event) : Prop :=
  Forall (fun r => is_raw (r_id r) = false -> ~ In (r_id r) (w_log w)) (e_arg ev ++ e_creates ev)
  /\ Forall (fun r => r_single r <> 0 -> ~ In (r_single r) (w_log w)) (e_creates ev).

Fixpoint hist_fresh (au ps : bool) (st : state) (h : list iop) : Prop :=
  match h with
  | [] => True
  | IRestart :: t => hist_fresh au ps (step_gen au ps st IRestart) t
  | IEvent ws ev :: t =>
      (valid ev = true -> event_fresh (st ws) ev)
      /\ hist_fresh au ps (upd st ws (fst (step_event_gen au ps (st ws) ev))) t
  end.

Lemma NoDup_app_intro {T} (a b : list T) :
  NoDup a -> NoDup b -> (forall x, In x b -> ~ In x a) -> NoDup (a ++ b).
Proof.
  intros Ha Hb D. induction Ha as [|x a NI ND IH]; cbn; [exact Hb|]. constructor.
  - intros I. apply in_app_or in I. destruct I as [I|I]; [contradiction|]. apply (D x I). left. reflexivity.
  - apply IH. intros y Iy J. apply (D y Iy). right. exact J.
Qed.

Lemma run_log_nodup au ps : forall h K st,
  (forall ws, inv (N.of_nat (hist_rows h) + K) (st ws)) -> (forall ws, inv_u (st ws)) ->
  (forall ws, NoDup (w_log (st ws))) ->
  Forall (fun x => x + 1 + N.of_nat (hist_rows h) + K < two64) (hist_ids h) ->
  singles_ok h -> au = true -> c04_sync_prepass = true -> explicit_apart h ->
  hist_fresh au ps st h ->
  forall ws, NoDup (w_log (run_gen au ps st h ws)).
Proof.
  induction h as [|[ws0 ev|] t IH]; intros K st HI HU HN HB HS AU PP HX HFr; [exact HN| |].
  - cbn [run_gen fold_left step_gen]. cbn [hist_rows hist_ids] in HI, HB. cbn [hist_fresh] in HFr. destruct HFr as [HF0 HFt].
    apply Forall_app in HB. destruct HB as [HB1 HB2].
    assert (HS0 : Forall single_ok (e_creates ev)) by (apply (HS ws0 ev); left; reflexivity).
    assert (HSt : singles_ok t) by (intros a b I; apply (HS a b); right; exact I).
    assert (HXt : explicit_apart t) by (intros a b I; apply (HX a b); right; exact I).
    assert (HX0 : explicit_above_singletons ev) by (apply (HX ws0 ev); left; reflexivity).
    destruct (step_event_gen au ps (st ws0) ev) as [w' o] eqn:E. cbn [fst] in *.
    assert (I0 : inv (N.of_nat (ev_rows ev) + (N.of_nat (hist_rows t) + K)) (st ws0)).
    { eapply inv_weaken; [|apply HI]. lia. }
    assert (B0 : Forall (fun x => x + 1 + N.of_nat (ev_rows ev) + (N.of_nat (hist_rows t) + K) < two64) (ev_ids ev)).
    { eapply Forall_impl; [|exact HB1]. cbn. intros; lia. }
    assert (HI' : forall ws, inv (N.of_nat (hist_rows t) + K) (upd st ws0 w' ws)).
    { intros ws. destruct (N.eq_dec ws ws0) as [->|NE].
      - rewrite upd_same. eapply (step_event_inv au ps _ (st ws0) ev I0 B0 HS0). exact E.
      - rewrite upd_other by exact NE. eapply inv_weaken; [|apply HI]. lia. }
    assert (HU' : forall ws, inv_u (upd st ws0 w' ws)).
    { intros ws. destruct (N.eq_dec ws ws0) as [->|NE].
      - rewrite upd_same. eapply (step_event_inv_u au ps _ (st ws0) ev I0 B0 HS0 (HU ws0) (or_introl AU)). exact E.
      - rewrite upd_other by exact NE. apply HU. }
    assert (HB' : Forall (fun x => x + 1 + N.of_nat (hist_rows t) + K < two64) (hist_ids t)).
    { eapply Forall_impl; [|exact HB2]. cbn. intros; lia. }
    apply (IH K (upd st ws0 w') HI' HU'); try assumption.
    intros ws. destruct (N.eq_dec ws ws0) as [->|NE]; [rewrite upd_same|rewrite upd_other by exact NE; apply HN].
    destruct o as [|ev' rep].
    + assert (W : w' = st ws0).
      { unfold step_event_gen in E. destruct (accepts (st ws0) ev).
        - destruct (regenerate_gen au ps (w_next (st ws0)) ev) as [[a b] c]. discriminate.
        - inversion E. reflexivity. }
      rewrite W. apply HN.
    + destruct (step_event_accepts au ps (st ws0) ev _ _ _ E) as (Hv & RG & LOG).
      destruct (HF0 Hv) as [FE FS]. rewrite Forall_forall in FE, FS.
      pose proof I0 as (A0 & _ & _).
      pose proof (step_room (N.of_nat (hist_rows t) + K) (st ws0) ev I0 B0) as RM.
      assert (RM0 : room 0 (w_next (st ws0)) (e_arg ev ++ e_creates ev)).
      { destruct RM as [R1 R2]. split; [lia|]. eapply Forall_impl; [|exact R2]. cbn. intros; lia. }
      rewrite LOG. apply NoDup_app_intro; [apply HN| |].
      * exact (stored_ids_distinct_proved au ps _ ev _ ev' rep Hv HS0 A0 RM0 HX0 (or_introl PP) RG).
      * intros x I J.
        destruct (regenerate_passes au ps 0 (w_next (st ws0)) ev Hv A0 RM0 _ _ _ RG) as (pa & pc & g1 & repc & P).
        destruct (event_id_cases au ps 0 (w_next (st ws0)) ev Hv HS0 A0 _ _ _ _ _ _ _ P x I) as [[L U]|[[r [IR [E1 NR]]]|[r [IR [E1 NZ]]]]].
        -- pose proof (HU ws0) as UU. unfold inv_u in UU. rewrite Forall_forall in UU. specialize (UU x J). lia.
        -- apply (FE r IR); [rewrite E1; exact NR|rewrite E1; exact J].
        -- apply (FS r IR); [rewrite E1; exact NZ|rewrite E1; exact J].
  - cbn [run_gen fold_left step_gen]. cbn [hist_rows hist_ids] in HI, HB. cbn [hist_fresh step_gen] in HFr.
    assert (HSt : singles_ok t) by (intros a b I; apply (HS a b); right; exact I).
    assert (HXt : explicit_apart t) by (intros a b I; apply (HX a b); right; exact I).
    apply (IH K (fun k => recover (st k))); try assumption;
      try (intros ws; apply recover_inv; apply HI); try (intros ws; apply (recover_inv _ _ (HI ws))); try (intros ws; cbn; apply HN).
Qed.

Theorem log_ids_distinct_proved : forall au ps h,
  bounded h -> singles_ok h -> au = true -> c04_sync_prepass = true -> explicit_apart h ->
  hist_fresh au ps st_init h ->
  forall ws, NoDup (w_log (run_gen au ps st_init h ws)).
Proof.
  intros au ps h [B1 B2] HS AU PP HX HF.
  apply (run_log_nodup au ps h 0); try assumption.
  - intros ws. apply init_inv. lia.
  - intros ws. apply (init_inv 0). pose proof layout_user_fits. lia.
  - intros ws. constructor.
  - eapply Forall_impl; [|exact B2]. cbn. intros; lia.
Qed.

Definition event_freshb (w : wstate) (ev : event) : bool :=
  forallb (fun r => is_raw (r_id r) || negb (memb (r_id r) (w_log w))) (e_arg ev ++ e_creates ev)
  && forallb (fun r => (r_single r =? 0) || negb (memb (r_single r) (w_log w))) (e_creates ev).
Fixpoint hist_freshb (au ps : bool) (st : state) (h : list iop) : bool :=
  match h with
  | [] => true
  | IRestart :: t => hist_freshb au ps (step_gen au ps st IRestart) t
  | IEvent ws ev :: t =>
      (negb (valid ev) || event_freshb (st ws) ev)
      && hist_freshb au ps (upd st ws (fst (step_event_gen au ps (st ws) ev))) t
  end.

Lemma event_freshb_sound w ev : event_freshb w ev = true -> event_fresh w ev.
Proof.
  unfold event_freshb, event_fresh. rewrite andb_true_iff. intros [A B]. split.
  - apply forallb_Forall in A. eapply Forall_impl; [|exact A]. cbn. intros r H R J.
    rewrite R in H. cbn in H. apply negb_true_iff in H. apply memb_false in H. contradiction.
  - apply forallb_Forall in B. eapply Forall_impl; [|exact B]. cbn. intros r H NZ J.
    apply N.eqb_neq in NZ. rewrite NZ in H. cbn in H. apply negb_true_iff in H. apply memb_false in H. contradiction.
Qed.

Lemma hist_freshb_sound au ps : forall h st, hist_freshb au ps st h = true -> hist_fresh au ps st h.
Proof.
  induction h as [|[ws ev|] t IH]; intros st H; cbn in *; [exact I| |apply IH; exact H].
  apply andb_true_iff in H. destruct H as [A B]. split; [|apply IH; exact B].
  intros V. rewrite V in A. cbn in A. apply event_freshb_sound. exact A.
Qed.

(* ====================================================================================== *)
(* `bounded` from validation (F44 repaired: explicit IDs above MaxRecordID are refused)    *)
(* ====================================================================================== *)
(* refused events leave every state untouched, so a history may be replaced by its valid events; those carry
   explicit IDs <= c04_max_record_id only, and what is left of `bounded` is a bound on the number of rows *)
Fixpoint valid_only (h : list iop) : list iop :=
  match h with
  | [] => []
  | IRestart :: t => IRestart :: valid_only t
  | IEvent ws ev :: t => if valid ev then IEvent ws ev :: valid_only t else valid_only t
  end.

(* fewer rows than the generator has room above MaxRecordID (2^63 with MaxRecordID = MaxInt64) *)
Definition few_rows (h : list iop) : Prop := c04_max_record_id + 1 + N.of_nat (hist_rows h) < two64.

Lemma layout_user_below_max : c04_first_user_id <= c04_max_record_id.
Proof. vm_compute. discriminate. Qed.

Definition st_eq (a b : state) : Prop := forall k, a k = b k.

Lemma step_gen_ext au ps a b o : st_eq a b -> st_eq (step_gen au ps a o) (step_gen au ps b o).
Proof.
  intros E k. destruct o as [ws ev|]; cbn.
  - unfold upd. destruct (k =? ws); [rewrite (E ws); reflexivity|apply E].
  - rewrite (E k). reflexivity.
Qed.

Lemma run_gen_ext au ps : forall h a b, st_eq a b -> st_eq (run_gen au ps a h) (run_gen au ps b h).
Proof.
  induction h as [|o t IH]; intros a b E; [exact E|]. cbn [run_gen fold_left].
  apply (IH _ _ (step_gen_ext au ps a b o E)).
Qed.

Lemma run_valid_only au ps : forall h st, st_eq (run_gen au ps st h) (run_gen au ps st (valid_only h)).
Proof.
  induction h as [|[ws ev|] t IH]; intros st; [intros k; reflexivity| |].
  - cbn [valid_only]. destruct (valid ev) eqn:V.
    + cbn [run_gen fold_left]. apply IH.
    + cbn [run_gen fold_left]. intros k. rewrite <- (IH st k). apply run_gen_ext.
      intros j. cbn [step_gen]. unfold step_event_gen, accepts. rewrite V. cbn [andb fst]. unfold upd.
      destruct (N.eqb_spec j ws) as [->|NE]; reflexivity.
  - cbn [valid_only run_gen fold_left]. apply IH.
Qed.

Lemma valid_only_app h1 h2 : valid_only (h1 ++ h2) = valid_only h1 ++ valid_only h2.
Proof.
  induction h1 as [|[ws ev|] t IH]; cbn; [reflexivity| |rewrite IH; reflexivity].
  destruct (valid ev); cbn; rewrite IH; reflexivity.
Qed.

Lemma valid_only_rows h : (hist_rows (valid_only h) <= hist_rows h)%nat.
Proof. induction h as [|[ws ev|] t IH]; cbn; [lia| |exact IH]. destruct (valid ev); cbn; lia. Qed.

Lemma valid_only_in h o : In o (valid_only h) -> In o h.
Proof.
  induction h as [|[ws ev|] t IH]; cbn; [auto| |intros [E|I]; [left; exact E|right; apply IH; exact I]].
  destruct (valid ev); cbn; [intros [E|I]; [left; exact E|right; apply IH; exact I]|intros I; right; apply IH; exact I].
Qed.

Lemma valid_only_ids h : Forall (fun x => x <= c04_max_record_id) (hist_ids (valid_only h)).
Proof.
  induction h as [|[ws ev|] t IH]; cbn; [constructor| |exact IH].
  destruct (valid ev) eqn:V; [|exact IH]. cbn [hist_ids]. apply Forall_app. split; [|exact IH].
  pose proof (vf_bound _ (valid_spec ev V)) as B. unfold ev_ids, ids. rewrite Forall_map. exact B.
Qed.

Lemma bounded_valid_only h : few_rows h -> bounded (valid_only h).
Proof.
  unfold few_rows, bounded. intros F. pose proof (valid_only_rows h). pose proof layout_user_below_max. split; [lia|].
  eapply Forall_impl; [|apply valid_only_ids]. cbn. intros x Hx. lia.
Qed.

Lemma singles_ok_valid_only h : singles_ok h -> singles_ok (valid_only h).
Proof. intros S ws ev I. apply (S ws ev). apply valid_only_in. exact I. Qed.

(* the state before an accepted event, seen through the valid events only *)
Lemma accepted_through_valid_only au ps h ws ev w' ev' rep :
  few_rows (h ++ [IEvent ws ev]) -> singles_ok (h ++ [IEvent ws ev]) ->
  step_event_gen au ps (run_gen au ps st_init h ws) ev = (w', Accepted ev' rep) ->
  bounded (valid_only h ++ [IEvent ws ev]) /\ singles_ok (valid_only h ++ [IEvent ws ev])
  /\ run_gen au ps st_init h ws = run_gen au ps st_init (valid_only h) ws.
Proof.
  intros F S E. destruct (step_event_accepts au ps _ ev _ _ _ E) as (V & _ & _).
  assert (EQ : valid_only (h ++ [IEvent ws ev]) = valid_only h ++ [IEvent ws ev]).
  { rewrite valid_only_app. cbn. rewrite V. reflexivity. }
  rewrite <- EQ. split; [apply bounded_valid_only; exact F|]. split; [apply singles_ok_valid_only; exact S|].
  apply run_valid_only.
Qed.

Theorem generated_ids_few_proved : forall au ps h ws ev w' ev' rep,
  few_rows (h ++ [IEvent ws ev]) -> singles_ok (h ++ [IEvent ws ev]) ->
  step_event_gen au ps (run_gen au ps st_init h ws) ev = (w', Accepted ev' rep) ->
  chain (w_next (run_gen au ps st_init h ws)) (map snd rep) (w_next w')
  /\ c04_first_user_id <= w_next (run_gen au ps st_init h ws) /\ w_next w' < two64.
Proof.
  intros au ps h ws ev w' ev' rep F S E.
  destruct (accepted_through_valid_only au ps h ws ev w' ev' rep F S E) as (B & S' & EQ).
  rewrite EQ in *. exact (generated_ids_proved au ps _ ws ev w' ev' rep B S' E).
Qed.

Theorem unique_few_proved : forall au ps h ws ev w' ev' rep,
  few_rows (h ++ [IEvent ws ev]) -> singles_ok (h ++ [IEvent ws ev]) -> au = true ->
  step_event_gen au ps (run_gen au ps st_init h ws) ev = (w', Accepted ev' rep) ->
  NoDup (map snd rep)
  /\ (forall x, In x (map snd rep) -> ~ In x (w_log (run_gen au ps st_init h ws)))
  /\ w_log w' = w_log (run_gen au ps st_init h ws) ++ event_ids ev'.
Proof.
  intros au ps h ws ev w' ev' rep F S AU E.
  destruct (accepted_through_valid_only au ps h ws ev w' ev' rep F S E) as (B & S' & EQ).
  rewrite EQ in *. exact (unique_proved au ps _ ws ev w' ev' rep B S' (or_introl AU) E).
Qed.

Theorem stored_ids_distinct_few_proved : forall au ps h ws ev w' ev' rep,
  few_rows (h ++ [IEvent ws ev]) -> singles_ok (h ++ [IEvent ws ev]) ->
  explicit_above_singletons ev -> c04_sync_prepass = true ->
  step_event_gen au ps (run_gen au ps st_init h ws) ev = (w', Accepted ev' rep) ->
  NoDup (event_ids ev').
Proof.
  intros au ps h ws ev w' ev' rep F S HX PP E.
  destruct (accepted_through_valid_only au ps h ws ev w' ev' rep F S E) as (B & S' & EQ).
  rewrite EQ in *. exact (stored_ids_distinct_hist_proved au ps _ ws ev w' ev' rep B S' HX (or_introl PP) E).
Qed.

Theorem recovery_dominates_few_proved : forall au ps h ws,
  few_rows h -> singles_ok h ->
  let w := run_gen au ps st_init (h ++ [IRestart]) ws in
  Forall (fun x => x < w_next w) (w_log w) /\ c04_first_user_id <= w_next w.
Proof.
  intros au ps h ws F S. cbn zeta.
  assert (EQ : run_gen au ps st_init (h ++ [IRestart]) ws = run_gen au ps st_init (valid_only h ++ [IRestart]) ws).
  { rewrite (run_valid_only au ps (h ++ [IRestart]) st_init ws), valid_only_app. reflexivity. }
  rewrite EQ. exact (recovery_dominates_proved au ps (valid_only h) ws (bounded_valid_only h F) (singles_ok_valid_only h S)).
Qed.

Definition few_rowsb (h : list iop) : bool := c04_max_record_id + 1 + N.of_nat (hist_rows h) <? two64.
Lemma few_rowsb_sound h : few_rowsb h = true -> few_rows h.
Proof. unfold few_rowsb, few_rows. lia. Qed.

(* the slot guard of validEvent: an accepted event never creates a singleton whose ID a created record already holds *)
Theorem singleton_slot_proved : forall au ps w ev w' ev' rep,
  c04_singleton_slot_guard = true ->
  step_event_gen au ps w ev = (w', Accepted ev' rep) ->
  forall r, In r (e_creates ev) -> r_single r <> 0 -> ~ In (r_single r) (w_recs w).
Proof.
  intros au ps w ev w' ev' rep SG E r I NZ J. destruct (step_event_slot au ps w ev _ _ _ E) as (SF & _).
  unfold slot_free, slot_free_gen in SF. rewrite SG in SF. rewrite forallb_forall in SF. specialize (SF r I).
  apply N.eqb_neq in NZ. rewrite NZ in SF. cbn in SF. apply negb_true_iff in SF. apply memb_false in SF. contradiction.
Qed.

Definition arg_fields_closedb (ev : event) : bool :=
  forallb (fun r => forallb (known_or_not_raw (ids (e_arg ev))) (r_refs r)) (e_arg ev).
Lemma arg_fields_closedb_sound ev : arg_fields_closedb ev = true -> arg_fields_closed ev.
Proof.
  unfold arg_fields_closedb, arg_fields_closed. intros H. apply forallb_Forall in H. eapply Forall_impl; [|exact H].
  cbn. intros r Hr. apply forallb_Forall in Hr. eapply Forall_impl; [|exact Hr]. cbn. intros v Hv. apply known_or_not_raw_spec. exact Hv.
Qed.
Definition args_closedb (h : list iop) : bool :=
  forallb (fun o => match o with IEvent _ ev => arg_fields_closedb ev | IRestart => true end) h.
Lemma args_closedb_sound h : args_closedb h = true -> args_closed h.
Proof.
  unfold args_closedb, args_closed. rewrite forallb_forall. intros H ws ev I. apply arg_fields_closedb_sound. exact (H _ I).
Qed.

(* ---------- the APIv2 reply encoding ---------- *)
Lemma agrees_event_ext (f g : N -> N) st ws ev o :
  (forall x, f x = g x) -> agrees_event f st ws ev o = agrees_event g st ws ev o.
Proof.
  intros E. unfold agrees_event. destruct (step_event (st ws) ev) as [w' [|ev' rep]]; [reflexivity|].
  assert (M : forall l : list (N * N), map (fun p => (fst p, f (snd p))) l = map (fun p => (fst p, g (snd p))) l).
  { intros l. apply map_ext. intros p. rewrite E. reflexivity. }
  rewrite !M. reflexivity.
Qed.
