(* C04 - proofs about the record-ID model (part 1: generator, plans, the two assignment passes). *)
From Coq Require Import List NArith Lia Bool ZifyNat ZifyN ZifyBool.
From V Require Import Lib.Check Gen.Params C04_RecordIDs.Model.
Import ListNotations.
Local Open Scope N_scope.

(* ---------- the ID range layout (re-opened when a constant changes) ---------- *)
Lemma layout_raw_positive : 0 < c04_min_raw_id.
Proof. reflexivity. Qed.
Lemma layout_raw_below_user : c04_max_raw_id < c04_first_user_id.
Proof. reflexivity. Qed.
Lemma layout_reserved_below_user : c04_max_reserved_id < c04_first_user_id.
Proof. reflexivity. Qed.
Lemma layout_singletons_reserved : c04_max_raw_id < c04_max_singleton_id /\ c04_max_singleton_id < c04_first_user_id.
Proof. split; reflexivity. Qed.
Lemma layout_user_fits : c04_first_user_id < two64.
Proof. reflexivity. Qed.

Lemma is_raw_0 : is_raw 0 = false.
Proof. unfold is_raw. pose proof layout_raw_positive. lia. Qed.

Lemma user_not_raw x : c04_first_user_id <= x -> is_raw x = false.
Proof. unfold is_raw. pose proof layout_raw_below_user. lia. Qed.

Lemma user_not_reserved x : c04_first_user_id <= x -> is_reserved x = false.
Proof. unfold is_reserved. pose proof layout_reserved_below_user. lia. Qed.

Lemma user_not_null x : c04_first_user_id <= x -> x <> 0.
Proof. pose proof layout_raw_positive. pose proof layout_raw_below_user. lia. Qed.

Lemma u64_small x : x < two64 -> u64 x = x.
Proof. intros H. unfold u64. apply N.mod_small. exact H. Qed.

Lemma two64_pos : 0 < two64.
Proof. reflexivity. Qed.

(* UpdateOnSync reacts to every syncID whose successor fits in uint64: recovery can always follow the live generator,
   whatever IDs it handed out (re-opened when the guard of UpdateOnSync is tightened) *)
Lemma layout_update_on_sync_limit : two64 - 2 <= c04_update_on_sync_limit.
Proof. vm_compute. discriminate. Qed.

Lemma update_on_sync_spec g id : id + 1 < two64 -> update_on_sync g id = if g <=? id then id + 1 else g.
Proof.
  intros H. unfold update_on_sync, update_on_sync_gen. pose proof layout_update_on_sync_limit as L.
  assert (TW : two64 = 18446744073709551616) by reflexivity.
  assert (E : (id <=? c04_update_on_sync_limit) = true) by lia. rewrite E, andb_true_r.
  destruct (g <=? id); [apply u64_small; exact H|reflexivity].
Qed.

(* ---------- membership helpers ---------- *)
Lemma memb_In x l : memb x l = true <-> In x l.
Proof.
  unfold memb. rewrite existsb_exists. split.
  - intros [y [Hy E]]. apply N.eqb_eq in E. subst. exact Hy.
  - intros H. exists x. split; [exact H | apply N.eqb_refl].
Qed.

Lemma memb_false x l : memb x l = false <-> ~ In x l.
Proof. rewrite <- memb_In. destruct (memb x l); split; congruence. Qed.

Lemma nodupb_NoDup l : nodupb l = true <-> NoDup l.
Proof.
  induction l as [|x l IH]; cbn.
  - split; [constructor | reflexivity].
  - rewrite andb_true_iff, negb_true_iff, memb_false, IH. split.
    + intros [A B]. constructor; assumption.
    + intros H. inversion H; subst. split; assumption.
Qed.

(* ---------- plans ---------- *)
Lemma plan_get_none p k : plan_get p k = None <-> ~ In k (map fst p).
Proof.
  induction p as [|[a b] t IH]; cbn.
  - split; [intros _ [] | reflexivity].
  - destruct (plan_get t k) eqn:E.
    + split; [discriminate|]. intros H. exfalso. apply H. right.
      destruct (in_dec N.eq_dec k (map fst t)) as [I|NI]; [exact I|]. apply IH in NI. discriminate.
    + destruct (N.eqb_spec a k) as [->|NE].
      * split; [discriminate|]. intros H. exfalso. apply H. left. reflexivity.
      * split; [|reflexivity]. intros _ [H|H]; [congruence|]. apply IH in H; [exact H|reflexivity].
Qed.

Lemma plan_get_some_in p k x : plan_get p k = Some x -> In (k, x) p.
Proof.
  induction p as [|[a b] t IH]; cbn; [discriminate|].
  destruct (plan_get t k) eqn:E.
  - intros H. inversion H; subst. right. apply IH. reflexivity.
  - destruct (N.eqb_spec a k) as [->|NE]; [|discriminate]. intros H. inversion H; subst. left. reflexivity.
Qed.

Lemma plan_get_cons_other a b t k : a <> k -> plan_get ((a, b) :: t) k = plan_get t k.
Proof. intros NE. cbn. destruct (plan_get t k); [reflexivity|]. destruct (N.eqb_spec a k); congruence. Qed.

Lemma plan_get_cons_fresh k b t : ~ In k (map fst t) -> plan_get ((k, b) :: t) k = Some b.
Proof. intros NI. cbn. apply plan_get_none in NI. rewrite NI, N.eqb_refl. reflexivity. Qed.

Lemma plan_get_app p1 p2 k :
  plan_get (p1 ++ p2) k = match plan_get p2 k with Some x => Some x | None => plan_get p1 k end.
Proof.
  induction p1 as [|[a b] t IH]; cbn.
  - destruct (plan_get p2 k); reflexivity.
  - rewrite IH. destruct (plan_get p2 k); [reflexivity|]. reflexivity.
Qed.

Lemma plan_get_some_key p k x : plan_get p k = Some x -> In k (map fst p).
Proof. intros H. apply plan_get_some_in in H. apply (in_map fst) in H. exact H. Qed.

(* ---------- chains: strictly increasing lists inside [lo, hi) ---------- *)
Fixpoint chain (lo : N) (l : list N) (hi : N) : Prop :=
  match l with
  | [] => lo <= hi
  | x :: t => lo <= x /\ chain (x + 1) t hi
  end.

Lemma chain_le lo l hi : chain lo l hi -> lo <= hi.
Proof. revert lo; induction l as [|x t IH]; cbn; intros lo H; [exact H|]. destruct H as [A B]. apply IH in B. lia. Qed.

Lemma chain_weaken lo lo' l hi : lo' <= lo -> chain lo l hi -> chain lo' l hi.
Proof. destruct l; cbn; intros L H; [lia|]. destruct H; split; [lia|assumption]. Qed.

Lemma chain_widen lo l hi hi' : hi <= hi' -> chain lo l hi -> chain lo l hi'.
Proof. revert lo; induction l as [|x t IH]; cbn; intros lo L H; [lia|]. destruct H; split; [assumption|]. eapply IH; eassumption. Qed.

Lemma chain_bounds lo l hi : chain lo l hi -> forall x, In x l -> lo <= x /\ x < hi.
Proof.
  revert lo; induction l as [|y t IH]; cbn; intros lo H x I; [contradiction|].
  destruct H as [A B]. destruct I as [->|I].
  - apply chain_le in B. lia.
  - specialize (IH _ B x I). lia.
Qed.

Lemma chain_NoDup lo l hi : chain lo l hi -> NoDup l.
Proof.
  revert lo; induction l as [|y t IH]; cbn; intros lo H; [constructor|].
  destruct H as [A B]. constructor; [|eapply IH; eassumption].
  intros I. pose proof (chain_bounds _ _ _ B y I). lia.
Qed.

Lemma chain_app lo l1 mid l2 hi : chain lo l1 mid -> chain mid l2 hi -> chain lo (l1 ++ l2) hi.
Proof.
  revert lo; induction l1 as [|y t IH]; cbn; intros lo H1 H2.
  - eapply chain_weaken; eassumption.
  - destruct H1 as [A B]. split; [assumption|]. apply IH; assumption.
Qed.

(* ---------- room: no uint64 wrap-around while the rows are processed ---------- *)
(* K = slack kept for whatever is processed afterwards *)
Definition room (K g : N) (rows : list row) : Prop :=
  g + N.of_nat (length rows) + K < two64 /\ Forall (fun r => r_id r + 1 + N.of_nat (length rows) + K < two64) rows.

Lemma room_tail_next K g r t : room K g (r :: t) -> room K (u64 (g + 1)) t.
Proof.
  intros [A B]. cbn [length] in *. rewrite u64_small by lia. split; [lia|].
  inversion B; subst. eapply Forall_impl; [|eassumption]. cbn. intros a Ha. lia.
Qed.

Lemma room_tail_same K g r t : room K g (r :: t) -> room K g t.
Proof.
  intros [A B]. cbn [length] in *. split; [lia|].
  inversion B; subst. eapply Forall_impl; [|eassumption]. cbn. intros a Ha. lia.
Qed.

Lemma room_tail_sync K g r t : room K g (r :: t) -> room K (update_on_sync g (r_id r)) t.
Proof.
  intros H. pose proof (room_tail_same _ _ _ _ H) as [A B]. split; [|exact B].
  destruct H as [_ F]. inversion F; subst. cbn [length] in *. rewrite update_on_sync_spec by lia.
  destruct (g <=? r_id r); [lia | exact A].
Qed.

Lemma update_on_sync_ge g id : id + 1 < two64 -> g <= update_on_sync g id /\ id < update_on_sync g id.
Proof. intros H. rewrite update_on_sync_spec by exact H. destruct (N.leb_spec g id); lia. Qed.

Lemma room_app K g l1 l2 : room K g (l1 ++ l2) -> room (N.of_nat (length l2) + K) g l1.
Proof.
  intros [A B]. rewrite app_length in *. split; [lia|]. apply Forall_app in B. destruct B as [B _].
  eapply Forall_impl; [|exact B]. cbn. intros a Ha. lia.
Qed.

Lemma room_app_r K g l1 l2 : room K g (l1 ++ l2) -> Forall (fun r => r_id r + 1 + N.of_nat (length l2) + K < two64) l2.
Proof.
  intros [A B]. rewrite app_length in *. apply Forall_app in B. destruct B as [_ B].
  eapply Forall_impl; [|exact B]. cbn. intros a Ha. lia.
Qed.

(* ---------- the pre-pass over explicit IDs (repair of F43) ---------- *)
Lemma presync_spec pp L : forall rows g,
  Forall (fun r => r_id r + 1 + L < two64) rows -> g + L < two64 ->
  g <= presync_gen pp g rows /\ presync_gen pp g rows + L < two64
  /\ (pp = true -> Forall (fun r => is_raw (r_id r) = false -> r_id r <> 0 -> r_id r < presync_gen pp g rows) rows).
Proof.
  unfold presync_gen. destruct pp; [|intros rows g _ H; split; [lia|split; [exact H|discriminate]]].
  induction rows as [|r t IH]; intros g F H; cbn [fold_left].
  - split; [lia|]. split; [exact H|]. intros _. constructor.
  - inversion F as [|? ? Fr Ft]; subst.
    set (g' := if is_raw (r_id r) || (r_id r =? 0) then g else update_on_sync g (r_id r)).
    assert (G : g <= g' /\ g' + L < two64 /\ (is_raw (r_id r) = false -> r_id r <> 0 -> r_id r < g')).
    { unfold g'. destruct (is_raw (r_id r)) eqn:R; cbn [orb]; [split; [lia|split; [exact H|discriminate]]|].
      destruct (N.eqb_spec (r_id r) 0) as [Z|NZ]; [split; [lia|split; [exact H|congruence]]|].
      assert (I1 : r_id r + 1 < two64) by lia. destruct (update_on_sync_ge g (r_id r) I1) as [U1 U2].
      split; [exact U1|]. split; [|intros _ _; exact U2].
      rewrite update_on_sync_spec by exact I1. destruct (g <=? r_id r); lia. }
    destruct G as (G1 & G2 & G3). destruct (IH g' Ft G2) as (A & B & C).
    split; [lia|]. split; [exact B|]. intros _. constructor; [|exact (C eq_refl)].
    intros R NZ. specialize (G3 R NZ). lia.
Qed.

Lemma presync_room K g rows : room K g rows -> room K (presync g rows) rows.
Proof.
  intros [A B]. destruct (presync_spec c04_sync_prepass (N.of_nat (length rows) + K) rows g) as (_ & C & _).
  - eapply Forall_impl; [|exact B]. cbn. intros; lia.
  - lia.
  - split; [unfold presync; lia|exact B].
Qed.

(* ---------- first pass over the argument tree ---------- *)
Definition raw_ids (rows : list row) : list N := filter is_raw (ids rows).

Lemma raw_ids_cons_raw r t : is_raw (r_id r) = true -> raw_ids (r :: t) = r_id r :: raw_ids t.
Proof. intros H. unfold raw_ids. cbn. rewrite H. reflexivity. Qed.
Lemma raw_ids_cons_other r t : is_raw (r_id r) = false -> raw_ids (r :: t) = raw_ids t.
Proof. intros H. unfold raw_ids. cbn. rewrite H. reflexivity. Qed.

Definition assigned (p : plan) (r : row) : row := set_id r (sub_cud p (r_id r)).

Lemma sub_cud_not_raw p v : is_raw v = false -> sub_cud p v = v.
Proof. intros H. unfold sub_cud. rewrite H. reflexivity. Qed.
Lemma sub_arg_not_raw p v : is_raw v = false -> sub_arg p v = v.
Proof. intros H. unfold sub_arg. rewrite H. reflexivity. Qed.

Lemma assigned_cons_other a b p r : r_id r <> a -> assigned ((a, b) :: p) r = assigned p r.
Proof.
  intros NE. unfold assigned, sub_cud. destruct (is_raw (r_id r)); [|reflexivity].
  rewrite plan_get_cons_other by congruence. reflexivity.
Qed.

Lemma map_assigned_cons a b p rows : ~ In a (ids rows) -> map (assigned ((a, b) :: p)) rows = map (assigned p) rows.
Proof.
  intros NI. apply map_ext_in. intros r Hr. apply assigned_cons_other. intros E. apply NI. rewrite <- E.
  unfold ids. apply in_map. exact Hr.
Qed.

Lemma arg_assign_spec au K : forall rows g g' rows' p,
  arg_assign au g rows = (g', rows', p) ->
  room K g rows -> NoDup (raw_ids rows) ->
  g' + K < two64
  /\ map fst p = raw_ids rows
  /\ chain g (map snd p) g'
  /\ rows' = map (assigned p) rows
  /\ (au = true -> Forall (fun r => is_raw (r_id r) = false -> r_id r < g') rows).
Proof.
  induction rows as [|r t IH]; intros g g' rows' p E R ND.
  - cbn in E. inversion E; subst. destruct R as [A _]. cbn in *. repeat split; try lia; auto.
  - cbn [arg_assign] in E. destruct (is_raw (r_id r)) eqn:Raw.
    + destruct (arg_assign au (u64 (g + 1)) t) as [[g1 t1] p1] eqn:E1. inversion E; subst; clear E.
      rewrite raw_ids_cons_raw in ND by exact Raw. inversion ND as [|? ? NI ND']; subst.
      pose proof (room_tail_next _ _ _ _ R) as R'.
      destruct (IH _ _ _ _ E1 R' ND') as (B & KEYS & CH & ROWS & EXPL).
      assert (G1 : u64 (g + 1) = g + 1). { destruct R as [A _]. cbn [length] in A. apply u64_small. lia. }
      rewrite G1 in CH.
      assert (FRESH : ~ In (r_id r) (map fst p1)) by (rewrite KEYS; exact NI).
      split; [exact B|]. split; [rewrite raw_ids_cons_raw by exact Raw; cbn [map fst]; rewrite KEYS; reflexivity|].
      split; [cbn; split; [lia|exact CH]|]. split.
      * cbn [map]. f_equal.
        -- unfold assigned, sub_cud. rewrite Raw, plan_get_cons_fresh by exact FRESH. reflexivity.
        -- rewrite ROWS. symmetry. apply map_assigned_cons. intros I. apply NI. unfold raw_ids.
           (* a raw ID among the tail's ids *) apply filter_In. split; [exact I|exact Raw].
      * intros AU. constructor; [intros C; congruence | exact (EXPL AU)].
    + destruct (arg_assign au (if au then update_on_sync g (r_id r) else g) t) as [[g1 t1] p1] eqn:E1.
      inversion E; subst; clear E.
      rewrite raw_ids_cons_other in ND by exact Raw.
      assert (R' : room K (if au then update_on_sync g (r_id r) else g) t).
      { destruct au; [apply room_tail_sync | eapply room_tail_same]; eassumption. }
      destruct (IH _ _ _ _ E1 R' ND) as (B & KEYS & CH & ROWS & EXPL).
      assert (ID1 : r_id r + 1 < two64). { destruct R as [_ F]. inversion F; subst. cbn [length] in *. lia. }
      pose proof (update_on_sync_ge g (r_id r) ID1) as [UG UI].
      split; [exact B|]. split; [rewrite KEYS, raw_ids_cons_other by exact Raw; reflexivity|].
      split; [eapply chain_weaken; [|exact CH]; destruct au; lia|]. split.
      * cbn [map]. f_equal; [|exact ROWS]. unfold assigned. rewrite sub_cud_not_raw by exact Raw.
        destruct r; reflexivity.
      * intros AU. subst au. constructor; [|exact (EXPL eq_refl)].
        intros _. apply chain_le in CH. lia.
Qed.

(* ---------- first pass over the creates ---------- *)
Definition single_ok (r : row) : Prop :=
  r_single r = 0 \/ (c04_max_raw_id < r_single r /\ r_single r <= c04_max_singleton_id).

Lemma single_ok_not_raw r : single_ok r -> r_single r <> 0 -> is_raw (r_single r) = false.
Proof. intros [Z|[A B]] NZ; [congruence|]. unfold is_raw. lia. Qed.

Definition reported (r : row) : bool := is_raw (r_id r) && (r_single r =? 0).

Lemma cud_assign_spec K : forall rows g g' rows' p rep,
  cud_assign g rows = (g', rows', p, rep) ->
  room K g rows -> NoDup (raw_ids rows) ->
  g' + K < two64
  /\ map fst p = raw_ids rows
  /\ chain g (map snd rep) g'
  /\ rows' = map (assigned p) rows
  /\ Forall (fun r => is_raw (r_id r) = false -> r_id r < g') rows
  /\ rep = map (fun r => (r_id r, sub_cud p (r_id r))) (filter reported rows)
  /\ (forall r, In r rows -> is_raw (r_id r) = true -> r_single r <> 0 -> sub_cud p (r_id r) = r_single r).
Proof.
  induction rows as [|r t IH]; intros g g' rows' p rep E R ND.
  - cbn in E. inversion E; subst. destruct R as [A _]. cbn in *. repeat split; try lia; auto; try (intros ? []).
  - cbn [cud_assign] in E. destruct (is_raw (r_id r)) eqn:Raw; cbn [negb] in E.
    + rewrite raw_ids_cons_raw in ND by exact Raw. inversion ND as [|? ? NI ND']; subst.
      assert (NIt : ~ In (r_id r) (ids t)).
      { intros I. apply NI. apply filter_In. split; [exact I|exact Raw]. }
      destruct (r_single r =? 0) eqn:Sg; cbn [negb] in E.
      * (* NextID *)
        destruct (cud_assign (u64 (g + 1)) t) as [[[g1 t1] p1] rep1] eqn:E1. inversion E; subst; clear E.
        pose proof (room_tail_next _ _ _ _ R) as R'.
        destruct (IH _ _ _ _ _ E1 R' ND') as (B & KEYS & CH & ROWS & EXPL & REP & SING).
        assert (G1 : u64 (g + 1) = g + 1). { destruct R as [A _]. cbn [length] in A. apply u64_small. lia. }
        rewrite G1 in CH.
        assert (FRESH : ~ In (r_id r) (map fst p1)) by (rewrite KEYS; exact NI).
        assert (SELF : sub_cud ((r_id r, g) :: p1) (r_id r) = g).
        { unfold sub_cud. rewrite Raw, plan_get_cons_fresh by exact FRESH. reflexivity. }
        split; [exact B|]. split; [rewrite raw_ids_cons_raw by exact Raw; cbn [map fst]; rewrite KEYS; reflexivity|].
        split; [cbn; split; [lia|exact CH]|]. split; [|split; [|split]].
        -- cbn [map]. f_equal; [unfold assigned; rewrite SELF; reflexivity|].
           rewrite ROWS. symmetry. apply map_assigned_cons. exact NIt.
        -- constructor; [intros C; congruence|exact EXPL].
        -- cbn [filter]. unfold reported at 1. rewrite Raw, Sg. cbn [andb map]. rewrite SELF. f_equal.
           rewrite REP. apply map_ext_in. intros a Ha. apply filter_In in Ha. destruct Ha as [Ha _].
           f_equal. unfold sub_cud. destruct (is_raw (r_id a)); [|reflexivity].
           rewrite plan_get_cons_other; [reflexivity|]. intros EQ. apply NIt. rewrite EQ. unfold ids. apply in_map. exact Ha.
        -- intros a [<-|Ha] RA SA.
           ++ apply N.eqb_eq in Sg. congruence.
           ++ rewrite <- (SING a Ha RA SA). unfold sub_cud. rewrite RA.
              rewrite plan_get_cons_other; [reflexivity|]. intros EQ. apply NIt. rewrite EQ. unfold ids. apply in_map. exact Ha.
      * (* singleton: the ID comes from the registry *)
        destruct (cud_assign g t) as [[[g1 t1] p1] rep1] eqn:E1. inversion E; subst; clear E.
        pose proof (room_tail_same _ _ _ _ R) as R'.
        destruct (IH _ _ _ _ _ E1 R' ND') as (B & KEYS & CH & ROWS & EXPL & REP & SING).
        assert (FRESH : ~ In (r_id r) (map fst p1)) by (rewrite KEYS; exact NI).
        assert (SELF : sub_cud ((r_id r, r_single r) :: p1) (r_id r) = r_single r).
        { unfold sub_cud. rewrite Raw, plan_get_cons_fresh by exact FRESH. reflexivity. }
        split; [exact B|]. split; [rewrite raw_ids_cons_raw by exact Raw; cbn [map fst]; rewrite KEYS; reflexivity|].
        split; [exact CH|]. split; [|split; [|split]].
        -- cbn [map]. f_equal; [unfold assigned; rewrite SELF; reflexivity|].
           rewrite ROWS. symmetry. apply map_assigned_cons. exact NIt.
        -- constructor; [intros C; congruence|exact EXPL].
        -- cbn [filter]. unfold reported at 1. rewrite Raw, Sg. cbn [andb].
           rewrite REP. apply map_ext_in. intros a Ha. apply filter_In in Ha. destruct Ha as [Ha _].
           f_equal. unfold sub_cud. destruct (is_raw (r_id a)); [|reflexivity].
           rewrite plan_get_cons_other; [reflexivity|]. intros EQ. apply NIt. rewrite EQ. unfold ids. apply in_map. exact Ha.
        -- intros a [<-|Ha] RA SA; [exact SELF|].
           rewrite <- (SING a Ha RA SA). unfold sub_cud. rewrite RA.
           rewrite plan_get_cons_other; [reflexivity|]. intros EQ. apply NIt. rewrite EQ. unfold ids. apply in_map. exact Ha.
    + (* explicit storage ID of a synced event *)
      destruct (cud_assign (update_on_sync g (r_id r)) t) as [[[g1 t1] p1] rep1] eqn:E1. inversion E; subst; clear E.
      rewrite raw_ids_cons_other in ND by exact Raw.
      pose proof (room_tail_sync _ _ _ _ R) as R'.
      destruct (IH _ _ _ _ _ E1 R' ND) as (B & KEYS & CH & ROWS & EXPL & REP & SING).
      assert (ID1 : r_id r + 1 < two64). { destruct R as [_ F]. inversion F; subst. cbn [length] in *. lia. }
      pose proof (update_on_sync_ge g (r_id r) ID1) as [UG UI].
      split; [exact B|]. split; [rewrite KEYS, raw_ids_cons_other by exact Raw; reflexivity|].
      split; [eapply chain_weaken; [|exact CH]; lia|]. split; [|split; [|split]].
      * cbn [map]. f_equal; [|exact ROWS]. unfold assigned. rewrite sub_cud_not_raw by exact Raw. destruct r; reflexivity.
      * constructor; [|exact EXPL]. intros _. apply chain_le in CH. lia.
      * cbn [filter]. unfold reported at 1. rewrite Raw. cbn [andb]. exact REP.
      * intros a [<-|Ha] RA SA; [congruence|]. exact (SING a Ha RA SA).
Qed.

(* ====================================================================================== *)
(* part 2: one event - what validation guarantees, and the substitution theorem            *)
(* ====================================================================================== *)

Lemma forallb_Forall {T} (f : T -> bool) l : forallb f l = true <-> Forall (fun x => f x = true) l.
Proof. rewrite forallb_forall, Forall_forall. reflexivity. Qed.

Definition val_known (known : list N) (v : N) : Prop := v = 0 \/ In v known \/ is_raw v = false.

Lemma known_or_not_raw_spec known v : known_or_not_raw known v = true <-> val_known known v.
Proof.
  unfold known_or_not_raw, val_known. rewrite !orb_true_iff, N.eqb_eq, memb_In, negb_true_iff. tauto.
Qed.

Record valid_facts (ev : event) : Prop := {
  vf_nonnull : Forall (fun r => r_id r <> 0) (e_arg ev ++ e_creates ev);
  vf_raw : e_sync ev = false -> Forall (fun r => is_raw (r_id r) = true) (e_arg ev ++ e_creates ev);
  vf_upd : Forall (fun r => is_raw (r_id r) = false) (e_updates ev);
  vf_nodup : NoDup (all_ids ev);
  vf_singles : NoDup (filter (fun s => negb (s =? 0)) (map r_single (e_creates ev)));
  vf_parent : Forall (fun r => val_known (ids (e_arg ev)) (r_parent r)) (e_arg ev);
  vf_argrefs : Forall (fun r => Forall (val_known (ids (e_arg ev))) (checked_arg_fields (r_refs r))) (e_arg ev);
  vf_cudvals : Forall (fun r => Forall (val_known (all_ids ev)) (row_vals r)) (e_creates ev ++ e_updates ev);
  vf_bound : Forall (fun r => r_id r <= c04_max_record_id) (e_arg ev ++ e_creates ev) }.

Lemma valid_spec ev : valid ev = true -> valid_facts ev.
Proof.
  unfold valid. rewrite !andb_true_iff. intros [[[[[[[[A B] C] D] E] F] G] H] I]. constructor.
  - apply forallb_Forall in A. eapply Forall_impl; [|exact A]. cbn. intros r Hr Z. rewrite Z in Hr. discriminate.
  - intros S. rewrite S in B. cbn in B. apply forallb_Forall in B. exact B.
  - apply forallb_Forall in C. eapply Forall_impl; [|exact C]. cbn. intros r Hr. apply negb_true_iff in Hr. exact Hr.
  - apply nodupb_NoDup. exact D.
  - apply nodupb_NoDup. exact E.
  - apply forallb_Forall in F. eapply Forall_impl; [|exact F]. cbn. intros r Hr.
    apply orb_true_iff in Hr. destruct Hr as [Z|M]; [left; apply N.eqb_eq; exact Z | right; left; apply memb_In; exact M].
  - apply forallb_Forall in G. eapply Forall_impl; [|exact G]. cbn. intros r Hr.
    apply forallb_Forall in Hr. eapply Forall_impl; [|exact Hr]. cbn. intros v Hv. apply known_or_not_raw_spec. exact Hv.
  - apply forallb_Forall in H. eapply Forall_impl; [|exact H]. intros r Hr. cbv beta in Hr.
    apply forallb_Forall in Hr. eapply Forall_impl; [|exact Hr]. cbn. intros v Hv. apply known_or_not_raw_spec. exact Hv.
  - apply forallb_Forall in I. eapply Forall_impl; [|exact I]. cbn. intros r Hr. lia.
Qed.

(* every RecordID field of the argument rows (reference fields and plain ones) holds 0, a storage ID, or the raw ID
   of an argument row: what validation guarantees for the reference fields only, while F46 is open *)
Definition arg_fields_closed (ev : event) : Prop :=
  Forall (fun r => Forall (val_known (ids (e_arg ev))) (r_refs r)) (e_arg ev).

Lemma argrefs_all ev : valid ev = true -> c04_arg_plain_checked = true \/ arg_fields_closed ev -> arg_fields_closed ev.
Proof.
  intros V [F|C]; [|exact C]. pose proof (vf_argrefs _ (valid_spec ev V)) as H.
  unfold checked_arg_fields in H. rewrite F in H. exact H.
Qed.

Lemma NoDup_filter_N (f : N -> bool) l : NoDup l -> NoDup (filter f l).
Proof.
  induction 1 as [|x l NI ND IH]; cbn; [constructor|]. destruct (f x); [|exact IH].
  constructor; [|exact IH]. intros I. apply filter_In in I. apply NI. apply I.
Qed.

Lemma NoDup_app_l {T} (a b : list T) : NoDup (a ++ b) -> NoDup a.
Proof. induction a as [|x a IH]; cbn; intros H; [constructor|]. inversion H; subst. constructor; [|auto]. intros I. apply H2. apply in_or_app. left. exact I. Qed.
Lemma NoDup_app_r {T} (a b : list T) : NoDup (a ++ b) -> NoDup b.
Proof. induction a as [|x a IH]; cbn; intros H; [exact H|]. inversion H; subst. auto. Qed.
Lemma NoDup_app_disj {T} (a b : list T) x : NoDup (a ++ b) -> In x a -> ~ In x b.
Proof.
  induction a as [|y a IH]; cbn; intros H I; [contradiction|]. inversion H; subst. destruct I as [->|I].
  - intros J. apply H2. apply in_or_app. right. exact J.
  - apply IH; assumption.
Qed.

Lemma raw_ids_In rows v : In v (raw_ids rows) <-> In v (ids rows) /\ is_raw v = true.
Proof. unfold raw_ids. apply filter_In. Qed.

(* the map every occurrence of an ID goes through: raw IDs to the storage ID of the row that declared them *)
Definition mu (pa pc : plan) (v : N) : N := sub_cud (pa ++ pc) v.

Lemma mu_not_raw pa pc v : is_raw v = false -> mu pa pc v = v.
Proof. apply sub_cud_not_raw. Qed.

Lemma mu_0 pa pc : mu pa pc 0 = 0.
Proof. apply mu_not_raw. apply is_raw_0. Qed.

Section Event.
Variables (au ps : bool) (K g : N) (ev : event).
Hypothesis Hvalid : valid ev = true.
Hypothesis Hsingles : Forall single_ok (e_creates ev).
Hypothesis Hg : c04_first_user_id <= g.
Hypothesis Hroom : room K g (e_arg ev ++ e_creates ev).

Let VF := valid_spec ev Hvalid.

Lemma nodup_arg : NoDup (raw_ids (e_arg ev)).
Proof. apply NoDup_filter_N. pose proof (vf_nodup _ VF) as H. unfold all_ids in H. apply NoDup_app_l in H. exact H. Qed.

Lemma nodup_creates : NoDup (raw_ids (e_creates ev)).
Proof.
  apply NoDup_filter_N. pose proof (vf_nodup _ VF) as H. unfold all_ids in H.
  apply NoDup_app_r in H. apply NoDup_app_l in H. exact H.
Qed.

Lemma arg_not_create v : In v (ids (e_arg ev)) -> ~ In v (ids (e_creates ev)).
Proof.
  intros I J. pose proof (vf_nodup _ VF) as H. unfold all_ids in H.
  eapply NoDup_app_disj in H; [|exact I]. apply H. apply in_or_app. left. exact J.
Qed.

Lemma raw_not_update v : is_raw v = true -> ~ In v (ids (e_updates ev)).
Proof.
  intros R I. unfold ids in I. apply in_map_iff in I. destruct I as [r [E I]].
  pose proof (vf_upd _ VF) as H. rewrite Forall_forall in H. specialize (H r I). congruence.
Qed.

(* everything the two passes produce *)
Record passes (g' : N) (ev' : event) (rep : list (N * N)) (pa pc : plan) (g1 : N) (repc : list (N * N)) : Prop := {
  ps_rep : rep = pa ++ repc;
  ps_room : g' + K < two64;
  ps_keys_a : map fst pa = raw_ids (e_arg ev);
  ps_keys_c : map fst pc = raw_ids (e_creates ev);
  ps_chain_a : chain g (map snd pa) g1;
  ps_chain_a0 : chain (presync g (e_arg ev ++ e_creates ev)) (map snd pa) g1;
  ps_expl0 : c04_sync_prepass = true ->
             Forall (fun r => is_raw (r_id r) = false -> r_id r <> 0 -> r_id r < presync g (e_arg ev ++ e_creates ev)) (e_arg ev ++ e_creates ev);
  ps_chain_c : chain g1 (map snd repc) g';
  ps_arg : e_arg ev' = map (fun r => rewrite_arg pa (assigned pa r)) (e_arg ev);
  ps_creates : e_creates ev' = map (fun r => map_row (sub_cud ((if ps then pa else []) ++ pc)) (assigned pc r)) (e_creates ev);
  ps_updates : e_updates ev' = map (map_row (sub_cud ((if ps then pa else []) ++ pc))) (e_updates ev);
  ps_expl_c : Forall (fun r => is_raw (r_id r) = false -> r_id r < g') (e_creates ev);
  ps_expl_a : au = true -> Forall (fun r => is_raw (r_id r) = false -> r_id r < g1) (e_arg ev);
  ps_repc : repc = map (fun r => (r_id r, sub_cud pc (r_id r))) (filter reported (e_creates ev));
  ps_single : forall r, In r (e_creates ev) -> is_raw (r_id r) = true -> r_single r <> 0 -> sub_cud pc (r_id r) = r_single r;
  ps_sync : e_sync ev' = e_sync ev }.

Lemma regenerate_passes g' ev' rep :
  regenerate_gen au ps g ev = (g', ev', rep) -> exists pa pc g1 repc, passes g' ev' rep pa pc g1 repc.
Proof.
  unfold regenerate_gen. intros E.
  set (g0 := presync g (e_arg ev ++ e_creates ev)) in *.
  destruct (arg_assign au g0 (e_arg ev)) as [[g1 arg1] pa] eqn:EA.
  destruct (cud_assign g1 (e_creates ev)) as [[[g2 cr1] pc] repc] eqn:EC.
  inversion E; subst; clear E.
  pose proof (presync_room _ _ _ Hroom) as Hroom0. fold g0 in Hroom0.
  assert (G0 : g <= g0 /\ (c04_sync_prepass = true ->
             Forall (fun r => is_raw (r_id r) = false -> r_id r <> 0 -> r_id r < g0) (e_arg ev ++ e_creates ev))).
  { destruct Hroom as [A B].
    destruct (presync_spec c04_sync_prepass (N.of_nat (length (e_arg ev ++ e_creates ev)) + K) (e_arg ev ++ e_creates ev) g) as (X & _ & Y).
    - eapply Forall_impl; [|exact B]. cbn. intros; lia.
    - lia.
    - split; [exact X|exact Y]. }
  destruct G0 as [G0 EX0].
  pose proof (room_app _ _ _ _ Hroom0) as RA.
  destruct (arg_assign_spec au _ _ _ _ _ _ EA RA nodup_arg) as (B1 & KA & CA & ROWSA & EXA).
  assert (RC : room K g1 (e_creates ev)).
  { split; [lia|]. apply (room_app_r _ _ _ _ Hroom0). }
  destruct (cud_assign_spec K _ _ _ _ _ _ EC RC nodup_creates) as (B2 & KC & CC & ROWSC & EXC & REP & SING).
  exists pa, pc, g1, repc. constructor; cbn; auto;
    try (eapply chain_weaken; [exact G0|exact CA]);
    try (rewrite ROWSA, map_map; reflexivity); try (rewrite ROWSC, map_map; reflexivity);
    try exact CA; try exact EX0.
Qed.

Section Passes.
Variables (g' : N) (ev' : event) (rep : list (N * N)) (pa pc : plan) (g1 : N) (repc : list (N * N)).
Hypothesis P : passes g' ev' rep pa pc g1 repc.

Lemma g1_le : g <= g1 /\ g1 <= g'.
Proof. split; [exact (chain_le _ _ _ (ps_chain_a _ _ _ _ _ _ _ P)) | exact (chain_le _ _ _ (ps_chain_c _ _ _ _ _ _ _ P))]. Qed.

(* a declared raw argument ID is mapped into [g, g1) *)
Lemma pa_value v : In v (raw_ids (e_arg ev)) -> g <= sub_cud pa v /\ sub_cud pa v < g1.
Proof.
  intros I. pose proof I as I'. apply raw_ids_In in I'. destruct I' as [_ R].
  unfold sub_cud. rewrite R. rewrite <- (ps_keys_a _ _ _ _ _ _ _ P) in I.
  destruct (plan_get pa v) as [x|] eqn:E; [|apply plan_get_none in E; contradiction].
  apply plan_get_some_in in E. apply (in_map snd) in E. cbn in E.
  exact (chain_bounds _ _ _ (ps_chain_a _ _ _ _ _ _ _ P) x E).
Qed.

(* a declared raw create ID is mapped to a fresh ID in [g1, g') or to the singleton's registry ID *)
Lemma pc_value r : In r (e_creates ev) -> is_raw (r_id r) = true ->
  (r_single r = 0 /\ g1 <= sub_cud pc (r_id r) /\ sub_cud pc (r_id r) < g' /\ In (r_id r, sub_cud pc (r_id r)) repc)
  \/ (r_single r <> 0 /\ sub_cud pc (r_id r) = r_single r).
Proof.
  intros I R. destruct (N.eq_dec (r_single r) 0) as [Z|NZ].
  - left. split; [exact Z|].
    assert (IN : In (r_id r, sub_cud pc (r_id r)) repc).
    { rewrite (ps_repc _ _ _ _ _ _ _ P). apply (in_map (fun r => (r_id r, sub_cud pc (r_id r)))).
      apply filter_In. split; [exact I|]. unfold reported. rewrite R, Z. reflexivity. }
    pose proof (in_map snd _ _ IN) as IS. cbn in IS.
    pose proof (chain_bounds _ _ _ (ps_chain_c _ _ _ _ _ _ _ P) _ IS). tauto.
  - right. split; [exact NZ|]. apply (ps_single _ _ _ _ _ _ _ P); assumption.
Qed.

Lemma pc_value_storage r : In r (e_creates ev) -> is_raw (r_id r) = true ->
  is_raw (sub_cud pc (r_id r)) = false /\ sub_cud pc (r_id r) <> 0.
Proof.
  intros I R. destruct (pc_value r I R) as [(Z & A & B & _)|(NZ & E)].
  - pose proof g1_le. split; [apply user_not_raw | apply user_not_null]; lia.
  - rewrite E. rewrite Forall_forall in Hsingles. split; [apply single_ok_not_raw; auto | exact NZ].
Qed.

Lemma mu_arg_id v : In v (ids (e_arg ev)) -> mu pa pc v = sub_cud pa v.
Proof.
  intros I. unfold mu, sub_cud. destruct (is_raw v) eqn:R; [|reflexivity].
  rewrite plan_get_app.
  assert (N1 : plan_get pc v = None).
  { apply plan_get_none. rewrite (ps_keys_c _ _ _ _ _ _ _ P). intros J. apply raw_ids_In in J. destruct J as [J _].
    exact (arg_not_create v I J). }
  rewrite N1. reflexivity.
Qed.

Lemma mu_create_id v : In v (ids (e_creates ev)) -> mu pa pc v = sub_cud pc v.
Proof.
  intros I. unfold mu, sub_cud. destruct (is_raw v) eqn:R; [|reflexivity].
  rewrite plan_get_app.
  destruct (plan_get pc v) eqn:E; [reflexivity|]. exfalso. apply plan_get_none in E. apply E.
  rewrite (ps_keys_c _ _ _ _ _ _ _ P). apply raw_ids_In. split; assumption.
Qed.

(* declared IDs become storage IDs; explicit ones stay *)
Lemma mu_declared_arg v : In v (ids (e_arg ev)) -> v <> 0 -> is_raw (mu pa pc v) = false /\ mu pa pc v <> 0.
Proof.
  intros I NZ. rewrite (mu_arg_id v I). destruct (is_raw v) eqn:R.
  - assert (J : In v (raw_ids (e_arg ev))) by (apply raw_ids_In; split; assumption).
    destruct (pa_value v J). split; [apply user_not_raw | apply user_not_null]; lia.
  - rewrite sub_cud_not_raw by exact R. split; assumption.
Qed.

Lemma mu_declared_create r : In r (e_creates ev) -> r_id r <> 0 ->
  is_raw (mu pa pc (r_id r)) = false /\ mu pa pc (r_id r) <> 0.
Proof.
  intros I NZ. rewrite (mu_create_id (r_id r)) by (unfold ids; apply in_map; exact I).
  destruct (is_raw (r_id r)) eqn:R.
  - apply pc_value_storage; assumption.
  - rewrite sub_cud_not_raw by exact R. split; assumption.
Qed.

(* argument pass: every value it rewrites equals mu *)
Lemma arg_value v : val_known (ids (e_arg ev)) v -> sub_arg pa v = mu pa pc v /\ is_raw (mu pa pc v) = false.
Proof.
  intros [Z|[I|NR]].
  - subst. rewrite mu_0, sub_arg_not_raw by apply is_raw_0. split; [reflexivity|apply is_raw_0].
  - destruct (is_raw v) eqn:R.
    + rewrite (mu_arg_id v I). assert (J : In v (raw_ids (e_arg ev))) by (apply raw_ids_In; split; assumption).
      destruct (pa_value v J) as [A B]. split; [|apply user_not_raw; lia].
      unfold sub_arg, sub_cud. rewrite R. rewrite <- (ps_keys_a _ _ _ _ _ _ _ P) in J.
      destruct (plan_get pa v) eqn:E; [reflexivity|]. apply plan_get_none in E. contradiction.
    + rewrite mu_not_raw, sub_arg_not_raw by exact R. split; [reflexivity|exact R].
  - rewrite mu_not_raw, sub_arg_not_raw by exact NR. split; [reflexivity|exact NR].
Qed.

Lemma arg_row r : arg_fields_closed ev -> In r (e_arg ev) -> rewrite_arg pa (assigned pa r) = map_row (mu pa pc) r.
Proof.
  intros AC I. unfold rewrite_arg, assigned, map_row, set_id. cbn.
  assert (IID : In (r_id r) (ids (e_arg ev))) by (unfold ids; apply in_map; exact I).
  pose proof (vf_nonnull _ VF) as NN. rewrite Forall_forall in NN.
  assert (NZ : r_id r <> 0) by (apply NN; apply in_or_app; left; exact I).
  destruct (mu_declared_arg _ IID NZ) as [NRaw _].
  pose proof (vf_parent _ VF) as PAR. rewrite Forall_forall in PAR. destruct (arg_value _ (PAR r I)) as [EP NP].
  pose proof AC as REFS. unfold arg_fields_closed in REFS. rewrite Forall_forall in REFS. specialize (REFS r I).
  f_equal.
  - rewrite <- (mu_arg_id _ IID). apply sub_arg_not_raw. exact NRaw.
  - rewrite EP. apply sub_arg_not_raw. exact NP.
  - apply map_ext_in. intros v Hv. rewrite Forall_forall in REFS. apply (arg_value v (REFS v Hv)).
Qed.

(* the IDs of the stored rows (no assumption about references needed) *)
Lemma stored_arg_id r : In r (e_arg ev) -> r_id (rewrite_arg pa (assigned pa r)) = sub_cud pa (r_id r).
Proof.
  intros I. cbn.
  assert (IID : In (r_id r) (ids (e_arg ev))) by (unfold ids; apply in_map; exact I).
  pose proof (vf_nonnull _ VF) as NN. rewrite Forall_forall in NN.
  assert (NZ : r_id r <> 0) by (apply NN; apply in_or_app; left; exact I).
  destruct (mu_declared_arg _ IID NZ) as [NRaw _]. rewrite (mu_arg_id _ IID) in NRaw.
  apply sub_arg_not_raw. exact NRaw.
Qed.

Lemma stored_create_id r : In r (e_creates ev) ->
  r_id (map_row (sub_cud ((if ps then pa else []) ++ pc)) (assigned pc r)) = sub_cud pc (r_id r).
Proof.
  intros I. cbn.
  pose proof (vf_nonnull _ VF) as NN. rewrite Forall_forall in NN.
  assert (NZ : r_id r <> 0) by (apply NN; apply in_or_app; right; exact I).
  destruct (mu_declared_create r I NZ) as [NRaw _].
  rewrite (mu_create_id (r_id r)) in NRaw by (unfold ids; apply in_map; exact I).
  apply sub_cud_not_raw. exact NRaw.
Qed.

(* where a logged ID of the event comes from *)
Lemma event_id_cases x : In x (event_ids ev') ->
  (g <= x /\ x < g')
  \/ (exists r, In r (e_arg ev ++ e_creates ev) /\ r_id r = x /\ is_raw x = false)
  \/ (exists r, In r (e_creates ev) /\ r_single r = x /\ x <> 0).
Proof.
  unfold event_ids. intros I. pose proof g1_le as [G1 G2]. apply in_app_or in I. destruct I as [I|I].
  - rewrite (ps_creates _ _ _ _ _ _ _ P) in I. unfold ids in I. rewrite map_map in I. apply in_map_iff in I.
    destruct I as [r [E I]]. rewrite (stored_create_id r I) in E. subst x.
    destruct (is_raw (r_id r)) eqn:R.
    + destruct (pc_value r I R) as [(_ & A & B & _)|(NZ & E)].
      * left. lia.
      * right. right. exists r. rewrite E. auto.
    + right. left. exists r. rewrite sub_cud_not_raw by exact R. split; [apply in_or_app; right; exact I|auto].
  - rewrite (ps_arg _ _ _ _ _ _ _ P) in I. unfold ids in I. rewrite map_map in I. apply in_map_iff in I.
    destruct I as [r [E I]]. rewrite (stored_arg_id r I) in E. subst x.
    destruct (is_raw (r_id r)) eqn:R.
    + assert (J : In (r_id r) (raw_ids (e_arg ev))).
      { apply raw_ids_In. split; [unfold ids; apply in_map; exact I|exact R]. }
      destruct (pa_value _ J). left. lia.
    + right. left. exists r. rewrite sub_cud_not_raw by exact R. split; [apply in_or_app; left; exact I|auto].
Qed.

(* the F12 exclusion: CUD rows do not refer to raw IDs declared in the argument *)
Definition cud_refs_arg_free : Prop :=
  forall r v, In r (e_creates ev ++ e_updates ev) -> In v (row_vals r) -> is_raw v = true -> ~ In v (ids (e_arg ev)).

Hypothesis Hshared : ps = true \/ cud_refs_arg_free.

Lemma cud_value r v : In r (e_creates ev ++ e_updates ev) -> In v (row_vals r) ->
  sub_cud ((if ps then pa else []) ++ pc) v = mu pa pc v /\ is_raw (mu pa pc v) = false.
Proof.
  intros I IV.
  pose proof (vf_cudvals _ VF) as CV. rewrite Forall_forall in CV. specialize (CV r I). rewrite Forall_forall in CV.
  specialize (CV v IV).
  assert (NRAW : is_raw (mu pa pc v) = false).
  { destruct (is_raw v) eqn:R; [|rewrite mu_not_raw; assumption].
    destruct CV as [Z|[J|NR]]; [subst; rewrite is_raw_0 in R; discriminate| |congruence].
    unfold all_ids in J. apply in_app_or in J. destruct J as [J|J].
    - apply mu_declared_arg; [exact J|]. intros Z. subst. rewrite is_raw_0 in R. discriminate.
    - apply in_app_or in J. destruct J as [J|J]; [|exfalso; exact (raw_not_update v R J)].
      rewrite (mu_create_id v J). unfold ids in J. apply in_map_iff in J. destruct J as [c [EC IC]]. subst v.
      apply pc_value_storage; assumption. }
  split; [|exact NRAW].
  destruct ps eqn:PS; [reflexivity|]. cbn [app].
  destruct (is_raw v) eqn:R; [|rewrite mu_not_raw, sub_cud_not_raw by exact R; reflexivity].
  destruct Hshared as [C|FREE]; [discriminate|].
  destruct CV as [Z|[J|NR]]; [subst; rewrite is_raw_0 in R; discriminate| |congruence].
  unfold all_ids in J. apply in_app_or in J. destruct J as [J|J]; [exfalso; exact (FREE r v I IV R J)|].
  apply in_app_or in J. destruct J as [J|J]; [|exfalso; exact (raw_not_update v R J)].
  symmetry. apply mu_create_id. exact J.
Qed.

Lemma create_row r : In r (e_creates ev) ->
  map_row (sub_cud ((if ps then pa else []) ++ pc)) (assigned pc r) = map_row (mu pa pc) r.
Proof.
  intros I. unfold assigned, map_row, set_id. cbn.
  assert (IC : In r (e_creates ev ++ e_updates ev)) by (apply in_or_app; left; exact I).
  pose proof (vf_nonnull _ VF) as NN. rewrite Forall_forall in NN.
  assert (NZ : r_id r <> 0) by (apply NN; apply in_or_app; right; exact I).
  destruct (mu_declared_create r I NZ) as [NRaw _].
  f_equal.
  - rewrite <- (mu_create_id (r_id r)) by (unfold ids; apply in_map; exact I). apply sub_cud_not_raw. exact NRaw.
  - apply (cud_value r (r_parent r) IC). cbn. auto.
  - apply map_ext_in. intros v Hv. apply (cud_value r v IC). cbn. auto.
Qed.

Lemma update_row r : In r (e_updates ev) ->
  map_row (sub_cud ((if ps then pa else []) ++ pc)) r = map_row (mu pa pc) r.
Proof.
  intros I. unfold map_row.
  assert (IC : In r (e_creates ev ++ e_updates ev)) by (apply in_or_app; right; exact I).
  f_equal.
  - apply (cud_value r (r_id r) IC). cbn. auto.
  - apply (cud_value r (r_parent r) IC). cbn. auto.
  - apply map_ext_in. intros v Hv. apply (cud_value r v IC). cbn. auto.
Qed.

Lemma stored_arg : arg_fields_closed ev -> e_arg ev' = map (map_row (mu pa pc)) (e_arg ev).
Proof. intros AC. rewrite (ps_arg _ _ _ _ _ _ _ P). apply map_ext_in. intros r I. apply arg_row; assumption. Qed.
Lemma stored_creates : e_creates ev' = map (map_row (mu pa pc)) (e_creates ev).
Proof. rewrite (ps_creates _ _ _ _ _ _ _ P). apply map_ext_in. intros r I. apply create_row. exact I. Qed.
Lemma stored_updates : e_updates ev' = map (map_row (mu pa pc)) (e_updates ev).
Proof. rewrite (ps_updates _ _ _ _ _ _ _ P). apply map_ext_in. intros r I. apply update_row. exact I. Qed.

End Passes.
End Event.

(* ---------- the substitution theorem ---------- *)
Lemma plan_get_in_nodup p k x : NoDup (map fst p) -> In (k, x) p -> plan_get p k = Some x.
Proof.
  induction p as [|[a b] t IH]; cbn; intros ND I; [contradiction|].
  inversion ND as [|? ? NI ND']; subst. destruct I as [E|I].
  - inversion E; subst. apply plan_get_none in NI. rewrite NI, N.eqb_refl. reflexivity.
  - rewrite (IH ND' I). reflexivity.
Qed.

Definition no_raw_left (ev' : event) : Prop :=
  forall r v, In r (e_arg ev' ++ e_creates ev' ++ e_updates ev') -> In v (row_vals r) -> is_raw v = false.

Lemma row_vals_map m r : row_vals (map_row m r) = map m (row_vals r).
Proof. reflexivity. Qed.

Definition consistent_substitution (ev ev' : event) (rep : list (N * N)) : Prop :=
  exists m : N -> N,
    (* storage IDs, null included, are left alone *)
    (forall v, is_raw v = false -> m v = v)
    (* every row that declares an ID ends up with a storage ID *)
    /\ (forall r, In r (e_arg ev ++ e_creates ev) -> is_raw (m (r_id r)) = false /\ m (r_id r) <> 0)
    (* every occurrence - IDs, parents, reference fields; argument, creates, updates - is rewritten by the same m *)
    /\ e_arg ev' = map (map_row m) (e_arg ev)
    /\ e_creates ev' = map (map_row m) (e_creates ev)
    /\ e_updates ev' = map (map_row m) (e_updates ev)
    (* the mapping reported to the client is m on the declared raw IDs: nothing else ... *)
    /\ (forall raw s, In (raw, s) rep -> is_raw raw = true /\ In raw (ids (e_arg ev ++ e_creates ev)) /\ s = m raw)
    (* ... and nothing missing (singleton IDs come from the registry and are not reported) *)
    /\ (forall r, In r (e_arg ev) \/ (In r (e_creates ev) /\ r_single r = 0) -> is_raw (r_id r) = true -> In (r_id r, m (r_id r)) rep)
    /\ (forall r, In r (e_creates ev) -> is_raw (r_id r) = true -> r_single r <> 0 -> m (r_id r) = r_single r)
    (* no raw ID remains anywhere in the stored event *)
    /\ no_raw_left ev'.

Theorem substitution_proved : forall au ps g ev g' ev' rep,
  valid ev = true -> Forall single_ok (e_creates ev) -> c04_first_user_id <= g ->
  room 0 g (e_arg ev ++ e_creates ev) ->
  ps = true \/ cud_refs_arg_free ev ->
  c04_arg_plain_checked = true \/ arg_fields_closed ev ->
  regenerate_gen au ps g ev = (g', ev', rep) ->
  consistent_substitution ev ev' rep.
Proof.
  intros au ps g ev g' ev' rep Hv Hs Hg Hr Hsh Hpl E.
  destruct (regenerate_passes au ps 0 g ev Hv Hg Hr g' ev' rep E) as (pa & pc & g1 & repc & P).
  pose proof (valid_spec ev Hv) as VF.
  pose proof (stored_arg au ps 0 g ev Hv Hg g' ev' rep pa pc g1 repc P (argrefs_all ev Hv Hpl)) as SA.
  pose proof (stored_creates au ps 0 g ev Hv Hs Hg g' ev' rep pa pc g1 repc P Hsh) as SC.
  pose proof (stored_updates au ps 0 g ev Hv Hs Hg g' ev' rep pa pc g1 repc P Hsh) as SU.
  pose proof (vf_nonnull _ VF) as NN. rewrite Forall_forall in NN.
  exists (mu pa pc). split; [apply mu_not_raw|]. split; [|split; [exact SA|split; [exact SC|split; [exact SU|]]]].
  - intros r I. apply in_app_or in I. destruct I as [I|I].
    + apply (mu_declared_arg au ps 0 g ev Hv Hg g' ev' rep pa pc g1 repc P).
      * unfold ids. apply in_map. exact I.
      * apply NN. apply in_or_app. left. exact I.
    + apply (mu_declared_create au ps 0 g ev Hs Hg g' ev' rep pa pc g1 repc P r I).
      apply NN. apply in_or_app. right. exact I.
  - split; [|split; [|split]].
    + intros raw s I. rewrite (ps_rep _ _ _ _ _ _ _ _ _ _ _ _ P) in I. apply in_app_or in I. destruct I as [I|I].
      * assert (KEY : In raw (raw_ids (e_arg ev))).
        { rewrite <- (ps_keys_a _ _ _ _ _ _ _ _ _ _ _ _ P). apply (in_map fst) in I. exact I. }
        pose proof KEY as KEY'. apply raw_ids_In in KEY'. destruct KEY' as [IA R].
        split; [exact R|]. split; [unfold ids; rewrite map_app; apply in_or_app; left; exact IA|].
        rewrite (mu_arg_id au ps 0 g ev Hv g' ev' rep pa pc g1 repc P raw IA).
        unfold sub_cud. rewrite R. rewrite (plan_get_in_nodup pa raw s); [reflexivity| |exact I].
        rewrite (ps_keys_a _ _ _ _ _ _ _ _ _ _ _ _ P). apply nodup_arg. exact Hv.
      * rewrite (ps_repc _ _ _ _ _ _ _ _ _ _ _ _ P) in I. apply in_map_iff in I. destruct I as [r [EQ I]].
        inversion EQ; subst; clear EQ. apply filter_In in I. destruct I as [I REP]. unfold reported in REP.
        apply andb_true_iff in REP. destruct REP as [R _].
        assert (IC : In (r_id r) (ids (e_creates ev))) by (unfold ids; apply in_map; exact I).
        split; [exact R|]. split; [unfold ids; rewrite map_app; apply in_or_app; right; exact IC|].
        symmetry. apply (mu_create_id au ps 0 g ev g' ev' rep pa pc g1 repc P). exact IC.
    + intros r [I|[I Z]] R; rewrite (ps_rep _ _ _ _ _ _ _ _ _ _ _ _ P); apply in_or_app.
      * left. assert (IA : In (r_id r) (ids (e_arg ev))) by (unfold ids; apply in_map; exact I).
        rewrite (mu_arg_id au ps 0 g ev Hv g' ev' rep pa pc g1 repc P _ IA).
        unfold sub_cud. rewrite R. destruct (plan_get pa (r_id r)) eqn:PG; [apply plan_get_some_in; exact PG|].
        exfalso. apply plan_get_none in PG. apply PG. rewrite (ps_keys_a _ _ _ _ _ _ _ _ _ _ _ _ P).
        apply raw_ids_In. split; assumption.
      * right. assert (IC : In (r_id r) (ids (e_creates ev))) by (unfold ids; apply in_map; exact I).
        rewrite (mu_create_id au ps 0 g ev g' ev' rep pa pc g1 repc P _ IC).
        destruct (pc_value au ps 0 g ev g' ev' rep pa pc g1 repc P r I R) as [(_ & _ & _ & IN)|[NZ _]]; [exact IN|congruence].
    + intros r I R NZ. assert (IC : In (r_id r) (ids (e_creates ev))) by (unfold ids; apply in_map; exact I).
      rewrite (mu_create_id au ps 0 g ev g' ev' rep pa pc g1 repc P _ IC).
      apply (ps_single _ _ _ _ _ _ _ _ _ _ _ _ P); assumption.
    + intros r' v I IV. rewrite SA, SC, SU in I.
      apply in_app_or in I. destruct I as [I|I]; [|apply in_app_or in I; destruct I as [I|I]];
        apply in_map_iff in I; destruct I as [r [EQ I]]; subst r'; rewrite row_vals_map in IV;
        apply in_map_iff in IV; destruct IV as [v0 [EQ IV]]; subst v.
      * (* argument row *)
        pose proof (vf_parent _ VF) as PAR. rewrite Forall_forall in PAR.
        pose proof (argrefs_all ev Hv Hpl) as REFS. unfold arg_fields_closed in REFS. rewrite Forall_forall in REFS. specialize (REFS r I). rewrite Forall_forall in REFS.
        cbn in IV. destruct IV as [<-|[<-|IV]].
        -- apply (mu_declared_arg au ps 0 g ev Hv Hg g' ev' rep pa pc g1 repc P).
           ++ unfold ids. apply in_map. exact I.
           ++ apply NN. apply in_or_app. left. exact I.
        -- apply (arg_value au ps 0 g ev Hv Hg g' ev' rep pa pc g1 repc P). apply PAR. exact I.
        -- apply (arg_value au ps 0 g ev Hv Hg g' ev' rep pa pc g1 repc P). apply REFS. exact IV.
      * apply (cud_value au ps 0 g ev Hv Hs Hg g' ev' rep pa pc g1 repc P Hsh r v0); [apply in_or_app; left; exact I|exact IV].
      * apply (cud_value au ps 0 g ev Hv Hs Hg g' ev' rep pa pc g1 repc P Hsh r v0); [apply in_or_app; right; exact I|exact IV].
Qed.

(* ====================================================================================== *)
(* part 3: histories with restarts                                                         *)
(* ====================================================================================== *)

Definition ev_rows (ev : event) : nat := length (e_arg ev ++ e_creates ev).
Definition ev_ids (ev : event) : list N := ids (e_arg ev ++ e_creates ev).

Fixpoint hist_rows (h : list iop) : nat :=
  match h with [] => 0%nat | IEvent _ ev :: t => (ev_rows ev + hist_rows t)%nat | IRestart :: t => hist_rows t end.
Fixpoint hist_ids (h : list iop) : list N :=
  match h with [] => [] | IEvent _ ev :: t => ev_ids ev ++ hist_ids t | IRestart :: t => hist_ids t end.

(* no uint64 wrap-around: every ID named in the history, plus the number of rows that may each take one
   fresh ID, stays below 2^64 *)
Definition bounded (h : list iop) : Prop :=
  c04_first_user_id + N.of_nat (hist_rows h) < two64
  /\ Forall (fun x => x + 1 + N.of_nat (hist_rows h) < two64) (hist_ids h).

(* singleton IDs handed in by the registry lie in the singleton range *)
Definition singles_ok (h : list iop) : Prop := forall ws ev, In (IEvent ws ev) h -> Forall single_ok (e_creates ev).

(* the F41 exclusion: argument documents carry raw IDs only *)
Definition arg_ids_raw (h : list iop) : Prop :=
  forall ws ev, In (IEvent ws ev) h -> Forall (fun r => is_raw (r_id r) = true) (e_arg ev).

Lemma hist_rows_app h1 h2 : hist_rows (h1 ++ h2) = (hist_rows h1 + hist_rows h2)%nat.
Proof. induction h1 as [|[ws ev|] t IH]; cbn; lia. Qed.
Lemma hist_ids_app h1 h2 : hist_ids (h1 ++ h2) = hist_ids h1 ++ hist_ids h2.
Proof. induction h1 as [|[ws ev|] t IH]; cbn; [reflexivity| |exact IH]. rewrite IH, app_assoc. reflexivity. Qed.

Definition inv (K : N) (w : wstate) : Prop :=
  c04_first_user_id <= w_next w /\ w_next w + K < two64 /\ Forall (fun x => x + 1 + K < two64) (w_log w).
(* every logged ID is below the generator *)
Definition inv_u (w : wstate) : Prop := Forall (fun x => x < w_next w) (w_log w).

Lemma inv_weaken K K' w : K' <= K -> inv K w -> inv K' w.
Proof.
  intros L (A & B & C). split; [exact A|]. split; [lia|]. eapply Forall_impl; [|exact C]. cbn. intros; lia.
Qed.

Lemma recover_fold : forall l s, Forall (fun x => x + 1 < two64) l ->
  s <= fold_left update_on_sync l s
  /\ Forall (fun x => x < fold_left update_on_sync l s) l
  /\ (fold_left update_on_sync l s = s \/ exists x, In x l /\ fold_left update_on_sync l s = x + 1).
Proof.
  induction l as [|y t IH]; intros s F; cbn.
  - split; [lia|]. split; [constructor|]. left. reflexivity.
  - inversion F as [|? ? Fy Ft]; subst.
    destruct (IH (update_on_sync s y) Ft) as (A & B & C).
    destruct (update_on_sync_ge s y Fy) as [U1 U2].
    split; [lia|]. split; [constructor; [lia|exact B]|].
    destruct C as [C|[x [I C]]].
    + rewrite C. rewrite update_on_sync_spec by exact Fy. destruct (N.leb_spec s y).
      * right. exists y. split; [left; reflexivity|reflexivity].
      * left. reflexivity.
    + right. exists x. split; [right; exact I|exact C].
Qed.

Lemma recover_inv K w : inv K w -> inv K (recover w) /\ inv_u (recover w).
Proof.
  intros (A & B & C). unfold recover, inv, inv_u. cbn.
  assert (F : Forall (fun x => x + 1 < two64) (w_log w)) by (eapply Forall_impl; [|exact C]; cbn; intros; lia).
  destruct (recover_fold (w_log w) c04_first_user_id F) as (R1 & R2 & R3).
  split; [|exact R2]. split; [exact R1|]. split; [|exact C].
  destruct R3 as [E|[x [I E]]]; rewrite E; [lia|]. rewrite Forall_forall in C. specialize (C x I). lia.
Qed.

Section Step.
Variables (au ps : bool) (K : N) (w : wstate) (ev : event).
Hypothesis Hinv : inv (N.of_nat (ev_rows ev) + K) w.
Hypothesis Hids : Forall (fun x => x + 1 + N.of_nat (ev_rows ev) + K < two64) (ev_ids ev).
Hypothesis Hsingles : Forall single_ok (e_creates ev).

Lemma step_room : room K (w_next w) (e_arg ev ++ e_creates ev).
Proof.
  destruct Hinv as (A & B & C). unfold ev_rows in *. split; [lia|].
  unfold ev_ids, ids in Hids. rewrite Forall_map in Hids. eapply Forall_impl; [|exact Hids]. cbn. intros; lia.
Qed.

Lemma step_event_accepts w' ev' rep :
  step_event_gen au ps w ev = (w', Accepted ev' rep) ->
  valid ev = true /\ regenerate_gen au ps (w_next w) ev = (w_next w', ev', rep) /\ w_log w' = w_log w ++ event_ids ev'.
Proof.
  unfold step_event_gen. destruct (accepts w ev) eqn:AC; [|discriminate].
  unfold accepts in AC. apply andb_true_iff in AC. destruct AC as [AC _]. rewrite AC.
  destruct (regenerate_gen au ps (w_next w) ev) as [[g' e'] r']. intros E. inversion E; subst. cbn. auto.
Qed.

Lemma step_event_inv w' o : step_event_gen au ps w ev = (w', o) -> inv K w'.
Proof.
  destruct o as [|ev' rep].
  - unfold step_event_gen. destruct (accepts w ev).
    + destruct (regenerate_gen au ps (w_next w) ev) as [[g' e'] r']. discriminate.
    + intros E. inversion E; subst. eapply inv_weaken; [|exact Hinv]. lia.
  - intros E. destruct (step_event_accepts _ _ _ E) as (Hv & RG & LOG).
    destruct Hinv as (A & B & C).
    destruct (regenerate_passes au ps K (w_next w) ev Hv A step_room _ _ _ RG) as (pa & pc & g1 & repc & P).
    pose proof (g1_le _ _ _ _ _ _ _ _ _ _ _ _ P) as [G1 G2].
    split; [lia|]. split; [exact (ps_room _ _ _ _ _ _ _ _ _ _ _ _ P)|].
    rewrite LOG. apply Forall_app. split.
    + eapply Forall_impl; [|exact C]. cbn. intros; lia.
    + apply Forall_forall. intros x I.
      pose proof (ps_room _ _ _ _ _ _ _ _ _ _ _ _ P) as RM.
      destruct (event_id_cases au ps K (w_next w) ev Hv Hsingles A _ _ _ _ _ _ _ P x I) as [[L U]|[[r [IR [E1 _]]]|[r [IR [E1 NZ]]]]].
      * lia.
      * rewrite Forall_forall in Hids. assert (IX : In x (ev_ids ev)) by (unfold ev_ids, ids; rewrite <- E1; apply in_map; exact IR).
        specialize (Hids x IX). lia.
      * rewrite Forall_forall in Hsingles. destruct (Hsingles r IR) as [Z|[S1 S2]]; [congruence|].
        pose proof layout_singletons_reserved. lia.
Qed.

Hypothesis Hu : inv_u w.
Hypothesis Harg : au = true \/ Forall (fun r => is_raw (r_id r) = true) (e_arg ev).

Lemma step_event_inv_u w' o : step_event_gen au ps w ev = (w', o) -> inv_u w'.
Proof.
  destruct o as [|ev' rep].
  - unfold step_event_gen. destruct (accepts w ev).
    + destruct (regenerate_gen au ps (w_next w) ev) as [[g' e'] r']. discriminate.
    + intros E. inversion E; subst. exact Hu.
  - intros E. destruct (step_event_accepts _ _ _ E) as (Hv & RG & LOG).
    destruct Hinv as (A & B & C).
    destruct (regenerate_passes au ps K (w_next w) ev Hv A step_room _ _ _ RG) as (pa & pc & g1 & repc & P).
    pose proof (g1_le _ _ _ _ _ _ _ _ _ _ _ _ P) as [G1 G2].
    unfold inv_u. rewrite LOG. apply Forall_app. split.
    + eapply Forall_impl; [|exact Hu]. cbn. intros; lia.
    + apply Forall_forall. intros x I.
      destruct (event_id_cases au ps K (w_next w) ev Hv Hsingles A _ _ _ _ _ _ _ P x I) as [[L U]|[[r [IR [E1 NR]]]|[r [IR [E1 NZ]]]]].
      * exact U.
      * apply in_app_or in IR. destruct IR as [IR|IR].
        -- destruct Harg as [AU|RAW].
           ++ pose proof (ps_expl_a _ _ _ _ _ _ _ _ _ _ _ _ P AU) as EX. rewrite Forall_forall in EX.
              specialize (EX r IR). rewrite E1 in EX. specialize (EX NR). lia.
           ++ rewrite Forall_forall in RAW. specialize (RAW r IR). congruence.
        -- pose proof (ps_expl_c _ _ _ _ _ _ _ _ _ _ _ _ P) as EX. rewrite Forall_forall in EX.
           specialize (EX r IR). rewrite E1 in EX. exact (EX NR).
      * rewrite Forall_forall in Hsingles. destruct (Hsingles r IR) as [Z|[S1 S2]]; [congruence|].
        pose proof layout_singletons_reserved. lia.
Qed.

End Step.

Lemma upd_same st ws w : upd st ws w ws = w.
Proof. unfold upd. rewrite N.eqb_refl. reflexivity. Qed.
Lemma upd_other st ws w k : k <> ws -> upd st ws w k = st k.
Proof. intros NE. unfold upd. destruct (N.eqb_spec k ws); congruence. Qed.

Lemma run_invariants au ps : forall h K st,
  (forall ws, inv (N.of_nat (hist_rows h) + K) (st ws)) ->
  Forall (fun x => x + 1 + N.of_nat (hist_rows h) + K < two64) (hist_ids h) ->
  singles_ok h ->
  (forall ws, inv K (run_gen au ps st h ws))
  /\ ((forall ws, inv_u (st ws)) -> au = true \/ arg_ids_raw h -> forall ws, inv_u (run_gen au ps st h ws)).
Proof.
  induction h as [|[ws0 ev|] t IH]; intros K st HI HB HS.
  - cbn. split; [|auto]. intros ws. eapply inv_weaken; [|apply HI]. cbn. lia.
  - cbn [run_gen fold_left step_gen]. cbn [hist_rows hist_ids] in HI, HB.
    apply Forall_app in HB. destruct HB as [HB1 HB2].
    assert (HS0 : Forall single_ok (e_creates ev)) by (apply (HS ws0 ev); left; reflexivity).
    assert (HSt : singles_ok t) by (intros a b I; apply (HS a b); right; exact I).
    destruct (step_event_gen au ps (st ws0) ev) as [w' o] eqn:E. cbn [fst].
    assert (I0 : inv (N.of_nat (ev_rows ev) + (N.of_nat (hist_rows t) + K)) (st ws0)).
    { eapply inv_weaken; [|apply HI]. lia. }
    assert (B0 : Forall (fun x => x + 1 + N.of_nat (ev_rows ev) + (N.of_nat (hist_rows t) + K) < two64) (ev_ids ev)).
    { eapply Forall_impl; [|exact HB1]. cbn. intros; lia. }
    assert (HI' : forall ws, inv (N.of_nat (hist_rows t) + K) (upd st ws0 w' ws)).
    { intros ws. destruct (N.eq_dec ws ws0) as [->|NE].
      - rewrite upd_same. eapply (step_event_inv au ps _ (st ws0) ev I0 B0 HS0). exact E.
      - rewrite upd_other by exact NE. eapply inv_weaken; [|apply HI]. lia. }
    assert (HB' : Forall (fun x => x + 1 + N.of_nat (hist_rows t) + K < two64) (hist_ids t)).
    { eapply Forall_impl; [|exact HB2]. cbn. intros; lia. }
    destruct (IH K (upd st ws0 w') HI' HB' HSt) as [R1 R2].
    split; [exact R1|]. intros HU HA. apply R2.
    + intros ws. destruct (N.eq_dec ws ws0) as [->|NE].
      * rewrite upd_same. eapply (step_event_inv_u au ps _ (st ws0) ev I0 B0 HS0 (HU ws0)); [|exact E].
        destruct HA as [AU|RAW]; [left; exact AU|right; apply (RAW ws0 ev); left; reflexivity].
      * rewrite upd_other by exact NE. apply HU.
    + destruct HA as [AU|RAW]; [left; exact AU|right]. intros a b I. apply (RAW a b). right. exact I.
  - cbn [run_gen fold_left step_gen]. cbn [hist_rows hist_ids] in HI, HB.
    assert (HSt : singles_ok t) by (intros a b I; apply (HS a b); right; exact I).
    assert (HI' : forall ws, inv (N.of_nat (hist_rows t) + K) (recover (st ws))) by (intros ws; apply recover_inv; apply HI).
    destruct (IH K (fun k => recover (st k)) HI' HB HSt) as [R1 R2].
    split; [exact R1|]. intros _ HA. apply R2.
    + intros ws. apply (recover_inv _ _ (HI ws)).
    + destruct HA as [AU|RAW]; [left; exact AU|right]. intros a b I. apply (RAW a b). right. exact I.
Qed.

Lemma init_inv K : c04_first_user_id + K < two64 -> inv K w_init /\ inv_u w_init.
Proof. intros H. unfold inv, inv_u, w_init. cbn [w_next w_log]. split; [split; [lia|split; [exact H|constructor]]|constructor]. Qed.

(* the state any history leads to, seen from the next event *)
Lemma reach au ps h ws ev :
  bounded (h ++ [IEvent ws ev]) -> singles_ok (h ++ [IEvent ws ev]) ->
  let w := run_gen au ps st_init h ws in
  inv (N.of_nat (ev_rows ev)) w
  /\ Forall (fun x => x + 1 + N.of_nat (ev_rows ev) + 0 < two64) (ev_ids ev)
  /\ Forall single_ok (e_creates ev)
  /\ (au = true \/ arg_ids_raw h -> inv_u w).
Proof.
  intros [B1 B2] HS. rewrite hist_rows_app in B1, B2. rewrite hist_ids_app in B2. cbn [hist_rows hist_ids] in B1, B2.
  rewrite app_nil_r in B2. apply Forall_app in B2. destruct B2 as [B2 B3].
  assert (HSh : singles_ok h) by (intros a b I; apply (HS a b); apply in_or_app; left; exact I).
  assert (HI : forall k, inv (N.of_nat (hist_rows h) + N.of_nat (ev_rows ev)) (st_init k)).
  { intros k. apply init_inv. lia. }
  assert (HB : Forall (fun x => x + 1 + N.of_nat (hist_rows h) + N.of_nat (ev_rows ev) < two64) (hist_ids h)).
  { eapply Forall_impl; [|exact B2]. cbn. intros; lia. }
  destruct (run_invariants au ps h (N.of_nat (ev_rows ev)) st_init HI HB HSh) as [R1 R2].
  cbn zeta. split; [apply R1|]. split; [eapply Forall_impl; [|exact B3]; cbn; intros; lia|].
  split; [apply (HS ws ev); apply in_or_app; right; left; reflexivity|].
  intros HA. apply R2; [|exact HA]. intros k. apply (init_inv 0). pose proof layout_user_fits. lia.
Qed.

(* T1: generated IDs are consecutive-or-jumping upwards, at or above FirstUserRecordID, below 2^64 *)
Theorem generated_ids_proved : forall au ps h ws ev w' ev' rep,
  bounded (h ++ [IEvent ws ev]) -> singles_ok (h ++ [IEvent ws ev]) ->
  step_event_gen au ps (run_gen au ps st_init h ws) ev = (w', Accepted ev' rep) ->
  chain (w_next (run_gen au ps st_init h ws)) (map snd rep) (w_next w')
  /\ c04_first_user_id <= w_next (run_gen au ps st_init h ws) /\ w_next w' < two64.
Proof.
  intros au ps h ws ev w' ev' rep HB HS E.
  destruct (reach au ps h ws ev HB HS) as (I & B & S & _). set (w := run_gen au ps st_init h ws) in *.
  destruct (step_event_accepts au ps w ev _ _ _ E) as (Hv & RG & LOG).
  rewrite <- (N.add_0_r (N.of_nat (ev_rows ev))) in I.
  pose proof (step_room 0 w ev I B) as RM. destruct I as (A & _ & _).
  destruct (regenerate_passes au ps 0 (w_next w) ev Hv A RM _ _ _ RG) as (pa & pc & g1 & repc & P).
  split; [|split; [exact A|]].
  - rewrite (ps_rep _ _ _ _ _ _ _ _ _ _ _ _ P), map_app.
    eapply chain_app; [exact (ps_chain_a _ _ _ _ _ _ _ _ _ _ _ _ P)|exact (ps_chain_c _ _ _ _ _ _ _ _ _ _ _ _ P)].
  - pose proof (ps_room _ _ _ _ _ _ _ _ _ _ _ _ P). lia.
Qed.

(* T2: generated IDs differ from every ID in the workspace's log, whatever happened before (restarts included) *)
Theorem unique_proved : forall au ps h ws ev w' ev' rep,
  bounded (h ++ [IEvent ws ev]) -> singles_ok (h ++ [IEvent ws ev]) ->
  au = true \/ arg_ids_raw h ->
  step_event_gen au ps (run_gen au ps st_init h ws) ev = (w', Accepted ev' rep) ->
  NoDup (map snd rep)
  /\ (forall x, In x (map snd rep) -> ~ In x (w_log (run_gen au ps st_init h ws)))
  /\ w_log w' = w_log (run_gen au ps st_init h ws) ++ event_ids ev'.
Proof.
  intros au ps h ws ev w' ev' rep HB HS HA E.
  destruct (generated_ids_proved au ps h ws ev w' ev' rep HB HS E) as (CH & _ & _).
  destruct (reach au ps h ws ev HB HS) as (_ & _ & _ & U). specialize (U HA).
  split; [eapply chain_NoDup; exact CH|]. split.
  - intros x I J. pose proof (chain_bounds _ _ _ CH x I) as [L _].
    unfold inv_u in U. rewrite Forall_forall in U. specialize (U x J). lia.
  - apply (step_event_accepts au ps _ ev _ _ _ E).
Qed.

(* T5: rebuilding the generator from the log always puts it above every logged ID *)
Theorem recovery_dominates_proved : forall au ps h ws,
  bounded h -> singles_ok h ->
  let w := run_gen au ps st_init (h ++ [IRestart]) ws in
  Forall (fun x => x < w_next w) (w_log w) /\ c04_first_user_id <= w_next w.
Proof.
  intros au ps h ws [B1 B2] HS. unfold run_gen. rewrite fold_left_app. cbn [fold_left step_gen].
  assert (HI : forall k, inv (N.of_nat (hist_rows h) + 0) (st_init k)) by (intros k; apply init_inv; lia).
  assert (HB : Forall (fun x => x + 1 + N.of_nat (hist_rows h) + 0 < two64) (hist_ids h)).
  { eapply Forall_impl; [|exact B2]. cbn. intros; lia. }
  destruct (run_invariants au ps h 0 st_init HI HB HS) as [R1 _].
  destruct (recover_inv 0 _ (R1 ws)) as [(A & _) U]. split; [exact U|exact A].
Qed.

(* ---------- decidable forms of the hypotheses (used by the examples and by the link theorem) ---------- *)
Definition single_okb (r : row) : bool :=
  (r_single r =? 0) || ((c04_max_raw_id <? r_single r) && (r_single r <=? c04_max_singleton_id)).
Definition singles_okb (h : list iop) : bool :=
  forallb (fun o => match o with IEvent _ ev => forallb single_okb (e_creates ev) | IRestart => true end) h.
Definition boundedb (h : list iop) : bool :=
  (c04_first_user_id + N.of_nat (hist_rows h) <? two64)
  && forallb (fun x => x + 1 + N.of_nat (hist_rows h) <? two64) (hist_ids h).
Definition arg_ids_rawb (h : list iop) : bool :=
  forallb (fun o => match o with IEvent _ ev => forallb (fun r => is_raw (r_id r)) (e_arg ev) | IRestart => true end) h.
Definition arg_freeb (ev : event) : bool :=
  forallb (fun r => forallb (fun v => negb (is_raw v && memb v (ids (e_arg ev)))) (row_vals r)) (e_creates ev ++ e_updates ev).

Lemma single_okb_sound r : single_okb r = true -> single_ok r.
Proof. unfold single_okb, single_ok. lia. Qed.

Lemma singles_okb_sound h : singles_okb h = true -> singles_ok h.
Proof.
  unfold singles_okb, singles_ok. rewrite forallb_forall. intros H ws ev I. specialize (H _ I). cbn in H.
  apply forallb_Forall in H. eapply Forall_impl; [|exact H]. apply single_okb_sound.
Qed.

Lemma boundedb_sound h : boundedb h = true -> bounded h.
Proof.
  unfold boundedb, bounded. rewrite andb_true_iff. intros [A B]. split; [lia|].
  apply forallb_Forall in B. eapply Forall_impl; [|exact B]. cbn. intros; lia.
Qed.

Lemma arg_ids_rawb_sound h : arg_ids_rawb h = true -> arg_ids_raw h.
Proof.
  unfold arg_ids_rawb, arg_ids_raw. rewrite forallb_forall. intros H ws ev I. specialize (H _ I). cbn in H.
  apply forallb_Forall in H. exact H.
Qed.

Lemma arg_freeb_sound ev : arg_freeb ev = true -> cud_refs_arg_free ev.
Proof.
  unfold arg_freeb, cud_refs_arg_free. rewrite forallb_forall. intros H r v I IV R J.
  specialize (H r I). rewrite forallb_forall in H. specialize (H v IV).
  rewrite R in H. apply memb_In in J. rewrite J in H. discriminate.
Qed.

Definition roomb (K g : N) (rows : list row) : bool :=
  (g + N.of_nat (length rows) + K <? two64) && forallb (fun r => r_id r + 1 + N.of_nat (length rows) + K <? two64) rows.
Lemma roomb_sound K g rows : roomb K g rows = true -> room K g rows.
Proof.
  unfold roomb, room. rewrite andb_true_iff. intros [A B]. split; [lia|].
  apply forallb_Forall in B. eapply Forall_impl; [|exact B]. cbn. intros; lia.
Qed.

(* ====================================================================================== *)
(* part 4: the rows written by one event carry pairwise distinct IDs (F43)                 *)
(* ====================================================================================== *)
(* explicit IDs chosen by a sync client lie above the singleton band ... *)
Definition explicit_above_singletons (ev : event) : Prop :=
  Forall (fun r => is_raw (r_id r) = false -> c04_max_singleton_id < r_id r) (e_arg ev ++ e_creates ev).
(* ... and (only needed while the generator is not moved past them before the first NextID) below the generator *)
Definition explicit_below (g : N) (ev : event) : Prop :=
  Forall (fun r => is_raw (r_id r) = false -> r_id r < g) (e_arg ev ++ e_creates ev).

Lemma NoDup_map_inj_in {A B} (f : A -> B) l :
  (forall a b, In a l -> In b l -> f a = f b -> a = b) -> NoDup l -> NoDup (map f l).
Proof.
  intros INJ ND. induction ND as [|x t NI ND IH]; cbn; [constructor|]. constructor.
  - intros I. apply in_map_iff in I. destruct I as [y [E I]].
    assert (y = x) by (apply INJ; [right; exact I|left; reflexivity|exact E]). subst. contradiction.
  - apply IH. intros a b Ia Ib. apply INJ; right; assumption.
Qed.

Lemma NoDup_app_swap {T} (a b : list T) : NoDup (a ++ b) -> NoDup (b ++ a).
Proof.
  intros H. pose proof (NoDup_app_l _ _ H) as Ha. pose proof (NoDup_app_r _ _ H) as Hb.
  induction b as [|y b IH]; cbn; [exact Ha|].
  inversion Hb as [|? ? NIy NDb]; subst. constructor.
  - intros I. apply in_app_or in I. destruct I as [I|I]; [contradiction|].
    exact (NoDup_app_disj _ _ y H I (or_introl eq_refl)).
  - apply IH; [|exact NDb].
    clear IH. induction a as [|x a IHa]; cbn in *; [exact NDb|].
    inversion H as [|? ? NIx NDx]; subst. inversion Ha; subst. constructor.
    + intros I. apply NIx. apply in_app_or in I. apply in_or_app. destruct I as [I|I]; [left; exact I|right; right; exact I].
    + apply IHa; assumption.
Qed.

Lemma nodup_snd_inj (l : list (N * N)) a b v : NoDup (map snd l) -> In (a, v) l -> In (b, v) l -> a = b.
Proof.
  induction l as [|[k x] t IH]; cbn; intros ND Ia Ib; [contradiction|].
  inversion ND as [|? ? NI ND']; subst. destruct Ia as [Ea|Ia]; destruct Ib as [Eb|Ib].
  - congruence.
  - inversion Ea; subst. exfalso. apply NI. apply (in_map snd) in Ib. exact Ib.
  - inversion Eb; subst. exfalso. apply NI. apply (in_map snd) in Ia. exact Ia.
  - eapply IH; eassumption.
Qed.

Lemma singles_inj l r r' :
  NoDup (filter (fun s => negb (s =? 0)) (map r_single l)) -> In r l -> In r' l ->
  r_single r = r_single r' -> r_single r <> 0 -> r = r'.
Proof.
  induction l as [|x t IH]; cbn; intros ND I I' E NZ; [contradiction|].
  assert (MEM : forall y, In y t -> r_single y <> 0 -> In (r_single y) (filter (fun s => negb (s =? 0)) (map r_single t))).
  { intros y Iy NZy. apply filter_In. split; [apply in_map; exact Iy|]. apply negb_true_iff. apply N.eqb_neq. exact NZy. }
  destruct (N.eqb_spec (r_single x) 0) as [Z|NZx]; cbn [negb] in ND.
  - destruct I as [<-|I]; [congruence|]. destruct I' as [<-|I']; [congruence|]. apply IH; assumption.
  - inversion ND as [|? ? NI ND']; subst. destruct I as [<-|I]; destruct I' as [<-|I'].
    + reflexivity.
    + exfalso. apply NI. rewrite E. apply MEM; [exact I'|congruence].
    + exfalso. apply NI. rewrite <- E. apply MEM; [exact I|exact NZ].
    + apply IH; assumption.
Qed.

Theorem stored_ids_distinct_proved : forall au ps g ev g' ev' rep,
  valid ev = true -> Forall single_ok (e_creates ev) -> c04_first_user_id <= g ->
  room 0 g (e_arg ev ++ e_creates ev) ->
  explicit_above_singletons ev ->
  c04_sync_prepass = true \/ explicit_below g ev ->
  regenerate_gen au ps g ev = (g', ev', rep) ->
  NoDup (event_ids ev').
Proof.
  intros au ps g ev g' ev' rep Hv Hs Hg Hr HAS HPP E.
  destruct (regenerate_passes au ps 0 g ev Hv Hg Hr g' ev' rep E) as (pa & pc & g1 & repc & P).
  pose proof (valid_spec ev Hv) as VF.
  set (g0 := presync g (e_arg ev ++ e_creates ev)).
  set (m := mu pa pc).
  pose proof (ps_chain_a0 _ _ _ _ _ _ _ _ _ _ _ _ P) as CA0. fold g0 in CA0.
  pose proof (ps_chain_c _ _ _ _ _ _ _ _ _ _ _ _ P) as CC.
  assert (G01 : g <= g0 /\ g0 <= g1 /\ g1 <= g').
  { pose proof (chain_le _ _ _ CA0). pose proof (chain_le _ _ _ CC).
    destruct Hr as [A B].
    destruct (presync_spec c04_sync_prepass (N.of_nat (length (e_arg ev ++ e_creates ev)) + 0) (e_arg ev ++ e_creates ev) g) as (X & _ & _);
      [eapply Forall_impl; [|exact B]; cbn; intros; lia | lia | ]. fold (presync g (e_arg ev ++ e_creates ev)) in X. fold g0 in X. lia. }
  assert (REPND : NoDup (map snd rep)).
  { rewrite (ps_rep _ _ _ _ _ _ _ _ _ _ _ _ P), map_app. eapply chain_NoDup. eapply chain_app; [exact CA0|exact CC]. }
  (* the stored IDs are the images of the declared IDs under m *)
  assert (IDS : event_ids ev' = map m (ids (e_creates ev) ++ ids (e_arg ev))).
  { unfold event_ids. rewrite map_app. f_equal.
    - rewrite (ps_creates _ _ _ _ _ _ _ _ _ _ _ _ P). unfold ids. rewrite !map_map. apply map_ext_in. intros r I.
      rewrite (stored_create_id au ps 0 g ev Hv Hs Hg g' ev' rep pa pc g1 repc P r I).
      symmetry. apply (mu_create_id au ps 0 g ev g' ev' rep pa pc g1 repc P). unfold ids. apply in_map. exact I.
    - rewrite (ps_arg _ _ _ _ _ _ _ _ _ _ _ _ P). unfold ids. rewrite !map_map. apply map_ext_in. intros r I.
      rewrite (stored_arg_id au ps 0 g ev Hv Hg g' ev' rep pa pc g1 repc P r I).
      symmetry. apply (mu_arg_id au ps 0 g ev Hv g' ev' rep pa pc g1 repc P). unfold ids. apply in_map. exact I. }
  rewrite IDS. apply NoDup_map_inj_in.
  2:{ pose proof (vf_nodup _ VF) as ND. unfold all_ids in ND. rewrite app_assoc in ND. apply NoDup_app_l in ND.
      apply NoDup_app_swap. exact ND. }
  (* classification of a declared ID *)
  assert (CLS : forall d, In d (ids (e_creates ev) ++ ids (e_arg ev)) ->
      (g0 <= m d /\ In (d, m d) rep)
      \/ (exists r, In r (e_creates ev) /\ r_id r = d /\ r_single r <> 0 /\ m d = r_single r /\ r_single r <= c04_max_singleton_id)
      \/ (is_raw d = false /\ m d = d /\ c04_max_singleton_id < d /\ d < g0)).
  { intros d I.
    assert (EXPL : forall r, In r (e_arg ev ++ e_creates ev) -> is_raw (r_id r) = false ->
                   m (r_id r) = r_id r /\ c04_max_singleton_id < r_id r /\ r_id r < g0).
    { intros r Ir R. split; [apply mu_not_raw; exact R|]. unfold explicit_above_singletons in HAS. rewrite Forall_forall in HAS.
      split; [apply HAS; assumption|].
      pose proof (vf_nonnull _ VF) as NN. rewrite Forall_forall in NN.
      destruct HPP as [PP|BL].
      - pose proof (ps_expl0 _ _ _ _ _ _ _ _ _ _ _ _ P PP) as EX. rewrite Forall_forall in EX. apply EX; auto.
      - unfold explicit_below in BL. rewrite Forall_forall in BL. specialize (BL r Ir R). lia. }
    apply in_app_or in I. destruct I as [I|I]; unfold ids in I; apply in_map_iff in I; destruct I as [r [<- I]].
    - destruct (is_raw (r_id r)) eqn:R.
      + unfold m. rewrite (mu_create_id au ps 0 g ev g' ev' rep pa pc g1 repc P) by (unfold ids; apply in_map; exact I).
        destruct (pc_value au ps 0 g ev g' ev' rep pa pc g1 repc P r I R) as [(Z & A & B & IN)|(NZ & EQ)].
        * left. split; [lia|]. rewrite (ps_rep _ _ _ _ _ _ _ _ _ _ _ _ P). apply in_or_app. right. exact IN.
        * right. left. exists r. rewrite Forall_forall in Hs. destruct (Hs r I) as [Z|[_ S2]]; [congruence|]. auto.
      + right. right. destruct (EXPL r (in_or_app _ _ _ (or_intror I)) R) as (A & B & C). auto.
    - destruct (is_raw (r_id r)) eqn:R.
      + left. assert (IA : In (r_id r) (ids (e_arg ev))) by (unfold ids; apply in_map; exact I).
        unfold m. rewrite (mu_arg_id au ps 0 g ev Hv g' ev' rep pa pc g1 repc P _ IA).
        assert (IN : In (r_id r, sub_cud pa (r_id r)) pa).
        { unfold sub_cud. rewrite R. destruct (plan_get pa (r_id r)) eqn:PG; [apply plan_get_some_in; exact PG|].
          exfalso. apply plan_get_none in PG. apply PG. rewrite (ps_keys_a _ _ _ _ _ _ _ _ _ _ _ _ P).
          apply raw_ids_In. split; assumption. }
        split.
        * pose proof (in_map snd _ _ IN) as IS. cbn in IS. exact (proj1 (chain_bounds _ _ _ CA0 _ IS)).
        * rewrite (ps_rep _ _ _ _ _ _ _ _ _ _ _ _ P). apply in_or_app. left. exact IN.
      + right. right. destruct (EXPL r (in_or_app _ _ _ (or_introl I)) R) as (A & B & C). auto. }
  pose proof layout_singletons_reserved as [LS1 LS2].
  intros a b Ia Ib EQ.
  destruct (CLS a Ia) as [[A1 A2]|[[ra (A1 & A2 & A3 & A4 & A5)]|(A1 & A2 & A3 & A4)]];
  destruct (CLS b Ib) as [[B1 B2]|[[rb (B1 & B2 & B3 & B4 & B5)]|(B1 & B2 & B3 & B4)]]; try lia.
  - rewrite EQ in A2. exact (nodup_snd_inj rep a b (m b) REPND A2 B2).
  - assert (ra = rb).
    { apply (singles_inj (e_creates ev)); [exact (vf_singles _ VF)|assumption|assumption|congruence|exact A3]. }
    subst. congruence.
Qed.

Definition explicit_above_singletonsb (ev : event) : bool :=
  forallb (fun r => is_raw (r_id r) || (c04_max_singleton_id <? r_id r)) (e_arg ev ++ e_creates ev).
Lemma explicit_above_singletonsb_sound ev : explicit_above_singletonsb ev = true -> explicit_above_singletons ev.
Proof.
  unfold explicit_above_singletonsb, explicit_above_singletons. intros H. apply forallb_Forall in H.
  eapply Forall_impl; [|exact H]. cbn. intros r A R. lia.
Qed.
Definition explicit_belowb (g : N) (ev : event) : bool :=
  forallb (fun r => is_raw (r_id r) || (r_id r <? g)) (e_arg ev ++ e_creates ev).
Lemma explicit_belowb_sound g ev : explicit_belowb g ev = true -> explicit_below g ev.
Proof.
  unfold explicit_belowb, explicit_below. intros H. apply forallb_Forall in H.
  eapply Forall_impl; [|exact H]. cbn. intros r A R. lia.
Qed.

(* after any history: the rows one accepted event writes carry pairwise distinct IDs *)
Theorem stored_ids_distinct_hist_proved : forall au ps h ws ev w' ev' rep,
  bounded (h ++ [IEvent ws ev]) -> singles_ok (h ++ [IEvent ws ev]) ->
  explicit_above_singletons ev ->
  c04_sync_prepass = true \/ explicit_below (w_next (run_gen au ps st_init h ws)) ev ->
  step_event_gen au ps (run_gen au ps st_init h ws) ev = (w', Accepted ev' rep) ->
  NoDup (event_ids ev').
Proof.
  intros au ps h ws ev w' ev' rep HB HS HX HP E.
  destruct (reach au ps h ws ev HB HS) as (I & B & S & _). set (w := run_gen au ps st_init h ws) in *.
  destruct (step_event_accepts au ps w ev _ _ _ E) as (Hv & RG & _).
  rewrite <- (N.add_0_r (N.of_nat (ev_rows ev))) in I.
  pose proof (step_room 0 w ev I B) as RM. destruct I as (A & _ & _).
  exact (stored_ids_distinct_proved au ps (w_next w) ev _ ev' rep Hv S A RM HX HP RG).
Qed.
