(* C04 - record-ID generation and raw-ID substitution: executable model (definitions only).

   Mirrors, as written in the Go sources:
     pkg/istructsmem/idgenerator.go        implIIDGenerator.NextID / UpdateOnSync (uint64 arithmetic)
     pkg/istructsmem/event-types.go        eventType.regenerateIDs = objectType.regenerateIDs (argument tree,
                                           own plan, missing key -> 0) then cudType.regenerateIDs (plan =
                                           argument's plan + own entries, missing key -> value kept)
     pkg/istructsmem/validation.go         validateEventIDs (the ID rules only)
     pkg/processors/command/impl.go        recovery: UpdateOnSync over new CUD ids, then the argument tree,
                                           of every logged event of the workspace
   Three flags taken from the source by the translator select the code before/after the repairs of F12, F41,
   F42 (regenerate_gen / update_on_sync_gen); the instances used by agrees follow the current source.
   The argument tree is given flattened in pre-order (the order of objectType.forEach); r_parent of an
   argument row is the ID of its tree parent (what validateObject enforces/restores). *)
From Coq Require Import List NArith Bool.
From V Require Import Lib.Check Gen.Params.
Import ListNotations.
Local Open Scope N_scope.

Definition two64 : N := 18446744073709551616.
Definition u64 (x : N) : N := x mod two64.

Definition is_raw (id : N) : bool := (c04_min_raw_id <=? id) && (id <=? c04_max_raw_id).
Definition is_reserved (id : N) : bool := (c04_max_raw_id <? id) && (id <=? c04_max_reserved_id).

(* ---- generator ---- *)
Definition next_id (g : N) : N * N := (g, u64 (g + 1)).
(* [limit] = the largest syncID UpdateOnSync reacts to: MaxUint64 without any guard (then syncID+1 wraps, F42),
   MaxUint64-1 with the guard `syncID < math.MaxUint64` (the source as it is) *)
Definition update_on_sync_gen (limit : N) (g id : N) : N :=
  if (g <=? id) && (id <=? limit) then u64 (id + 1) else g.
Definition update_on_sync := update_on_sync_gen c04_update_on_sync_limit.

(* ---- rows, events ---- *)
(* r_single: 0, or the registry ID of the row's singleton type (input: the harness reads it from
   IRecords.GetSingletonID; observed rows carry 0) *)
Record row := mkRow { r_id : N; r_parent : N; r_refs : list N; r_single : N }.
Record event := mkEv { e_sync : bool; e_arg : list row; e_creates : list row; e_updates : list row }.

Definition set_id (r : row) (id : N) : row := mkRow id (r_parent r) (r_refs r) (r_single r).
Definition map_row (f : N -> N) (r : row) : row := mkRow (f (r_id r)) (f (r_parent r)) (map f (r_refs r)) (r_single r).

(* ---- plans: Go maps written in chronological order (the last write of a key wins) ---- *)
Definition plan := list (N * N).
Fixpoint plan_get (p : plan) (k : N) : option N :=
  match p with
  | [] => None
  | (a, b) :: t => match plan_get t k with Some x => Some x | None => if a =? k then Some b else None end
  end.

(* objectType.regenerateIDs second pass: a raw value becomes newIDs[value] (0 when missing) *)
Definition sub_arg (p : plan) (v : N) : N :=
  if is_raw v then match plan_get p v with Some x => x | None => 0 end else v.
(* regenerateIDsInRecord: a raw value found in the plan is replaced, otherwise kept *)
Definition sub_cud (p : plan) (v : N) : N :=
  if is_raw v then match plan_get p v with Some x => x | None => v end else v.

(* first pass over the argument tree; [au] = "the pass calls UpdateOnSync for explicit IDs" (before the repair of F41: no) *)
Fixpoint arg_assign (au : bool) (g : N) (rows : list row) : N * list row * plan :=
  match rows with
  | [] => (g, [], [])
  | r :: t =>
      if is_raw (r_id r) then
        let '(g', t', p) := arg_assign au (u64 (g + 1)) t in (g', set_id r g :: t', (r_id r, g) :: p)
      else
        let '(g', t', p) := arg_assign au (if au then update_on_sync g (r_id r) else g) t in (g', r :: t', p)
  end.

(* c.setParent(newIDs[parent]) if raw, then the loop over RecordIDs (sys.ID, sys.ParentID, ref fields) *)
Definition rewrite_arg (p : plan) (r : row) : row :=
  mkRow (sub_arg p (r_id r)) (sub_arg p (sub_arg p (r_parent r))) (map (sub_arg p) (r_refs r)) (r_single r).

(* cudType.regenerateIDsPlan: returns the generator, the rows with their IDs set, the plan entries and the
   (raw, storage) pairs that went through NextID (singleton IDs come from the registry, not from NextID) *)
Fixpoint cud_assign (g : N) (rows : list row) : N * list row * plan * list (N * N) :=
  match rows with
  | [] => (g, [], [], [])
  | r :: t =>
      if negb (is_raw (r_id r)) then
        let '(g', t', p, rep) := cud_assign (update_on_sync g (r_id r)) t in (g', r :: t', p, rep)
      else if negb (r_single r =? 0) then
        let '(g', t', p, rep) := cud_assign g t in (g', set_id r (r_single r) :: t', (r_id r, r_single r) :: p, rep)
      else
        let '(g', t', p, rep) := cud_assign (u64 (g + 1)) t in (g', set_id r g :: t', (r_id r, g) :: p, (r_id r, g) :: rep)
  end.

(* eventType.regenerateIDs, proposed repair of F43: before the first pass every explicit (not raw, not null) ID of the
   argument rows and the creates is fed to UpdateOnSync.  [pp] = "that pre-pass exists" (as written: no) *)
Definition presync_gen (pp : bool) (g : N) (rows : list row) : N :=
  if pp then
    fold_left (fun a r => if is_raw (r_id r) || (r_id r =? 0) then a else update_on_sync a (r_id r)) rows g
  else g.
Definition presync := presync_gen c04_sync_prepass.

(* [ps] = "the CUD pass starts from the argument's plan" (before the repair of F12: no, two independent plans) *)
Definition regenerate_gen (au ps : bool) (g : N) (ev : event) : N * event * list (N * N) :=
  let '(g1, arg1, pa) := arg_assign au (presync g (e_arg ev ++ e_creates ev)) (e_arg ev) in
  let '(g2, cr1, pc, rep) := cud_assign g1 (e_creates ev) in
  let p := (if ps then pa else []) ++ pc in
  (g2, mkEv (e_sync ev) (map (rewrite_arg pa) arg1) (map (map_row (sub_cud p)) cr1) (map (map_row (sub_cud p)) (e_updates ev)),
   pa ++ rep).

Definition regenerate := regenerate_gen c04_arg_updates_on_sync c04_plans_shared.

(* ---- validation (ID rules of validateEventIDs + sys.ID required) ---- *)
Definition memb (x : N) (l : list N) : bool := existsb (N.eqb x) l.
Fixpoint nodupb (l : list N) : bool :=
  match l with [] => true | x :: t => negb (memb x t) && nodupb t end.

Definition ids (rows : list row) : list N := map r_id rows.
Definition all_ids (ev : event) : list N := ids (e_arg ev) ++ ids (e_creates ev) ++ ids (e_updates ev).
(* the values RecordIDs(false) yields for a CUD row *)
Definition row_vals (r : row) : list N := r_id r :: r_parent r :: r_refs r.

(* validateObjectIDs looks at the argument's reference fields (RefFields) only; a plain RecordID field (AddField with
   DataKind_RecordID) is not checked there although objectType.regenerateIDs rewrites it like a reference (finding
   F46).  Encoding convention of the traces: the LAST element of r_refs is the row type's plain RecordID field, the
   others are its reference fields.  [c04_arg_plain_checked] = "validation checks every RecordID field of the argument" *)
Definition checked_arg_fields (l : list N) : list N := if c04_arg_plain_checked then l else removelast l.

Definition known_or_not_raw (known : list N) (v : N) : bool := (v =? 0) || memb v known || negb (is_raw v).

Definition valid (ev : event) : bool :=
  (* sys.ID is required *)
  forallb (fun r => negb (r_id r =? 0)) (e_arg ev ++ e_creates ev)
  (* new (not synced) events must use raw IDs in the argument and in creates *)
  && (e_sync ev || forallb (fun r => is_raw (r_id r)) (e_arg ev ++ e_creates ev))
  (* updates address storage IDs *)
  && forallb (fun r => negb (is_raw (r_id r))) (e_updates ev)
  (* one ID, one row - across argument, creates and updates *)
  && nodupb (all_ids ev)
  (* a singleton at most once *)
  && nodupb (filter (fun s => negb (s =? 0)) (map r_single (e_creates ev)))
  (* flattened tree: a parent is the ID of an argument row (representation invariant, see header) *)
  && forallb (fun r => (r_parent r =? 0) || memb (r_parent r) (ids (e_arg ev))) (e_arg ev)
  (* argument ref fields: a raw value must be an argument row's ID *)
  && forallb (fun r => forallb (known_or_not_raw (ids (e_arg ev))) (checked_arg_fields (r_refs r))) (e_arg ev)
  (* CUD rows: a raw value must be the ID of some row of the event (argument rows included) *)
  && forallb (fun r => forallb (known_or_not_raw (all_ids ev)) (row_vals r)) (e_creates ev ++ e_updates ev)
  (* explicit IDs must not exceed MaxRecordID (proposed repair of F44; without it the bound is MaxUint64: no check) *)
  && forallb (fun r => r_id r <=? c04_max_record_id) (e_arg ev ++ e_creates ev).

(* ---- workspaces, histories ---- *)
(* w_log: the IDs recovery feeds to UpdateOnSync, in its order: per logged event the new CUD ids, then the argument tree *)
(* w_recs: the IDs of the records created so far (the stored IDs of all creates): the slots IRecords holds *)
Record wstate := mkW { w_next : N; w_log : list N; w_recs : list N }.
Definition state := N -> wstate.
Definition w_init : wstate := mkW c04_first_user_id [] [].
Definition st_init : state := fun _ => w_init.
Definition upd (st : state) (ws : N) (w : wstate) : state := fun k => if k =? ws then w else st k.

Definition event_ids (ev' : event) : list N := ids (e_creates ev') ++ ids (e_arg ev').

Inductive out := Rejected | Accepted (ev' : event) (rep : list (N * N)).

(* appRecordsType.validEvent (called by BuildRawEvent): a create of a singleton type is refused when a record - active
   or not - already sits at the type's registry ID.  [sg] = "the guard asks only whether the slot is occupied" *)
Definition slot_free_gen (sg : bool) (recs : list N) (ev : event) : bool :=
  if sg then forallb (fun r => (r_single r =? 0) || negb (memb (r_single r) recs)) (e_creates ev) else true.
Definition slot_free := slot_free_gen c04_singleton_slot_guard.
Definition accepts (w : wstate) (ev : event) : bool := valid ev && slot_free (w_recs w) ev.

Definition step_event_gen (au ps : bool) (w : wstate) (ev : event) : wstate * out :=
  if accepts w ev then
    let '(g', ev', rep) := regenerate_gen au ps (w_next w) ev in
    (mkW g' (w_log w ++ event_ids ev') (w_recs w ++ ids (e_creates ev')), Accepted ev' rep)
  else (w, Rejected).
Definition step_event := step_event_gen c04_arg_updates_on_sync c04_plans_shared.

Definition recover (w : wstate) : wstate := mkW (fold_left update_on_sync (w_log w) c04_first_user_id) (w_log w) (w_recs w).

Inductive iop := IEvent (ws : N) (ev : event) | IRestart.

Definition step_gen (au ps : bool) (st : state) (o : iop) : state :=
  match o with
  | IEvent ws ev => upd st ws (fst (step_event_gen au ps (st ws) ev))
  | IRestart => fun k => recover (st k)
  end.
Definition run_gen (au ps : bool) (st : state) (h : list iop) : state := fold_left (step_gen au ps) h st.
Definition run := run_gen c04_arg_updates_on_sync c04_plans_shared.

(* ---- traces ---- *)
Record obs := mkObs {
  o_ok : bool;                 (* event accepted (built, logged, applied) *)
  o_newids : list (N * N);     (* NextID calls (hook) / NewIDs of the command response, sorted by raw ID *)
  o_arg : list row;            (* argument tree read back from the PLog, pre-order *)
  o_creates : list row;        (* new CUD rows read back from the PLog *)
  o_updates : list row;        (* update CUD rows read back from the PLog, ascending ID *)
  o_recs : list row }.         (* IRecords.Get of every created row right after the event *)

(* OEventV2: the same event sent through an APIv2 path of the command processor (camel-cased reply) *)
Inductive op := OEvent (ws : N) (ev : event) (o : obs) | ORestart | OEventV2 (ws : N) (ev : event) (o : obs).
Definition trace := list op.

Definition row_eqb (a b : row) : bool :=
  (r_id a =? r_id b) && (r_parent a =? r_parent b) && list_eqb N.eqb (r_refs a) (r_refs b).
Definition rows_eqb := list_eqb row_eqb.
Definition pair_eqb (a b : N * N) : bool := (fst a =? fst b) && (snd a =? snd b).

Fixpoint insert_pair (x : N * N) (l : list (N * N)) : list (N * N) :=
  match l with
  | [] => [x]
  | y :: t => if fst x <=? fst y then x :: l else y :: insert_pair x t
  end.
Definition sort_pairs (l : list (N * N)) : list (N * N) := fold_right insert_pair [] l.

(* sendResponse re-encodes the reply of the APIv2 paths through map[string]interface{}: unless the decoder keeps numbers
   exact (c04_apiv2_reply_exact), every number goes through float64 - round to nearest, ties to even, 53-bit mantissa *)
Definition f64_round (x : N) : N :=
  if x <? 9007199254740992 then x
  else
    let e := N.log2 x - 52 in
    let q := N.shiftr x e in
    let r := x - N.shiftl q e in
    let half := N.shiftl 1 (e - 1) in
    let q' := if (half <? r) || ((r =? half) && N.odd q) then q + 1 else q in
    N.shiftl q' e.
Definition apiv2_number (x : N) : N := if c04_apiv2_reply_exact then x else f64_round x.

(* agrees: replay the inputs on the implementation model, compare every observable *)
(* one event: [enc] = what the reply's encoding preserves of a storage ID (the reply prints a float64 with the shortest
   digits that read back as the same float64, so both sides are compared as float64 when the encoding is not exact) *)
Definition agrees_event (enc : N -> N) (st : state) (ws : N) (ev : event) (o : obs) : bool * wstate :=
  let '(w', r) := step_event (st ws) ev in
  ((match r with
       | Rejected => negb (o_ok o) && list_eqb pair_eqb [] (o_newids o)
                     && rows_eqb [] (o_arg o) && rows_eqb [] (o_creates o) && rows_eqb [] (o_updates o) && rows_eqb [] (o_recs o)
       | Accepted ev' rep =>
           (* IRecords.Apply (trust level 0) refuses an event that creates a record under an ID that already is a
              record's ID, or under one ID twice (C05's subject; what it leaves behind is not modelled): the applied
              records are then not compared, and the command processor answers with an error instead of NewIDs *)
           let clash := existsb (fun x => memb x (w_recs (st ws))) (ids (e_creates ev')) || negb (nodupb (ids (e_creates ev'))) in
           o_ok o
           && (list_eqb pair_eqb (map (fun p => (fst p, enc (snd p))) (sort_pairs rep)) (map (fun p => (fst p, enc (snd p))) (o_newids o)) || (clash && list_eqb pair_eqb [] (o_newids o)))
           && rows_eqb (e_arg ev') (o_arg o) && rows_eqb (e_creates ev') (o_creates o)
           && rows_eqb (e_updates ev') (o_updates o)
           && (clash || rows_eqb (e_creates ev') (o_recs o))
       end), w').

Fixpoint agrees_from (st : state) (t : trace) : bool :=
  match t with
  | [] => true
  | ORestart :: rest => agrees_from (step_gen c04_arg_updates_on_sync c04_plans_shared st IRestart) rest
  | OEvent ws ev o :: rest =>
      let '(ok, w') := agrees_event (fun x => x) st ws ev o in ok && agrees_from (upd st ws w') rest
  | OEventV2 ws ev o :: rest =>
      let '(ok, w') := agrees_event apiv2_number st ws ev o in ok && agrees_from (upd st ws w') rest
  end.
Definition agrees (t : trace) : bool := agrees_from st_init t.

(* ---- the property oracle, on observed outputs only ---- *)
Fixpoint lookup (m : list (N * N)) (k : N) : option N :=
  match m with [] => None | (a, b) :: t => if a =? k then Some b else lookup t k end.

(* raw -> stored ID of the row that declared it (rows zipped by position) *)
Fixpoint declared (ins sts : list row) : list (N * N) :=
  match ins, sts with
  | i :: ins', s :: sts' => if is_raw (r_id i) then (r_id i, r_id s) :: declared ins' sts' else declared ins' sts'
  | _, _ => []
  end.

(* a value as stored vs as sent: a raw value must have become the storage ID of the row that declared it,
   any other value must be unchanged *)
Definition val_ok (mu : list (N * N)) (vin vst : N) : bool :=
  if is_raw vin then match lookup mu vin with Some s => vst =? s | None => false end else vst =? vin.

Fixpoint vals_ok (mu : list (N * N)) (ins sts : list N) : bool :=
  match ins, sts with
  | [], [] => true
  | i :: ins', s :: sts' => val_ok mu i s && vals_ok mu ins' sts'
  | _, _ => false
  end.

Definition row_ok (mu : list (N * N)) (i s : row) : bool :=
  val_ok mu (r_id i) (r_id s) && val_ok mu (r_parent i) (r_parent s) && vals_ok mu (r_refs i) (r_refs s).

Fixpoint rows_ok (mu : list (N * N)) (ins sts : list row) : bool :=
  match ins, sts with
  | [], [] => true
  | i :: ins', s :: sts' => row_ok mu i s && rows_ok mu ins' sts'
  | _, _ => false
  end.

(* the (raw, storage) pairs the client must be told: every declared raw ID, except those of singleton creates
   ([singles] = true: rows with a registry ID are skipped) *)
Fixpoint expected_newids (singles : bool) (ins sts : list row) : list (N * N) :=
  match ins, sts with
  | i :: ins', s :: sts' =>
      if is_raw (r_id i) && (negb singles || (r_single i =? 0)) then (r_id i, r_id s) :: expected_newids singles ins' sts'
      else expected_newids singles ins' sts'
  | _, _ => []
  end.

Definition storage_id (x : N) : bool := negb (x =? 0) && negb (is_raw x).

(* substitution: every declared raw ID got a storage ID, every occurrence of it (IDs, parents, refs; argument,
   creates, updates) is that storage ID, everything else is untouched, and the reported NewIDs are exactly the
   stored IDs of the declared non-singleton rows *)
(* [refused] = IRecords.Apply had to refuse the event: one of its creates carries an ID that the workspace's log
   already holds, or two of them carry one ID (whether that is the system's fault is judged by fresh_ok /
   assigned_fresh / new_event_ok, not here; an explicit ID chosen by a sync client is the client's).  The command
   then ends with an error: no NewIDs are reported, and the records are what they were. *)
Definition apply_refused (seen : list N) (o : obs) : bool :=
  existsb (fun x => memb x seen) (ids (o_creates o)) || negb (nodupb (ids (o_creates o))).

Definition subst_ok_gen (refused : bool) (ev : event) (o : obs) : bool :=
  let ins := e_arg ev ++ e_creates ev in
  let sts := o_arg o ++ o_creates o in
  let mu := declared ins sts in
  Nat.eqb (length (o_arg o)) (length (e_arg ev)) && Nat.eqb (length (o_creates o)) (length (e_creates ev))
  && forallb (fun p => storage_id (snd p)) mu
  && rows_ok mu ins sts && rows_ok mu (e_updates ev) (o_updates o)
  && (list_eqb pair_eqb (sort_pairs (expected_newids false (e_arg ev) (o_arg o) ++ expected_newids true (e_creates ev) (o_creates o)))
                        (sort_pairs (o_newids o))
      || (refused && list_eqb pair_eqb [] (o_newids o)))
  && (rows_eqb (o_creates o) (o_recs o) || refused).
Definition subst_ok := subst_ok_gen false.

(* freshness: generated IDs are user IDs (not null, raw or reserved), pairwise distinct, and none was ever
   stored in this workspace before (seen = every argument/create ID logged earlier, explicit or generated) *)
Definition fresh_ok (seen : list N) (o : obs) : bool :=
  let gen := map snd (o_newids o) in
  forallb (fun x => c04_first_user_id <=? x) gen && nodupb gen && forallb (fun x => negb (memb x seen)) gen
  (* and no two rows written by the event share a storage ID (explicit, generated or singleton) *)
  && nodupb (ids (o_creates o) ++ ids (o_arg o)).

(* a new (not synced) event cannot bring storage IDs of the client's choosing into the log: every ID stored for
   an argument row or a create is one the generator just handed out (so, by fresh_ok, a user ID that the
   workspace never stored before) or the registry ID of the row's singleton type.  Judged on what was stored,
   whether or not validation should have accepted the event. *)
Fixpoint issued_ok (gen : list N) (ins sts : list row) : bool :=
  match ins, sts with
  | i :: ins', s :: sts' =>
      (memb (r_id s) gen || (negb (r_single i =? 0) && (r_id s =? r_single i))) && issued_ok gen ins' sts'
  | _, _ => true
  end.
Definition new_event_ok (ev : event) (o : obs) : bool :=
  e_sync ev || issued_ok (map snd (o_newids o)) (e_arg ev ++ e_creates ev) (o_arg o ++ o_creates o).

(* every ID the system itself assigns - to a row that came with a raw ID: a generated ID or the registry ID of a
   singleton - is new to the workspace's log: in particular a singleton is created at most once per workspace *)
Fixpoint assigned_fresh (seen : list N) (ins sts : list row) : bool :=
  match ins, sts with
  | i :: ins', s :: sts' => (negb (is_raw (r_id i)) || negb (memb (r_id s) seen)) && assigned_fresh seen ins' sts'
  | _, _ => true
  end.

Fixpoint satisfies_from (seen : N -> list N) (t : trace) : bool :=
  match t with
  | [] => true
  | ORestart :: rest => satisfies_from seen rest
  | OEvent ws ev o :: rest =>
      if o_ok o then
        subst_ok_gen (apply_refused (seen ws) o) ev o && new_event_ok ev o && fresh_ok (seen ws) o
        && assigned_fresh (seen ws) (e_arg ev ++ e_creates ev) (o_arg o ++ o_creates o)
        && satisfies_from (fun k => if k =? ws then seen ws ++ ids (o_creates o) ++ ids (o_arg o) else seen k) rest
      else satisfies_from seen rest
  | OEventV2 ws ev o :: rest =>
      if o_ok o then
        subst_ok_gen (apply_refused (seen ws) o) ev o && new_event_ok ev o && fresh_ok (seen ws) o
        && assigned_fresh (seen ws) (e_arg ev ++ e_creates ev) (o_arg o ++ o_creates o)
        && satisfies_from (fun k => if k =? ws then seen ws ++ ids (o_creates o) ++ ids (o_arg o) else seen k) rest
      else satisfies_from seen rest
  end.
Definition satisfies (t : trace) : bool := satisfies_from (fun _ => []) t.
