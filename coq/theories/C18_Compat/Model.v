(* C18 - model of pkg/appdefcompat/impl.go: compareNodes / matchNodes / checkConstraint /
   findConstraint / findNodeByName over the compatibility tree (CompatibilityTreeNode), with
   the constraint bit values and the node-name -> constraint table taken from the Go source by
   the translator (Gen/Params.v).  Definitions only. *)
From Coq Require Import List NArith Bool String Ascii Arith.
From V Require Import Lib.Check Gen.Params.
Import ListNotations.


(* ---- the tree (types.go: CompatibilityTreeNode; ParentNode is replaced by an explicit path) ---- *)

(* Node.Value is an interface{} holding nil, a string (QName / descriptor / package local name),
   a bool (Abstract) or an appdef.DataKind (field nodes) *)
Inductive value := VNil | VStr (s : string) | VBool (b : bool) | VKind (k : N).

Inductive tree := Node (nm : string) (v : value) (ps : list tree).

Definition tname (t : tree) : string := match t with Node n _ _ => n end.
Definition tval (t : tree) : value := match t with Node _ v _ => v end.
Definition tprops (t : tree) : list tree := match t with Node _ _ ps => ps end.

(* cmp.Equal on the dynamic values *)
Definition value_eqb (a b : value) : bool :=
  match a, b with
  | VNil, VNil => true
  | VStr x, VStr y => String.eqb x y
  | VBool x, VBool y => Bool.eqb x y
  | VKind x, VKind y => N.eqb x y
  | _, _ => false
  end.

Inductive etype := NodeRemoved | OrderChanged | NodeInserted | ValueChanged | NodeModified | OtherError.

Definition etype_eqb (a b : etype) : bool :=
  match a, b with
  | NodeRemoved, NodeRemoved | OrderChanged, OrderChanged | NodeInserted, NodeInserted
  | ValueChanged, ValueChanged | NodeModified, NodeModified | OtherError, OtherError => true
  | _, _ => false
  end.

Definition path := list string.
Definition path_eqb : path -> path -> bool := list_eqb String.eqb.

(* types.go: CompatibilityError {Constraint, OldTreePath, ErrorType} *)
Record cerr := mkerr { e_constraint : N; e_path : path; e_type : etype }.

Definition cerr_eqb (a b : cerr) : bool :=
  N.eqb (e_constraint a) (e_constraint b) && path_eqb (e_path a) (e_path b) && etype_eqb (e_type a) (e_type b).

(* ---- constraint table ---- *)

Definition str_of_bytes (b : list N) : string := fold_right (fun n s => String (ascii_of_N n) s) EmptyString b.

Definition ctable := list (string * N).

(* impl.go: var constrains *)
Definition constrains : ctable := map (fun r => (str_of_bytes (fst r), snd r)) compat_constrains.

(* impl.go: findConstraint - first row with the node's name, ConstraintAllAllowed otherwise *)
Fixpoint find_constraint (nm : string) (cs : ctable) : N :=
  match cs with
  | [] => compat_c_all_allowed
  | (n, c) :: r => if String.eqb n nm then c else find_constraint nm r
  end.

Definition bit (c mask : N) : bool := negb (N.eqb (N.land c mask) 0).

(* ---- matchNodes ---- *)

(* impl.go: findNodeByName - the loop has no break: the LAST node with the name and its index *)
Fixpoint find_last (x : string) (l : list tree) : option (nat * tree) :=
  match l with
  | [] => None
  | t :: r => match find_last x r with
              | Some (i, y) => Some (S i, y)
              | None => if String.eqb (tname t) x then Some (O, t) else None
              end
  end.

Definition found (x : string) (l : list tree) : bool := match find_last x l with Some _ => true | None => false end.

(* DeletedNodeNames: old names without a new node, in old order *)
Definition deleted (ops nps : list tree) : list string :=
  map tname (filter (fun o => negb (found (tname o) nps)) ops).

(* ReorderedNodeNames: old nodes whose index differs from the index of the matching new node *)
Fixpoint reordered_from (i : nat) (ops nps : list tree) : list string :=
  match ops with
  | [] => []
  | o :: r => match find_last (tname o) nps with
              | Some (j, _) => if Nat.eqb i j then reordered_from (S i) r nps else tname o :: reordered_from (S i) r nps
              | None => reordered_from (S i) r nps
              end
  end.

(* (InsertedNodeCount, AppendedNodeCount): new nodes without an old node, at an index below /
   not below len(oldNodes)   [Go: i > len(oldNodes)-1 on ints] *)
Fixpoint count_new (i lo : nat) (ops nps : list tree) : nat * nat :=
  match nps with
  | [] => (O, O)
  | n :: r => let ab := count_new (S i) lo ops r in
              if found (tname n) ops then ab
              else if Nat.leb lo i then (fst ab, S (snd ab)) else (S (fst ab), snd ab)
  end.

Record mres := mkMres { m_inserted : nat; m_deleted : list string; m_appended : nat; m_reordered : list string }.

Definition match_nodes (ops nps : list tree) : mres :=
  let ab := count_new O (List.length ops) ops nps in
  mkMres (fst ab) (deleted ops nps) (snd ab) (reordered_from O ops nps).

Definition is_nil {T} (l : list T) : bool := match l with [] => true | _ => false end.
Definition pos (n : nat) : bool := negb (Nat.eqb n O).

(* ---- checkConstraint (five blocks, in source order) ---- *)
Definition check_constraint (p : path) (m : mres) (c : N) : list cerr :=
  if N.eqb c compat_c_all_allowed then [] else
  let nonmod := N.eqb c compat_c_non_modifiable in
  let app := bit c compat_c_append_only in
  let ins := bit c compat_c_insert_only in
  let ord := bit c compat_c_order_change_only in
  let nodel := is_nil (m_deleted m) in
  (if nodel && pos (m_inserted m) && (nonmod || app)
   then [mkerr c p (if nonmod then NodeModified else NodeInserted)] else []) ++
  (if nonmod && pos (m_appended m) then [mkerr c p NodeModified] else []) ++
  (if negb nodel && (nonmod || app || ins)
   then map (fun x => mkerr c (p ++ [x]) (if nonmod then NodeModified else NodeRemoved)) (m_deleted m) else []) ++
  (if negb ord && negb (is_nil (m_reordered m)) && nodel && (nonmod || app)
   then map (fun x => mkerr c (p ++ [x]) (if nonmod then NodeModified else OrderChanged)) (m_reordered m) else []) ++
  (if ord && (pos (m_appended m) || negb nodel || pos (m_inserted m)) then [mkerr c p NodeModified] else []).

(* ---- compareNodes; [p] is oldNode.Path() ---- *)
Fixpoint compare (cs : ctable) (p : path) (o n : tree) {struct o} : list cerr :=
  match o with
  | Node onm ov ops =>
      (if value_eqb ov (tval n) then [] else [mkerr compat_c_value_match p ValueChanged]) ++
      check_constraint p (match_nodes ops (tprops n)) (find_constraint onm cs) ++
      flat_map (fun c => match find_last (tname c) (tprops n) with
                         | Some (_, c') => compare cs (p ++ [tname c]) c c'
                         | None => []
                         end) ops
  end.

(* checkBackwardCompatibility(old, new).Errors *)
Definition check_compat (cs : ctable) (o n : tree) : list cerr := compare cs [tname o] o n.

(* ---- well-formed trees: sibling names are pairwise different, at every level ---- *)
Fixpoint nodupb (l : list string) : bool :=
  match l with
  | [] => true
  | x :: r => negb (existsb (String.eqb x) r) && nodupb r
  end.

Fixpoint wfb (t : tree) : bool :=
  match t with Node _ _ ps => nodupb (map tname ps) && forallb wfb ps end.

(* ---- the compatible changes of the property, as a relation on trees ----
   [Compat o n]: same value; every old child has a same-named Compat counterpart among the new
   children, in the same relative order; new children may additionally stand
     - anywhere, under a node whose constraint [allows_insert] (Types, Containers, and every node
       without a table row: Uniques, a type or workspace node, ...),
     - only after all old children, under a node whose constraint [allows_append] (Fields),
     - nowhere otherwise (PartKeyFields, ClustColsFields, CommandArgs, ...). *)
Definition allows_insert (c : N) : bool :=
  N.eqb c compat_c_all_allowed ||
  (negb (N.eqb c compat_c_non_modifiable) && negb (bit c compat_c_append_only) && negb (bit c compat_c_order_change_only)).
Definition allows_append (c : N) : bool :=
  N.eqb c compat_c_all_allowed ||
  (negb (N.eqb c compat_c_non_modifiable) && negb (bit c compat_c_order_change_only)).

Inductive Embed (R : tree -> tree -> Prop) (ia aa : bool) : list tree -> list tree -> Prop :=
| Emb_end extra : extra = [] \/ ia = true \/ aa = true -> Embed R ia aa [] extra
| Emb_cons o n os ns : tname o = tname n -> R o n -> Embed R ia aa os ns -> Embed R ia aa (o :: os) (n :: ns)
| Emb_skip x os ns : ia = true -> Embed R ia aa os ns -> Embed R ia aa os (x :: ns).

Inductive Compat (cs : ctable) : tree -> tree -> Prop :=
| Compat_node onm nnm v ops nps :
    Embed (Compat cs) (allows_insert (find_constraint onm cs)) (allows_append (find_constraint onm cs)) ops nps ->
    Compat cs (Node onm v ops) (Node nnm v nps).

(* executable check of Compat (greedy: the next old child is matched with the first new child of its name) *)
Fixpoint split_at (x : string) (l : list tree) : option (nat * tree * list tree) :=
  match l with
  | [] => None
  | t :: r => if String.eqb (tname t) x then Some (O, t, r)
              else match split_at x r with Some (k, y, r') => Some (S k, y, r') | None => None end
  end.

Section Embb.
Context (R : tree -> tree -> bool) (ia aa : bool).
Fixpoint embb (ops nps : list tree) {struct ops} : bool :=
  match ops with
  | [] => is_nil nps || ia || aa
  | o :: os => match split_at (tname o) nps with
               | Some (k, n, rest) => (Nat.eqb k O || ia) && R o n && embb os rest
               | None => false
               end
  end.
End Embb.

Fixpoint compatb (cs : ctable) (o n : tree) {struct o} : bool :=
  match o with
  | Node onm ov ops =>
      value_eqb ov (tval n) &&
      embb (fun a b => compatb cs a b) (allows_insert (find_constraint onm cs)) (allows_append (find_constraint onm cs)) ops (tprops n)
  end.

(* ---- addressing a node by its path (root name first) ---- *)
Fixpoint descend (q : path) (t : tree) : option tree :=
  match q with
  | [] => Some t
  | x :: r => match find_last x (tprops t) with Some (_, c) => descend r c | None => None end
  end.

Definition sub_at (q : path) (t : tree) : option tree :=
  match q with
  | [] => None
  | r :: rest => if String.eqb (tname t) r then descend rest t else None
  end.

Fixpoint split_last (q : path) : option (path * string) :=
  match q with
  | [] => None
  | [x] => Some ([], x)
  | y :: r => match split_last r with Some (a, x) => Some (y :: a, x) | None => None end
  end.

Fixpoint first_idx (x : string) (l : list tree) : option nat :=
  match l with
  | [] => None
  | t :: r => if String.eqb (tname t) x then Some O else option_map S (first_idx x r)
  end.

(* which constraints make checkConstraint report a removed / a displaced child *)
Definition reports_removal (c : N) : bool :=
  negb (N.eqb c compat_c_all_allowed) &&
  (N.eqb c compat_c_non_modifiable || bit c compat_c_append_only || bit c compat_c_insert_only).
Definition reports_reorder (c : N) : bool :=
  negb (N.eqb c compat_c_all_allowed) && negb (bit c compat_c_order_change_only) &&
  (N.eqb c compat_c_non_modifiable || bit c compat_c_append_only).
Definition is_nonmod (c : N) : bool :=
  negb (N.eqb c compat_c_all_allowed) && N.eqb c compat_c_non_modifiable.

(* ---- traces ----
   The harness builds two real IAppDefs (a generated schema and the schema after one catalogue
   edit), calls appdefcompat.CheckBackwardCompatibility and records: both compatibility trees
   (rebuilt from the IAppDefs), what the edit claims at tree level, and the observed Errors. *)
Inductive claim :=
| CNone                      (* unrelated pair: no claim, correspondence only *)
| CCompat                    (* a compatible change: nothing may be reported *)
| CRemoved (q : path)        (* the child q was removed from its parent (which still exists) *)
| CReordered (q : path)      (* the child q stands at another index, nothing was removed from its parent *)
| CValue (q : path)          (* the value of node q changed (field kind, command arg/result QName) *)
| CListChanged (q : path)    (* the child-name list of node q changed (view key structure) *)
| CChanged (q : path)        (* the schema element shown at node q changed (query arg/result type) *)
| CAdditive.                 (* the edit only adds schema elements (a new type in a new package): nothing may be
                                reported; unlike CCompat this does not depend on the constraint table *)

(* t_ignored: what the exported IgnoreCompatibilityErrors(errs, [claimed path]) returned *)
(* t_old / t_new are the REAL trees (appdefcompat.VerifBuildTree); t_treediff: the paths at which they
   differ from the harness's independent transcription of buildTree (empty on the unchanged code) *)
(* t_pkg_orders: buildPackagesNode ranges over a Go map, so the order of the children of AppDef/Packages in
   the trees the real call compared is unknown; when the package lists of old and new differ the harness
   lists every ordering of both child lists (empty otherwise: with equal lists the order is immaterial) *)
Record trace := mkTrace { t_old : tree; t_new : tree; t_claim : claim; t_errs : list cerr; t_ignored : list cerr;
                          t_treediff : list path; t_pkg_orders : list (list tree * list tree) }.

(* the children of AppDef/Packages and the tree with them replaced *)
Definition packages_name : string := "Packages"%string.
Definition pkgs (t : tree) : list tree :=
  match find_last packages_name (tprops t) with Some (_, c) => tprops c | None => [] end.
Definition set_pkgs (t : tree) (ps : list tree) : tree :=
  match t with
  | Node nm v cs => Node nm v (map (fun c => if String.eqb (tname c) packages_name then Node (tname c) (tval c) ps else c) cs)
  end.
Definition leaf_eqb (a b : tree) : bool :=
  String.eqb (tname a) (tname b) && value_eqb (tval a) (tval b) && is_nil (tprops a) && is_nil (tprops b).
Definition perm_b (a b : list tree) : bool :=
  Nat.eqb (List.length a) (List.length b) && forallb (fun x => existsb (leaf_eqb x) b) a && forallb (fun x => existsb (leaf_eqb x) a) b.

(* only additions: same value, every old child has a same-named counterpart in the same relative order *)
Fixpoint supertreeb (o n : tree) {struct o} : bool :=
  match o with
  | Node _ ov ops => value_eqb ov (tval n) && embb (fun a b => supertreeb a b) true true ops (tprops n)
  end.

Definition claim_paths (cl : claim) : list path :=
  match cl with
  | CNone | CCompat | CAdditive => []
  | CRemoved q | CReordered q | CValue q | CListChanged q | CChanged q => [q]
  end.

(* impl.go: ignoreCompatibilityErrors - drops the errors whose OldTreePath equals one of the paths *)
Definition ignore_errors (ps : list path) (errs : list cerr) : list cerr :=
  filter (fun e => negb (existsb (path_eqb (e_path e)) ps)) errs.

(* tree-level evidence that the two trees differ the way the claim says *)
Definition claim_holds (cs : ctable) (cl : claim) (o n : tree) : bool :=
  match cl with
  | CNone => true
  | CCompat => compatb cs o n
  | CAdditive => supertreeb o n
  | CRemoved q =>
      match split_last q with
      | Some (par, x) =>
          match sub_at par o, sub_at par n with
          | Some po, Some pn => found x (tprops po) && negb (found x (tprops pn))
          | _, _ => false
          end
      | None => false
      end
  | CReordered q =>
      match split_last q with
      | Some (par, x) =>
          match sub_at par o, sub_at par n with
          | Some po, Some pn =>
              is_nil (deleted (tprops po) (tprops pn)) &&
              match first_idx x (tprops po), find_last x (tprops pn) with
              | Some i, Some (j, _) => negb (Nat.eqb i j)
              | _, _ => false
              end
          | _, _ => false
          end
      | None => false
      end
  | CValue q =>
      match sub_at q o, sub_at q n with
      | Some a, Some b => negb (value_eqb (tval a) (tval b))
      | _, _ => false
      end
  | CListChanged q =>
      match sub_at q o, sub_at q n with
      | Some a, Some b => negb (list_eqb String.eqb (map tname (tprops a)) (map tname (tprops b)))
      | _, _ => false
      end
  | CChanged q =>
      match sub_at q o, sub_at q n with
      | Some _, Some _ => true
      | _, _ => false
      end
  end.

Definition errs_eqb : list cerr -> list cerr -> bool := list_eqb cerr_eqb.

(* correspondence: the model, run on the two trees, returns exactly the observed error list
   (constraint, path, type, in order) and the observed result of ignoring the claimed path; the trees are well-formed and equal to the transcription of buildTree; the claim is true of the trees *)
Definition errors_agree (t : trace) : bool :=
  errs_eqb (check_compat constrains (t_old t) (t_new t)) (t_errs t) ||
  existsb (fun pp => perm_b (fst pp) (pkgs (t_old t)) && perm_b (snd pp) (pkgs (t_new t)) &&
                     errs_eqb (check_compat constrains (set_pkgs (t_old t) (fst pp)) (set_pkgs (t_new t) (snd pp))) (t_errs t))
          (t_pkg_orders t).

Definition agrees (t : trace) : bool :=
  errors_agree t &&
  errs_eqb (ignore_errors (claim_paths (t_claim t)) (t_errs t)) (t_ignored t) &&
  wfb (t_old t) && wfb (t_new t) && is_nil (t_treediff t) &&
  claim_holds constrains (t_claim t) (t_old t) (t_new t).

Definition reported_at (q : path) (errs : list cerr) : bool := existsb (fun e => path_eqb (e_path e) q) errs.
(* at q itself or at a child of q *)
Definition reported_near (q : path) (errs : list cerr) : bool :=
  existsb (fun e => path_eqb (e_path e) q || path_eqb (removelast (e_path e)) q) errs.

(* the property, judged on the observed errors only *)
Definition satisfies (t : trace) : bool :=
  match t_claim t with
  | CNone => true
  | CCompat | CAdditive => is_nil (t_errs t)
  | CRemoved q | CReordered q | CValue q => reported_at q (t_errs t)
  | CListChanged q | CChanged q => reported_near q (t_errs t)
  end.

(* on which claims the theorems promise [satisfies] (everything except what the current table
   leaves unconstrained: QueryArgs / QueryResult, finding F15b) *)
Definition parent_constraint (cs : ctable) (q : path) (o : tree) : N :=
  match split_last q with
  | Some (par, _) => match sub_at par o with Some po => find_constraint (tname po) cs | None => compat_c_all_allowed end
  | None => compat_c_all_allowed
  end.

Definition covered (cs : ctable) (t : trace) : bool :=
  is_nil (t_pkg_orders t) &&
  match t_claim t with
  | CNone | CCompat | CValue _ => true
  | CRemoved q => reports_removal (parent_constraint cs q (t_old t))
  | CReordered q => reports_reorder (parent_constraint cs q (t_old t))
  | CListChanged q => match sub_at q (t_old t) with Some a => is_nonmod (find_constraint (tname a) cs) | None => false end
  | CChanged _ | CAdditive => false
  end.
