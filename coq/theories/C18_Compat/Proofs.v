(* C18 - proofs about the appdefcompat comparer model. *)
From Coq Require Import List NArith Bool String Ascii Arith Lia.
From V Require Import Lib.Check Gen.Params C18_Compat.Model.
Import ListNotations.

(* ---- induction over trees ---- *)
Lemma tree_ind' (P : tree -> Prop) :
  (forall nm v ps, Forall P ps -> P (Node nm v ps)) -> forall t, P t.
Proof.
  intros H. fix IH 1. intros [nm v ps]. apply H.
  induction ps as [|c r IHr]; constructor; [apply IH | exact IHr].
Qed.

(* ---- equality tests ---- *)
Lemma value_eqb_eq a b : value_eqb a b = true <-> a = b.
Proof.
  destruct a, b; cbn; try (split; congruence).
  - rewrite String.eqb_eq. split; congruence.
  - rewrite Bool.eqb_true_iff. split; congruence.
  - rewrite N.eqb_eq. split; congruence.
Qed.

Lemma value_eqb_refl a : value_eqb a a = true.
Proof. apply value_eqb_eq; reflexivity. Qed.

Lemma path_eqb_eq a b : path_eqb a b = true <-> a = b.
Proof. apply list_eqb_eq. intros; apply String.eqb_eq. Qed.

Lemma etype_eqb_eq a b : etype_eqb a b = true <-> a = b.
Proof. destruct a, b; cbn; split; congruence. Qed.

Lemma cerr_eqb_eq a b : cerr_eqb a b = true <-> a = b.
Proof.
  destruct a as [c p t], b as [c' p' t']; unfold cerr_eqb; cbn.
  rewrite !andb_true_iff, N.eqb_eq, path_eqb_eq, etype_eqb_eq.
  split; [intros [[-> ->] ->]; reflexivity | intros E; inversion E; auto].
Qed.

Lemma errs_eqb_eq a b : errs_eqb a b = true <-> a = b.
Proof. apply list_eqb_eq. apply cerr_eqb_eq. Qed.

(* ---- findNodeByName ---- *)
Lemma find_last_none x l : find_last x l = None <-> ~ In x (map tname l).
Proof.
  induction l as [|t r IH]; cbn; [tauto|].
  destruct (find_last x r) as [[i y]|].
  - split; [discriminate|]. intros H. exfalso. apply H. right.
    destruct (in_dec string_dec x (map tname r)) as [I|I]; [exact I|]. apply IH in I. discriminate.
  - destruct (String.eqb_spec (tname t) x) as [E|E].
    + split; [discriminate|]. intros H; exfalso; apply H; left; exact E.
    + split; [|reflexivity]. intros _ [H|H]; [contradiction|]. apply IH in H; auto.
Qed.

Lemma find_last_some x l i y : find_last x l = Some (i, y) -> nth_error l i = Some y /\ tname y = x.
Proof.
  revert i; induction l as [|t r IH]; cbn; intros i H; [discriminate|].
  destruct (find_last x r) as [[j z]|].
  - inversion H; subst. cbn. apply IH; reflexivity.
  - destruct (String.eqb_spec (tname t) x) as [E|E]; inversion H; subst. cbn; auto.
Qed.

(* no node with the name stands after the found index *)
Lemma find_last_is_last x l i y : find_last x l = Some (i, y) ->
  forall j z, i < j -> nth_error l j = Some z -> tname z <> x.
Proof.
  revert i; induction l as [|t r IH]; cbn; intros i H j z Hij Hj; [discriminate|].
  destruct (find_last x r) as [[k w]|] eqn:F.
  - inversion H; subst. destruct j as [|j]; [lia|]. cbn in Hj. apply (IH k eq_refl j z); [lia | exact Hj].
  - destruct (String.eqb_spec (tname t) x) as [E|E]; inversion H; subst.
    destruct j as [|j]; [lia|]. cbn in Hj. apply find_last_none in F.
    intros E'. apply F. rewrite <- E'. apply in_map. eapply nth_error_In; eauto.
Qed.

Lemma find_last_nodup l : NoDup (map tname l) ->
  forall i y, nth_error l i = Some y -> find_last (tname y) l = Some (i, y).
Proof.
  induction l as [|t r IH]; cbn; intros ND i y H; [destruct i; discriminate|].
  inversion ND as [|? ? Hn ND']; subst.
  destruct i as [|i]; cbn in H.
  - inversion H; subst. destruct (find_last (tname y) r) as [[j z]|] eqn:F.
    + apply find_last_some in F. destruct F as [F1 F2]. exfalso. apply Hn. rewrite <- F2.
      apply in_map. eapply nth_error_In; eauto.
    + rewrite String.eqb_refl. reflexivity.
  - rewrite (IH ND' i y H). reflexivity.
Qed.

Lemma found_in x l : found x l = true <-> In x (map tname l).
Proof.
  unfold found. destruct (find_last x l) as [[i y]|] eqn:F.
  - split; [|reflexivity]. intros _. apply find_last_some in F. destruct F as [F1 F2]. rewrite <- F2.
    apply in_map. eapply nth_error_In; eauto.
  - apply find_last_none in F. split; [discriminate | intros H; contradiction].
Qed.

Lemma found_false x l : found x l = false <-> ~ In x (map tname l).
Proof. rewrite <- found_in. destruct (found x l); split; congruence. Qed.

(* ---- errors found below a matched pair are errors of the parent ---- *)
Lemma compare_child cs p o n c c' i e :
  In c (tprops o) -> find_last (tname c) (tprops n) = Some (i, c') ->
  In e (compare cs (p ++ [tname c]) c c') -> In e (compare cs p o n).
Proof.
  destruct o as [onm ov ops]. cbn [tprops compare]. intros Hc Hf He.
  apply in_or_app; right. apply in_or_app; right.
  apply in_flat_map. exists c. split; [exact Hc|]. rewrite Hf. exact He.
Qed.

Lemma descend_reported cs q : forall p o n so sn e,
  descend q o = Some so -> descend q n = Some sn ->
  In e (compare cs (p ++ q) so sn) -> In e (compare cs p o n).
Proof.
  induction q as [|x r IH]; cbn; intros p o n so sn e Ho Hn He.
  - inversion Ho; inversion Hn; subst. rewrite app_nil_r in He. exact He.
  - destruct (find_last x (tprops o)) as [[i co]|] eqn:Fo; [|discriminate].
    destruct (find_last x (tprops n)) as [[j cn]|] eqn:Fn; [|discriminate].
    destruct (find_last_some _ _ _ _ Fo) as [Io No].
    eapply compare_child with (c := co) (c' := cn) (i := j).
    + eapply nth_error_In; eauto.
    + rewrite No. exact Fn.
    + rewrite No. eapply IH; eauto. rewrite <- app_assoc. exact He.
Qed.

Lemma sub_at_reported cs q o n so sn e :
  sub_at q o = Some so -> sub_at q n = Some sn ->
  In e (compare cs q so sn) -> In e (check_compat cs o n).
Proof.
  destruct q as [|r rest]; cbn; [discriminate|].
  destruct (String.eqb_spec (tname o) r) as [E|E]; [|discriminate].
  destruct (String.eqb (tname n) r); [|discriminate].
  intros Ho Hn He. unfold check_compat. rewrite E.
  eapply descend_reported with (p := [r]); eauto.
Qed.

(* ---- local facts: what one node pair reports ---- *)
Lemma value_change_local cs p o n :
  tval o <> tval n -> In (mkerr compat_c_value_match p ValueChanged) (compare cs p o n).
Proof.
  destruct o as [onm ov ops]. cbn. intros H.
  destruct (value_eqb ov (tval n)) eqn:E; [apply value_eqb_eq in E; contradiction|]. left; reflexivity.
Qed.

Lemma deleted_in x ops nps : In x (deleted ops nps) <-> In x (map tname ops) /\ found x nps = false.
Proof.
  unfold deleted. rewrite in_map_iff. split.
  - intros [o [E H]]. apply filter_In in H. destruct H as [H1 H2]. subst.
    split; [apply in_map; exact H1 | apply negb_true_iff; exact H2].
  - intros [H1 H2]. apply in_map_iff in H1. destruct H1 as [o [E H1]]. exists o. split; [exact E|].
    apply filter_In. split; [exact H1|]. rewrite E. rewrite H2. reflexivity.
Qed.

Lemma removal_local cs p o n x :
  In x (map tname (tprops o)) -> found x (tprops n) = false ->
  forall c, c = find_constraint (tname o) cs ->
  reports_removal c = true ->
  In (mkerr c (p ++ [x]) (if N.eqb c compat_c_non_modifiable then NodeModified else NodeRemoved)) (compare cs p o n).
Proof.
  destruct o as [onm ov ops]. cbn [tprops tname compare]. intros Hx Hf c Ec Hc.
  apply in_or_app; right. apply in_or_app; left. rewrite <- Ec.
  unfold reports_removal in Hc. apply andb_true_iff in Hc. destruct Hc as [Ha Hb].
  unfold check_constraint. apply negb_true_iff in Ha. rewrite Ha.
  assert (D : In x (deleted ops (tprops n))) by (apply deleted_in; auto).
  cbn [m_deleted match_nodes].
  destruct (deleted ops (tprops n)) as [|d ds] eqn:ED; [contradiction|].
  cbn [is_nil negb andb]. rewrite Hb. cbn [andb].
  apply in_or_app; right. apply in_or_app; right. apply in_or_app; left.
  apply in_map_iff. exists x. split; [reflexivity | exact D].
Qed.

Lemma reordered_in i ops nps : forall k o j y,
  nth_error ops k = Some o -> find_last (tname o) nps = Some (j, y) -> i + k <> j ->
  In (tname o) (reordered_from i ops nps).
Proof.
  revert i; induction ops as [|a r IH]; intros i k o j y Hk Hf Hne; [destruct k; discriminate|].
  destruct k as [|k]; cbn in Hk.
  - inversion Hk; subst. cbn. rewrite Hf.
    destruct (Nat.eqb_spec i j) as [E|E]; [lia | left; reflexivity].
  - cbn. assert (T : In (tname o) (reordered_from (S i) r nps)) by (eapply IH; eauto; lia).
    destruct (find_last (tname a) nps) as [[j' y']|]; [destruct (Nat.eqb i j')|]; auto. right; exact T.
Qed.

Lemma reorder_local cs p o n k oc j y :
  deleted (tprops o) (tprops n) = [] ->
  nth_error (tprops o) k = Some oc -> find_last (tname oc) (tprops n) = Some (j, y) -> k <> j ->
  forall c, c = find_constraint (tname o) cs ->
  reports_reorder c = true ->
  In (mkerr c (p ++ [tname oc]) (if N.eqb c compat_c_non_modifiable then NodeModified else OrderChanged)) (compare cs p o n).
Proof.
  destruct o as [onm ov ops]. cbn [tprops tname compare]. intros HD Hk Hf Hne c Ec Hc.
  apply in_or_app; right. apply in_or_app; left. rewrite <- Ec.
  unfold reports_reorder in Hc. apply andb_true_iff in Hc. destruct Hc as [Hc Hb].
  apply andb_true_iff in Hc. destruct Hc as [Ha Ho].
  unfold check_constraint. apply negb_true_iff in Ha. rewrite Ha.
  cbn [m_deleted m_reordered match_nodes]. rewrite HD. cbn [is_nil].
  assert (R : In (tname oc) (reordered_from 0 ops (tprops n))) by (eapply reordered_in; eauto).
  destruct (reordered_from 0 ops (tprops n)) as [|d ds] eqn:ER; [contradiction|].
  rewrite Ho, Hb. cbn [is_nil negb andb].
  apply in_or_app; right. apply in_or_app; right. apply in_or_app; right. apply in_or_app; left.
  apply in_map_iff. exists (tname oc). split; [reflexivity | exact R].
Qed.

(* ---- every error of checkConstraint sits at the node or at one of its children ---- *)
Lemma check_constraint_paths p m c e :
  In e (check_constraint p m c) -> e_path e = p \/ exists x, e_path e = p ++ [x].
Proof.
  unfold check_constraint. destruct (N.eqb c compat_c_all_allowed); [intros []|].
  intros H. repeat (apply in_app_or in H; destruct H as [H|H]);
    repeat match type of H with In _ (if ?b then _ else _) => destruct b end;
    try (apply in_map_iff in H; destruct H as [x [E _]]; subst e; right; exists x; reflexivity);
    try (destruct H as [H|[]]; subst e; left; reflexivity); try contradiction.
Qed.

(* ---- a node whose constraint is NonModifiable: silent only if the child names are unchanged ---- *)
Lemma list_eq_nth {A} (l1 l2 : list A) : (forall k, nth_error l1 k = nth_error l2 k) -> l1 = l2.
Proof.
  revert l2; induction l1 as [|a r IH]; intros [|b s] H; auto.
  - specialize (H 0); discriminate.
  - specialize (H 0); discriminate.
  - f_equal; [specialize (H 0); cbn in H; congruence | apply IH; intros k; exact (H (S k))].
Qed.

Lemma count_new_zero i lo ops nps : count_new i lo ops nps = (0, 0) ->
  forall z, In z nps -> found (tname z) ops = true.
Proof.
  revert i; induction nps as [|n r IH]; cbn; intros i H z Hz; [contradiction|].
  destruct (found (tname n) ops) eqn:F.
  - destruct Hz as [<-|Hz]; [exact F | eapply IH; eauto].
  - exfalso. destruct (count_new (S i) lo ops r) as [a b]. destruct (Nat.leb lo i); cbn in H; discriminate.
Qed.

Lemma deleted_nil ops nps : deleted ops nps = [] <-> (forall o, In o ops -> found (tname o) nps = true).
Proof.
  unfold deleted. induction ops as [|a r IH]; cbn; [tauto|].
  destruct (found (tname a) nps) eqn:F; cbn.
  - rewrite IH. split; [intros H o [<-|Ho]; auto | intros H o Ho; apply H; auto].
  - split; [discriminate|]. intros H. specialize (H a (or_introl eq_refl)). congruence.
Qed.

Lemma matched_index ops nps : deleted ops nps = [] -> reordered_from 0 ops nps = [] ->
  forall k o, nth_error ops k = Some o -> exists y, find_last (tname o) nps = Some (k, y).
Proof.
  intros HD HR k o Hk.
  assert (F : found (tname o) nps = true) by (eapply deleted_nil; eauto; eapply nth_error_In; eauto).
  unfold found in F. destruct (find_last (tname o) nps) as [[j y]|] eqn:E; [|discriminate].
  destruct (Nat.eq_dec k j) as [->|Hne]; [exists y; reflexivity|].
  exfalso. assert (I : In (tname o) (reordered_from 0 ops nps)) by (eapply reordered_in; eauto).
  rewrite HR in I. exact I.
Qed.

Lemma names_unchanged ops nps :
  deleted ops nps = [] -> reordered_from 0 ops nps = [] -> count_new 0 (List.length ops) ops nps = (0, 0) ->
  map tname ops = map tname nps.
Proof.
  intros HD HR HC. apply list_eq_nth. intros k. rewrite !nth_error_map.
  destruct (nth_error ops k) as [o|] eqn:Ho.
  - destruct (matched_index _ _ HD HR k o Ho) as [y Hy]. apply find_last_some in Hy.
    destruct Hy as [Hy1 Hy2]. rewrite Hy1. cbn. congruence.
  - destruct (nth_error nps k) as [z|] eqn:Hz; [|reflexivity]. exfalso.
    apply nth_error_None in Ho.
    assert (F : found (tname z) ops = true) by (eapply count_new_zero; eauto; eapply nth_error_In; eauto).
    apply found_in in F. apply in_map_iff in F. destruct F as [o [En Io]].
    apply In_nth_error in Io. destruct Io as [j Hj].
    destruct (matched_index _ _ HD HR j o Hj) as [y Hy].
    assert (j < List.length ops) by (apply nth_error_Some; congruence).
    eapply (find_last_is_last _ _ _ _ Hy k z); [lia | exact Hz | congruence].
Qed.

Lemma nonmod_silent_names p ops nps c :
  bit compat_c_non_modifiable compat_c_order_change_only = false ->
  is_nonmod c = true -> check_constraint p (match_nodes ops nps) c = [] -> map tname ops = map tname nps.
Proof.
  intros Hbit Hc H. unfold is_nonmod in Hc. apply andb_true_iff in Hc. destruct Hc as [Ha Hn].
  apply negb_true_iff in Ha. unfold check_constraint in H. rewrite Ha, Hn in H.
  apply N.eqb_eq in Hn. rewrite Hn, Hbit in H. cbn [m_deleted m_inserted m_appended m_reordered match_nodes orb andb negb] in H.
  destruct (deleted ops nps) as [|d ds] eqn:HD; [|cbn in H; repeat (apply app_eq_nil in H; destruct H as [? H]); discriminate].
  cbn [is_nil andb negb map app] in H.
  destruct (count_new 0 (List.length ops) ops nps) as [a b] eqn:HC. cbn [fst snd] in H.
  destruct a as [|a]; [|cbn in H; discriminate].
  destruct b as [|b]; [|cbn in H; discriminate].
  destruct (reordered_from 0 ops nps) as [|r rs] eqn:HR; [|cbn in H; discriminate].
  apply names_unchanged; auto.
Qed.

Lemma listchange_local cs p o n :
  bit compat_c_non_modifiable compat_c_order_change_only = false ->
  is_nonmod (find_constraint (tname o) cs) = true ->
  map tname (tprops o) <> map tname (tprops n) ->
  exists e, In e (compare cs p o n) /\ (e_path e = p \/ exists x, e_path e = p ++ [x]).
Proof.
  destruct o as [onm ov ops]. cbn [tprops tname compare]. intros Hbit Hc Hne.
  destruct (check_constraint p (match_nodes ops (tprops n)) (find_constraint onm cs)) as [|e es] eqn:E.
  - exfalso. apply Hne. eapply nonmod_silent_names; eauto.
  - exists e. split.
    + apply in_or_app; right. apply in_or_app; left. left; reflexivity.
    + eapply check_constraint_paths. rewrite E. left; reflexivity.
Qed.

(* ---- compatible changes are silent ---- *)
Lemma nodupb_NoDup l : nodupb l = true -> NoDup l.
Proof.
  induction l as [|x r IH]; cbn; intros H; constructor.
  - apply andb_true_iff in H. destruct H as [H _]. apply negb_true_iff in H.
    intros I. assert (E : existsb (String.eqb x) r = true) by (apply existsb_exists; exists x; split; [exact I | apply String.eqb_refl]).
    congruence.
  - apply IH. apply andb_true_iff in H. tauto.
Qed.

Lemma wfb_node nm v ps : wfb (Node nm v ps) = true -> NoDup (map tname ps) /\ (forall c, In c ps -> wfb c = true).
Proof.
  cbn. intros H. apply andb_true_iff in H. destruct H as [H1 H2]. split; [apply nodupb_NoDup; exact H1|].
  intros c Hc. eapply forallb_forall in H2; eauto.
Qed.

Lemma flat_map_nil {A B} (f : A -> list B) l : (forall x, In x l -> f x = []) -> flat_map f l = [].
Proof. induction l as [|a r IH]; cbn; intros H; [reflexivity|]. rewrite (H a), IH; auto. Qed.

Lemma embed_find R ia aa ops nps : Embed R ia aa ops nps -> NoDup (map tname nps) ->
  forall o, In o ops -> exists j n', find_last (tname o) nps = Some (j, n') /\ R o n' /\ In n' nps.
Proof.
  induction 1 as [extra _ | o n os ns En Hr He IH | x os ns Hia He IH]; cbn [map]; intros ND o' Ho'.
  - contradiction.
  - inversion ND as [|? ? Hn ND']; subst. destruct Ho' as [<-|Ho'].
    + exists 0, n. cbn. assert (F : find_last (tname o) ns = None) by (apply find_last_none; rewrite En; exact Hn).
      rewrite F, En, String.eqb_refl. auto.
    + destruct (IH ND' o' Ho') as [j [n' [F [Hr' Hi]]]]. exists (S j), n'. cbn. rewrite F. auto.
  - inversion ND as [|? ? Hn ND']; subst.
    destruct (IH ND' o' Ho') as [j [n' [F [Hr' Hi]]]]. exists (S j), n'. cbn. rewrite F. auto.
Qed.

Lemma embed_noins_nth R aa ops nps : Embed R false aa ops nps ->
  forall k o, nth_error ops k = Some o -> exists n', nth_error nps k = Some n' /\ tname o = tname n'.
Proof.
  induction 1 as [extra _ | o n os ns En Hr He IH | x os ns Hia He IH]; intros k o' Hk.
  - destruct k; discriminate.
  - destruct k as [|k]; cbn in Hk |- *; [inversion Hk; subst; eauto | apply IH; exact Hk].
  - discriminate.
Qed.

Lemma embed_fixed_len R ops nps : Embed R false false ops nps -> List.length nps = List.length ops.
Proof.
  induction 1 as [extra H | o n os ns En Hr He IH | x os ns Hia He IH]; cbn.
  - destruct H as [->|[H|H]]; [reflexivity | discriminate | discriminate].
  - rewrite IH; reflexivity.
  - discriminate.
Qed.

Lemma reordered_nil i ops nps :
  (forall k o, nth_error ops k = Some o -> exists y, find_last (tname o) nps = Some (i + k, y)) ->
  reordered_from i ops nps = [].
Proof.
  revert i; induction ops as [|a r IH]; intros i H; cbn; [reflexivity|].
  destruct (H 0 a eq_refl) as [y Hy]. rewrite Hy, Nat.add_0_r, Nat.eqb_refl.
  apply IH. intros k o Hk. destruct (H (S k) o Hk) as [z Hz]. exists z. rewrite Hz. f_equal. f_equal. lia.
Qed.

Lemma count_new_ins0 i lo ops nps :
  (forall k z, nth_error nps k = Some z -> i + k < lo -> found (tname z) ops = true) ->
  fst (count_new i lo ops nps) = 0.
Proof.
  revert i; induction nps as [|n r IH]; intros i H; cbn; [reflexivity|].
  assert (T : fst (count_new (S i) lo ops r) = 0).
  { apply IH. intros k z Hk Hlt. apply (H (S k) z Hk). lia. }
  destruct (found (tname n) ops) eqn:F; [exact T|].
  destruct (Nat.leb_spec lo i) as [L|L]; cbn; [exact T|].
  rewrite (H 0 n eq_refl) in F; [discriminate | lia].
Qed.

Lemma count_new_app0 i lo ops nps : i + List.length nps <= lo -> snd (count_new i lo ops nps) = 0.
Proof.
  revert i; induction nps as [|n r IH]; intros i H; cbn in *; [reflexivity|].
  assert (T : snd (count_new (S i) lo ops r) = 0) by (apply IH; lia).
  destruct (found (tname n) ops); [exact T|].
  destruct (Nat.leb_spec lo i) as [L|L]; cbn; [lia | exact T].
Qed.

Lemma check_silent p m c :
  m_deleted m = [] ->
  allows_insert c = true \/
  (m_inserted m = 0 /\ m_reordered m = [] /\ (allows_append c = true \/ m_appended m = 0)) ->
  check_constraint p m c = [].
Proof.
  intros HD H. unfold check_constraint, allows_insert, allows_append in *.
  destruct (N.eqb c compat_c_all_allowed); [reflexivity|]. rewrite HD. cbn [is_nil orb] in *.
  destruct H as [H|[Hi [Hr H]]].
  - destruct (N.eqb c compat_c_non_modifiable), (bit c compat_c_append_only), (bit c compat_c_order_change_only);
      cbn in H; try discriminate.
    cbn. rewrite !andb_false_r. reflexivity.
  - rewrite Hi, Hr. destruct H as [H|Ha].
    + destruct (N.eqb c compat_c_non_modifiable), (bit c compat_c_order_change_only); cbn in H; try discriminate.
      cbn. reflexivity.
    + rewrite Ha. cbn. rewrite !andb_false_r. reflexivity.
Qed.

Theorem compat_silent_proved cs : forall o n p, Compat cs o n -> wfb n = true -> compare cs p o n = [].
Proof.
  induction o as [onm ov ops IH] using tree_ind'. intros n p HC Hwf.
  inversion HC as [? nnm ? ? nps E]; subst. cbn [compare tval tprops].
  destruct (wfb_node _ _ _ Hwf) as [ND Hch].
  rewrite value_eqb_refl. cbn [app].
  assert (FM : forall c, In c ops -> exists j n', find_last (tname c) nps = Some (j, n') /\ Compat cs c n' /\ In n' nps)
    by (eapply embed_find; eauto).
  assert (HD : deleted ops nps = []).
  { apply deleted_nil. intros o Ho. destruct (FM o Ho) as [j [n' [F _]]]. unfold found. rewrite F. reflexivity. }
  rewrite flat_map_nil, app_nil_r.
  2:{ intros c Hc. destruct (FM c Hc) as [j [n' [F [Hr Hi]]]]. rewrite F.
      rewrite Forall_forall in IH. apply IH; auto. }
  apply check_silent; [exact HD|]. cbn [m_inserted m_reordered m_appended match_nodes].
  destruct (allows_insert (find_constraint onm cs)) eqn:IA; [left; reflexivity | right].
  assert (NTH : forall k o, nth_error ops k = Some o -> exists y, find_last (tname o) nps = Some (k, y)).
  { intros k o Hk. destruct (embed_noins_nth _ _ _ _ E k o Hk) as [n' [Hn' En]].
    exists n'. rewrite En. apply find_last_nodup; auto. }
  split; [|split].
  - apply count_new_ins0. intros k z Hk Hlt. cbn in Hlt.
    destruct (nth_error ops k) as [o|] eqn:Ho; [|apply nth_error_None in Ho; lia].
    destruct (embed_noins_nth _ _ _ _ E k o Ho) as [n' [Hn' En]]. rewrite Hk in Hn'. inversion Hn'; subst.
    apply found_in. rewrite <- En. apply in_map. eapply nth_error_In; eauto.
  - apply reordered_nil. exact NTH.
  - destruct (allows_append (find_constraint onm cs)) eqn:AA; [left; reflexivity | right].
    apply count_new_app0. rewrite (embed_fixed_len _ _ _ E). cbn. lia.
Qed.

Lemma compat_refl_proved cs : forall t, Compat cs t t.
Proof.
  induction t as [nm v ps IH] using tree_ind'. constructor.
  induction IH as [|c r Hc Hr IHr]; [apply Emb_end; left; reflexivity | apply Emb_cons; auto].
Qed.

Theorem compare_refl_proved cs t : wfb t = true -> check_compat cs t t = [].
Proof. intros H. apply compat_silent_proved; [apply compat_refl_proved | exact H]. Qed.

(* the executable check is sound for the relation *)
Lemma split_at_spec x l k y r : split_at x l = Some (k, y, r) ->
  exists pre, l = pre ++ y :: r /\ List.length pre = k /\ tname y = x.
Proof.
  revert k; induction l as [|t s IH]; cbn; intros k H; [discriminate|].
  destruct (String.eqb_spec (tname t) x) as [E|E].
  - inversion H; subst. exists []. auto.
  - destruct (split_at x s) as [[[k' y'] r']|]; [|discriminate]. inversion H; subst.
    destruct (IH k' eq_refl) as [pre [-> [L N]]]. exists (t :: pre). cbn. auto.
Qed.

Lemma embed_skip_prefix R aa os l pre : Embed R true aa os l -> Embed R true aa os (pre ++ l).
Proof. induction pre as [|x r IH]; cbn; intros H; [exact H | apply Emb_skip; auto]. Qed.

Lemma embb_sound (Rb : tree -> tree -> bool) (R : tree -> tree -> Prop) ia aa ops :
  Forall (fun o => forall n, Rb o n = true -> R o n) ops ->
  forall nps, embb Rb ia aa ops nps = true -> Embed R ia aa ops nps.
Proof.
  induction 1 as [|o os Ho Hos IH]; intros nps H; cbn in H.
  - apply Emb_end. destruct nps; [left; reflexivity|]. cbn in H. destruct ia; [right; left; reflexivity|].
    destruct aa; [right; right; reflexivity | discriminate].
  - destruct (split_at (tname o) nps) as [[[k n] rest]|] eqn:S; [|discriminate].
    apply andb_true_iff in H. destruct H as [H H3]. apply andb_true_iff in H. destruct H as [H1 H2].
    destruct (split_at_spec _ _ _ _ _ S) as [pre [-> [L N]]].
    assert (E : Embed R ia aa (o :: os) (n :: rest)) by (apply Emb_cons; auto).
    destruct pre as [|x pre]; [exact E|]. cbn in L. subst k. cbn in H1. subst ia.
    apply (embed_skip_prefix R aa (o :: os) (n :: rest) (x :: pre)). exact E.
Qed.

Lemma compatb_sound cs : forall o n, compatb cs o n = true -> Compat cs o n.
Proof.
  induction o as [onm ov ops IH] using tree_ind'. intros [nnm nv nps] H. cbn in H.
  apply andb_true_iff in H. destruct H as [Hv He]. apply value_eqb_eq in Hv. subst nv.
  constructor. eapply embb_sound; [|exact He]. exact IH.
Qed.

(* ---- link: on every trace the model reproduces, the claims the table covers are judged satisfied ---- *)
Lemma split_last_app q par x : split_last q = Some (par, x) -> q = par ++ [x].
Proof.
  revert par; induction q as [|y r IH]; cbn; intros par H; [discriminate|].
  destruct r as [|z r'].
  - inversion H; subst. reflexivity.
  - destruct (split_last (z :: r')) as [[a b]|]; [|discriminate]. inversion H; subst.
    cbn. f_equal. apply IH. reflexivity.
Qed.

Lemma first_idx_nth x l i : first_idx x l = Some i -> exists oc, nth_error l i = Some oc /\ tname oc = x.
Proof.
  revert i; induction l as [|t r IH]; cbn; intros i H; [discriminate|].
  destruct (String.eqb_spec (tname t) x) as [E|E].
  - inversion H; subst. exists t. auto.
  - destruct (first_idx x r) as [j|]; [|discriminate]. inversion H; subst. cbn. apply IH. reflexivity.
Qed.

Lemma removelast_snoc {A} (l : list A) x : removelast (l ++ [x]) = l.
Proof. induction l as [|a r IH]; cbn; [reflexivity|]. rewrite IH. destruct (r ++ [x]) eqn:E; [destruct r; discriminate | reflexivity]. Qed.

Lemma reported_at_in q errs e : In e errs -> e_path e = q -> reported_at q errs = true.
Proof. intros H E. apply existsb_exists. exists e. split; [exact H | apply path_eqb_eq; exact E]. Qed.

Theorem agrees_satisfies_proved t :
  bit compat_c_non_modifiable compat_c_order_change_only = false ->
  agrees t = true -> covered constrains t = true -> satisfies t = true.
Proof.
  intros Hbit HA HC. unfold agrees in HA.
  unfold covered in HC. apply andb_true_iff in HC. destruct HC as [HO HC].
  apply andb_true_iff in HA. destruct HA as [HA Hcl]. apply andb_true_iff in HA. destruct HA as [HA _].
  apply andb_true_iff in HA. destruct HA as [HA Hwn].
  apply andb_true_iff in HA. destruct HA as [HA Hwo]. apply andb_true_iff in HA. destruct HA as [He _].
  unfold errors_agree in He. destruct (t_pkg_orders t); [|discriminate]. cbn [existsb] in He. rewrite orb_false_r in He.
  apply errs_eqb_eq in He.
  unfold satisfies in *. destruct (t_claim t) as [| |q|q|q|q|q|]; cbn [claim_holds] in Hcl.
  - reflexivity.
  - rewrite <- He. unfold check_compat. rewrite compat_silent_proved; auto. apply compatb_sound; exact Hcl.
  - unfold parent_constraint in HC. destruct (split_last q) as [[par x]|] eqn:SL; [|discriminate].
    apply split_last_app in SL. subst q.
    destruct (sub_at par (t_old t)) as [po|] eqn:So; [|discriminate].
    destruct (sub_at par (t_new t)) as [pn|] eqn:Sn; [|discriminate].
    apply andb_true_iff in Hcl. destruct Hcl as [F1 F2]. apply negb_true_iff in F2. apply found_in in F1.
    rewrite <- He. eapply reported_at_in.
    + eapply sub_at_reported; eauto. eapply removal_local; eauto.
    + reflexivity.
  - unfold parent_constraint in HC. destruct (split_last q) as [[par x]|] eqn:SL; [|discriminate].
    apply split_last_app in SL. subst q.
    destruct (sub_at par (t_old t)) as [po|] eqn:So; [|discriminate].
    destruct (sub_at par (t_new t)) as [pn|] eqn:Sn; [|discriminate].
    apply andb_true_iff in Hcl. destruct Hcl as [F1 F2].
    destruct (deleted (tprops po) (tprops pn)) eqn:HD; [|discriminate].
    destruct (first_idx x (tprops po)) as [i|] eqn:FI; [|discriminate].
    destruct (find_last x (tprops pn)) as [[j y]|] eqn:FL; [|discriminate].
    apply negb_true_iff in F2. apply Nat.eqb_neq in F2.
    destruct (first_idx_nth _ _ _ FI) as [oc [Hoc Noc]]. subst x.
    rewrite <- He. eapply reported_at_in.
    + eapply sub_at_reported; eauto. eapply reorder_local; eauto.
    + reflexivity.
  - destruct (sub_at q (t_old t)) as [a|] eqn:So; [|discriminate].
    destruct (sub_at q (t_new t)) as [b|] eqn:Sn; [|discriminate].
    apply negb_true_iff in Hcl.
    rewrite <- He. eapply reported_at_in.
    + eapply sub_at_reported; eauto. apply value_change_local. intros E. apply value_eqb_eq in E. congruence.
    + reflexivity.
  - destruct (sub_at q (t_old t)) as [a|] eqn:So; [|discriminate].
    destruct (sub_at q (t_new t)) as [b|] eqn:Sn; [|discriminate].
    apply negb_true_iff in Hcl.
    destruct (listchange_local constrains q a b Hbit HC) as [e [Ie Pe]].
    { intros E. rewrite E in Hcl.
      assert (T : list_eqb String.eqb (map tname (tprops b)) (map tname (tprops b)) = true)
        by (apply list_eqb_eq; [intros; apply String.eqb_eq | reflexivity]).
      congruence. }
    rewrite <- He. unfold reported_near. apply existsb_exists. exists e. split.
    + eapply sub_at_reported; eauto.
    + apply orb_true_iff. destruct Pe as [Pe|[x Pe]]; [left | right]; apply path_eqb_eq; rewrite Pe; [reflexivity | apply removelast_snoc].
  - discriminate.
  - discriminate.
Qed.

(* ---- the compatible edits of the property are instances of Compat ---- *)
Lemma embed_same cs ia aa l : Embed (Compat cs) ia aa l l.
Proof. induction l as [|c r IH]; [apply Emb_end; left; reflexivity | apply Emb_cons; auto using compat_refl_proved]. Qed.

Lemma embed_prefix cs ia aa pre l l' : Embed (Compat cs) ia aa l l' -> Embed (Compat cs) ia aa (pre ++ l) (pre ++ l').
Proof. induction pre as [|c r IH]; cbn; intros H; [exact H | apply Emb_cons; auto using compat_refl_proved]. Qed.

(* new children after all old ones, under a node that allows appending *)
Lemma compat_append_proved cs nm v ps extra :
  allows_append (find_constraint nm cs) = true -> Compat cs (Node nm v ps) (Node nm v (ps ++ extra)).
Proof.
  intros H. constructor. rewrite <- (app_nil_r ps) at 1. apply embed_prefix. apply Emb_end. right; right; exact H.
Qed.

(* a new child anywhere, under a node that allows inserting *)
Lemma compat_insert_proved cs nm v a b x :
  allows_insert (find_constraint nm cs) = true -> Compat cs (Node nm v (a ++ b)) (Node nm v (a ++ x :: b)).
Proof. intros H. constructor. apply embed_prefix. apply Emb_skip; [exact H | apply embed_same]. Qed.

(* a compatible change inside one child *)
Lemma compat_inside_proved cs nm v a b c c' :
  tname c = tname c' -> Compat cs c c' -> Compat cs (Node nm v (a ++ c :: b)) (Node nm v (a ++ c' :: b)).
Proof. intros E H. constructor. apply embed_prefix. apply Emb_cons; auto. apply embed_same. Qed.

(* compatible changes compose along the children *)
Lemma compat_trans_children cs nm v ops nps :
  Embed (Compat cs) (allows_insert (find_constraint nm cs)) (allows_append (find_constraint nm cs)) ops nps ->
  Compat cs (Node nm v ops) (Node nm v nps).
Proof. intros H. constructor. exact H. Qed.

(* ---- packaged statements used by Properties/C18.v ---- *)
Theorem removal_reported_proved cs o n par x po pn :
  sub_at par o = Some po -> sub_at par n = Some pn ->
  In x (map tname (tprops po)) -> ~ In x (map tname (tprops pn)) ->
  reports_removal (find_constraint (tname po) cs) = true ->
  exists e, In e (check_compat cs o n) /\ e_path e = par ++ [x] /\ e_constraint e = find_constraint (tname po) cs /\
            (e_type e = NodeRemoved \/ e_type e = NodeModified).
Proof.
  intros So Sn Hx Hn Hc. eexists. split; [|split; [|split]].
  - eapply sub_at_reported; eauto. eapply removal_local; eauto. apply found_false; exact Hn.
  - reflexivity.
  - reflexivity.
  - cbn. destruct (N.eqb _ _); auto.
Qed.

Theorem reorder_reported_proved cs o n par po pn k j oc y :
  sub_at par o = Some po -> sub_at par n = Some pn ->
  (forall c, In c (tprops po) -> In (tname c) (map tname (tprops pn))) ->
  nth_error (tprops po) k = Some oc -> find_last (tname oc) (tprops pn) = Some (j, y) -> k <> j ->
  reports_reorder (find_constraint (tname po) cs) = true ->
  exists e, In e (check_compat cs o n) /\ e_path e = par ++ [tname oc] /\ e_constraint e = find_constraint (tname po) cs /\
            (e_type e = OrderChanged \/ e_type e = NodeModified).
Proof.
  intros So Sn Hall Hk Hf Hne Hc. eexists. split; [|split; [|split]].
  - eapply sub_at_reported; eauto. eapply reorder_local; eauto.
    apply deleted_nil. intros c Ic. apply found_in. auto.
  - reflexivity.
  - reflexivity.
  - cbn. destruct (N.eqb _ _); auto.
Qed.

Theorem value_change_reported_proved cs o n q a b :
  sub_at q o = Some a -> sub_at q n = Some b -> tval a <> tval b ->
  In (mkerr compat_c_value_match q ValueChanged) (check_compat cs o n).
Proof. intros So Sn H. eapply sub_at_reported; eauto. apply value_change_local; exact H. Qed.

Theorem listchange_reported_proved cs o n q a b :
  bit compat_c_non_modifiable compat_c_order_change_only = false ->
  sub_at q o = Some a -> sub_at q n = Some b ->
  is_nonmod (find_constraint (tname a) cs) = true ->
  map tname (tprops a) <> map tname (tprops b) ->
  exists e, In e (check_compat cs o n) /\ (e_path e = q \/ exists x, e_path e = q ++ [x]).
Proof.
  intros Hbit So Sn Hc Hne. destruct (listchange_local cs q a b Hbit Hc Hne) as [e [Ie Pe]].
  exists e. split; [eapply sub_at_reported; eauto | exact Pe].
Qed.

(* IgnoreCompatibilityErrors keeps exactly the errors at other paths, in order *)
Theorem ignore_errors_spec_proved ps errs e :
  In e (ignore_errors ps errs) <-> In e errs /\ ~ In (e_path e) ps.
Proof.
  unfold ignore_errors. rewrite filter_In, negb_true_iff. split; intros [H1 H2]; split; auto.
  - intros I. assert (T : existsb (path_eqb (e_path e)) ps = true) by (apply existsb_exists; exists (e_path e); split; [exact I | apply path_eqb_eq; reflexivity]).
    congruence.
  - destruct (existsb (path_eqb (e_path e)) ps) eqn:E; [|reflexivity]. exfalso. apply H2.
    apply existsb_exists in E. destruct E as [q [Iq Eq]]. apply path_eqb_eq in Eq. subst q. exact Iq.
Qed.
