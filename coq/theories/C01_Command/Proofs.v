(* C01 - proofs: every write step moves the stores towards the stores the log stands for; the
   invariant of the fault-injecting transition system; recovery completes the last event;
   replies versus log membership; liveness of the processor. *)
From Coq Require Import List NArith PeanoNat Bool Lia ZifyNat ZifyN ZifyBool.
From V Require Import Gen.Params C01_Command.Model C01_Command.MapLemmas C01_Command.Ideal.
Import ListNotations.
Local Open Scope N_scope.

(* ---------- single writes ---------- *)

Lemma wr_ok_app f c o app : wr f c o = (app, true) -> app = true.
Proof. unfold wr. destruct f as [[]|]; destruct c; destruct o; cbn; intros H; inversion H; reflexivity. Qed.

Definition rid (x : N * rec * bool) : N := fst (fst x).
Definition rval (x : N * rec * bool) : rec := snd (fst x).

(* the rows' results are the entries of B *)
Definition b_valued (b : n2map rec) (ws : N) (rs : list (N * rec * bool)) : Prop :=
  Forall (fun x => get2 b ws (rid x) = Some (rval x)) rs.

Lemma cud_val es e c mid :
  ok_event es e -> In c (e_cuds e) ->
  (mid = get2 (recs_of es) (e_ws e) (cud_id c) \/ mid = get2 (recs_of (es ++ [e])) (e_ws e) (cud_id c)) ->
  exists x, cud_apply mid c = Some x /\ get2 (recs_of (es ++ [e])) (e_ws e) (cud_id c) = Some x.
Proof.
  intros Ho Hin Hm. pose proof Ho as (_ & ND & Hc).
  destruct (ok_event_apply es e c Ho Hin) as (x & Hx).
  assert (HB : get2 (recs_of (es ++ [e])) (e_ws e) (cud_id c) = Some x).
  { rewrite recs_of_snoc, apply_event_get by exact ND. unfold ev_get. rewrite N.eqb_refl.
    rewrite (find_cud_nodup (cud_id c) (e_cuds e) c ND Hin eq_refl), Hx. reflexivity. }
  exists x. split; [|exact HB].
  destruct Hm as [->| ->]; [exact Hx|]. rewrite HB.
  destruct c; cbn in *.
  - exact Hx.
  - destruct (get2 (recs_of es) (e_ws e) id); [exact Hx | discriminate].
  - destruct (get2 (recs_of es) (e_ws e) id) as [r|]; [|discriminate].
    inversion Hx; subst. reflexivity.
Qed.

Lemma results_vals es e m :
  ok_event es e -> btw (recs_of es) (recs_of (es ++ [e])) m ->
  forall cs, incl cs (e_cuds e) ->
  exists rs, results m (e_ws e) cs = Some rs /\ b_valued (recs_of (es ++ [e])) (e_ws e) rs
             /\ map rid rs = map cud_id cs.
Proof.
  intros Ho Hb. induction cs as [|c r IH]; intros Hi.
  - exists []. repeat split. constructor.
  - destruct IH as (rs & Hr & Hv & Hm); [intros x Hx; apply Hi; right; exact Hx|].
    destruct (cud_val es e c (get2 m (e_ws e) (cud_id c)) Ho (Hi c (or_introl eq_refl))) as (x & Hx & HB).
    { destruct (Hb (e_ws e) (cud_id c)) as [E|E]; [left|right]; exact E. }
    exists ((cud_id c, x, cud_new c) :: rs). cbn [results]. rewrite Hx, Hr. repeat split.
    + constructor; [exact HB | exact Hv].
    + cbn. rewrite Hm. reflexivity.
Qed.

Definition same_others (s s' : store) : Prop := plog s' = plog s /\ wlog s' = wlog s /\ proj s' = proj s.

Lemma w_recs_each_adv b plan ws : forall rs s l, b_valued b ws rs ->
  forall s' l' ok, w_recs_each plan ws rs s l = (s', l', ok) ->
  same_others s s' /\ adv b (recs s) (recs s')
  /\ (ok = true -> Forall (fun x => get2 (recs s') ws (rid x) = get2 b ws (rid x)) rs).
Proof.
  induction rs as [|[[id r] isnew] rest IH]; intros s l Hv s' l' ok H; cbn [w_recs_each] in H.
  - inversion H; subst. repeat split. apply adv_refl. intros _; constructor.
  - inversion Hv as [|? ? Hb Hv']; subst. cbn [rid rval fst snd] in Hb.
    destruct (issue plan TRec (op_of isnew) l) as [f l1].
    destruct (wr f isnew (is_some (get2 (recs s) ws id))) as [app ok1] eqn:Ew.
    set (s1 := if app then set_recs s (put2 (recs s) ws id r) else s) in H.
    assert (Hs1 : same_others s s1 /\ adv b (recs s) (recs s1)).
    { subst s1. destruct app; cbn; repeat split; [apply adv_put; exact Hb | apply adv_refl]. }
    destruct Hs1 as (Ho1 & Ha1).
    destruct ok1.
    + destruct (IH s1 l1 Hv' s' l' ok H) as ((P & W & J) & Ha & Hd).
      destruct Ho1 as (P1 & W1 & J1).
      repeat split; try congruence.
      * eapply adv_trans; eassumption.
      * intros Hok. constructor; [|apply Hd; exact Hok]. cbn [rid fst].
        eapply adv_sticky; [exact Ha|]. apply wr_ok_app in Ew. subst app s1. cbn [recs set_recs].
        rewrite get2_put2_eq. symmetry; exact Hb.
    + inversion H; subst. repeat split; try apply Ho1. exact Ha1. discriminate.
Qed.

Lemma put_all_adv b ws : forall rs m, b_valued b ws rs ->
  adv b m (put_all ws rs m)
  /\ Forall (fun x => get2 (put_all ws rs m) ws (rid x) = get2 b ws (rid x)) rs.
Proof.
  induction rs as [|x rest IH]; intros m Hv; cbn [put_all fold_left].
  - split; [apply adv_refl | constructor].
  - inversion Hv as [|? ? Hb Hv']; subst.
    destruct (IH (put2 m ws (fst (fst x)) (snd (fst x))) Hv') as (Ha & Hd).
    assert (Ha1 : adv b m (put2 m ws (fst (fst x)) (snd (fst x)))) by (apply adv_put; exact Hb).
    split; [eapply adv_trans; eassumption|].
    constructor; [|exact Hd].
    eapply adv_sticky; [exact Ha|]. unfold rid. rewrite get2_put2_eq. symmetry; exact Hb.
Qed.

Lemma w_recs_batch_adv b plan ws rs s l : b_valued b ws rs ->
  forall s' l' ok, w_recs_batch plan ws rs s l = (s', l', ok) ->
  same_others s s' /\ adv b (recs s) (recs s')
  /\ (ok = true -> Forall (fun x => get2 (recs s') ws (rid x) = get2 b ws (rid x)) rs).
Proof.
  intros Hv s' l' ok H. unfold w_recs_batch in H. destruct rs as [|x rest] eqn:Ers.
  - inversion H; subst. repeat split. apply adv_refl. intros _; constructor.
  - rewrite <- Ers in *. clear Ers.
    destruct (issue plan TRec opPutBatch l) as [f l1].
    destruct (wr f false false) as [app ok1] eqn:Ew. inversion H; subst. clear H.
    destruct (put_all_adv b ws rs (recs s) Hv) as (Ha & Hd).
    destruct app; cbn [recs set_recs plog wlog proj]; repeat split.
    + exact Ha.
    + intros _. exact Hd.
    + apply adv_refl.
    + intros ->. apply wr_ok_app in Ew. discriminate.
Qed.

(* ---------- one event through the store operator ---------- *)

(* the view of sync projector j *)
Definition projv (s : store) (j : N) : n2map N := inner3 (proj s) j.

Definition btw3 (k : conf) (np : N) (dk : N -> bool) (es' es : list event) (s : store) : Prop :=
  btw (wlog_of es') (wlog_of es) (wlog s) /\ btw (recs_of es') (recs_of es) (recs s)
  /\ forall j, j < np -> good (k_sees k) dk j -> btw (proj_of (dk j) es') (proj_of (dk j) es) (projv s j).

Definition complete (k : conf) (np : N) (dk : N -> bool) (es : list event) (s : store) : Prop :=
  eq2 (wlog s) (wlog_of es) /\ eq2 (recs s) (recs_of es)
  /\ forall j, j < np -> good (k_sees k) dk j -> eq2 (projv s j) (proj_of (dk j) es).

(* s' differs from s only by entries that took the value the log es gives them *)
Definition adv3 (dk : N -> bool) (es : list event) (s s' : store) : Prop :=
  plog s' = plog s /\ adv (wlog_of es) (wlog s) (wlog s') /\ adv (recs_of es) (recs s) (recs s')
  /\ forall j, adv (proj_of (dk j) es) (projv s j) (projv s' j).

Lemma adv3_refl dk es s : adv3 dk es s s.
Proof. repeat split; try intros j; apply adv_refl. Qed.
Lemma adv3_trans dk es s s' s'' : adv3 dk es s s' -> adv3 dk es s' s'' -> adv3 dk es s s''.
Proof.
  intros (P & W & R & J) (P' & W' & R' & J'). repeat split; [congruence| | |intros j]; eapply adv_trans; eauto.
Qed.
Lemma btw3_adv3 k np dk es' es s s' : btw3 k np dk es' es s -> adv3 dk es s s' -> btw3 k np dk es' es s'.
Proof.
  intros (W & R & J) (_ & W' & R' & J'). repeat split; [| |intros j Hj Hg]; eapply btw_adv; eauto.
Qed.
Lemma complete_btw3 k np dk es' es s : complete k np dk es s -> btw3 k np dk es' es s.
Proof. intros (W & R & J). repeat split; [| |intros j Hj Hg]; apply btw_of_eq2_r; auto. Qed.

Lemma btw_same {A} (a m : n2map A) : btw a a m -> eq2 m a.
Proof. intros H x y. destruct (H x y); assumption. Qed.

(* a projector triggered by the re-apply is triggered by the event *)
Lemma trig_at_trig sees reapply d e : trig_at sees reapply d e = true -> trig d e = true.
Proof.
  unfold trig_at, trig. destruct (reapply && negb sees); [|auto]. intros ->. reflexivity.
Qed.
Lemma trig_at_eq sees reapply d e : sees = true \/ d = false -> trig_at sees reapply d e = trig d e.
Proof.
  unfold trig_at, trig. intros [-> | ->]; [rewrite andb_false_r; reflexivity|].
  destruct (reapply && _); reflexivity.
Qed.

Lemma put2_complete {A} (a m : n2map A) x y v :
  btw a (put2 a x y v) m -> get2 m x y = Some v -> eq2 m (put2 a x y v).
Proof.
  intros Hb Hg. apply (btw_complete a); [exact Hb|]. intros x' y'.
  destruct (N.eq_dec x x') as [->|Hx]; [destruct (N.eq_dec y y') as [->|Hy]|].
  - right. rewrite get2_put2_eq. exact Hg.
  - left. symmetry. apply get2_put2_neq. right; exact Hy.
  - left. symmetry. apply get2_put2_neq. left; exact Hx.
Qed.

Lemma recs_complete es e m :
  ok_event es e -> btw (recs_of es) (recs_of (es ++ [e])) m ->
  (forall c, In c (e_cuds e) -> get2 m (e_ws e) (cud_id c) = get2 (recs_of (es ++ [e])) (e_ws e) (cud_id c)) ->
  eq2 m (recs_of (es ++ [e])).
Proof.
  intros (_ & ND & _) Hb Hd. apply (btw_complete (recs_of es)); [exact Hb|]. intros ws id.
  rewrite recs_of_snoc, apply_event_get by exact ND. unfold ev_get.
  destruct (N.eqb_spec ws (e_ws e)) as [->|Hws]; [|left; reflexivity].
  destruct (find_cud id (e_cuds e)) as [c|] eqn:F; [|left; reflexivity].
  destruct (find_cud_in _ _ _ F) as [Hin Hid]. subst id. right.
  rewrite (Hd c Hin), recs_of_snoc, apply_event_get by exact ND. unfold ev_get.
  rewrite N.eqb_refl, F. reflexivity.
Qed.

(* flushing the sync projectors *)
Lemma w_proj1_adv dk sees reapply plan j d es e s l s' l' ok :
  d = dk j ->
  w_proj1 sees reapply plan (j, d) e s l = (s', l', ok) ->
  plog s' = plog s /\ wlog s' = wlog s /\ recs s' = recs s
  /\ (forall j', adv (proj_of (dk j') (es ++ [e])) (projv s j') (projv s' j'))
  /\ (ok = true -> trig_at sees reapply d e = true -> get2 (projv s' j) (e_ws e) (e_woff e) = Some (e_tag e)).
Proof.
  intros Hd. unfold w_proj1. cbn [fst snd]. destruct (trig_at sees reapply d e) eqn:Et.
  2:{ intros H. inversion H; subst. repeat split; [intros j'; apply adv_refl | intros _ F; discriminate F]. }
  apply trig_at_trig in Et.
  destruct (issue plan TView opPutBatch l) as [f l1].
  destruct (wr f false false) as [app ok1] eqn:Ew. intros H. inversion H; subst s' l' ok. clear H.
  destruct app.
  - cbn [plog wlog recs proj set_proj]. repeat split.
    + intros j'. unfold projv. cbn [proj set_proj]. destruct (N.eq_dec j j') as [<-|Hne].
      * rewrite inner3_put3_eq. apply adv_put. rewrite proj_of_snoc, <- Hd, Et. apply get2_put2_eq.
      * rewrite inner3_put3_neq by exact Hne. apply adv_refl.
    + intros _ _. unfold projv. cbn [proj set_proj]. rewrite inner3_put3_eq. apply get2_put2_eq.
  - repeat split; [intros j'; apply adv_refl|]. intros ->. apply wr_ok_app in Ew. discriminate.
Qed.

Lemma w_projs_adv dk early sees reapply plan es e : forall ord s l last s' l' ok,
  (forall j d, In (j, d) ord -> d = dk j) ->
  w_projs early sees reapply plan ord e s l last = (s', l', ok) ->
  plog s' = plog s /\ wlog s' = wlog s /\ recs s' = recs s
  /\ (forall j', adv (proj_of (dk j') (es ++ [e])) (projv s j') (projv s' j'))
  /\ (early = true -> ok = true ->
      forall j d, In (j, d) ord -> trig_at sees reapply d e = true ->
      get2 (projv s' j) (e_ws e) (e_woff e) = Some (e_tag e)).
Proof.
  induction ord as [|[j d] r IH]; intros s l last s' l' ok Hk H; cbn [w_projs] in H.
  - inversion H; subst. repeat split; [intros j'; apply adv_refl | intros _ _ j d []].
  - destruct (w_proj1 sees reapply plan (j, d) e s l) as [[s1 l1] ok1] eqn:E1.
    assert (Hd : d = dk j) by (apply Hk; left; reflexivity).
    destruct (w_proj1_adv dk sees reapply plan j d es e s l s1 l1 ok1 Hd E1) as (P1 & W1 & R1 & A1 & D1).
    destruct (negb ok1 && early) eqn:Estop.
    + inversion H; subst s' l' ok. repeat split; try assumption. intros _ F; discriminate F.
    + destruct (IH s1 l1 ok1 s' l' ok (fun j0 d0 Hi => Hk j0 d0 (or_intror Hi)) H) as (P2 & W2 & R2 & A2 & D2).
      repeat split; try congruence.
      * intros j'. eapply adv_trans; [apply A1 | apply A2].
      * intros He Hok j0 d0 [E|Hin] Ht; [|eapply D2; eassumption].
        inversion E; subst j0 d0. clear E.
        subst early. rewrite andb_true_r in Estop. apply negb_false_iff in Estop.
        assert (HB : get2 (proj_of (dk j) (es ++ [e])) (e_ws e) (e_woff e) = Some (e_tag e)).
        { rewrite proj_of_snoc, <- Hd, (trig_at_trig _ _ _ _ Ht). apply get2_put2_eq. }
        rewrite <- HB. eapply adv_sticky; [apply A2|]. rewrite HB. apply D1; assumption.
Qed.

Lemma store_op_sound k ord np dk plan reapply es e s l :
  ord_ok np dk ord ->
  wf es -> ok_event es e -> btw3 k np dk es (es ++ [e]) s ->
  forall s' l' ok, store_op k ord plan reapply e s l = (s', l', ok) ->
  adv3 dk (es ++ [e]) s s'
  /\ (k_early k = true -> ok = true -> complete k np dk (es ++ [e]) s').
Proof.
  intros Hord Hw Ho (Bw & Br & Bj) s' l' ok H. unfold store_op in H.
  assert (Hkinds : forall j d, In (j, d) ord -> d = dk j) by (intros j d Hi; apply Hord in Hi; apply Hi).
  destruct (results_vals es e (recs s) Ho Br (e_cuds e) (incl_refl _)) as (rs & Hr & Hv & Hm).
  rewrite Hr in H.
  (* records *)
  assert (Hrec : forall s1 l1 ok1,
    (if recs_each (k_tl k) reapply then w_recs_each plan (e_ws e) rs s l else w_recs_batch plan (e_ws e) rs s l) = (s1, l1, ok1) ->
    same_others s s1 /\ adv (recs_of (es ++ [e])) (recs s) (recs s1)
    /\ (ok1 = true -> Forall (fun x => get2 (recs s1) (e_ws e) (rid x) = get2 (recs_of (es ++ [e])) (e_ws e) (rid x)) rs)).
  { intros s1 l1 ok1 H1. destruct (recs_each (k_tl k) reapply).
    - eapply w_recs_each_adv; eassumption.
    - eapply w_recs_batch_adv; eassumption. }
  destruct (if recs_each (k_tl k) reapply then _ else _) as [[s1 l1] ok1] eqn:E1.
  destruct (Hrec s1 l1 ok1 eq_refl) as ((P1 & W1 & J1) & A1 & D1). clear Hrec.
  assert (Adv1 : adv3 dk (es ++ [e]) s s1).
  { repeat split; [exact P1 | rewrite W1; apply adv_refl | exact A1 | intros j; unfold projv; rewrite J1; apply adv_refl]. }
  destruct ok1; cbn [negb] in H.
  2:{ inversion H; subst. split; [exact Adv1 | discriminate]. }
  (* the fork *)
  destruct (w_projs (k_early k) (k_sees k) reapply plan ord e s1 l1 true) as [[s2 l2] okv] eqn:Ev.
  destruct (w_projs_adv dk (k_early k) (k_sees k) reapply plan es e ord s1 l1 true s2 l2 okv Hkinds Ev) as (P2 & W2 & R2 & A2 & D2).
  assert (Adv2 : adv3 dk (es ++ [e]) s1 s2).
  { repeat split; [exact P2 | rewrite W2; apply adv_refl | rewrite R2; apply adv_refl | exact A2]. }
  unfold w_wlog in H. destruct (issue plan TWLog (op_of (wlog_cond (k_tl k) reapply)) l2) as [fw l3].
  destruct (wr fw (wlog_cond (k_tl k) reapply) (is_some (get2 (wlog s2) (e_ws e) (e_woff e)))) as [appw okw] eqn:Ew.
  inversion H; subst s' l' ok. clear H.
  set (s3 := if appw then set_wlog s2 (put2 (wlog s2) (e_ws e) (e_woff e) e) else s2).
  assert (Adv3 : adv3 dk (es ++ [e]) s2 s3).
  { subst s3. destruct appw; [|apply adv3_refl]. cbn. repeat split; try (intros j); try apply adv_refl.
    apply adv_put. rewrite wlog_of_snoc. apply get2_put2_eq. }
  split; [eapply adv3_trans; [exact Adv1|]; eapply adv3_trans; eassumption|].
  intros He Hok. apply andb_prop in Hok. destruct Hok as [-> ->].
  apply wr_ok_app in Ew. subst appw.
  assert (B3 : btw3 k np dk es (es ++ [e]) s3).
  { eapply btw3_adv3; [|exact Adv3]. eapply btw3_adv3; [|exact Adv2]. eapply btw3_adv3; [|exact Adv1].
    repeat split; assumption. }
  destruct B3 as (Bw3 & Br3 & Bj3). repeat split.
  - rewrite wlog_of_snoc in *. apply put2_complete; [exact Bw3|]. subst s3. cbn. apply get2_put2_eq.
  - apply recs_complete; [exact Ho | exact Br3 |]. intros c Hin.
    assert (Hin' : In (cud_id c) (map rid rs)) by (rewrite Hm; apply in_map; exact Hin).
    apply in_map_iff in Hin'. destruct Hin' as (x & Hx & Hxin).
    specialize (D1 eq_refl). rewrite Forall_forall in D1. specialize (D1 x Hxin). rewrite Hx in D1.
    destruct Adv2 as (_ & _ & R2' & _). destruct Adv3 as (_ & _ & R3 & _).
    eapply adv_sticky; [exact R3|]. eapply adv_sticky; [exact R2'|]. exact D1.
  - intros j Hj Hg. specialize (Bj3 j Hj Hg). rewrite proj_of_snoc in *.
    assert (Ht : trig_at (k_sees k) reapply (dk j) e = trig (dk j) e) by (apply trig_at_eq; exact Hg).
    destruct (trig (dk j) e) eqn:Etr.
    + apply put2_complete; [exact Bj3|].
      subst s3. cbn [projv proj set_wlog]. apply (D2 He eq_refl j (dk j)); [apply Hord; split; [exact Hj | reflexivity] | exact Ht].
    + apply btw_same. exact Bj3.
Qed.

(* ---------- recovery ---------- *)

Lemma recover_sound k ord np dk plan s l es :
  ord_ok np dk ord ->
  plog s = plog_of es -> wf es -> btw3 k np dk (removelast es) es s ->
  forall s' l' mp, recover k ord plan s l = (s', l', mp) ->
  adv3 dk es s s'
  /\ (forall p, mp = Some p -> p = scan_of es /\ (k_early k = true -> complete k np dk es s')).
Proof.
  intros Hord Hp Hw Hb s' l' mp H. unfold recover in H. rewrite Hp in H. unfold plog_of in H.
  rewrite map_snd_index_from in H. fold (plog_of es) in H. fold (scan_of es) in H.
  destruct (snoc_cases es) as [->|(es' & e & ->)].
  - cbn in H. inversion H; subst. split; [apply adv3_refl|].
    intros p Hq. inversion Hq; subst. split; [reflexivity|]. intros _.
    destruct Hb as (W & R & J). repeat split; [| |intros j Hj Hg]; apply btw_same; auto.
  - rewrite last_opt_snoc in H. rewrite removelast_last in Hb.
    apply wf_inv in Hw. destruct Hw as [Hw Ho].
    destruct (store_op k ord plan true e s l) as [[s1 l1] ok] eqn:E. inversion H; subst. clear H.
    destruct (store_op_sound k ord np dk plan true es' e s l Hord Hw Ho Hb s' l' ok E) as (Ha & Hc).
    split; [exact Ha|]. intros p Hq. destruct ok; [|discriminate]. inversion Hq; subst.
    split; [reflexivity|]. intros He. apply Hc; auto.
Qed.

(* ---------- the event built for a valid command ---------- *)

Lemma nodupb_NoDup l : nodupb l = true -> NoDup l.
Proof.
  induction l as [|x r IH]; cbn; intros H; [constructor|].
  apply andb_prop in H. destruct H as [Hx Hr]. constructor; [|apply IH; exact Hr].
  intros Hin. apply negb_true_iff in Hx. assert (E : existsb (N.eqb x) r = true).
  { apply existsb_exists. exists x. split; [exact Hin | apply N.eqb_refl]. }
  congruence.
Qed.

Lemma nodup_app (a b : list N) :
  NoDup a -> NoDup b -> (forall x, In x a -> In x b -> False) -> NoDup (a ++ b).
Proof.
  induction a as [|x r IH]; cbn; intros Ha Hb Hd; [exact Hb|].
  inversion Ha; subst. constructor.
  - intros Hin. apply in_app_or in Hin. destruct Hin as [Hin|Hin]; [tauto|]. eapply Hd; [left; reflexivity | exact Hin].
  - apply IH; auto. intros y Hy. apply Hd. right; exact Hy.
Qed.

Lemma creates_ids ops n : map cud_id (creates_of ops n) = nseq n (length (creates_of ops n)).
Proof.
  revert n; induction ops as [|o r IH]; intros n; cbn; [reflexivity|].
  destruct o; cbn; try apply IH. rewrite IH. reflexivity.
Qed.

Lemma nseq_in o n x : In x (nseq o n) <-> o <= x < o + N.of_nat n.
Proof.
  revert o; induction n as [|n IH]; intros o; cbn [nseq In].
  - split; [tauto | lia].
  - rewrite IH. lia.
Qed.

Lemma nseq_nodup o n : NoDup (nseq o n).
Proof.
  revert o; induction n as [|n IH]; intros o; cbn [nseq]; constructor; [|apply IH].
  rewrite nseq_in. lia.
Qed.

Lemma creates_new ops n c : In c (creates_of ops n) -> exists id v, c = ENew id v /\ n <= id.
Proof.
  revert n; induction ops as [|o r IH]; intros n; cbn; [tauto|].
  destruct o; cbn; try apply IH.
  intros [<-|H]; [exists n, v; split; [reflexivity | lia]|].
  destruct (IH _ H) as (id & v' & -> & Hle). exists id, v'. split; [reflexivity | lia].
Qed.

Lemma updates_ids m ws ops : map cud_id (updates_of m ws ops) = upd_ids ops.
Proof.
  unfold updates_of, upd_ids. induction ops as [|o r IH]; cbn; [reflexivity|].
  rewrite map_app, IH. destruct o; reflexivity.
Qed.

Lemma updates_not_new m ws ops c : In c (updates_of m ws ops) -> cud_new c = false.
Proof.
  unfold updates_of. rewrite in_flat_map. intros (o & _ & H). destruct o; cbn in H; try tauto;
    destruct H as [<-|[]]; reflexivity.
Qed.

Lemma updates_act m ws ops id v a :
  In (EUpd id v a) (updates_of m ws ops) -> a = match get2 m ws id with Some r => r_act r | None => true end.
Proof.
  unfold updates_of. rewrite in_flat_map. intros (o & _ & H). destruct o; cbn in H; try tauto;
    destruct H as [E|[]]; inversion E; subst; reflexivity.
Qed.

Lemma valid_cmd_parts s c : valid_cmd s c = true ->
  c_bad c = false /\ c_ops c <> [] /\ NoDup (raws_of (c_ops c)) /\ NoDup (upd_ids (c_ops c))
  /\ forall id, In id (upd_ids (c_ops c)) -> get2 (recs s) (c_ws c) id <> None.
Proof.
  unfold valid_cmd. intros H. repeat (apply andb_prop in H; destruct H as [H ?]).
  repeat split.
  - apply negb_true_iff; assumption.
  - destruct (c_ops c); [discriminate | discriminate].
  - apply nodupb_NoDup; assumption.
  - apply nodupb_NoDup; assumption.
  - intros id Hin. rewrite forallb_forall in H0. specialize (H0 id Hin).
    destruct (get2 (recs s) (c_ws c) id); [discriminate | discriminate].
Qed.

Lemma build_ok es s c tag :
  wf es -> eq2 (recs s) (recs_of es) -> valid_cmd s c = true ->
  ok_event es (build_event s (scan_of es) tag c).
Proof.
  intros Hw Hr Hv. apply valid_cmd_parts in Hv. destruct Hv as (_ & _ & _ & NDu & Hex).
  set (n := nextID (ws_of (scan_of es) (c_ws c))).
  assert (Hlt : forall id, In id (upd_ids (c_ops c)) -> id < n).
  { intros id Hin. apply (recs_bound es Hw). rewrite <- Hr. apply Hex; exact Hin. }
  unfold ok_event, build_event. cbn [e_woff e_ws e_cuds]. fold n. split; [reflexivity|]. split.
  - unfold event_cuds. rewrite map_app, creates_ids, updates_ids.
    apply nodup_app; [apply nseq_nodup | exact NDu |].
    intros x H1 H2. apply nseq_in in H1. specialize (Hlt x H2). lia.
  - intros x Hin. unfold event_cuds in Hin. apply in_app_or in Hin. destruct Hin as [Hin|Hin].
    + destruct (creates_new _ _ _ Hin) as (id & v & -> & Hle). exact Hle.
    + pose proof (updates_not_new _ _ _ _ Hin) as Hn.
      assert (Hid : In (cud_id x) (upd_ids (c_ops c))) by (rewrite <- (updates_ids (recs s) (c_ws c)); apply in_map; exact Hin).
      destruct x; cbn in Hn; try discriminate.
      * cbn [cud_id] in Hid. pose proof (updates_act _ _ _ _ _ _ Hin) as Ha. rewrite <- Hr.
        specialize (Hex id Hid). destruct (get2 (recs s) (c_ws c) id) as [r|]; [|congruence].
        exists r. split; [reflexivity | symmetry; exact Ha].
      * rewrite <- Hr; apply Hex; exact Hid.
Qed.

Lemma new_ids_event ops n m ws :
  new_ids (event_cuds m ws ops n) = map cud_id (creates_of ops n).
Proof.
  unfold event_cuds, new_ids. rewrite flat_map_app.
  assert (H1 : forall l, (forall c, In c l -> cud_new c = false) ->
               flat_map (fun c => match c with ENew id _ => [id] | _ => [] end) l = []).
  { induction l as [|c r IH]; intros H; cbn; [reflexivity|].
    rewrite IH by (intros; apply H; right; assumption).
    specialize (H c (or_introl eq_refl)). destruct c; cbn in H; try discriminate; reflexivity. }
  rewrite (H1 (updates_of m ws ops)) by apply updates_not_new. rewrite app_nil_r.
  revert n; induction ops as [|o r IH]; intros n; cbn; [reflexivity|].
  destruct o; cbn; try apply IH. rewrite IH. reflexivity.
Qed.

Lemma bump_scan s p tag c :
  bump p (build_event s p tag c) = scan_step p (nextP p, build_event s p tag c).
Proof.
  unfold bump, scan_step, build_event. cbn [e_ws e_woff e_cuds]. f_equal. f_equal. f_equal.
  rewrite new_ids_event, map_length. unfold event_cuds.
  rewrite sync_ids_app, sync_ids_creates, sync_ids_no_new by apply updates_not_new. reflexivity.
Qed.

(* ---------- the invariant ---------- *)

(* the PLog is the list es at offsets 1..n; the other stores lie between what es without its
   last event and what es stand for; when the partition state is present they are exactly what
   es stands for and the state is what a scan of the PLog gives *)
Definition InvW (k : conf) (np : N) (dk : N -> bool) (es : list event) (st : state) : Prop :=
  plog (sto st) = plog_of es /\ wf es /\ btw3 k np dk (removelast es) es (sto st)
  /\ forall p, mem st = Some p -> complete k np dk es (sto st) /\ p = scan_of es.

Definition Inv (k : conf) (np : N) (dk : N -> bool) (st : state) : Prop := exists es, InvW k np dk es st.

Lemma InvW_events k np dk es st : InvW k np dk es st -> events st = es.
Proof. intros (Hp & _). unfold events. rewrite Hp. apply map_snd_index_from. Qed.

Lemma Inv0 k np dk : Inv k np dk state0.
Proof.
  exists []. split; [reflexivity|]. split; [constructor|]. split.
  - repeat split; [| |intros j Hj]; intros x y; left; reflexivity.
  - intros p H. discriminate.
Qed.

Lemma InvW_drop k np dk es st : InvW k np dk es st -> InvW k np dk es (mkState (sto st) None).
Proof.
  intros (Hp & Hw & Hb & _). split; [exact Hp|]. split; [exact Hw|]. split; [exact Hb|].
  intros p H. discriminate.
Qed.

Lemma wlog_of_mono es e ws w x :
  wf es -> ok_event es e -> get2 (wlog_of es) ws w = Some x -> get2 (wlog_of (es ++ [e])) ws w = Some x.
Proof.
  intros Hw Ho Hg. rewrite wlog_of_snoc.
  destruct (N.eq_dec (e_ws e) ws) as [<-|Hne]; [destruct (N.eq_dec (e_woff e) w) as [<-|Hne]|].
  - rewrite (wlog_slot_free es e Hw Ho) in Hg. discriminate.
  - rewrite get2_put2_neq by (right; exact Hne). exact Hg.
  - rewrite get2_put2_neq by (left; exact Hne). exact Hg.
Qed.

(* a WLog row present in a state satisfying the invariant is the row of the log *)
Lemma InvW_wlog_entry k np dk es st ws w x :
  InvW k np dk es st -> get2 (wlog (sto st)) ws w = Some x -> get2 (wlog_of es) ws w = Some x.
Proof.
  intros (_ & Hw & (Bw & _) & _) Hg. destruct (Bw ws w) as [E|E]; [|congruence].
  destruct (snoc_cases es) as [->|(es' & e & ->)]; [rewrite Hg in E; discriminate E|].
  rewrite removelast_last in E. apply wf_inv in Hw. destruct Hw as [Hw Ho].
  apply wlog_of_mono; [exact Hw | exact Ho | congruence].
Qed.

(* ---------- the built event is the one the oracle expects for the command ---------- *)

Lemma list_eqb_app {T} (f : T -> T -> bool) a a' b b' :
  Lib.Check.list_eqb f a a' = true -> Lib.Check.list_eqb f (a ++ b) (a' ++ b') = Lib.Check.list_eqb f b b'.
Proof.
  revert a'; induction a as [|x r IH]; intros [|y r']; cbn; try discriminate; [reflexivity|].
  intros H. apply andb_prop in H. destruct H as [-> H]. cbn. apply IH; exact H.
Qed.

Lemma cud_matches_refl c : cud_matches c c = true.
Proof. destruct c; cbn; rewrite ?N.eqb_refl, ?Bool.eqb_reflx; reflexivity. Qed.

Lemma list_matches_refl l : Lib.Check.list_eqb cud_matches l l = true.
Proof. induction l as [|c r IH]; cbn; [reflexivity | rewrite cud_matches_refl, IH; reflexivity]. Qed.

Lemma updates_match m ws m' ws' ops :
  Lib.Check.list_eqb cud_matches (updates_of m ws ops) (updates_of m' ws' ops) = true.
Proof.
  unfold updates_of. induction ops as [|o r IH]; cbn; [reflexivity|].
  destruct o; cbn; rewrite ?N.eqb_refl; cbn; exact IH.
Qed.

Lemma creates_nil_raws ops n : creates_of ops n = [] -> raws_of ops = [].
Proof.
  revert n; induction ops as [|o r IH]; intros n; cbn; [reflexivity|].
  destruct o; cbn; try apply IH. discriminate.
Qed.

Lemma creates_shift ops n n' : creates_of ops n = [] -> creates_of ops n' = [].
Proof.
  revert n n'; induction ops as [|o r IH]; intros n n'; cbn; [reflexivity|].
  destruct o; cbn; try apply IH. discriminate.
Qed.

Lemma build_matches s p tag c : event_matches c (build_event s p tag c) = true.
Proof.
  unfold event_matches, build_event. cbn [e_ws e_cuds]. rewrite N.eqb_refl. cbn [andb].
  rewrite new_ids_event. set (n := nextID (ws_of p (c_ws c))).
  destruct (creates_of (c_ops c) n) as [|c0 r] eqn:E.
  - cbn [map]. unfold event_cuds. rewrite E, (creates_shift _ _ 0 E), (creates_nil_raws _ _ E). cbn [app].
    rewrite updates_match. reflexivity.
  - assert (Hid : cud_id c0 = n).
    { pose proof (creates_ids (c_ops c) n) as H. rewrite E in H. cbn in H. inversion H. reflexivity. }
    cbn [map]. rewrite Hid. unfold event_cuds. rewrite list_eqb_app by apply list_matches_refl.
    apply updates_match.
Qed.

(* ---------- one command ---------- *)

Definition wlog_kept (s s' : store) : Prop :=
  forall ws w x, get2 (wlog s) ws w = Some x -> get2 (wlog s') ws w = Some x.

Lemma adv_wlog_kept b s s' :
  (forall ws w x, get2 (wlog s) ws w = Some x -> get2 b ws w = Some x) ->
  adv b (wlog s) (wlog s') -> wlog_kept s s'.
Proof. intros Hb Ha ws w x Hg. destruct (Ha ws w) as [E|E]; rewrite E; [apply Hb|]; exact Hg. Qed.

Lemma process_spec k ord np dk tag c plan st st' o es :
  k_early k = true -> ord_ok np dk ord ->
  InvW k np dk es st -> process k ord tag c plan st = (st', o) ->
  wlog_kept (sto st) (sto st') /\
  ((o_written o = false /\ InvW k np dk es st' /\ (forall w ids, o_reply o <> ROk w ids))
   \/ (o_written o = true /\ exists e, InvW k np dk (es ++ [e]) st' /\ e_tag e = tag
         /\ event_matches c e = true /\ reply_fits o e)).
Proof.
  intros He Hord HI H. pose proof HI as (Hp & Hw & Hb & Hm). unfold process in H.
  (* recovery, if the partition state is absent *)
  assert (Hrec : exists s0 l0 mp,
    (match mem st with Some p => (sto st, [], Some p) | None => recover k ord plan (sto st) [] end) = (s0, l0, mp)
    /\ adv3 dk es (sto st) s0 /\ (forall p, mp = Some p -> complete k np dk es s0 /\ p = scan_of es)).
  { destruct (mem st) as [p|] eqn:Em.
    - exists (sto st), [], (Some p). split; [reflexivity|]. split; [apply adv3_refl|].
      intros p' E. inversion E; subst. apply Hm. reflexivity.
    - destruct (recover k ord plan (sto st) []) as [[s0 l0] mp] eqn:Er. exists s0, l0, mp.
      split; [reflexivity|].
      destruct (recover_sound k ord np dk plan (sto st) [] es Hord Hp Hw Hb s0 l0 mp Er) as (Ha & Hc).
      split; [exact Ha|]. intros p E. destruct (Hc p E) as (-> & Hcomp). split; [apply Hcomp; assumption | reflexivity]. }
  destruct Hrec as (s0 & l0 & mp & Er & Ha0 & Hc0). rewrite Er in H. clear Er.
  assert (Hk0 : wlog_kept (sto st) s0).
  { eapply adv_wlog_kept; [|apply Ha0]. intros ws w x. apply (InvW_wlog_entry k np dk es st); exact HI. }
  assert (Hp0 : plog s0 = plog_of es) by (destruct Ha0 as (P & _); congruence).
  assert (Hb0 : btw3 k np dk (removelast es) es s0) by (eapply btw3_adv3; eassumption).
  destruct mp as [p|].
  2:{ inversion H; subst. split; [exact Hk0|]. left. cbn. split; [reflexivity|]. split; [|discriminate].
      split; [exact Hp0|]. split; [exact Hw|]. split; [exact Hb0|]. intros p E. discriminate. }
  destruct (Hc0 p eq_refl) as (Hc & ->). clear Hc0.
  destruct (valid_cmd s0 c) eqn:Ev; cbn [negb] in H.
  2:{ inversion H; subst. split; [exact Hk0|]. left. cbn. split; [reflexivity|]. split; [|discriminate].
      split; [exact Hp0|]. split; [exact Hw|]. split; [exact Hb0|].
      intros p E. inversion E; subst. split; [exact Hc | reflexivity]. }
  set (e := build_event s0 (scan_of es) tag c) in *.
  assert (Ho : ok_event es e) by (apply build_ok; [exact Hw | apply Hc | exact Ev]).
  assert (Hw' : wf (es ++ [e])) by (constructor; assumption).
  (* putPLog *)
  unfold w_plog in H. destruct (issue plan TPLog (op_of (plog_cond (k_tl k))) l0) as [fp l1].
  destruct (wr fp (plog_cond (k_tl k)) (is_some (nget (plog s0) (nextP (scan_of es))))) as [app okp] eqn:Ewp.
  set (s1 := if app then set_plog s0 (nput (plog s0) (nextP (scan_of es)) e) else s0) in H.
  assert (Hs1 : wlog s1 = wlog s0 /\ recs s1 = recs s0 /\ proj s1 = proj s0) by (subst s1; destruct app; repeat split).
  destruct Hs1 as (W1 & R1 & J1).
  assert (Hk1 : wlog_kept (sto st) s1) by (intros ws w x Hg; rewrite W1; apply Hk0; exact Hg).
  assert (Hp1 : app = true -> plog s1 = plog_of (es ++ [e])).
  { intros ->. subst s1. cbn [plog set_plog]. rewrite Hp0, nextP_scan_of. unfold plog_of. apply nput_index_snoc. }
  assert (Hb1 : btw3 k np dk es (es ++ [e]) s1).
  { destruct Hc as (Cw & Cr & Cj). repeat split; [| |intros j Hj Hg; unfold projv; rewrite J1; apply btw_of_eq2_l; apply Cj; assumption];
      apply btw_of_eq2_l; congruence. }
  assert (Hmatch : e_tag e = tag /\ event_matches c e = true) by (split; [reflexivity | apply build_matches]).
  destruct okp; cbn [negb] in H.
  2:{ (* the PLog write reported failure *)
      inversion H; subst st' o. clear H. split; [exact Hk1|]. cbn [o_written o_reply].
      destruct app.
      - right. split; [reflexivity|]. exists e. split; [|split; [apply Hmatch|split; [apply Hmatch|]]].
        + split; [apply Hp1; reflexivity|]. split; [exact Hw'|]. rewrite removelast_last.
          split; [exact Hb1|]. intros p E. discriminate.
        + unfold reply_fits. cbn. destruct (k_fx k); exact I.
      - left. split; [reflexivity|]. split; [|intros w ids; destruct (k_fx k); discriminate].
        subst s1. split; [exact Hp0|]. split; [exact Hw|]. split; [exact Hb0|]. intros p E. discriminate. }
  apply wr_ok_app in Ewp. subst app. specialize (Hp1 eq_refl).
  (* the store operator *)
  destruct (store_op k ord plan false e s1 l1) as [[s2 l2] oks] eqn:Es.
  destruct (store_op_sound k ord np dk plan false es e s1 l1 Hord Hw Ho Hb1 s2 l2 oks Es) as (Ha2 & Hc2).
  assert (Hk2 : wlog_kept (sto st) s2).
  { intros ws w x Hg. specialize (Hk1 ws w x Hg).
    eapply (adv_wlog_kept (wlog_of (es ++ [e])) s1 s2); [|apply Ha2|exact Hk1].
    intros ws' w' x' Hg'. rewrite W1 in Hg'. destruct Hc as (Cw & _). rewrite Cw in Hg'.
    apply wlog_of_mono; assumption. }
  assert (Hp2 : plog s2 = plog_of (es ++ [e])) by (destruct Ha2 as (P & _); congruence).
  assert (Hb2 : btw3 k np dk es (es ++ [e]) s2) by (eapply btw3_adv3; eassumption).
  split; [destruct oks; inversion H; subst; exact Hk2|]. right.
  destruct oks; cbn [negb] in H; inversion H; subst st' o; clear H; cbn [o_written o_reply];
    (split; [reflexivity|]); exists e; (split; [|split; [apply Hmatch|split; [apply Hmatch|]]]).
  - split; [exact Hp2|]. split; [exact Hw'|]. rewrite removelast_last. split; [exact Hb2|].
    intros p E. inversion E; subst p. split; [apply Hc2; auto|].
    rewrite scan_of_snoc, <- nextP_scan_of. apply bump_scan.
  - unfold reply_fits. cbn. split; reflexivity.
  - split; [exact Hp2|]. split; [exact Hw'|]. rewrite removelast_last. split; [exact Hb2|].
    intros p E. discriminate.
  - unfold reply_fits. cbn. exact I.
Qed.

Lemma process_reply_fx k ord tag c plan st st' o :
  k_fx k = true -> process k ord tag c plan st = (st', o) -> o_reply o <> RNone.
Proof.
  intros Hfx. unfold process. rewrite Hfx.
  destruct (match mem st with Some p => (sto st, [], Some p) | None => recover k ord plan (sto st) [] end) as [[s0 l0] mp].
  destruct mp as [p|]; [|intros H; inversion H; discriminate].
  destruct (valid_cmd s0 c); cbn [negb]; [|intros H; inversion H; discriminate].
  destruct (w_plog _ _ _ _ _ _) as [[s1 l1] [wrt okp]].
  destruct okp; cbn [negb]; [|intros H; inversion H; discriminate].
  destruct (store_op _ _ _ _ _ _) as [[s2 l2] oks].
  destruct oks; cbn [negb]; intros H; inversion H; discriminate.
Qed.

(* ---------- histories ---------- *)

Definition log_fits (e : event) (x : N * command * outcome) : Prop :=
  let '(t, c, o) := x in e_tag e = t /\ event_matches c e = true /\ reply_fits o e.

Lemma wlog_kept_trans s s' s'' : wlog_kept s s' -> wlog_kept s' s'' -> wlog_kept s s''.
Proof. intros H1 H2 ws w x Hg. apply H2, H1, Hg. Qed.

Lemma run_spec k ords np dk : k_early k = true -> ords_ok np dk ords -> forall steps tag st st' outs es,
  InvW k np dk es st -> run k ords tag steps st = (st', outs) ->
  exists evs, InvW k np dk (es ++ evs) st' /\ wlog_kept (sto st) (sto st')
    /\ Forall2 log_fits evs (written_cmds tag steps outs)
    /\ Forall (fun o => forall w ids, o_reply o = ROk w ids -> o_written o = true) outs
    /\ (k_fx k = true -> Forall (fun o => o_reply o <> RNone) outs).
Proof.
  intros He Hords. induction steps as [|stp r IH]; intros tag st st' outs es HI H; cbn [run] in H.
  - inversion H; subst. exists []. rewrite app_nil_r. split; [exact HI|].
    split; [intros ws w x Hg; exact Hg|]. split; [constructor|]. split; [constructor|]. intros _; constructor.
  - destruct stp as [c plan|].
    + destruct (process k (ords tag) tag c plan st) as [st1 o] eqn:Ep.
      destruct (run k ords (tag + 1) r st1) as [st2 os] eqn:Er. inversion H; subst st' outs. clear H.
      destruct (process_spec k (ords tag) np dk tag c plan st st1 o es He (Hords tag) HI Ep) as (Hk & Hcase).
      assert (Hfx : k_fx k = true -> o_reply o <> RNone).
      { intros F. eapply process_reply_fx; [exact F | exact Ep]. }
      destruct Hcase as [(Hwr & HI1 & Hno)|(Hwr & e & HI1 & Ht & Hm & Hf)].
      * destruct (IH (tag + 1) st1 st2 os es HI1 Er) as (evs & HI2 & Hk2 & Hl & Hok & Hn).
        exists evs. split; [exact HI2|]. split; [eapply wlog_kept_trans; eassumption|].
        cbn [written_cmds]. rewrite Hwr. cbn [app]. split; [exact Hl|]. split.
        -- constructor; [|exact Hok]. intros w ids E. exfalso. eapply Hno; exact E.
        -- intros F. constructor; [apply Hfx; exact F | apply Hn; exact F].
      * destruct (IH (tag + 1) st1 st2 os (es ++ [e]) HI1 Er) as (evs & HI2 & Hk2 & Hl & Hok & Hn).
        exists (e :: evs). rewrite <- app_assoc in HI2. split; [exact HI2|].
        split; [eapply wlog_kept_trans; eassumption|].
        cbn [written_cmds]. rewrite Hwr. cbn [app]. split; [constructor; [|exact Hl]|]. 
        -- unfold log_fits. repeat split; assumption.
        -- split; [constructor; [intros; exact Hwr | exact Hok]|].
           intros F. constructor; [apply Hfx; exact F | apply Hn; exact F].
    + destruct (IH tag (mkState (sto st) None) st' outs es (InvW_drop k np dk es st HI) H) as (evs & HI2 & Hk2 & Hl & Hok & Hn).
      exists evs. split; [exact HI2|]. split; [exact Hk2|]. split; [exact Hl|]. split; assumption.
Qed.

Lemma run_app k ords : forall s1 s2 tag st,
  run k ords tag (s1 ++ s2) st =
  let '(st1, o1) := run k ords tag s1 st in
  let '(st2, o2) := run k ords (tag + N.of_nat (length (filter (fun s => match s with SCmd _ _ => true | SRestart => false end) s1))) s2 st1 in
  (st2, o1 ++ o2).
Proof.
  induction s1 as [|stp r IH]; intros s2 tag st; cbn [app run filter length].
  - rewrite N.add_0_r. destruct (run k ords tag s2 st); reflexivity.
  - destruct stp as [c plan|]; cbn [length].
    + destruct (process k (ords tag) tag c plan st) as [st1 o]. rewrite IH.
      destruct (run k ords (tag + 1) r st1) as [st2 os].
      replace (tag + 1 + N.of_nat (length (filter (fun s => match s with SCmd _ _ => true | SRestart => false end) r)))
        with (tag + N.of_nat (S (length (filter (fun s => match s with SCmd _ _ => true | SRestart => false end) r)))) by lia.
      destruct (run k ords _ s2 st2). reflexivity.
    + apply IH.
Qed.

(* ---------- complete stores are consistent ---------- *)

Lemma complete_consistent k np dk es s :
  plog s = plog_of es -> wf es -> complete k np dk es s -> consistent np dk (good (k_sees k) dk) s.
Proof.
  intros Hp Hw (Cw & Cr & Cj). unfold consistent. rewrite Hp. unfold plog_of.
  rewrite map_snd_index_from, map_fst_index_from. split; [reflexivity|]. split; [|split; [|split]].
  - intros ws w. rewrite Cw. apply wlog_of_get; exact Hw.
  - apply woffs_of; exact Hw.
  - exact Cr.
  - intros j Hj Hg ws w. unfold get3. fold (projv s j). rewrite (Cj j Hj Hg), Cw. apply proj_of_get; exact Hw.
Qed.

(* ---------- a recovery without faults succeeds ---------- *)

Definition reapply_unconditional : Prop :=
  c05_reapply_wlog_op = 0 /\ (forall tl, tl_flag c05_rec_reapply_ops tl = false).

(* without faults every projector is flushed successfully *)
Lemma w_projs_clean early sees reapply e : forall ord s l,
  exists s' l', w_projs early sees reapply [] ord e s l true = (s', l', true) /\ wlog s' = wlog s.
Proof.
  induction ord as [|jd r IH]; intros s l; cbn [w_projs].
  - eexists; eexists; split; reflexivity.
  - unfold w_proj1. destruct (trig_at sees reapply (snd jd) e).
    + unfold issue. cbn [fault_at wr negb andb].
      destruct (IH (set_proj s (put3 (proj s) (fst jd) (e_ws e) (e_woff e) (e_tag e))) (l ++ [(TView, opPutBatch)])) as (s' & l' & E & W).
      exists s', l'. split; [exact E | exact W].
    + cbn [negb andb]. apply IH.
Qed.

Lemma store_op_reapply_ok k ord np dk es e s l :
  reapply_unconditional -> wf es -> ok_event es e -> btw3 k np dk es (es ++ [e]) s ->
  exists s' l', store_op k ord [] true e s l = (s', l', true).
Proof.
  intros (Hwl & Hrc) Hw Ho (_ & Br & _). unfold store_op.
  destruct (results_vals es e (recs s) Ho Br (e_cuds e) (incl_refl _)) as (rs & Hr & _). rewrite Hr.
  unfold recs_each, wlog_cond. rewrite Hrc, Hwl. cbn [N.eqb].
  assert (Hb : exists s1 l1, w_recs_batch [] (e_ws e) rs s l = (s1, l1, true)).
  { unfold w_recs_batch, issue. cbn [fault_at wr]. destruct rs; eexists; eexists; reflexivity. }
  destruct Hb as (s1 & l1 & E1). rewrite E1. cbn [negb].
  destruct (w_projs_clean (k_early k) (k_sees k) true e ord s1 l1) as (s2 & l2 & E2 & _). rewrite E2.
  unfold w_wlog, issue. cbn [fault_at wr andb]. eexists; eexists; reflexivity.
Qed.

Lemma recover_clean k ord np dk es st :
  k_early k = true -> ord_ok np dk ord ->
  reapply_unconditional -> InvW k np dk es st ->
  exists s' l', recover k ord [] (sto st) [] = (s', l', Some (scan_of es)) /\ plog s' = plog_of es /\ complete k np dk es s'.
Proof.
  intros He Hord Hu (Hp & Hw & Hb & _).
  destruct (recover k ord [] (sto st) []) as [[s' l'] mp] eqn:Er.
  destruct (recover_sound k ord np dk [] (sto st) [] es Hord Hp Hw Hb s' l' mp Er) as ((P & _) & Hc).
  assert (Hsome : mp <> None).
  { unfold recover in Er. rewrite Hp in Er. unfold plog_of in Er. rewrite map_snd_index_from in Er.
    destruct (snoc_cases es) as [->|(es' & e & ->)].
    - cbn in Er. inversion Er. discriminate.
    - rewrite last_opt_snoc in Er. rewrite removelast_last in Hb. apply wf_inv in Hw. destruct Hw as [Hw Ho].
      destruct (store_op_reapply_ok k ord np dk es' e (sto st) [] Hu Hw Ho Hb) as (s1 & l1 & E).
      fold (plog_of (es' ++ [e])) in Er. rewrite E in Er. inversion Er. discriminate. }
  destruct mp as [p|]; [|congruence]. destruct (Hc p eq_refl) as (-> & Hcomp).
  exists s', l'. split; [reflexivity|]. split; [congruence | apply Hcomp; assumption].
Qed.

(* ---------- the theorems of Properties/C01.v ---------- *)

Lemma run_reach k ords np dk steps st outs :
  k_early k = true -> ords_ok np dk ords ->
  run k ords 1 steps state0 = (st, outs) ->
  exists es, InvW k np dk es st /\ Forall2 log_fits es (written_cmds 1 steps outs)
    /\ Forall (fun o => forall w ids, o_reply o = ROk w ids -> o_written o = true) outs.
Proof.
  intros He Hords H. destruct (Inv0 k np dk) as (es0 & HI0).
  assert (es0 = []) by (rewrite <- (InvW_events k np dk es0 state0 HI0); reflexivity). subst es0.
  destruct (run_spec k ords np dk He Hords steps 1 state0 st outs [] HI0 H) as (evs & HI & _ & Hl & Hok & Hn).
  exists evs. cbn [app] in HI. split; [exact HI|]. split; [exact Hl|]. exact Hok.
Qed.

Theorem recovery_restores_consistency_proved k ords np dk steps st outs :
  k_early k = true -> ords_ok np dk ords ->
  reapply_unconditional ->
  run k ords 1 steps state0 = (st, outs) ->
  forall ord, ord_ok np dk ord ->
  exists s' l' p, recover k ord [] (sto st) [] = (s', l', Some p)
    /\ plog s' = plog (sto st) /\ consistent np dk (good (k_sees k) dk) s'.
Proof.
  intros He Hords Hu H ord Hord. destruct (run_reach k ords np dk steps st outs He Hords H) as (es & HI & _).
  destruct (recover_clean k ord np dk es st He Hord Hu HI) as (s' & l' & Er & Hp & Hc).
  exists s', l', (scan_of es). split; [exact Er|]. pose proof HI as (Hp0 & Hw & _).
  split; [congruence|]. eapply complete_consistent; eassumption.
Qed.

Theorem serving_state_consistent_proved k ords np dk steps st outs :
  k_early k = true -> ords_ok np dk ords ->
  run k ords 1 steps state0 = (st, outs) -> mem st <> None -> consistent np dk (good (k_sees k) dk) (sto st).
Proof.
  intros He Hords H Hm. destruct (run_reach k ords np dk steps st outs He Hords H) as (es & (Hp & Hw & _ & Hc) & _).
  destruct (mem st) as [p|]; [|congruence]. destruct (Hc p eq_refl) as (Hcomp & _).
  eapply complete_consistent; eassumption.
Qed.

Theorem log_is_the_written_commands_proved k ords np dk steps st outs :
  k_early k = true -> ords_ok np dk ords ->
  run k ords 1 steps state0 = (st, outs) ->
  Forall2 log_fits (events st) (written_cmds 1 steps outs)
  /\ Forall (fun o => forall w ids, o_reply o = ROk w ids -> o_written o = true) outs.
Proof.
  intros He Hords H. destruct (run_reach k ords np dk steps st outs He Hords H) as (es & HI & Hl & Hok).
  rewrite (InvW_events k np dk es st HI). split; assumption.
Qed.

(* exactly one reply: needs nothing but putPLog handing the error on *)
Theorem every_command_answered_proved k ords : k_fx k = true -> forall steps tag st st' outs,
  run k ords tag steps st = (st', outs) -> Forall (fun o => o_reply o <> RNone) outs.
Proof.
  intros Hfx. induction steps as [|stp r IH]; intros tag st st' outs H; cbn [run] in H.
  - inversion H; constructor.
  - destruct stp as [c plan|].
    + destruct (process k (ords tag) tag c plan st) as [st1 o] eqn:Ep.
      destruct (run k ords (tag + 1) r st1) as [st2 os] eqn:Er. inversion H; subst.
      constructor; [eapply process_reply_fx; eassumption | eapply IH; exact Er].
    + eapply IH; exact H.
Qed.

(* without a fault at the PLog write nobody dies, whatever putPLog does with an error *)
Lemma plog_slot_free es : nget (plog_of es) (nextP (scan_of es)) = None.
Proof.
  rewrite nextP_scan_of. unfold plog_of. rewrite nget_index_from.
  destruct (N.ltb_spec (1 + N.of_nat (length es)) 1); [reflexivity|].
  apply nth_error_None. lia.
Qed.

Lemma process_reply_noplog k ord np dk tag c plan st st' o es :
  ord_ok np dk ord ->
  InvW k np dk es st -> (forall i, fault_at plan TPLog i = None) ->
  process k ord tag c plan st = (st', o) -> o_reply o <> RNone.
Proof.
  intros Hord HI Hnf. pose proof HI as (Hp & Hw & Hb & Hm). unfold process.
  assert (Hrec : forall s0 l0 p,
    (match mem st with Some p => (sto st, [], Some p) | None => recover k ord plan (sto st) [] end) = (s0, l0, Some p) ->
    plog s0 = plog_of es /\ p = scan_of es).
  { intros s0 l0 p E. destruct (mem st) as [q|] eqn:Em.
    - inversion E; subst. split; [exact Hp | apply Hm; reflexivity].
    - destruct (recover_sound k ord np dk plan (sto st) [] es Hord Hp Hw Hb s0 l0 (Some p) E) as ((P & _) & Hc).
      split; [congruence | apply Hc; reflexivity]. }
  destruct (match mem st with Some p => (sto st, [], Some p) | None => recover k ord plan (sto st) [] end) as [[s0 l0] mp].
  destruct mp as [p|]; [|intros H; inversion H; discriminate].
  destruct (Hrec s0 l0 p eq_refl) as (Hp0 & ->).
  destruct (valid_cmd s0 c); cbn [negb]; [|intros H; inversion H; discriminate].
  unfold w_plog, issue. rewrite Hnf, Hp0, plog_slot_free. cbn [is_some wr].
  rewrite andb_false_r. cbn [negb].
  destruct (store_op _ _ _ _ _ _ _) as [[s2 l2] oks].
  destruct oks; cbn [negb]; intros H; inversion H; discriminate.
Qed.

Lemma run_noplog k ords np dk : k_early k = true -> ords_ok np dk ords -> forall steps tag st st' outs es,
  InvW k np dk es st -> no_plog_fault steps -> run k ords tag steps st = (st', outs) ->
  Forall (fun o => o_reply o <> RNone) outs.
Proof.
  intros He Hords. induction steps as [|stp r IH]; intros tag st st' outs es HI Hnf H; cbn [run] in H.
  - inversion H; constructor.
  - assert (Hnf' : no_plog_fault r) by (intros c plan Hin; apply (Hnf c plan); right; exact Hin).
    destruct stp as [c plan|].
    + destruct (process k (ords tag) tag c plan st) as [st1 o] eqn:Ep.
      destruct (run k ords (tag + 1) r st1) as [st2 os] eqn:Er. inversion H; subst st' outs. clear H.
      constructor.
      * eapply process_reply_noplog; [apply Hords | exact HI | apply (Hnf c plan); left; reflexivity | exact Ep].
      * destruct (process_spec k (ords tag) np dk tag c plan st st1 o es He (Hords tag) HI Ep) as (_ & [(_ & HI1 & _)|(_ & e & HI1 & _)]);
          eapply IH; eassumption.
    + eapply IH; [apply InvW_drop; exact HI | exact Hnf' | exact H].
Qed.

Theorem every_command_answered_partial_proved k ords np dk steps st outs :
  k_early k = true -> ords_ok np dk ords ->
  no_plog_fault steps -> run k ords 1 steps state0 = (st, outs) -> Forall (fun o => o_reply o <> RNone) outs.
Proof. intros He Hords Hnf H. destruct (Inv0 k np dk) as (es0 & HI0). eapply run_noplog; eassumption. Qed.

(* offsets are never reused: what a log holds at an offset it holds for ever *)
Theorem log_entries_never_change_proved k ords np dk steps1 steps2 st1 outs1 st2 outs2 :
  k_early k = true -> ords_ok np dk ords ->
  run k ords 1 steps1 state0 = (st1, outs1) ->
  run k ords 1 (steps1 ++ steps2) state0 = (st2, outs2) ->
  (forall o e, nget (plog (sto st1)) o = Some e -> nget (plog (sto st2)) o = Some e)
  /\ (forall ws w e, get2 (wlog (sto st1)) ws w = Some e -> get2 (wlog (sto st2)) ws w = Some e).
Proof.
  intros He Hords H1 H2. rewrite run_app, H1 in H2.
  destruct (run k ords _ steps2 st1) as [st2' o2] eqn:E2. inversion H2; subst st2' outs2. clear H2.
  destruct (run_reach k ords np dk steps1 st1 outs1 He Hords H1) as (es & HI & _).
  destruct (run_spec k ords np dk He Hords steps2 _ st1 st2 o2 es HI E2) as (evs & HI2 & Hk & _).
  split; [|exact Hk].
  destruct HI as (Hp & _). destruct HI2 as (Hp2 & _). rewrite Hp, Hp2. unfold plog_of.
  intros o e. rewrite !nget_index_from. destruct (o <? 1); [discriminate|].
  intros Hn. rewrite nth_error_app1; [exact Hn|]. apply nth_error_Some. congruence.
Qed.

(* ---------- the processor keeps serving: a clean command succeeds ---------- *)

Lemma results_shape m ws : forall cs rs, results m ws cs = Some rs ->
  map (fun x => (rid x, snd x)) rs = map (fun c => (cud_id c, cud_new c)) cs.
Proof.
  induction cs as [|c r IH]; intros rs H; cbn [results] in H.
  - inversion H; reflexivity.
  - destruct (cud_apply _ c) as [x|]; [|discriminate]. destruct (results m ws r) as [l|]; [|discriminate].
    inversion H; subst. cbn. rewrite (IH l eq_refl). reflexivity.
Qed.

Lemma each_clean ws : forall rs s l,
  NoDup (map rid rs) ->
  (forall x, In x rs -> snd x = true -> get2 (recs s) ws (rid x) = None) ->
  exists s' l', w_recs_each [] ws rs s l = (s', l', true).
Proof.
  induction rs as [|[[id r] isnew] rest IH]; intros s l ND Hfree; cbn [w_recs_each].
  - eexists; eexists; reflexivity.
  - unfold issue. cbn [fault_at].
    assert (Hw : wr None isnew (is_some (get2 (recs s) ws id)) = (true, true)).
    { destruct isnew; [|reflexivity]. pose proof (Hfree (id, r, true) (or_introl eq_refl) eq_refl) as Hf.
      cbn [rid fst] in Hf. rewrite Hf. reflexivity. }
    rewrite Hw. inversion ND as [|? ? Hnin ND']; subst. apply IH; [exact ND'|].
    intros x Hin Hn. cbn [recs set_recs]. rewrite get2_put2_neq.
    + apply Hfree; [right; exact Hin | exact Hn].
    + right. intros E. apply Hnin. cbn [rid fst] in *. rewrite E. apply (in_map rid). exact Hin.
Qed.

Lemma store_op_clean k ord es e s l :
  wf es -> ok_event es e -> eq2 (wlog s) (wlog_of es) -> eq2 (recs s) (recs_of es) ->
  exists s' l', store_op k ord [] false e s l = (s', l', true).
Proof.
  intros Hw Ho Cw Cr.
  assert (Br : btw (recs_of es) (recs_of (es ++ [e])) (recs s)) by (apply btw_of_eq2_l; exact Cr).
  unfold store_op.
  destruct (results_vals es e (recs s) Ho Br (e_cuds e) (incl_refl _)) as (rs & Hr & Hv & Hm). rewrite Hr.
  pose proof (results_shape _ _ _ _ Hr) as Hsh.
  assert (Hrecs : exists s1 l1,
    (if recs_each (k_tl k) false then w_recs_each [] (e_ws e) rs s l else w_recs_batch [] (e_ws e) rs s l) = (s1, l1, true)
    /\ wlog s1 = wlog s).
  { destruct (recs_each (k_tl k) false).
    - destruct (each_clean (e_ws e) rs s l) as (s1 & l1 & E).
      + rewrite Hm. apply Ho.
      + intros x Hin Hn.
        assert (Hx : In (rid x, snd x) (map (fun c => (cud_id c, cud_new c)) (e_cuds e))).
        { rewrite <- Hsh. apply (in_map (fun x => (rid x, snd x))). exact Hin. }
        apply in_map_iff in Hx. destruct Hx as (c & Hc' & Hcin). inversion Hc' as [[Hid Hnew]].
        destruct Ho as (_ & _ & Hcs). specialize (Hcs c Hcin). rewrite Hn in Hnew.
        destruct c; cbn in Hnew; try discriminate. cbn [cud_id] in Hid. subst id.
        rewrite Cr.
        destruct (get2 (recs_of es) (e_ws e) (rid x)) eqn:G; [|exact G].
        assert (Hlt : rid x < nextID (ws_of (scan_of es) (e_ws e))) by (apply (recs_bound es Hw); congruence).
        lia.
      + exists s1, l1. split; [exact E|]. eapply w_recs_each_adv in E; [|exact Hv]. apply E.
    - unfold w_recs_batch, issue. cbn [fault_at wr]. destruct rs; eexists; eexists; split; reflexivity. }
  destruct Hrecs as (s1 & l1 & E1 & W1). rewrite E1. cbn [negb].
  destruct (w_projs_clean (k_early k) (k_sees k) false e ord s1 l1) as (s2 & l2 & E2 & W2). rewrite E2.
  unfold w_wlog, issue. cbn [fault_at wr].
  rewrite W2, W1, Cw, (wlog_slot_free es e Hw Ho). cbn [is_some].
  rewrite andb_false_r. cbn [andb]. eexists; eexists; reflexivity.
Qed.

Lemma insert_only_valid s c : insert_only c = true -> valid_cmd s c = true.
Proof.
  unfold insert_only, valid_cmd. intros H. repeat (apply andb_prop in H; destruct H as [H ?]).
  assert (Hg : forall ops, forallb (fun o => match o with Ins _ _ => true | _ => false end) ops = true -> upd_ids ops = []).
  { unfold upd_ids. induction ops as [|o r IH]; [reflexivity|]. cbn. intros Hf. apply andb_prop in Hf.
    destruct Hf as [Ho Hr]. destruct o; try discriminate. cbn. apply IH; exact Hr. }
  rewrite H, H2, H0, (Hg _ H1). reflexivity.
Qed.

Lemma process_clean k ord np dk tag c st st' o es :
  k_early k = true -> ord_ok np dk ord ->
  reapply_unconditional -> InvW k np dk es st -> insert_only c = true ->
  process k ord tag c [] st = (st', o) ->
  (exists w ids, o_reply o = ROk w ids) /\ mem st' <> None.
Proof.
  intros He Hord Hu HI Hins. pose proof HI as (Hp & Hw & Hb & Hm). unfold process.
  assert (Hrec : exists s0 l0,
    (match mem st with Some p => (sto st, [], Some p) | None => recover k ord [] (sto st) [] end) = (s0, l0, Some (scan_of es))
    /\ plog s0 = plog_of es /\ complete k np dk es s0).
  { destruct (mem st) as [p|] eqn:Em.
    - destruct (Hm p eq_refl) as (Hc & ->). exists (sto st), []. repeat split; try assumption; apply Hc.
    - destruct (recover_clean k ord np dk es st He Hord Hu HI) as (s' & l' & E & P & C). exists s', l'. repeat split; try assumption; apply C. }
  destruct Hrec as (s0 & l0 & E & Hp0 & Hc). rewrite E.
  rewrite (insert_only_valid s0 c Hins). cbn [negb].
  set (e := build_event s0 (scan_of es) tag c).
  assert (Ho : ok_event es e) by (apply build_ok; [exact Hw | apply Hc | apply insert_only_valid; exact Hins]).
  unfold w_plog, issue. cbn [fault_at]. rewrite Hp0, plog_slot_free. cbn [is_some wr].
  rewrite andb_false_r. cbn [negb].
  destruct (store_op_clean k ord es e (set_plog s0 (nput (plog_of es) (nextP (scan_of es)) e)) (l0 ++ [(TPLog, op_of (plog_cond (k_tl k)))]) Hw Ho) as (s2 & l2 & Es);
    [apply Hc | apply Hc |].
  rewrite Es. cbn [negb]. intros H. inversion H; subst. cbn. split; [eexists; eexists; reflexivity | discriminate].
Qed.

Theorem clean_command_succeeds_proved k ords np dk steps c st outs :
  k_early k = true -> ords_ok np dk ords ->
  reapply_unconditional -> insert_only c = true ->
  run k ords 1 (steps ++ [SCmd c []]) state0 = (st, outs) ->
  (exists w ids, option_map o_reply (last_opt outs) = Some (ROk w ids)) /\ consistent np dk (good (k_sees k) dk) (sto st).
Proof.
  intros He Hords Hu Hins H. pose proof H as H'. rewrite run_app in H.
  destruct (run k ords 1 steps state0) as [st1 o1] eqn:E1.
  destruct (run_reach k ords np dk steps st1 o1 He Hords E1) as (es & HI & _).
  cbn [run] in H. destruct (process k (ords _) _ c [] st1) as [st2 o] eqn:Ep. inversion H; subst st outs.
  destruct (process_clean k (ords _) np dk _ c st1 st2 o es He (Hords _) Hu HI Hins Ep) as ((w & ids & Hr) & Hm).
  split.
  - exists w, ids. rewrite last_opt_snoc. cbn. rewrite Hr. reflexivity.
  - eapply serving_state_consistent_proved; [exact He | exact Hords | exact H' | exact Hm].
Qed.

(* ---------- the rows of the log: updates address existing records and keep sys.IsActive ---------- *)

Lemma wf_app_l a b : wf (a ++ b) -> wf a.
Proof.
  induction b as [|x b' IH] using rev_ind; intros H.
  - rewrite app_nil_r in H. exact H.
  - rewrite app_assoc in H. apply wf_inv in H. apply IH. apply H.
Qed.

Lemma acts_ok_wf : forall suf pre, wf (pre ++ suf) -> acts_ok (recs_of pre) suf = true.
Proof.
  induction suf as [|e r IH]; intros pre H; [reflexivity|].
  replace (pre ++ e :: r) with ((pre ++ [e]) ++ r) in H by (rewrite <- app_assoc; reflexivity).
  pose proof (wf_app_l _ _ H) as H1. apply wf_inv in H1. destruct H1 as [_ (_ & _ & Hc)].
  cbn [acts_ok]. apply andb_true_intro. split.
  - apply forallb_forall. intros c Hin. specialize (Hc c Hin). destruct c.
    + reflexivity.
    + destruct Hc as (x & -> & <-). apply Bool.eqb_reflx.
    + cbn [cud_id] in Hc. destruct (get2 (recs_of pre) (e_ws e) id); [reflexivity | congruence].
  - rewrite <- recs_of_snoc. apply IH. exact H.
Qed.

Theorem log_rows_well_formed_proved k ords np dk steps st outs :
  k_early k = true -> ords_ok np dk ords ->
  run k ords 1 steps state0 = (st, outs) -> acts_ok [] (events st) = true.
Proof.
  intros He Hords H. destruct (run_reach k ords np dk steps st outs He Hords H) as (es & HI & _).
  rewrite (InvW_events k np dk es st HI). destruct HI as (_ & Hw & _).
  apply (acts_ok_wf es []). exact Hw.
Qed.

(* ---------- per command: in the log iff its PLog write took effect ---------- *)

Lemma stamped_ge : forall steps tag outs t c o, In (t, c, o) (stamped tag steps outs) -> tag <= t.
Proof.
  induction steps as [|stp r IH]; intros tag outs t c o H; cbn [stamped] in H; [destruct H|].
  destruct stp as [c0 plan|]; [|eapply IH; exact H].
  destruct outs as [|o0 os]; [destruct H|]. destruct H as [E|H].
  - inversion E; subst. lia.
  - apply IH in H. lia.
Qed.

Lemma stamped_inj : forall steps tag outs t c o c' o',
  In (t, c, o) (stamped tag steps outs) -> In (t, c', o') (stamped tag steps outs) -> c = c' /\ o = o'.
Proof.
  induction steps as [|stp r IH]; intros tag outs t c o c' o' H H'; cbn [stamped] in *; [destruct H|].
  destruct stp as [c0 plan|]; [|eapply IH; eassumption].
  destruct outs as [|o0 os]; [destruct H|].
  destruct H as [E|H]; destruct H' as [E'|H'].
  - inversion E; inversion E'; subst. split; reflexivity.
  - inversion E; subst. apply stamped_ge in H'. lia.
  - inversion E'; subst. apply stamped_ge in H. lia.
  - eapply IH; eassumption.
Qed.

Lemma written_stamped : forall steps tag outs x,
  In x (written_cmds tag steps outs) <-> In x (stamped tag steps outs) /\ o_written (snd x) = true.
Proof.
  induction steps as [|stp r IH]; intros tag outs x; cbn [written_cmds stamped]; [cbn; tauto|].
  destruct stp as [c0 plan|]; [|apply IH].
  destruct outs as [|o0 os]; [cbn; tauto|].
  rewrite in_app_iff, IH. cbn [In]. destruct (o_written o0) eqn:Ew; cbn [In].
  - split.
    + intros [[<-|[]]|[H1 H2]]; [split; [left; reflexivity | exact Ew] | split; [right; exact H1 | exact H2]].
    + intros [[<-|H1] H2]; [left; left; reflexivity | right; split; assumption].
  - split.
    + intros [[]|[H1 H2]]. split; [right; exact H1 | exact H2].
    + intros [[<-|H1] H2]; [cbn in H2; congruence | right; split; assumption].
Qed.

Lemma Forall2_in_l {A B} (R : A -> B -> Prop) l l' : Forall2 R l l' -> forall a, In a l -> exists b, In b l' /\ R a b.
Proof.
  induction 1 as [|x y l l' Hxy _ IH]; intros a Ha; [destruct Ha|].
  destruct Ha as [<-|Ha]; [exists y; split; [left; reflexivity | exact Hxy]|].
  destruct (IH a Ha) as (b & Hb & Hr). exists b. split; [right; exact Hb | exact Hr].
Qed.

Lemma Forall2_in_r {A B} (R : A -> B -> Prop) l l' : Forall2 R l l' -> forall b, In b l' -> exists a, In a l /\ R a b.
Proof.
  induction 1 as [|x y l l' Hxy _ IH]; intros b Hb; [destruct Hb|].
  destruct Hb as [<-|Hb]; [exists x; split; [left; reflexivity | exact Hxy]|].
  destruct (IH b Hb) as (a & Ha & Hr). exists a. split; [right; exact Ha | exact Hr].
Qed.

(* a command is in the log (and then in every store, by consistency) iff its PLog write took
   effect, whatever it was answered *)
Theorem command_in_log_iff_written_proved k ords np dk steps st outs :
  k_early k = true -> ords_ok np dk ords ->
  run k ords 1 steps state0 = (st, outs) ->
  forall t c o, In (t, c, o) (stamped 1 steps outs) ->
  (o_written o = true -> exists e, In e (events st) /\ e_tag e = t /\ event_matches c e = true /\ reply_fits o e)
  /\ (o_written o = false -> forall e, In e (events st) -> e_tag e <> t).
Proof.
  intros He Hords H t c o Hin.
  destruct (log_is_the_written_commands_proved k ords np dk steps st outs He Hords H) as (Hl & _).
  split.
  - intros Hw. assert (Hx : In (t, c, o) (written_cmds 1 steps outs)) by (apply written_stamped; split; assumption).
    destruct (Forall2_in_r _ _ _ Hl _ Hx) as (e & He' & Hf). exists e. split; [exact He'|]. exact Hf.
  - intros Hw e He' Ht. destruct (Forall2_in_l _ _ _ Hl _ He') as ([[t' c'] o'] & Hx & Hf).
    destruct Hf as (Ht' & _). apply written_stamped in Hx. destruct Hx as (Hs & Hw'). cbn in Hw'.
    rewrite Ht in Ht'. subst t'. destruct (stamped_inj _ _ _ _ _ _ _ _ Hin Hs) as (_ & <-). congruence.
Qed.

(* ---------- every projector, when the re-apply sees what the command saw ---------- *)

Lemma consistent_weaken np dk (P Q : N -> Prop) s :
  (forall j, Q j -> P j) -> consistent np dk P s -> consistent np dk Q s.
Proof.
  intros HPQ (H1 & H2 & H3 & H4 & H5). repeat split; try assumption.
  intros j Hj Hq. apply H5; [exact Hj | apply HPQ; exact Hq].
Qed.

Lemma consistent_all k np dk s :
  k_sees k = true -> consistent np dk (good (k_sees k) dk) s -> consistent np dk all_projectors s.
Proof. intros Hs. apply consistent_weaken. intros j _. left. exact Hs. Qed.

Theorem recovery_restores_consistency_all_proved k ords np dk steps st outs :
  k_early k = true -> k_sees k = true -> ords_ok np dk ords ->
  reapply_unconditional ->
  run k ords 1 steps state0 = (st, outs) ->
  forall ord, ord_ok np dk ord ->
  exists s' l' p, recover k ord [] (sto st) [] = (s', l', Some p)
    /\ plog s' = plog (sto st) /\ consistent np dk all_projectors s'.
Proof.
  intros He Hs Hords Hu H ord Hord.
  destruct (recovery_restores_consistency_proved k ords np dk steps st outs He Hords Hu H ord Hord) as (s' & l' & p & E & P & C).
  exists s', l', p. split; [exact E|]. split; [exact P | apply (consistent_all k); assumption].
Qed.

Theorem serving_state_consistent_all_proved k ords np dk steps st outs :
  k_early k = true -> k_sees k = true -> ords_ok np dk ords ->
  run k ords 1 steps state0 = (st, outs) -> mem st <> None -> consistent np dk all_projectors (sto st).
Proof.
  intros He Hs Hords H Hm. apply (consistent_all k); [exact Hs|].
  eapply serving_state_consistent_proved; eassumption.
Qed.

Theorem clean_command_succeeds_all_proved k ords np dk steps c st outs :
  k_early k = true -> k_sees k = true -> ords_ok np dk ords ->
  reapply_unconditional -> insert_only c = true ->
  run k ords 1 (steps ++ [SCmd c []]) state0 = (st, outs) ->
  (exists w ids, option_map o_reply (last_opt outs) = Some (ROk w ids)) /\ consistent np dk all_projectors (sto st).
Proof.
  intros He Hs Hords Hu Hins H.
  destruct (clean_command_succeeds_proved k ords np dk steps c st outs He Hords Hu Hins H) as (Hr & Hc).
  split; [exact Hr | apply (consistent_all k); assumption].
Qed.
