(* C01 - the stores a complete log stands for (recs_of, wlog_of, proj_of), the partition state a
   scan of it yields, and well-formed event lists. *)
From Coq Require Import List NArith PeanoNat Bool Lia ZifyNat ZifyN ZifyBool.
From V Require Import Gen.Params C01_Command.Model C01_Command.MapLemmas.
Import ListNotations.
Local Open Scope N_scope.

(* ---------- snoc equations ---------- *)

Lemma recs_of_snoc es e : recs_of (es ++ [e]) = apply_event (recs_of es) e.
Proof. unfold recs_of. rewrite fold_left_app. reflexivity. Qed.
Lemma wlog_of_snoc es e : wlog_of (es ++ [e]) = put2 (wlog_of es) (e_ws e) (e_woff e) e.
Proof. unfold wlog_of. rewrite fold_left_app. reflexivity. Qed.
Lemma proj_of_snoc d es e :
  proj_of d (es ++ [e]) = if trig d e then put2 (proj_of d es) (e_ws e) (e_woff e) (e_tag e) else proj_of d es.
Proof. unfold proj_of. rewrite fold_left_app. reflexivity. Qed.

Definition scan_of (es : list event) : part := scan (plog_of es).

Lemma scan_of_snoc es e :
  scan_of (es ++ [e]) = scan_step (scan_of es) (1 + N.of_nat (length es), e).
Proof. unfold scan_of, scan, plog_of. rewrite index_from_app, fold_left_app. reflexivity. Qed.

Lemma nextP_scan_of es : nextP (scan_of es) = 1 + N.of_nat (length es).
Proof.
  destruct (snoc_cases es) as [->|(es' & e & ->)]; [reflexivity|].
  rewrite scan_of_snoc. unfold scan_step. cbn [nextP]. rewrite app_length. cbn [length]. lia.
Qed.

Lemma ws_of_scan_step p o e ws :
  ws_of (scan_step p (o, e)) ws =
  if e_ws e =? ws then mkWs (e_woff e + 1) (sync_ids (e_cuds e) (nextID (ws_of p (e_ws e))))
  else ws_of p ws.
Proof.
  unfold ws_of at 1. cbn [scan_step wss].
  destruct (N.eqb_spec (e_ws e) ws) as [->|Hne].
  - rewrite nget_nput_eq. reflexivity.
  - rewrite nget_nput_neq by exact Hne. reflexivity.
Qed.

(* ---------- the ID generator ---------- *)

Lemma sync_ids_mono cs n : n <= sync_ids cs n.
Proof.
  unfold sync_ids. revert n; induction cs as [|c r IH]; intros n; cbn; [lia|].
  etransitivity; [|apply IH]. destruct c; try lia. destruct (N.leb_spec n id); lia.
Qed.

Lemma sync_ids_above cs n id v : In (ENew id v) cs -> id < sync_ids cs n.
Proof.
  unfold sync_ids. revert n; induction cs as [|c r IH]; intros n; cbn; [tauto|].
  intros [->|H].
  - eapply N.lt_le_trans; [|apply sync_ids_mono]. destruct (N.leb_spec n id); lia.
  - apply IH; exact H.
Qed.

Lemma sync_ids_app a b n : sync_ids (a ++ b) n = sync_ids b (sync_ids a n).
Proof. unfold sync_ids. apply fold_left_app. Qed.

Lemma sync_ids_creates ops n : sync_ids (creates_of ops n) n = n + N.of_nat (length (creates_of ops n)).
Proof.
  revert n; induction ops as [|o r IH]; intros n; cbn; [lia|].
  destruct o; cbn; try apply IH.
  unfold sync_ids in *. cbn. destruct (N.leb_spec n n); [|lia].
  rewrite IH. lia.
Qed.

Lemma sync_ids_no_new cs n : (forall c, In c cs -> cud_new c = false) -> sync_ids cs n = n.
Proof.
  unfold sync_ids. revert n; induction cs as [|c r IH]; intros n H; cbn [fold_left]; [reflexivity|].
  pose proof (H c (or_introl eq_refl)) as Hc.
  destruct c; cbn in Hc; try discriminate; apply IH; intros; apply H; right; assumption.
Qed.

(* ---------- what an event does to the records ---------- *)

Definition find_cud (id : N) (cs : list ecud) : option ecud := find (fun c => cud_id c =? id) cs.

Definition ev_get (a : n2map rec) (e : event) (ws id : N) : option rec :=
  if ws =? e_ws e then
    match find_cud id (e_cuds e) with
    | Some c => match cud_apply (get2 a (e_ws e) id) c with Some x => Some x | None => get2 a (e_ws e) id end
    | None => get2 a (e_ws e) id
    end
  else get2 a ws id.

Lemma fold_apply_cud_get ws cs : NoDup (map cud_id cs) -> forall m ws' id,
  get2 (fold_left (apply_cud ws) cs m) ws' id =
  if ws' =? ws then
    match find_cud id cs with
    | Some c => match cud_apply (get2 m ws id) c with Some x => Some x | None => get2 m ws id end
    | None => get2 m ws id
    end
  else get2 m ws' id.
Proof.
  induction cs as [|c r IH]; intros ND m ws' id; cbn [fold_left find_cud find].
  - destruct (N.eqb_spec ws' ws) as [->|_]; reflexivity.
  - inversion ND as [|? ? Hnin ND']; subst. rewrite (IH ND').
    destruct (N.eqb_spec ws' ws) as [->|Hws].
    + destruct (N.eqb_spec (cud_id c) id) as [<-|Hid].
      * assert (Hf : find_cud (cud_id c) r = None).
        { unfold find_cud. destruct (find _ r) eqn:F; [|reflexivity].
          apply find_some in F. destruct F as [Hin Heq]. apply N.eqb_eq in Heq.
          exfalso. apply Hnin. rewrite <- Heq. apply in_map. exact Hin. }
        rewrite Hf. unfold apply_cud.
        destruct (cud_apply (get2 m ws (cud_id c)) c) as [x|]; [apply get2_put2_eq | reflexivity].
      * assert (Hg : get2 (apply_cud ws m c) ws id = get2 m ws id).
        { unfold apply_cud. destruct (cud_apply _ c); [|reflexivity].
          apply get2_put2_neq. right; exact Hid. }
        fold (find_cud id r). rewrite Hg. reflexivity.
    + unfold apply_cud. destruct (cud_apply _ c); [|reflexivity].
      apply get2_put2_neq. left; congruence.
Qed.

Lemma apply_event_get a e ws id :
  NoDup (map cud_id (e_cuds e)) -> get2 (apply_event a e) ws id = ev_get a e ws id.
Proof. intros ND. unfold apply_event, ev_get. apply fold_apply_cud_get; exact ND. Qed.

Lemma find_cud_in id cs c : find_cud id cs = Some c -> In c cs /\ cud_id c = id.
Proof. unfold find_cud. intros H. apply find_some in H. rewrite N.eqb_eq in H. exact H. Qed.

Lemma find_cud_nodup id cs c : NoDup (map cud_id cs) -> In c cs -> cud_id c = id -> find_cud id cs = Some c.
Proof.
  induction cs as [|c' r IH]; intros ND Hin Hid; [destruct Hin|].
  inversion ND as [|? ? Hnin ND']; subst. cbn [find_cud find].
  destruct Hin as [->|Hin].
  - rewrite N.eqb_refl. reflexivity.
  - destruct (N.eqb_spec (cud_id c') (cud_id c)) as [E|_].
    + exfalso. apply Hnin. rewrite E. apply in_map. exact Hin.
    + apply IH; auto.
Qed.

(* ---------- well-formed logs ---------- *)

(* what makes e a legal next event after the log es *)
Definition ok_event (es : list event) (e : event) : Prop :=
  e_woff e = nextW (ws_of (scan_of es) (e_ws e))
  /\ NoDup (map cud_id (e_cuds e))
  /\ forall c, In c (e_cuds e) ->
       match c with
       | ENew id _ => nextID (ws_of (scan_of es) (e_ws e)) <= id
       | EUpd id _ a => exists r, get2 (recs_of es) (e_ws e) id = Some r /\ r_act r = a
       | EDeact id => get2 (recs_of es) (e_ws e) id <> None
       end.

Lemma ok_event_exists es e c :
  ok_event es e -> In c (e_cuds e) -> cud_new c = false -> get2 (recs_of es) (e_ws e) (cud_id c) <> None.
Proof.
  intros (_ & _ & H) Hin Hn. specialize (H c Hin). destruct c; cbn in *; try discriminate.
  - destruct H as (r & -> & _). discriminate.
  - exact H.
Qed.

Inductive wf : list event -> Prop :=
| wf_nil : wf []
| wf_snoc es e : wf es -> ok_event es e -> wf (es ++ [e]).

Lemma wf_inv es e : wf (es ++ [e]) -> wf es /\ ok_event es e.
Proof.
  intros H. inversion H as [E|es' e' Hw Ho E].
  - destruct es; discriminate.
  - apply app_inj_tail in E. destruct E; subst. split; assumption.
Qed.

(* every row of a legal event yields a record *)
Lemma ok_event_apply es e c :
  ok_event es e -> In c (e_cuds e) ->
  exists x, cud_apply (get2 (recs_of es) (e_ws e) (cud_id c)) c = Some x.
Proof.
  intros (_ & _ & H) Hin. specialize (H c Hin). destruct c; cbn in *.
  - eexists; reflexivity.
  - destruct H as (r & -> & _). eexists; reflexivity.
  - destruct (get2 _ _ _); [eexists; reflexivity | congruence].
Qed.

(* stored records lie below the generator's next ID *)
Lemma recs_bound es : wf es -> forall ws id,
  get2 (recs_of es) ws id <> None -> id < nextID (ws_of (scan_of es) ws).
Proof.
  induction 1 as [|es e Hw IH Ho]; intros ws id Hg.
  - exfalso; apply Hg; reflexivity.
  - rewrite recs_of_snoc in Hg. rewrite scan_of_snoc, ws_of_scan_step.
    destruct Ho as (Hoff & ND & Hc).
    rewrite apply_event_get in Hg by exact ND. unfold ev_get in Hg.
    destruct (N.eqb_spec ws (e_ws e)) as [->|Hws].
    + rewrite N.eqb_refl. cbn [nextID].
      destruct (find_cud id (e_cuds e)) as [c|] eqn:F.
      * apply find_cud_in in F. destruct F as [Hin <-].
        specialize (Hc c Hin). destruct c; cbn in *.
        -- eapply sync_ids_above; exact Hin.
        -- eapply N.lt_le_trans; [apply (IH (e_ws e) id); destruct Hc as (r & -> & _); discriminate | apply sync_ids_mono].
        -- eapply N.lt_le_trans; [apply IH; exact Hc | apply sync_ids_mono].
      * eapply N.lt_le_trans; [apply IH; exact Hg | apply sync_ids_mono].
    + destruct (N.eqb_spec (e_ws e) ws); [congruence|]. apply IH; exact Hg.
Qed.

(* ---------- the WLog of a well-formed log ---------- *)

Lemma ws_events_snoc ws es e :
  ws_events ws (es ++ [e]) = ws_events ws es ++ (if e_ws e =? ws then [e] else []).
Proof. unfold ws_events. rewrite filter_app. reflexivity. Qed.

Lemma nextW_scan es : wf es -> forall ws,
  nextW (ws_of (scan_of es) ws) = 1 + N.of_nat (length (ws_events ws es)).
Proof.
  induction 1 as [|es e Hw IH Ho]; intros ws; [reflexivity|].
  rewrite scan_of_snoc, ws_of_scan_step, ws_events_snoc, app_length.
  destruct Ho as (Hoff & _). destruct (N.eqb_spec (e_ws e) ws) as [<-|Hne]; cbn [nextW length].
  - rewrite Hoff, IH. lia.
  - rewrite IH. lia.
Qed.

(* per workspace the WLog holds the events of that workspace, in log order, at offsets 1, 2, ... *)
Lemma wlog_of_get es : wf es -> forall ws w,
  get2 (wlog_of es) ws w = if w =? 0 then None else nth_error (ws_events ws es) (N.to_nat (w - 1)).
Proof.
  induction 1 as [|es e Hw IH Ho]; intros ws w.
  - cbn. destruct (w =? 0); [reflexivity|]. destruct (N.to_nat (w - 1)); reflexivity.
  - rewrite wlog_of_snoc, ws_events_snoc.
    destruct Ho as (Hoff & _). rewrite (nextW_scan es Hw) in Hoff.
    destruct (N.eqb_spec (e_ws e) ws) as [<-|Hne].
    + destruct (N.eq_dec (e_woff e) w) as [<-|Hw'].
      * rewrite get2_put2_eq. destruct (N.eqb_spec (e_woff e) 0); [lia|].
        rewrite nth_error_app2 by lia.
        replace (N.to_nat (e_woff e - 1) - length (ws_events (e_ws e) es))%nat with 0%nat by lia. reflexivity.
      * rewrite get2_put2_neq by (right; exact Hw'). rewrite IH.
        destruct (N.eqb_spec w 0); [reflexivity|].
        destruct (Nat.lt_ge_cases (N.to_nat (w - 1)) (length (ws_events (e_ws e) es))) as [Hl|Hl].
        -- rewrite nth_error_app1 by exact Hl. reflexivity.
        -- rewrite nth_error_app2 by exact Hl.
           destruct (N.to_nat (w - 1) - length (ws_events (e_ws e) es))%nat as [|k] eqn:Ek; [lia|].
           cbn. rewrite (proj2 (nth_error_None _ _)) by exact Hl. destruct k; reflexivity.
    + rewrite get2_put2_neq by (left; exact Hne). rewrite IH, app_nil_r. reflexivity.
Qed.

Lemma woffs_of es : wf es -> forall ws,
  map e_woff (ws_events ws es) = nseq 1 (length (ws_events ws es)).
Proof.
  assert (nseq_snoc : forall n o, nseq o (S n) = nseq o n ++ [o + N.of_nat n]).
  { induction n as [|n IHn]; intros o.
    - cbn. rewrite N.add_0_r. reflexivity.
    - change (nseq o (S (S n))) with (o :: nseq (o + 1) (S n)). rewrite (IHn (o + 1)).
      change (nseq o (S n)) with (o :: nseq (o + 1) n). cbn [app].
      replace (o + 1 + N.of_nat n) with (o + N.of_nat (S n)) by lia. reflexivity. }
  induction 1 as [|es e Hw IH Ho]; intros ws; [reflexivity|].
  rewrite ws_events_snoc. destruct Ho as (Hoff & _). rewrite (nextW_scan es Hw) in Hoff.
  destruct (N.eqb_spec (e_ws e) ws) as [<-|Hne].
  - rewrite map_app, app_length, IH. cbn [map length].
    replace (length (ws_events (e_ws e) es) + 1)%nat with (S (length (ws_events (e_ws e) es))) by lia.
    rewrite nseq_snoc, Hoff. reflexivity.
  - rewrite app_nil_r. apply IH.
Qed.

(* a legal next event's WLog slot is free *)
Lemma wlog_slot_free es e : wf es -> ok_event es e -> get2 (wlog_of es) (e_ws e) (e_woff e) = None.
Proof.
  intros Hw (Hoff & _). rewrite (nextW_scan es Hw) in Hoff. rewrite wlog_of_get by exact Hw.
  destruct (N.eqb_spec (e_woff e) 0); [reflexivity|]. apply nth_error_None. lia.
Qed.

(* the view of a projector: the WLog rows whose event triggers it, reduced to the stamp *)
Lemma proj_of_get d es : wf es -> forall ws w,
  get2 (proj_of d es) ws w =
  match get2 (wlog_of es) ws w with
  | Some e => if trig d e then Some (e_tag e) else None
  | None => None
  end.
Proof.
  induction 1 as [|es e Hw IH Ho]; intros ws w; [reflexivity|].
  rewrite proj_of_snoc, wlog_of_snoc.
  pose proof (wlog_slot_free es e Hw Ho) as Hfree.
  destruct (N.eq_dec (e_ws e) ws) as [<-|Hne]; [destruct (N.eq_dec (e_woff e) w) as [<-|Hw']|].
  - rewrite get2_put2_eq. destruct (trig d e).
    + apply get2_put2_eq.
    + rewrite IH, Hfree. reflexivity.
  - rewrite get2_put2_neq by (right; exact Hw'). destruct (trig d e); [rewrite get2_put2_neq by (right; exact Hw')|]; apply IH.
  - rewrite get2_put2_neq by (left; exact Hne). destruct (trig d e); [rewrite get2_put2_neq by (left; exact Hne)|]; apply IH.
Qed.
