(* C01 - the boolean oracle of Model.v (`consistentb`, the store part of `satisfies`) is sound for
   the declarative `consistent` the theorems of Properties/C01.v speak about. *)
From Coq Require Import List NArith PeanoNat Bool Lia ZifyNat ZifyN ZifyBool.
From V Require Import Lib.Check C01_Command.Model C01_Command.MapLemmas C01_Command.Ideal C01_Command.Proofs.
Import ListNotations.
Local Open Scope N_scope.

Lemma ecud_eqb_eq a b : ecud_eqb a b = true <-> a = b.
Proof.
  destruct a, b; cbn; try (split; [discriminate | intros H; inversion H]).
  - rewrite andb_true_iff, !N.eqb_eq. split; [intros [-> ->]; reflexivity | intros H; inversion H; auto].
  - rewrite !andb_true_iff, !N.eqb_eq, Bool.eqb_true_iff.
    split; [intros [[-> ->] ->]; reflexivity | intros H; inversion H; auto].
  - rewrite N.eqb_eq. split; [intros ->; reflexivity | intros H; inversion H; auto].
Qed.

Lemma event_eqb_eq a b : event_eqb a b = true <-> a = b.
Proof.
  destruct a, b; unfold event_eqb; cbn.
  rewrite !andb_true_iff, !N.eqb_eq, (list_eqb_eq ecud_eqb ecud_eqb_eq).
  split; [intros [[[-> ->] ->] ->]; reflexivity | intros H; inversion H; auto].
Qed.

Lemma rec_eqb_eq a b : rec_eqb a b = true <-> a = b.
Proof.
  destruct a, b; unfold rec_eqb; cbn. rewrite andb_true_iff, N.eqb_eq, Bool.eqb_true_iff.
  split; [intros [-> ->]; reflexivity | intros H; inversion H; auto].
Qed.

Lemma nmap_eqb_eq {A} (eqb : A -> A -> bool) :
  (forall x y, eqb x y = true <-> x = y) -> forall a b, nmap_eqb eqb a b = true <-> a = b.
Proof.
  intros H. unfold nmap_eqb. apply list_eqb_eq. intros [k v] [k' v']; cbn.
  rewrite andb_true_iff, N.eqb_eq, H. split; [intros [-> ->]; reflexivity | intros E; inversion E; auto].
Qed.

Lemma n2map_eqb_eq {A} (eqb : A -> A -> bool) :
  (forall x y, eqb x y = true <-> x = y) -> forall a b, n2map_eqb eqb a b = true <-> a = b.
Proof. intros H. unfold n2map_eqb. apply nmap_eqb_eq. apply nmap_eqb_eq. exact H. Qed.

Lemma nget_absent {A} (m : nmap A) k : ~ In k (map fst m) -> nget m k = None.
Proof.
  induction m as [|[k' v] r IH]; cbn; intros H; [reflexivity|].
  destruct (N.eqb_spec k' k); [exfalso; apply H; left; assumption | apply IH; tauto].
Qed.

Lemma in_dedup l x : In x (dedup l) <-> In x l.
Proof.
  induction l as [|y r IH]; cbn; [tauto|].
  destruct (existsb (N.eqb y) r) eqn:E.
  - rewrite IH. split; [tauto|]. intros [<-|H]; [|exact H].
    apply existsb_exists in E. destruct E as (z & Hz & Ez). apply N.eqb_eq in Ez. subst; exact Hz.
  - cbn. rewrite IH. tauto.
Qed.

Lemma ws_events_absent ws es : ~ In ws (map e_ws es) -> ws_events ws es = [].
Proof.
  unfold ws_events. induction es as [|e r IH]; cbn; intros H; [reflexivity|].
  destruct (N.eqb_spec (e_ws e) ws); [exfalso; apply H; left; assumption | apply IH; tauto].
Qed.

Lemma nget_map_vals {A B} (f : A -> B) (m : nmap A) k :
  nget (map (fun y => (fst y, f (snd y))) m) k = option_map f (nget m k).
Proof.
  induction m as [|[k' v] r IH]; cbn; [reflexivity|]. destruct (k' =? k); [reflexivity | exact IH].
Qed.

Lemma get2_map_vals {A B} (f : A -> B) (m : n2map A) a b :
  get2 (map (fun x => (fst x, map (fun y => (fst y, f (snd y))) (snd x))) m) a b = option_map f (get2 m a b).
Proof.
  unfold get2, inner. induction m as [|[k i] r IH]; cbn; [reflexivity|].
  destruct (k =? a); [apply nget_map_vals | exact IH].
Qed.

Theorem consistentb_sound np pl wl rc pj :
  consistentb np pl wl rc pj = true -> consistent np (mkStore pl wl rc pj).
Proof.
  unfold consistentb, consistent. cbn [plog wlog recs proj]. set (es := map snd pl).
  intros H. repeat (apply andb_prop in H; destruct H as [H ?]).
  rename H into Hk, H3 into Hw, H2 into Hr, H1 into Hj.
  apply (list_eqb_eq N.eqb N.eqb_eq) in Hk. apply (n2map_eqb_eq rec_eqb rec_eqb_eq) in Hr.
  rewrite forallb_forall in Hw. rewrite forallb_forall in Hj.
  assert (Hws : forall ws, inner wl ws = index_from 1 (ws_events ws es)
                        /\ map e_woff (ws_events ws es) = nseq 1 (length (ws_events ws es))).
  { intros ws. destruct (in_dec N.eq_dec ws (map e_ws es ++ map fst wl)) as [Hin|Hnin].
    - specialize (Hw ws (proj2 (in_dedup _ ws) Hin)). apply andb_prop in Hw. destruct Hw as [H1 H2].
      apply (nmap_eqb_eq event_eqb event_eqb_eq) in H1. apply (list_eqb_eq N.eqb N.eqb_eq) in H2. split; assumption.
    - assert (N1 : ~ In ws (map e_ws es)) by (intros X; apply Hnin, in_or_app; left; exact X).
      assert (N2 : ~ In ws (map fst wl)) by (intros X; apply Hnin, in_or_app; right; exact X).
      rewrite (ws_events_absent ws es N1). unfold inner. rewrite (nget_absent wl ws N2). split; reflexivity. }
  split; [exact Hk|]. split; [|split; [|split]].
  - intros ws w. unfold get2. rewrite (proj1 (Hws ws)), nget_index_from.
    destruct (N.eqb_spec w 0) as [->|Hne]; [reflexivity|].
    destruct (N.ltb_spec w 1); [lia | reflexivity].
  - intros ws. apply Hws.
  - intros ws id. rewrite Hr. reflexivity.
  - intros j Hlt ws w. assert (Hin : In j (nseq 0 (N.to_nat np))) by (apply nseq_in; lia).
    specialize (Hj j Hin). apply (n2map_eqb_eq N.eqb N.eqb_eq) in Hj.
    unfold get3. rewrite Hj. apply get2_map_vals.
Qed.

Theorem satisfies_consistent t :
  satisfies t = true ->
  consistent (t_np t) (mkStore (t_plog t) (t_wlog t) (t_recs t) (t_proj t)).
Proof.
  unfold satisfies. intros H. do 3 (apply andb_prop in H; destruct H as [H _]).
  apply consistentb_sound; exact H.
Qed.
