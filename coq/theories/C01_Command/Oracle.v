(* C01 - the boolean oracle of Model.v (`consistentb`, the store part of `satisfies`) is sound for
   the declarative `consistent` the theorems of Properties/C01.v speak about. *)
From Coq Require Import List NArith PeanoNat Bool Lia ZifyNat ZifyN ZifyBool.
From V Require Import Lib.Check C01_Command.Model C01_Command.MapLemmas C01_Command.Ideal C01_Command.Proofs.
Import ListNotations.
Local Open Scope N_scope.

Lemma ecud_eqb_eq a b : ecud_eqb a b = true <-> a = b.
Proof.
  destruct a, b; cbn; try (split; [discriminate | intros H; inversion H]).
  - rewrite andb_true_iff, !N.eqb_eq. split; [intros [-> ->]; reflexivity | intros H; inversion H; auto].
  - rewrite !andb_true_iff, !N.eqb_eq, Bool.eqb_true_iff.
    split; [intros [[-> ->] ->]; reflexivity | intros H; inversion H; auto].
  - rewrite N.eqb_eq. split; [intros ->; reflexivity | intros H; inversion H; auto].
Qed.

Lemma event_eqb_eq a b : event_eqb a b = true <-> a = b.
Proof.
  destruct a, b; unfold event_eqb; cbn.
  rewrite !andb_true_iff, !N.eqb_eq, (list_eqb_eq ecud_eqb ecud_eqb_eq).
  split; [intros [[[-> ->] ->] ->]; reflexivity | intros H; inversion H; auto].
Qed.

Lemma rec_eqb_eq a b : rec_eqb a b = true <-> a = b.
Proof.
  destruct a, b; unfold rec_eqb; cbn. rewrite andb_true_iff, N.eqb_eq, Bool.eqb_true_iff.
  split; [intros [-> ->]; reflexivity | intros H; inversion H; auto].
Qed.

Lemma nmap_eqb_eq {A} (eqb : A -> A -> bool) :
  (forall x y, eqb x y = true <-> x = y) -> forall a b, nmap_eqb eqb a b = true <-> a = b.
Proof.
  intros H. unfold nmap_eqb. apply list_eqb_eq. intros [k v] [k' v']; cbn.
  rewrite andb_true_iff, N.eqb_eq, H. split; [intros [-> ->]; reflexivity | intros E; inversion E; auto].
Qed.

Lemma n2map_eqb_eq {A} (eqb : A -> A -> bool) :
  (forall x y, eqb x y = true <-> x = y) -> forall a b, n2map_eqb eqb a b = true <-> a = b.
Proof. intros H. unfold n2map_eqb. apply nmap_eqb_eq. apply nmap_eqb_eq. exact H. Qed.

Lemma nget_absent {A} (m : nmap A) k : ~ In k (map fst m) -> nget m k = None.
Proof.
  induction m as [|[k' v] r IH]; cbn; intros H; [reflexivity|].
  destruct (N.eqb_spec k' k); [exfalso; apply H; left; assumption | apply IH; tauto].
Qed.

Lemma in_dedup l x : In x (dedup l) <-> In x l.
Proof.
  induction l as [|y r IH]; cbn; [tauto|].
  destruct (existsb (N.eqb y) r) eqn:E.
  - rewrite IH. split; [tauto|]. intros [<-|H]; [|exact H].
    apply existsb_exists in E. destruct E as (z & Hz & Ez). apply N.eqb_eq in Ez. subst; exact Hz.
  - cbn. rewrite IH. tauto.
Qed.

Lemma ws_events_absent ws es : ~ In ws (map e_ws es) -> ws_events ws es = [].
Proof.
  unfold ws_events. induction es as [|e r IH]; cbn; intros H; [reflexivity|].
  destruct (N.eqb_spec (e_ws e) ws); [exfalso; apply H; left; assumption | apply IH; tauto].
Qed.

Lemma nget_map_vals {A B} (f : A -> B) (m : nmap A) k :
  nget (map (fun y => (fst y, f (snd y))) m) k = option_map f (nget m k).
Proof.
  induction m as [|[k' v] r IH]; cbn; [reflexivity|]. destruct (k' =? k); [reflexivity | exact IH].
Qed.

Lemma get2_map_vals {A B} (f : A -> B) (m : n2map A) a b :
  get2 (map (fun x => (fst x, map (fun y => (fst y, f (snd y))) (snd x))) m) a b = option_map f (get2 m a b).
Proof.
  unfold get2, inner. induction m as [|[k i] r IH]; cbn; [reflexivity|].
  destruct (k =? a); [apply nget_map_vals | exact IH].
Qed.

Lemma nget_in {A} (m : nmap A) k v : nget m k = Some v -> In (k, v) m.
Proof.
  induction m as [|[k' v'] r IH]; cbn; [discriminate|].
  destruct (N.eqb_spec k' k) as [->|_]; [intros E; inversion E; left; reflexivity | intros E; right; apply IH; exact E].
Qed.

Lemma get2_in {A} (m : n2map A) a b v : get2 m a b = Some v -> exists i, In (a, i) m /\ In (b, v) i.
Proof.
  unfold get2, inner. destruct (nget m a) as [i|] eqn:E; [|discriminate].
  intros H. exists i. split; [apply nget_in; exact E | apply nget_in; exact H].
Qed.

Lemma rows_sound d wl v ws w :
  rows_ok d wl v = true -> rows_all d wl v = true ->
  get2 v ws w = match get2 wl ws w with Some e => if trig d e then Some (e_tag e) else None | None => None end.
Proof.
  unfold rows_ok, rows_all. rewrite !forallb_forall. intros Hok Hall.
  assert (Hv : forall t, get2 v ws w = Some t -> exists e, get2 wl ws w = Some e /\ trig d e = true /\ e_tag e = t).
  { intros t Hg. destruct (get2_in v ws w t Hg) as (i & Hi & Hwt).
    specialize (Hok (ws, i) Hi). cbn in Hok. rewrite forallb_forall in Hok. specialize (Hok (w, t) Hwt). cbn in Hok.
    destruct (get2 wl ws w) as [e|]; [|discriminate]. apply andb_prop in Hok. destruct Hok as [Ht Hn].
    apply N.eqb_eq in Hn. exists e. auto. }
  destruct (get2 wl ws w) as [e|] eqn:Ew.
  - destruct (trig d e) eqn:Et.
    + destruct (get2_in wl ws w e Ew) as (i & Hi & Hwe).
      specialize (Hall (ws, i) Hi). cbn in Hall. rewrite forallb_forall in Hall. specialize (Hall (w, e) Hwe). cbn in Hall.
      rewrite Et in Hall. cbn in Hall. destruct (get2 v ws w) as [t|]; cbn in Hall; [|discriminate].
      apply N.eqb_eq in Hall. subst. reflexivity.
    + destruct (get2 v ws w) as [t|] eqn:Eg; [|reflexivity].
      destruct (Hv t eq_refl) as (e' & E' & Ht' & _). inversion E'; subst. congruence.
  - destruct (get2 v ws w) as [t|] eqn:Eg; [|reflexivity].
    destruct (Hv t eq_refl) as (e' & E' & _). discriminate.
Qed.

Theorem consistentb_sound np d pl wl rc pj :
  consistentb np d false pl wl rc pj = true -> consistent np (fun _ => d) all_projectors (mkStore pl wl rc pj).
Proof.
  unfold consistentb, consistent. cbn [plog wlog recs proj]. set (es := map snd pl).
  intros H. repeat (apply andb_prop in H; destruct H as [H ?]).
  rename H into Hk, H3 into Hw, H2 into Hr, H1 into Hj.
  apply (list_eqb_eq N.eqb N.eqb_eq) in Hk. apply (n2map_eqb_eq rec_eqb rec_eqb_eq) in Hr.
  rewrite forallb_forall in Hw. rewrite forallb_forall in Hj.
  assert (Hws : forall ws, inner wl ws = index_from 1 (ws_events ws es)
                        /\ map e_woff (ws_events ws es) = nseq 1 (length (ws_events ws es))).
  { intros ws. destruct (in_dec N.eq_dec ws (map e_ws es ++ map fst wl)) as [Hin|Hnin].
    - specialize (Hw ws (proj2 (in_dedup _ ws) Hin)). apply andb_prop in Hw. destruct Hw as [H1 H2].
      apply (nmap_eqb_eq event_eqb event_eqb_eq) in H1. apply (list_eqb_eq N.eqb N.eqb_eq) in H2. split; assumption.
    - assert (N1 : ~ In ws (map e_ws es)) by (intros X; apply Hnin, in_or_app; left; exact X).
      assert (N2 : ~ In ws (map fst wl)) by (intros X; apply Hnin, in_or_app; right; exact X).
      rewrite (ws_events_absent ws es N1). unfold inner. rewrite (nget_absent wl ws N2). split; reflexivity. }
  split; [exact Hk|]. split; [|split; [|split]].
  - intros ws w. unfold get2. rewrite (proj1 (Hws ws)), nget_index_from.
    destruct (N.eqb_spec w 0) as [->|Hne]; [reflexivity|].
    destruct (N.ltb_spec w 1); [lia | reflexivity].
  - intros ws. apply Hws.
  - intros ws id. rewrite Hr. reflexivity.
  - intros j Hlt _ ws w. assert (Hin : In j (nseq 0 (N.to_nat np))) by (apply nseq_in; lia).
    specialize (Hj j Hin). apply andb_prop in Hj. destruct Hj as [Hok Hall]. cbn [orb] in Hall.
    unfold get3. apply rows_sound; assumption.
Qed.

(* the oracle of a trace, unless it is the lenient copy of a trace of the AFTER DEACTIVATE variant *)
Theorem satisfies_consistent t :
  t_lenient t && t_deact t = false ->
  satisfies t = true ->
  consistent (t_np t) (fun _ => t_deact t) all_projectors (mkStore (t_plog t) (t_wlog t) (t_recs t) (t_proj t)).
Proof.
  unfold satisfies. intros Hl H. rewrite Hl in H. do 3 (apply andb_prop in H; destruct H as [H _]).
  apply consistentb_sound; exact H.
Qed.
