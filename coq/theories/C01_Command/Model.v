(* C01 - model of the command processor's write pipeline (pkg/processors/command/provide.go,
   impl.go) over a fault-injecting storage:

     [recovery if the partition state was dropped]  ->  validate  ->  build the event at
     (nextPLogOffset, NextWLogOffset, idGenerator)  ->  putPLog  ->  applyRecords  ->
     fork(sync projectors || PutWlog, both always run)  ->  reply  ->  drop the partition state
     if any write step failed.

   Every storage write consults a fault plan addressed by (logical target, k-th write to that
   target while the command is processed); fault kinds: error before effect, error after effect,
   conditional insert reports "exists".  Which writes are conditional depends on the trust level
   (tables taken from the Go source by the translator: the c05 tables of Gen.Params).  Recovery scans the whole
   PLog, rebuilds offsets and ID generators and re-applies the last event with overwrite semantics.
   cmdProc.putPLog's error handling is a flag taken from the Go source
   (c01_putplog_returns_err): when false the pipeline goes on with a nil event and the processor
   goroutine dies (outcome RNone, partition state lost with the processor).

   Abstract: an event is (stamp, workspace, WLog offset, CUD rows after ID generation); a record is
   (V, sys.IsActive); every sync projector writes row (ws, WLogOffset) -> stamp into its own view
   (the sync actualizer flushes the projectors' intents one after the other, in the order of a Go
   map; whether it stops at the first failing flush is a flag taken from the Go source:
   c01_sync_flush_stops_at_error).  Everything before
   putPLog that can refuse a command (parsing, validation, authorization) is one boolean.
   Definitions only. *)
From Coq Require Import List NArith Bool Lia.
From V Require Import Lib.Check Gen.Params.
Import ListNotations.
Local Open Scope N_scope.

(* ---------- maps keyed by N: sorted association lists ---------- *)

Definition nmap (A : Type) := list (N * A).

Fixpoint nget {A} (m : nmap A) (k : N) : option A :=
  match m with
  | [] => None
  | (k', v) :: r => if k' =? k then Some v else nget r k
  end.

Fixpoint nput {A} (m : nmap A) (k : N) (v : A) : nmap A :=
  match m with
  | [] => [(k, v)]
  | (k', v') :: r =>
      if k <? k' then (k, v) :: m
      else if k =? k' then (k, v) :: r
      else (k', v') :: nput r k v
  end.

Definition n2map (A : Type) := nmap (nmap A).

Definition inner {A} (m : n2map A) (a : N) : nmap A :=
  match nget m a with Some i => i | None => [] end.
Definition get2 {A} (m : n2map A) (a b : N) : option A := nget (inner m a) b.
Definition put2 {A} (m : n2map A) (a b : N) (v : A) : n2map A := nput m a (nput (inner m a) b v).

(* three levels: sync projector -> workspace -> key *)
Definition n3map (A : Type) := nmap (n2map A).
Definition inner3 {A} (m : n3map A) (j : N) : n2map A :=
  match nget m j with Some i => i | None => [] end.
Definition get3 {A} (m : n3map A) (j a b : N) : option A := get2 (inner3 m j) a b.
Definition put3 {A} (m : n3map A) (j a b : N) (v : A) : n3map A := nput m j (put2 (inner3 m j) a b v).

Definition is_some {A} (o : option A) : bool := match o with Some _ => true | None => false end.

(* ---------- events, records, the store ---------- *)

(* a stored CUD row: a new record; the changes of an update = the new V together with the
   sys.IsActive value the record had when the command was built (newUpdateRec copies it into the
   changes row, updateRecType.build writes it back); a deactivation *)
Inductive ecud := ENew (id v : N) | EUpd (id v : N) (act : bool) | EDeact (id : N).
Record event := mkEvent { e_tag : N; e_ws : N; e_woff : N; e_cuds : list ecud }.
Record rec := mkRec { r_v : N; r_act : bool }.

Definition cud_id (c : ecud) : N := match c with ENew id _ | EUpd id _ _ | EDeact id => id end.
Definition cud_new (c : ecud) : bool := match c with ENew _ _ => true | _ => false end.

Record store := mkStore {
  plog : nmap event;     (* PLog offset -> event *)
  wlog : n2map event;    (* ws, WLog offset -> event *)
  recs : n2map rec;      (* ws, record id -> record *)
  proj : n3map N         (* sync projector, ws, WLog offset -> stamp (its view row) *)
}.

Definition store0 : store := mkStore [] [] [] [].

(* the record a CUD row produces from the stored one (updateRecType.build over the loaded
   origin; a new record does not look at the store) *)
Definition cud_apply (old : option rec) (c : ecud) : option rec :=
  match c with
  | ENew _ v => Some (mkRec v true)
  | EUpd _ v a => match old with Some _ => Some (mkRec v a) | None => None end
  | EDeact _ => match old with Some r => Some (mkRec (r_v r) false) | None => None end
  end.

(* cudType.applyRecs: every row's result from the store as it is before the first write;
   None = ErrIDNotFound while loading an updated record *)
Fixpoint results (m : n2map rec) (ws : N) (cs : list ecud) : option (list (N * rec * bool)) :=
  match cs with
  | [] => Some []
  | c :: r =>
      match cud_apply (get2 m ws (cud_id c)) c, results m ws r with
      | Some x, Some l => Some ((cud_id c, x, cud_new c) :: l)
      | _, _ => None
      end
  end.

(* ---------- the specification's fold: what a complete log says the stores hold ---------- *)

Definition apply_cud (ws : N) (m : n2map rec) (c : ecud) : n2map rec :=
  match cud_apply (get2 m ws (cud_id c)) c with
  | Some x => put2 m ws (cud_id c) x
  | None => m
  end.
Definition apply_event (m : n2map rec) (e : event) : n2map rec :=
  fold_left (apply_cud (e_ws e)) (e_cuds e) m.

Definition recs_of (es : list event) : n2map rec := fold_left apply_event es [].
Definition wlog_of (es : list event) : n2map event :=
  fold_left (fun m e => put2 m (e_ws e) (e_woff e) e) es [].
(* Which events a sync projector is run for. d = false: subscribed ON EXECUTE of the command
   (every event of the log); d = true: subscribed AFTER DEACTIVATE of the document type only (the
   events with a deactivation row). *)
Definition has_deact (e : event) : bool :=
  existsb (fun c => match c with EDeact _ => true | _ => false end) (e_cuds e).
Definition trig (d : bool) (e : event) : bool := negb d || has_deact e.

(* the view of a projector of kind d that a complete log stands for *)
Definition proj_of (d : bool) (es : list event) : n2map N :=
  fold_left (fun m e => if trig d e then put2 m (e_ws e) (e_woff e) (e_tag e) else m) es [].

Fixpoint index_from {A} (o : N) (l : list A) : nmap A :=
  match l with [] => [] | x :: r => (o, x) :: index_from (o + 1) r end.
Definition plog_of (es : list event) : nmap event := index_from 1 es.

Definition ws_events (ws : N) (es : list event) : list event :=
  filter (fun e => e_ws e =? ws) es.

(* ---------- faults ---------- *)

Inductive target := TPLog | TRec | TView | TWLog.
Inductive fkind := FBefore | FAfter | FExists.
Definition fault := (target * N * fkind)%type.

Definition target_eqb (a b : target) : bool :=
  match a, b with
  | TPLog, TPLog | TRec, TRec | TView, TView | TWLog, TWLog => true
  | _, _ => false
  end.
Definition fkind_eqb (a b : fkind) : bool :=
  match a, b with
  | FBefore, FBefore | FAfter, FAfter | FExists, FExists => true
  | _, _ => false
  end.

Fixpoint fault_at (plan : list fault) (t : target) (k : N) : option fkind :=
  match plan with
  | [] => None
  | (t', k', f) :: r => if target_eqb t' t && (k' =? k) then Some f else fault_at r t k
  end.

(* storage operation codes: what kit.Wrap sees *)
Definition opPut : N := 0.
Definition opPutBatch : N := 1.
Definition opInsert : N := 2.   (* InsertIfNotExists *)

(* write calls issued so far while a command is processed, oldest first *)
Definition wlogT := list (target * N).

Definition count (t : target) (l : wlogT) : N :=
  N.of_nat (length (filter (fun x => target_eqb (fst x) t) l)).

(* outcome of one write call: (effect applied, reported ok).
   cond = InsertIfNotExists, occ = the slot already holds a row *)
Definition wr (f : option fkind) (cond occ : bool) : bool * bool :=
  match f with
  | Some FBefore => (false, false)
  | Some FAfter => (negb (cond && occ), false)
  | Some FExists => if cond then (false, false) else (true, true)
  | None => if cond && occ then (false, false) else (true, true)
  end.

(* the k-th write to target t: fault decision and the extended call log *)
Definition issue (plan : list fault) (t : target) (op : N) (l : wlogT) : option fkind * wlogT :=
  (fault_at plan t (count t l + 1), l ++ [(t, op)]).

(* ---------- trust-level tables (Gen.Params, from istructsmem/impl.go) ---------- *)

(* what the model takes from the Go source besides the trust level *)
Record conf := mkConf {
  k_fx : bool;      (* cmdProc.putPLog hands PutPlog's error to the pipeline *)
  k_early : bool;   (* the sync actualizer's flush loop stops at the first error *)
  k_sees : bool;    (* an event decoded from the PLog still tells that a row deactivates its record
                       (ICUDRow.IsDeactivated; rowType.isActiveModified is restored by the decoder) *)
  k_tl : N          (* sequences trust level *)
}.

Definition tl_flag (tbl : list N) (tl : N) : bool :=
  match nth_error tbl (N.to_nat tl) with Some 1 => true | _ => false end.
Definition plog_cond (tl : N) : bool := tl_flag c05_plog_ops tl.
Definition wlog_cond (tl : N) (reapply : bool) : bool :=
  if reapply then c05_reapply_wlog_op =? 1 else tl_flag c05_wlog_ops tl.
(* records: per-record calls (conditional for new records) or one PutBatch *)
Definition recs_each (tl : N) (reapply : bool) : bool :=
  if reapply then tl_flag c05_rec_reapply_ops tl else tl_flag c05_rec_ops tl.

Definition op_of (cond : bool) : N := if cond then opInsert else opPut.

(* ---------- the write steps ---------- *)

Definition set_plog (s : store) x := mkStore x (wlog s) (recs s) (proj s).
Definition set_wlog (s : store) x := mkStore (plog s) x (recs s) (proj s).
Definition set_recs (s : store) x := mkStore (plog s) (wlog s) x (proj s).
Definition set_proj (s : store) x := mkStore (plog s) (wlog s) (recs s) x.

(* returns also whether the row was written *)
Definition w_plog (cond : bool) (plan : list fault) (o : N) (e : event) (s : store) (l : wlogT)
  : store * wlogT * (bool * bool) :=
  let '(f, l') := issue plan TPLog (op_of cond) l in
  let '(app, ok) := wr f cond (is_some (nget (plog s) o)) in
  (if app then set_plog s (nput (plog s) o e) else s, l', (app, ok)).

Definition w_wlog (cond : bool) (plan : list fault) (e : event) (s : store) (l : wlogT)
  : store * wlogT * bool :=
  let '(f, l') := issue plan TWLog (op_of cond) l in
  let '(app, ok) := wr f cond (is_some (get2 (wlog s) (e_ws e) (e_woff e))) in
  (if app then set_wlog s (put2 (wlog s) (e_ws e) (e_woff e) e) else s, l', ok).

(* actualizers.ProjectorEvent on the event the processor holds. A re-applied event was decoded from
   the PLog; unless the decoder restores the "sys.IsActive was modified" flag, IsDeactivated() is
   false on it and an AFTER DEACTIVATE projector is not triggered by the re-apply. *)
Definition trig_at (sees reapply d : bool) (e : event) : bool :=
  if reapply && negb sees then negb d else trig d e.

(* the projectors the re-apply triggers exactly as the command did: all of them if the decoder
   restores what IsDeactivated() needs, otherwise those not subscribed AFTER DEACTIVATE only *)
Definition good (sees : bool) (dk : N -> bool) (j : N) : Prop := sees = true \/ dk j = false.
Definition all_projectors (j : N) : Prop := True.

(* sync projector j (of kind d): if triggered, its intent is applied by one PutBatch of its view
   row (ApplyIntents); a projector that is not triggered has no intents and issues no call *)
Definition w_proj1 (sees reapply : bool) (plan : list fault) (jd : N * bool) (e : event) (s : store) (l : wlogT)
  : store * wlogT * bool :=
  if trig_at sees reapply (snd jd) e then
    let '(f, l') := issue plan TView opPutBatch l in
    let '(app, ok) := wr f false false in
    (if app then set_proj s (put3 (proj s) (fst jd) (e_ws e) (e_woff e) (e_tag e)) else s, l', ok)
  else (s, l, true).

(* syncActualizerFactory, step "IntentsApplier": the states of the projectors are flushed in the
   order ord; `err = st.ApplyIntents()` in a loop. early = the loop returns at the first error;
   otherwise every state is flushed and the error of the last one is the step's error.
   last = the result so far. *)
Fixpoint w_projs (early sees reapply : bool) (plan : list fault) (ord : list (N * bool)) (e : event) (s : store) (l : wlogT)
  (last : bool) : store * wlogT * bool :=
  match ord with
  | [] => (s, l, last)
  | jd :: r =>
      let '(s1, l1, ok) := w_proj1 sees reapply plan jd e s l in
      if negb ok && early then (s1, l1, false) else w_projs early sees reapply plan r e s1 l1 ok
  end.

(* putRecordsBatch, trust level 0: one call per record, InsertIfNotExists for new ones; stops at
   the first failure *)
Fixpoint w_recs_each (plan : list fault) (ws : N) (rs : list (N * rec * bool)) (s : store) (l : wlogT)
  : store * wlogT * bool :=
  match rs with
  | [] => (s, l, true)
  | (id, r, isnew) :: rest =>
      let '(f, l') := issue plan TRec (op_of isnew) l in
      let '(app, ok) := wr f isnew (is_some (get2 (recs s) ws id)) in
      let s' := if app then set_recs s (put2 (recs s) ws id r) else s in
      if ok then w_recs_each plan ws rest s' l' else (s', l', false)
  end.

Definition put_all (ws : N) (rs : list (N * rec * bool)) (m : n2map rec) : n2map rec :=
  fold_left (fun m x => put2 m ws (fst (fst x)) (snd (fst x))) rs m.

(* putRecordsBatch, other trust levels and re-apply: one PutBatch *)
Definition w_recs_batch (plan : list fault) (ws : N) (rs : list (N * rec * bool)) (s : store) (l : wlogT)
  : store * wlogT * bool :=
  match rs with
  | [] => (s, l, true)      (* apply2: len(records) > 0 guards the call *)
  | _ =>
      let '(f, l') := issue plan TRec opPutBatch l in
      let '(app, ok) := wr f false false in
      (if app then set_recs s (put_all ws rs (recs s)) else s, l', ok)
  end.

(* cmdProc.storeOp: applyRecords, then the fork (sync projectors || PutWlog); both branches of
   the fork always run; reapply = through IEventReapplier (recovery) *)
Definition store_op (k : conf) (ord : list (N * bool)) (plan : list fault) (reapply : bool) (e : event) (s : store) (l : wlogT)
  : store * wlogT * bool :=
  let tl := k_tl k in
  match results (recs s) (e_ws e) (e_cuds e) with
  | None => (s, l, false)
  | Some rs =>
      let '(s1, l1, ok1) :=
        if recs_each tl reapply then w_recs_each plan (e_ws e) rs s l
        else w_recs_batch plan (e_ws e) rs s l in
      if negb ok1 then (s1, l1, false) else
      let '(s2, l2, okv) := w_projs (k_early k) (k_sees k) reapply plan ord e s1 l1 true in
      let '(s3, l3, okw) := w_wlog (wlog_cond tl reapply) plan e s2 l2 in
      (s3, l3, okv && okw)
  end.

(* ---------- in-memory partition state and recovery ---------- *)

Record wsmem := mkWs { nextW : N; nextID : N }.
Record part := mkPart { nextP : N; wss : nmap wsmem }.

Definition ws0 : wsmem := mkWs 1 c04_first_user_id.
Definition part0 : part := mkPart 1 [].
Definition ws_of (p : part) (ws : N) : wsmem := match nget (wss p) ws with Some w => w | None => ws0 end.

(* IIDGenerator.UpdateOnSync over the new rows of an event *)
Definition sync_ids (cs : list ecud) (n : N) : N :=
  fold_left (fun n c => match c with ENew id _ => if n <=? id then id + 1 else n | _ => n end) cs n.

(* the ReadPLog callback of cmdProc.recovery *)
Definition scan_step (p : part) (oe : N * event) : part :=
  let '(o, e) := oe in
  let w := ws_of p (e_ws e) in
  mkPart (o + 1) (nput (wss p) (e_ws e) (mkWs (e_woff e + 1) (sync_ids (e_cuds e) (nextID w)))).

Definition scan (pl : nmap event) : part := fold_left scan_step pl part0.

Fixpoint last_opt {A} (l : list A) : option A :=
  match l with [] => None | [x] => Some x | _ :: r => last_opt r end.

Record state := mkState { sto : store; mem : option part }.
Definition state0 : state := mkState store0 None.

(* cmdProc.recovery: returns the store, the call log, and the partition state unless a write of
   the re-apply failed *)
Definition recover (k : conf) (ord : list (N * bool)) (plan : list fault) (s : store) (l : wlogT) : store * wlogT * option part :=
  let p := scan (plog s) in
  match last_opt (map snd (plog s)) with
  | None => (s, l, Some p)
  | Some e =>
      let '(s1, l1, ok) := store_op k ord plan true e s l in
      (s1, l1, if ok then Some p else None)
  end.

(* ---------- commands ---------- *)

Inductive cud := Ins (raw v : N) | Upd (id v : N) | Deact (id : N).
(* c_bad: refused by parsing / validation whatever the store holds (malformed body, unknown type,
   sys.IsActive mixed with other fields ...) *)
Record command := mkCmd { c_ws : N; c_bad : bool; c_ops : list cud }.

Inductive reply :=
| ROk (woff : N) (ids : list N)   (* 2xx: CurrentWLogOffset, NewIDs in the order of the inserts *)
| RClient                         (* 4xx *)
| RServer                         (* 5xx *)
| RNone.                          (* no reply: the processor goroutine died *)

Fixpoint creates_of (ops : list cud) (next : N) : list ecud :=
  match ops with
  | [] => []
  | Ins _ v :: r => ENew next v :: creates_of r (next + 1)
  | _ :: r => creates_of r next
  end.
(* m, ws: the records the command was parsed against (parseCUDs loads the existing record) *)
Definition updates_of (m : n2map rec) (ws : N) (ops : list cud) : list ecud :=
  flat_map (fun o => match o with
                     | Upd id v => [EUpd id v (match get2 m ws id with Some r => r_act r | None => true end)]
                     | Deact id => [EDeact id]
                     | Ins _ _ => []
                     end) ops.
Definition raws_of (ops : list cud) : list N :=
  flat_map (fun o => match o with Ins raw _ => [raw] | _ => [] end) ops.
Definition upd_ids (ops : list cud) : list N :=
  flat_map (fun o => match o with Upd id _ | Deact id => [id] | Ins _ _ => [] end) ops.

Fixpoint nodupb (l : list N) : bool :=
  match l with [] => true | x :: r => negb (existsb (N.eqb x) r) && nodupb r end.

(* cudType.creates then cudType.updates *)
Definition event_cuds (m : n2map rec) (ws : N) (ops : list cud) (next : N) : list ecud :=
  creates_of ops next ++ updates_of m ws ops.
Definition new_ids (cs : list ecud) : list N :=
  flat_map (fun c => match c with ENew id _ => [id] | _ => [] end) cs.

(* everything that can refuse the command before putPLog: no rows, duplicate raw IDs, two rows
   for one record (outside the generated domain: the real code merges them), unknown record *)
Definition valid_cmd (s : store) (c : command) : bool :=
  negb (c_bad c) && negb (match c_ops c with [] => true | _ => false end)
  && nodupb (raws_of (c_ops c)) && nodupb (upd_ids (c_ops c))
  && forallb (fun id => is_some (get2 (recs s) (c_ws c) id)) (upd_ids (c_ops c)).

Definition build_event (s : store) (p : part) (tag : N) (c : command) : event :=
  let w := ws_of p (c_ws c) in
  mkEvent tag (c_ws c) (nextW w) (event_cuds (recs s) (c_ws c) (c_ops c) (nextID w)).

Definition bump (p : part) (e : event) : part :=
  let w := ws_of p (e_ws e) in
  mkPart (nextP p + 1)
         (nput (wss p) (e_ws e) (mkWs (nextW w + 1) (nextID w + N.of_nat (length (new_ids (e_cuds e)))))).

(* o_written: the event reached the PLog (the durable commit point) *)
Record outcome := mkOut { o_reply : reply; o_written : bool; o_calls : wlogT }.

(* one command through the processor; ord = the order in which the sync actualizer serving it
   flushes the projectors *)
Definition process (k : conf) (ord : list (N * bool)) (tag : N) (c : command) (plan : list fault) (st : state)
  : state * outcome :=
  let '(s0, l0, mp) :=
    match mem st with
    | Some p => (sto st, [], Some p)
    | None => recover k ord plan (sto st) []
    end in
  match mp with
  | None => (mkState s0 None, mkOut RClient false l0)
      (* partition recovery failed: getAppPartition sits before the wrongArgsCatcher operator of
         the pipeline, which turns every earlier error into 400 Bad Request *)
  | Some p =>
      if negb (valid_cmd s0 c) then (mkState s0 (Some p), mkOut RClient false l0) else
      let e := build_event s0 p tag c in
      let '(s1, l1, (written, okp)) := w_plog (plog_cond (k_tl k)) plan (nextP p) e s0 l0 in
      if negb okp then
        (mkState s1 None, mkOut (if k_fx k then RServer else RNone) written l1)
      else
        let '(s2, l2, oks) := store_op k ord plan false e s1 l1 in
        if negb oks then (mkState s2 None, mkOut RServer true l2)
        else (mkState s2 (Some (bump p e)), mkOut (ROk (e_woff e) (new_ids (e_cuds e))) true l2)
  end.

Inductive step := SCmd (c : command) (plan : list fault) | SRestart.

(* commands are stamped 1, 2, 3 ... (the harness's clock). After RNone the dead processor is
   replaced by a new one: its partition state is gone, which `process` already says. *)
(* ords: the flush order of the sync actualizer that serves the command with a given stamp (a
   Go map order, fixed when the partition is deployed; any function here) *)
Fixpoint run (k : conf) (ords : N -> list (N * bool)) (tag : N) (steps : list step) (st : state) : state * list outcome :=
  match steps with
  | [] => (st, [])
  | SRestart :: r => run k ords tag r (mkState (sto st) None)
  | SCmd c plan :: r =>
      let '(st1, o) := process k (ords tag) tag c plan st in
      let '(st2, os) := run k ords (tag + 1) r st1 in
      (st2, o :: os)
  end.

(* every one of the np projectors (numbered 0..np-1, projector j of kind dk j) is flushed, no other *)
Definition ord_ok (np : N) (dk : N -> bool) (ord : list (N * bool)) : Prop :=
  forall j d, In (j, d) ord <-> j < np /\ d = dk j.
Definition ords_ok (np : N) (dk : N -> bool) (ords : N -> list (N * bool)) : Prop := forall t, ord_ok np dk (ords t).

(* ---------- traces ---------- *)

Inductive ostep :=
| OCmd (c : command) (plan : list fault) (fired : list bool) (rep : reply) (calls : wlogT)
| ORestart.

Record trace := mkTrace {
  t_tl : N;
  t_np : N;   (* number of sync projectors of the test application *)
  t_deact : bool;   (* their kind: all subscribed AFTER DEACTIVATE only (variant with one such
                       projector), or all ON EXECUTE of the command *)
  (* judge everything except the clauses of the recorded findings ("exactly one reply": F11, repaired;
     "an error reply for a failed PLog write means the command is in no store", asked also of a
     write that failed after taking effect: C01-F2; "every event that triggers a projector has its row
     in that projector's view", for AFTER DEACTIVATE projectors: C01-F3): set on the second copy of a trace that shows
     one of them, so that a known finding cannot hide another violation *)
  t_lenient : bool;
  t_steps : list ostep;
  (* read back after the last command: PLog, WLog per workspace, records, view rows per projector *)
  t_plog : nmap event;
  t_wlog : n2map event;
  t_recs : n2map rec;
  t_proj : n3map N
}.

Definition ecud_eqb (a b : ecud) : bool :=
  match a, b with
  | ENew i v, ENew j w => (i =? j) && (v =? w)
  | EUpd i v a, EUpd j w b => (i =? j) && (v =? w) && Bool.eqb a b
  | EDeact i, EDeact j => i =? j
  | _, _ => false
  end.
Definition event_eqb (a b : event) : bool :=
  (e_tag a =? e_tag b) && (e_ws a =? e_ws b) && (e_woff a =? e_woff b)
  && list_eqb ecud_eqb (e_cuds a) (e_cuds b).
Definition rec_eqb (a b : rec) : bool := (r_v a =? r_v b) && Bool.eqb (r_act a) (r_act b).
Definition reply_eqb (a b : reply) : bool :=
  match a, b with
  | ROk w i, ROk w' i' => (w =? w') && list_eqb N.eqb i i'
  | RClient, RClient | RServer, RServer | RNone, RNone => true
  | _, _ => false
  end.
Definition nmap_eqb {A} (eqb : A -> A -> bool) (a b : nmap A) : bool :=
  list_eqb (fun x y => (fst x =? fst y) && eqb (snd x) (snd y)) a b.
Definition n2map_eqb {A} (eqb : A -> A -> bool) (a b : n2map A) : bool := nmap_eqb (nmap_eqb eqb) a b.

Definition calls_of (t : target) (l : wlogT) : list N :=
  map snd (filter (fun x => target_eqb (fst x) t) l).
(* the two branches of the fork run concurrently: the call order is compared per target *)
Definition calls_eqb (a b : wlogT) : bool :=
  forallb (fun t => list_eqb N.eqb (calls_of t a) (calls_of t b)) [TPLog; TRec; TView; TWLog].

(* a planned fault fires when its write is issued (FExists only on a conditional insert) *)
Definition fired_in (l : wlogT) (f : fault) : bool :=
  let '(t, k, kd) := f in
  match nth_error (calls_of t l) (N.to_nat (k - 1)) with
  | Some op => negb (k =? 0) && (negb (fkind_eqb kd FExists) || (op =? opInsert))
  | None => false
  end.

Definition steps_of (os : list ostep) : list step :=
  map (fun o => match o with OCmd c plan _ _ _ => SCmd c plan | ORestart => SRestart end) os.

Fixpoint obs_match (os : list ostep) (outs : list outcome) : bool :=
  match os, outs with
  | [], [] => true
  | ORestart :: r, _ => obs_match r outs
  | OCmd _ plan fired rep calls :: r, o :: outs' =>
      reply_eqb rep (o_reply o) && calls_eqb calls (o_calls o)
      && list_eqb Bool.eqb fired (map (fired_in (o_calls o)) plan) && obs_match r outs'
  | _, _ => false
  end.

(* implementation model vs observation: replies, issued storage calls, fired faults, final stores *)
Fixpoint nseq (o : N) (n : nat) : list N :=
  match n with O => [] | S n' => o :: nseq (o + 1) n' end.

(* the model with the flags of the Go source *)
Definition code_conf (tl : N) : conf :=
  mkConf c01_putplog_returns_err c01_sync_flush_stops_at_error c01_decode_restores_active_modified tl.

(* The flush order of the real sync actualizer is a Go map order; which projector a k-th view
   write belongs to is not compared. Nothing that is compared depends on it (replies, number and
   kind of the calls, the stores after the final clean command), so the model runs with 0,1,2... *)
Definition agrees (t : trace) : bool :=
  let '(st, outs) := run (code_conf (t_tl t)) (fun _ => map (fun j => (j, t_deact t)) (nseq 0 (N.to_nat (t_np t))))
                         1 (steps_of (t_steps t)) state0 in
  obs_match (t_steps t) outs
  && nmap_eqb event_eqb (t_plog t) (plog (sto st))
  && n2map_eqb event_eqb (t_wlog t) (wlog (sto st))
  && n2map_eqb rec_eqb (t_recs t) (recs (sto st))
  && nmap_eqb (n2map_eqb N.eqb) (t_proj t) (proj (sto st)).

(* ---------- the property judged on the observation alone ---------- *)

Fixpoint dedup (l : list N) : list N :=
  match l with [] => [] | x :: r => if existsb (N.eqb x) r then dedup r else x :: dedup r end.

(* the four stores describe the same list of events: PLog offsets 1..n; per workspace the WLog
   holds exactly the PLog events of that workspace, in order, at offsets 1..m, each carrying its
   own offset; the records are the fold of the PLog; one view row per event in the view of every
   one of the np sync projectors, and no other view rows *)
(* the view of a projector of kind d against the WLog read back: no row but those of events that
   trigger it (with the event's stamp); a row for every such event *)
Definition rows_ok (d : bool) (wl : n2map event) (v : n2map N) : bool :=
  forallb (fun x => forallb (fun y =>
             match get2 wl (fst x) (fst y) with
             | Some e => trig d e && (e_tag e =? snd y)
             | None => false
             end) (snd x)) v.
Definition rows_all (d : bool) (wl : n2map event) (v : n2map N) : bool :=
  forallb (fun x => forallb (fun y =>
             negb (trig d (snd y)) || option_eqb N.eqb (get2 v (fst x) (fst y)) (Some (e_tag (snd y)))) (snd x)) wl.

(* sub = only "no wrong row" is asked of the views (lenient copy of a trace that shows C01-F3) *)
Definition consistentb (np : N) (d sub : bool) (pl : nmap event) (wl : n2map event) (rc : n2map rec) (pj : n3map N) : bool :=
  let es := map snd pl in
  list_eqb N.eqb (map fst pl) (nseq 1 (length es))
  && forallb (fun ws =>
       nmap_eqb event_eqb (inner wl ws) (index_from 1 (ws_events ws es))
       && list_eqb N.eqb (map e_woff (ws_events ws es)) (nseq 1 (length (ws_events ws es))))
     (dedup (map e_ws es ++ map fst wl))
  && n2map_eqb rec_eqb rc (recs_of es)
  && forallb (fun j => rows_ok d wl (inner3 pj j) && (sub || rows_all d wl (inner3 pj j)))
             (nseq 0 (N.to_nat np))
  && forallb (fun x => fst x <? np) pj.

Definition find_tag (es : list event) (tag : N) : list event := filter (fun e => e_tag e =? tag) es.

(* the event a command must have produced if it is in the log at all: its rows in order with
   consecutive fresh IDs starting at the first ID the event carries *)
Definition cud_matches (a b : ecud) : bool :=
  match a, b with
  | EUpd i v _, EUpd j w _ => (i =? j) && (v =? w)     (* the carried sys.IsActive: acts_ok *)
  | _, _ => ecud_eqb a b
  end.
Definition event_matches (c : command) (e : event) : bool :=
  (e_ws e =? c_ws c)
  && match new_ids (e_cuds e) with
     | [] => list_eqb cud_matches (e_cuds e) (event_cuds [] 0 (c_ops c) 0) && (match raws_of (c_ops c) with [] => true | _ => false end)
     | id :: _ => list_eqb cud_matches (e_cuds e) (event_cuds [] 0 (c_ops c) id)
     end.

(* every update in the log addresses a record the earlier events created, and carries the
   sys.IsActive value that record has by the earlier events (an update of V must not change it) *)
Fixpoint acts_ok (m : n2map rec) (es : list event) : bool :=
  match es with
  | [] => true
  | e :: r =>
      forallb (fun c => match c with
                        | ENew _ _ => true
                        | EUpd id _ a => match get2 m (e_ws e) id with Some x => Bool.eqb (r_act x) a | None => false end
                        | EDeact id => is_some (get2 m (e_ws e) id)
                        end) (e_cuds e)
      && acts_ok (apply_event m e) r
  end.

(* the PLog write of the command was hit by a fault that leaves no effect *)
Definition plog_no_effect (plan : list fault) (fired : list bool) : bool :=
  existsb (fun x => match fst x with (TPLog, _, FBefore) | (TPLog, _, FExists) => snd x | _ => false end)
          (combine plan fired).

(* the PLog write of the command was hit by a fault of any kind (so an error after its effect too) *)
Definition plog_faulted (plan : list fault) (fired : list bool) : bool :=
  existsb (fun x => match fst x with (TPLog, _, _) => snd x | _ => false end) (combine plan fired).

Definition insert_only (c : command) : bool :=
  negb (c_bad c) && negb (match c_ops c with [] => true | _ => false end)
  && forallb (fun o => match o with Ins _ _ => true | _ => false end) (c_ops c)
  && nodupb (raws_of (c_ops c)).

Fixpoint replies_ok (lenient : bool) (es : list event) (tag : N) (os : list ostep) : bool :=
  match os with
  | [] => true
  | ORestart :: r => replies_ok lenient es tag r
  | OCmd c plan fired rep _ :: r =>
      (match rep with
       | ROk w ids =>
           match find_tag es tag with
           | [e] => event_matches c e && (e_woff e =? w) && list_eqb N.eqb ids (new_ids (e_cuds e))
           | _ => false
           end
       | RClient => match find_tag es tag with [] => true | _ => false end
       | RServer | RNone =>
           match find_tag es tag with
           | [] => true
           | [e] =>
               (* "a command answered with an error because the partition-log write failed is in none
                  of them": read literally, also when the write reported its error after taking
                  effect (known finding C01-F2; the lenient copy asks it only of writes without effect) *)
               event_matches c e
               && negb (if lenient then plog_no_effect plan fired else plog_faulted plan fired)
           | _ => false
           end
       end)
      && (lenient || negb (reply_eqb rep RNone))                      (* exactly one reply *)
      && (match plan with [] => negb (insert_only c) || (match rep with ROk _ _ => true | _ => false end) | _ => true end)
                                                                      (* keeps serving *)
      && replies_ok lenient es (tag + 1) r
  end.

Definition n_cmds (os : list ostep) : N :=
  N.of_nat (length (filter (fun o => match o with OCmd _ _ _ _ _ => true | ORestart => false end) os)).

Definition satisfies (t : trace) : bool :=
  let es := map snd (t_plog t) in
  consistentb (t_np t) (t_deact t) (t_lenient t && t_deact t) (t_plog t) (t_wlog t) (t_recs t) (t_proj t)
  && acts_ok [] es
  && replies_ok (t_lenient t) es 1 (t_steps t)
  && forallb (fun e => (1 <=? e_tag e) && (e_tag e <=? n_cmds (t_steps t))) es.

(* ---------- the statements' vocabulary (Properties/C01.v) ---------- *)

(* the events of the partition log, in offset order *)
Definition events (st : state) : list event := map snd (plog (sto st)).

(* The four stores describe the same list of events:
   - the PLog offsets are 1..n without a gap;
   - per workspace the WLog holds exactly the PLog events of that workspace, in log order, at
     offsets 1, 2, ... without a gap, and each event carries the WLog offset it is stored at;
   - the records are the fold of the PLog events;
   - the view of every one of the np synchronous projectors (projector j of kind dk j) that
     satisfies P has exactly one row per WLog row whose event triggers it, with that event's stamp. *)
Definition consistent (np : N) (dk : N -> bool) (P : N -> Prop) (s : store) : Prop :=
  let es := map snd (plog s) in
  map fst (plog s) = nseq 1 (length es)
  /\ (forall ws w, get2 (wlog s) ws w =
                   if w =? 0 then None else nth_error (ws_events ws es) (N.to_nat (w - 1)))
  /\ (forall ws, map e_woff (ws_events ws es) = nseq 1 (length (ws_events ws es)))
  /\ (forall ws id, get2 (recs s) ws id = get2 (recs_of es) ws id)
  /\ (forall j, j < np -> P j -> forall ws w,
        get3 (proj s) j ws w =
        match get2 (wlog s) ws w with
        | Some e => if trig (dk j) e then Some (e_tag e) else None
        | None => None
        end).

(* the reply of a command whose event e is in the log: a success names e's WLog offset and new
   IDs; a client error (4xx) is never given for a command that is in the log *)
Definition reply_fits (o : outcome) (e : event) : Prop :=
  match o_reply o with
  | ROk w ids => w = e_woff e /\ ids = new_ids (e_cuds e)
  | RClient => False
  | _ => True
  end.

(* the commands of a history whose event reached the PLog, with their stamps, in order *)
Fixpoint written_cmds (tag : N) (steps : list step) (outs : list outcome) : list (N * command * outcome) :=
  match steps, outs with
  | SRestart :: r, _ => written_cmds tag r outs
  | SCmd c _ :: r, o :: os => (if o_written o then [(tag, c, o)] else []) ++ written_cmds (tag + 1) r os
  | _, _ => []
  end.

(* all commands of a history with their stamps and outcomes *)
Fixpoint stamped (tag : N) (steps : list step) (outs : list outcome) : list (N * command * outcome) :=
  match steps, outs with
  | SRestart :: r, _ => stamped tag r outs
  | SCmd c _ :: r, o :: os => (tag, c, o) :: stamped (tag + 1) r os
  | _, _ => []
  end.

Definition no_plog_fault (steps : list step) : Prop :=
  forall c plan, In (SCmd c plan) steps -> forall k, fault_at plan TPLog k = None.
