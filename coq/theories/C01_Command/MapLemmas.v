(* C01 - lemmas about the sorted association lists of Model.v and about lists built by snoc. *)
From Coq Require Import List NArith Bool Lia ZifyNat ZifyN ZifyBool.
From V Require Import C01_Command.Model.
Import ListNotations.
Local Open Scope N_scope.

Lemma nget_nput_eq {A} (m : nmap A) k v : nget (nput m k v) k = Some v.
Proof.
  induction m as [|[k' v'] r IH]; cbn.
  - rewrite N.eqb_refl. reflexivity.
  - destruct (N.ltb_spec k k') as [Hlt|Hge]; cbn.
    + rewrite N.eqb_refl. reflexivity.
    + destruct (N.eqb_spec k k') as [->|Hne]; cbn.
      * rewrite N.eqb_refl. reflexivity.
      * destruct (N.eqb_spec k' k) as [E|_]; [congruence | exact IH].
Qed.

Lemma nget_nput_neq {A} (m : nmap A) k k2 v : k <> k2 -> nget (nput m k v) k2 = nget m k2.
Proof.
  intros Hne. induction m as [|[k' v'] r IH]; cbn.
  - destruct (N.eqb_spec k k2); [congruence | reflexivity].
  - destruct (N.ltb_spec k k') as [Hlt|Hge]; cbn.
    + destruct (N.eqb_spec k k2); [congruence | reflexivity].
    + destruct (N.eqb_spec k k') as [->|Hne']; cbn.
      * destruct (N.eqb_spec k' k2); [congruence | reflexivity].
      * destruct (N.eqb_spec k' k2); [reflexivity | exact IH].
Qed.

Lemma get2_put2_eq {A} (m : n2map A) a b v : get2 (put2 m a b v) a b = Some v.
Proof. unfold get2, put2, inner. rewrite nget_nput_eq. apply nget_nput_eq. Qed.

Lemma get2_put2_neq {A} (m : n2map A) a b a2 b2 v :
  (a <> a2 \/ b <> b2) -> get2 (put2 m a b v) a2 b2 = get2 m a2 b2.
Proof.
  intros H. unfold get2, put2, inner.
  destruct (N.eq_dec a a2) as [->|Hna].
  - rewrite nget_nput_eq. destruct H as [H|H]; [congruence|].
    rewrite nget_nput_neq by exact H. reflexivity.
  - rewrite nget_nput_neq by exact Hna. reflexivity.
Qed.

Lemma get2_nil {A} a b : get2 ([] : n2map A) a b = None.
Proof. reflexivity. Qed.

(* ---------- extensional equality, "between", "advance towards" ---------- *)

Definition eq2 {A} (m m' : n2map A) : Prop := forall a b, get2 m a b = get2 m' a b.

(* every entry of M is the one of A or the one of B *)
Definition btw {A} (a b m : n2map A) : Prop :=
  forall x y, get2 m x y = get2 a x y \/ get2 m x y = get2 b x y.

(* m' differs from m only by entries that took their value in B *)
Definition adv {A} (b m m' : n2map A) : Prop :=
  forall x y, get2 m' x y = get2 b x y \/ get2 m' x y = get2 m x y.

Lemma eq2_refl {A} (m : n2map A) : eq2 m m.
Proof. intros a b; reflexivity. Qed.
Lemma eq2_sym {A} (m m' : n2map A) : eq2 m m' -> eq2 m' m.
Proof. intros H a b; symmetry; apply H. Qed.
Lemma eq2_trans {A} (m m' m'' : n2map A) : eq2 m m' -> eq2 m' m'' -> eq2 m m''.
Proof. intros H1 H2 a b; rewrite H1; apply H2. Qed.

Lemma adv_refl {A} (b m : n2map A) : adv b m m.
Proof. intros x y; right; reflexivity. Qed.
Lemma adv_trans {A} (b m m' m'' : n2map A) : adv b m m' -> adv b m' m'' -> adv b m m''.
Proof.
  intros H1 H2 x y. destruct (H2 x y) as [E|E]; [left; exact E|].
  rewrite E. apply H1.
Qed.
Lemma adv_put {A} (b m : n2map A) x y v : get2 b x y = Some v -> adv b m (put2 m x y v).
Proof.
  intros Hb x' y'. destruct (N.eq_dec x x') as [->|Hx]; [destruct (N.eq_dec y y') as [->|Hy]|].
  - left. rewrite get2_put2_eq. symmetry; exact Hb.
  - right. apply get2_put2_neq. right; exact Hy.
  - right. apply get2_put2_neq. left; exact Hx.
Qed.
Lemma btw_adv {A} (a b m m' : n2map A) : btw a b m -> adv b m m' -> btw a b m'.
Proof.
  intros Hb Ha x y. destruct (Ha x y) as [E|E]; [right; exact E|]. rewrite E. apply Hb.
Qed.
Lemma adv_sticky {A} (b m m' : n2map A) x y :
  adv b m m' -> get2 m x y = get2 b x y -> get2 m' x y = get2 b x y.
Proof. intros Ha E. destruct (Ha x y) as [E'|E']; congruence. Qed.
Lemma btw_of_eq2_l {A} (a b m : n2map A) : eq2 m a -> btw a b m.
Proof. intros H x y; left; apply H. Qed.
Lemma btw_of_eq2_r {A} (a b m : n2map A) : eq2 m b -> btw a b m.
Proof. intros H x y; right; apply H. Qed.
(* wherever A and B differ M already holds B's entry: M is B *)
Lemma btw_complete {A} (a b m : n2map A) :
  btw a b m -> (forall x y, get2 a x y = get2 b x y \/ get2 m x y = get2 b x y) -> eq2 m b.
Proof.
  intros Hb Hd x y. destruct (Hb x y) as [E|E]; [|exact E].
  destruct (Hd x y) as [Eab|Em]; congruence.
Qed.

(* ---------- lists built by snoc ---------- *)

Lemma index_from_app {A} (l : list A) x o :
  index_from o (l ++ [x]) = index_from o l ++ [(o + N.of_nat (length l), x)].
Proof.
  revert o; induction l as [|y r IH]; intros o; cbn [index_from app length].
  - rewrite N.add_0_r. reflexivity.
  - rewrite IH. replace (o + 1 + N.of_nat (length r)) with (o + N.of_nat (S (length r))) by lia.
    reflexivity.
Qed.

Lemma nput_index_snoc {A} (l : list A) x o :
  nput (index_from o l) (o + N.of_nat (length l)) x = index_from o (l ++ [x]).
Proof.
  revert o; induction l as [|y r IH]; intros o; cbn [index_from app length nput].
  - rewrite N.add_0_r. reflexivity.
  - destruct (N.ltb_spec (o + N.of_nat (S (length r))) o) as [H|_]; [lia|].
    destruct (N.eqb_spec (o + N.of_nat (S (length r))) o) as [H|_]; [lia|].
    f_equal. replace (o + N.of_nat (S (length r))) with (o + 1 + N.of_nat (length r)) by lia.
    apply IH.
Qed.

Lemma map_snd_index_from {A} (l : list A) o : map snd (index_from o l) = l.
Proof. revert o; induction l as [|x r IH]; intros o; cbn; [reflexivity | rewrite IH; reflexivity]. Qed.

Lemma map_fst_index_from {A} (l : list A) o : map fst (index_from o l) = nseq o (length l).
Proof. revert o; induction l as [|x r IH]; intros o; cbn; [reflexivity | rewrite IH; reflexivity]. Qed.

Lemma nget_index_from {A} (l : list A) o k :
  nget (index_from o l) k = if k <? o then None else nth_error l (N.to_nat (k - o)).
Proof.
  revert o; induction l as [|x r IH]; intros o; cbn [index_from nget].
  - destruct (k <? o); [reflexivity|]. destruct (N.to_nat (k - o)); reflexivity.
  - destruct (N.eqb_spec o k) as [->|Hne].
    + rewrite N.ltb_irrefl, N.sub_diag. reflexivity.
    + rewrite IH. destruct (N.ltb_spec k o) as [H1|H1]; destruct (N.ltb_spec k (o + 1)) as [H2|H2]; try lia; try reflexivity.
      replace (N.to_nat (k - o)) with (S (N.to_nat (k - (o + 1)))) by lia. reflexivity.
Qed.

Lemma last_opt_snoc {A} (l : list A) x : last_opt (l ++ [x]) = Some x.
Proof.
  induction l as [|y r IH]; cbn; [reflexivity|].
  destruct (r ++ [x]) eqn:E; [destruct r; discriminate | exact IH].
Qed.

Lemma snoc_cases {A} (l : list A) : l = [] \/ exists l' x, l = l' ++ [x].
Proof.
  destruct l as [|y r]; [left; reflexivity | right].
  exists (removelast (y :: r)), (last (y :: r) y). apply app_removelast_last. discriminate.
Qed.

(* ---------- three levels ---------- *)

Lemma inner3_put3_eq {A} (m : n3map A) j a b v : inner3 (put3 m j a b v) j = put2 (inner3 m j) a b v.
Proof. unfold inner3 at 1, put3. rewrite nget_nput_eq. reflexivity. Qed.

Lemma inner3_put3_neq {A} (m : n3map A) j j' a b v : j <> j' -> inner3 (put3 m j a b v) j' = inner3 m j'.
Proof. intros H. unfold inner3, put3. rewrite nget_nput_neq by exact H. reflexivity. Qed.

Lemma get3_put3_eq {A} (m : n3map A) j a b v : get3 (put3 m j a b v) j a b = Some v.
Proof. unfold get3. rewrite inner3_put3_eq. apply get2_put2_eq. Qed.
