(* C08 - view rows round-trip; partial-key reads return exactly the matching rows.
   Statements only; every proof is `exact <lemma>` into C08_Views/Proofs.v (examples by vm_compute). *)
From Coq Require Import List NArith ZArith Lia.
From V Require Import Lib.Lex Lib.SMap Storage.Spec Storage.SpecLaws Gen.Params C08_Views.Model C08_Views.Proofs.
Import ListNotations.
Local Open Scope N_scope.

(* side conditions on what the translator took from the Go source: the model's layout of key
   bytes is the layout the code writes *)
Lemma key_fields_big_endian : view_key_endian = BE.
Proof. reflexivity. Qed.
Lemma kind_widths_match : map kwidth all_kinds = view_kind_widths.
Proof. reflexivity. Qed.
Lemma pkey_header_widths : view_id_width = 2%nat /\ view_ws_width = 8%nat.
Proof. split; reflexivity. Qed.

(* the long-key part of the correspondence check declares trailing columns with MaxLen 1024 and
   with the builder's maximum: both are legal lengths, and the default length alone can never make
   pKey ++ cCols reach 512 bytes of trailing value (long keys need the explicit constraint) *)
Lemma trailing_column_limits : view_default_field_len < 512 /\ 1024 <= view_max_field_len.
Proof. split; vm_compute; [reflexivity|discriminate]. Qed.

(* ---- key encoding ---- *)

(* Loading stored clustering columns gives back the values they were built from: for every
   layout of fixed-size kinds, optional trailing string/bytes, and all field values. *)
Theorem ccols_roundtrip : forall s k, full_key s k ->
  dec_fields (s_cc s) (enc_ccols s k) = Some (vals (k_c k), k_v k).
Proof. exact ccols_roundtrip_proved. Qed.

(* Same layout: equal clustering bytes only for equal values (floats as bit patterns). *)
Theorem ccols_injective : forall s k k', full_key s k -> full_key s k' ->
  enc_ccols s k = enc_ccols s k' -> k_c k = k_c k' /\ k_v k = k_v k'.
Proof. exact ccols_injective_proved. Qed.

(* A different view, workspace or partition-key value gives a different storage partition. *)
Theorem pkey_isolates : forall s s' ws ws' k k',
  s_view s < 2 ^ 16 -> s_view s' < 2 ^ 16 -> ws < 2 ^ 64 -> ws' < 2 ^ 64 ->
  wf_vals (s_pk s) (k_p k) -> wf_vals (s_pk s') (k_p k') -> all_set (k_p k) = true -> all_set (k_p k') = true ->
  enc_pkey s ws k = enc_pkey s' ws' k' ->
  s_view s = s_view s' /\ ws = ws' /\ (s_pk s = s_pk s' -> k_p k = k_p k').
Proof. exact pkey_isolates_proved. Qed.

(* ---- round trip and isolation of point reads ---- *)

(* A row written under a key is returned by a get with the same key, from any store. *)
Theorem view_get_put : forall (st : vstore) s ws k v, validate_key s false k = true ->
  view_get (fst (view_put st s ws k v)) s ws k = GVal v.
Proof. exact view_get_put_proved. Qed.

(* A write under any different key (other view, workspace, partition or clustering values)
   leaves the result of a get unchanged. *)
Theorem view_put_frame : forall views (st : vstore) s s' ws ws' k k' v,
  reg_ok views -> In s views -> In s' views -> ws < 2 ^ 64 -> ws' < 2 ^ 64 ->
  full_key s k -> full_key s' k' ->
  (s_view s, ws, k) <> (s_view s', ws', k') ->
  view_get (fst (view_put st s ws k v)) s' ws' k' = view_get st s' ws' k'.
Proof. exact view_put_frame_proved. Qed.

(* Over every history of Put / PutBatch calls (accepted or rejected, any views, workspaces and
   keys, starting from any store): a get returns the value of the newest write under exactly
   that key, or what the initial store held. *)
Theorem view_get_history : forall views ops (st : vstore) s ws k,
  reg_ok views -> Forall (wop_ok views) ops -> In s views -> ws < 2 ^ 64 -> full_key s k ->
  view_get (run_wops st ops) s ws k =
  match last_write (s_view s) ws k (flat_map writes_of ops) with
  | Some v => GVal v
  | None => view_get st s ws k
  end.
Proof. exact view_get_history_proved. Qed.

(* Every store reached by view writes holds, in each view partition, only encodings of
   complete keys of that view (the invariant the read theorems rest on). *)
Theorem reachable_typed : forall views ops, reg_ok views -> Forall (wop_ok views) ops ->
  typed views (run_wops [] ops) /\ parts_sorted (run_wops [] ops).
Proof. exact reachable_typed_proved. Qed.

(* ---- partial-key reads ---- *)

(* the byte range scanned with the prefix successor (keeps = false) is exactly the set of
   extensions of the prefix, for all byte strings; with the former utils.IncBytes only for keys at
   least as long as the prefix or prefixes not ending in 0xff (Lex.prefix_range / prefix_range_refuted) *)
Theorem prefix_is_range : forall keeps p k, wf p -> wf k ->
  (keeps = false \/ (length p <= length k)%nat \/ ends_ff p = false) ->
  is_prefix p k = in_rng (upper_bound keeps p) p k.
Proof. exact ub_exact. Qed.

(* the upper bound Read passes to the storage is the prefix successor (fix 5350d42ca of finding
   F22), not the length-preserving utils.IncBytes: a regression re-opens this and every theorem
   below that is stated on the bound the translator found in the source *)
Lemma read_bound_is_prefix_successor : view_incbytes_keeps_length = false.
Proof. reflexivity. Qed.

(* FULL STATEMENT (what C08 asks of the code, on every backend nk, for every view layout):
     forall nk views st s ws q, reg_ok views -> typed views st -> parts_sorted st -> In s views ->
       ws < 2^64 -> key_shape_ok s true q = true -> wf_key s q ->
       exists rows, view_read view_incbytes_keeps_length nk st s ws q = (0, rows) /\
         (forall r, In r rows <-> exists k, full_key s k /\ k_p k = k_p q /\ key_matches q k = true
                                            /\ stored st s ws k (r_n r) /\ r = row_of k (r_n r)) /\
         ascending (map (fun r => enc_ccols s (key_of_row r)) rows).
   The faithful model refutes it twice: partial_read_nullkey_refuted (finding F2 seen through
   views: bbolt returns stored clustering columns {0x00} as empty) and partial_read_minlen_refuted
   (finding F24: the prefix given for the trailing column is checked against the column's
   constraints as if it were a complete value, so a prefix shorter than MinLen is refused).
   The theorem below carries exactly the two hypotheses that exclude these witnesses. *)
Theorem partial_read_exact_partial : forall nk views (st : vstore) s ws q,
  reg_ok views -> typed views st -> parts_sorted st -> In s views -> ws < 2 ^ 64 ->
  key_shape_ok s true q = true -> wf_key s q ->
  constraint_ok s q = true ->
  (nk = false \/ raw_lookup st (enc_pkey s ws q) [0] = None) ->
  exists rows, view_read view_incbytes_keeps_length nk st s ws q = (0, rows) /\
    (forall r, In r rows <->
       exists k, full_key s k /\ k_p k = k_p q /\ key_matches q k = true
                 /\ stored st s ws k (r_n r) /\ r = row_of k (r_n r)) /\
    ascending (map (fun r => enc_ccols s (key_of_row r)) rows).
Proof.
  exact (fun nk views st s ws q R T S I W V K C =>
           partial_read_exact_shape view_incbytes_keeps_length nk views st s ws q R T S I W V K C
             (or_introl read_bound_is_prefix_successor)).
Qed.

(* the full statement, without any extra hypothesis, for trailing columns without a MinLen
   constraint on backends that return {0x00} as stored (mem, cache over mem): every partial key,
   trailing prefixes ending in 0xff included *)
Theorem partial_read_exact : forall views (st : vstore) s ws q,
  reg_ok views -> typed views st -> parts_sorted st -> In s views -> ws < 2 ^ 64 ->
  s_vmin s = 0 ->
  key_shape_ok s true q = true -> wf_key s q ->
  exists rows, view_read view_incbytes_keeps_length false st s ws q = (0, rows) /\
    (forall r, In r rows <->
       exists k, full_key s k /\ k_p k = k_p q /\ key_matches q k = true
                 /\ stored st s ws k (r_n r) /\ r = row_of k (r_n r)) /\
    ascending (map (fun r => enc_ccols s (key_of_row r)) rows).
Proof.
  exact (fun views st s ws q R T S I W M V K =>
           partial_read_exact_shape view_incbytes_keeps_length false views st s ws q R T S I W V K
             (constraint_ok_nomin s q M) (or_introl read_bound_is_prefix_successor) (or_introl eq_refl)).
Qed.

(* a batch get is the list of the single gets: any number of keys, partitions, repetitions *)
Theorem batch_get_is_pointwise : forall (st : vstore) ws items res,
  view_get_batch st ws items = Some res ->
  length res = length items /\
  forall i s k, nth_error items i = Some (s, k) -> nth_error res i = Some (view_get st s ws k).
Proof. exact batch_get_is_pointwise_proved. Qed.

(* ... and it is served whenever every key is a complete key *)
Theorem batch_get_accepts : forall (st : vstore) ws items,
  Forall (fun it => validate_key (fst it) false (snd it) = true) items ->
  view_get_batch st ws items = Some (map (fun it => view_get st (fst it) ws (snd it)) items).
Proof. exact batch_get_accepts_proved. Qed.

(* about the bound used before the fix (keeps = true, utils.IncBytes), kept so that the reason for
   the fix stays checked: exact only for trailing prefixes not ending in 0xff *)
Theorem partial_read_exact_any_bound : forall keeps nk views (st : vstore) s ws q,
  reg_ok views -> typed views st -> parts_sorted st -> In s views -> ws < 2 ^ 64 ->
  validate_key s true q = true -> wf_key s q ->
  (keeps = false \/ ends_ff (k_v q) = false) ->
  (nk = false \/ raw_lookup st (enc_pkey s ws q) [0] = None) ->
  exists rows, view_read keeps nk st s ws q = (0, rows) /\
    (forall r, In r rows <->
       exists k, full_key s k /\ k_p k = k_p q /\ key_matches q k = true
                 /\ stored st s ws k (r_n r) /\ r = row_of k (r_n r)) /\
    ascending (map (fun r => enc_ccols s (key_of_row r)) rows).
Proof. exact partial_read_exact_gen. Qed.

(* ascending key bytes: each row once *)
Theorem read_rows_once : forall s rows,
  ascending (map (fun r => enc_ccols s (key_of_row r)) rows) -> NoDup rows.
Proof. exact ascending_rows_NoDup. Qed.

(* ---- witnesses and non-vacuity ---- *)

Definition ex_s1 := mkSchema 300 [KI16] [KI8] true 0.
Definition ex_s2 := mkSchema 301 [KI16] [KI8] true 0.
Definition ex_s3 := mkSchema 302 [KI64; KBool] [KBool] false 0.
Definition ex_views := [ex_s1; ex_s2; ex_s3].
Definition ex_key (p c : N) (v : bytes) := mkKey [Some p] [Some c] v.
Definition ex_ops : list wop :=
  [ WPut ex_s1 7 (ex_key 65535 1 [255; 255; 9]) 11;
    WPut ex_s1 7 (ex_key 65535 1 [255; 255]) 12;
    WBatch 7 [(ex_s1, ex_key 65535 2 [0], 13); (ex_s2, ex_key 65535 1 [255; 255], 14)];
    WPut ex_s1 8 (ex_key 65535 1 [255; 255; 1]) 15;
    WPut ex_s1 7 (ex_key 65535 1 []) 16;                      (* rejected: trailing column empty *)
    WPut ex_s1 7 (ex_key 65535 1 [255; 254; 255]) 17;
    WPut ex_s3 7 (mkKey [Some 18446744073709551615; Some 1] [Some 0] []) 18 ].
Definition ex_st : vstore := run_wops [] ex_ops.

Example ex_reg_ok : reg_ok ex_views.
Proof.
  split.
  - intros s [<-|[<-|[<-|[]]]]; vm_compute; reflexivity.
  - intros s s' [<-|[<-|[<-|[]]]] [<-|[<-|[<-|[]]]] E; try reflexivity; vm_compute in E; discriminate.
Qed.

Ltac ex_in := cbn; first [left; reflexivity | right; left; reflexivity | right; right; left; reflexivity].
Ltac ex_wfkey := unfold wf_key, wf_vals, wf; cbn;
  (split; [repeat constructor|split; [repeat constructor|split; [repeat constructor|intros; try reflexivity; try discriminate]]]).
Ltac ex_item := split; [ex_in|ex_wfkey].

Example ex_ops_ok : Forall (wop_ok ex_views) ex_ops.
Proof.
  unfold ex_ops. repeat apply Forall_cons; try apply Forall_nil; cbn [wop_ok];
    (split; [vm_compute; reflexivity|]); try ex_item.
  repeat apply Forall_cons; try apply Forall_nil; ex_item.
Qed.

(* F22 (fixed by 5350d42ca), about the old bound only: with utils.IncBytes the partial key
   (c0 = 1, trailing prefix ff ff) also delivered the row with c0 = 2, a different fixed column *)
Example partial_read_old_bound_refuted :
  let q := ex_key 65535 1 [255; 255] in
  validate_key ex_s1 true q = true /\ typed ex_views ex_st /\
  exists r, In r (snd (view_read true false ex_st ex_s1 7 q)) /\ key_matches q (key_of_row r) = false.
Proof.
  split; [reflexivity|]. split; [apply (reachable_typed ex_views ex_ops ex_reg_ok ex_ops_ok)|].
  exists (mkRRow [65535] [2] [0] 13). split; [vm_compute; auto|reflexivity].
Qed.

(* ... while the bound in the source delivers exactly the two matching rows, in key order *)
Example partial_read_ff_prefix_nonvacuous :
  view_read view_incbytes_keeps_length false ex_st ex_s1 7 (ex_key 65535 1 [255; 255])
  = (0, [mkRRow [65535] [1] [255; 255] 12; mkRRow [65535] [1] [255; 255; 9] 11]).
Proof. vm_compute. reflexivity. Qed.

(* F2 through views: on bbolt the only row of the partition has clustering columns {0x00} and
   cannot be loaded from what the storage hands back *)
Example partial_read_nullkey_refuted :
  let q := mkKey [Some 18446744073709551615; Some 1] [None] [] in
  validate_key ex_s3 true q = true /\ view_read view_incbytes_keeps_length true ex_st ex_s3 7 q = (9, [])
  /\ raw_lookup ex_st (enc_pkey ex_s3 7 q) [0] <> None
  /\ view_read view_incbytes_keeps_length false ex_st ex_s3 7 q = (0, [mkRRow [18446744073709551615; 1] [0] [] 18]).
Proof. vm_compute. repeat split; auto; discriminate. Qed.

(* F24: the trailing column has MinLen 3; the row ab cd is stored; the partial key with the
   prefix ab is a partial key in the sense of the property, yet the read is refused (code 9),
   while the prefix abc is served *)
Example partial_read_minlen_refuted :
  let s := mkSchema 303 [KI8] [KI8] true 3 in
  let st := run_wops [] [WPut s 1 (mkKey [Some 1] [Some 1] [97; 98; 99; 100]) 5] in
  let q := mkKey [Some 1] [Some 1] [97; 98] in
  key_shape_ok s true q = true /\ constraint_ok s q = false
  /\ view_read view_incbytes_keeps_length false st s 1 q = (9, [])
  /\ view_read view_incbytes_keeps_length false st s 1 (mkKey [Some 1] [Some 1] [97; 98; 99])
     = (0, [mkRRow [1] [1] [97; 98; 99; 100] 5]).
Proof. vm_compute. auto. Qed.

Example batch_get_nonvacuous :
  let k := ex_key 65535 1 [255; 255] in
  view_get_batch ex_st 7 [(ex_s1, k); (ex_s2, k); (ex_s1, ex_key 65535 3 [1]); (ex_s1, k)]
  = Some [GVal 12; GVal 14; GNone; GVal 12]
  /\ view_get_batch ex_st 7 [(ex_s1, k); (ex_s1, ex_key 65535 1 [])] = None.
Proof. vm_compute. auto. Qed.

(* the hypothesis of partial_read_exact_partial is met on a bbolt-like backend by a partial key of
   one fixed column and by trailing prefixes, one of them ending in 0xff *)
Example partial_read_nonvacuous :
  let q1 := mkKey [Some 65535] [Some 1] [] in
  let q2 := ex_key 65535 1 [255] in
  key_shape_ok ex_s1 true q1 = true /\ constraint_ok ex_s1 q1 = true /\ raw_lookup ex_st (enc_pkey ex_s1 7 q1) [0] = None
  /\ view_read view_incbytes_keeps_length true ex_st ex_s1 7 q1
     = (0, [mkRRow [65535] [1] [255; 254; 255] 17; mkRRow [65535] [1] [255; 255] 12; mkRRow [65535] [1] [255; 255; 9] 11])
  /\ key_shape_ok ex_s1 true q2 = true /\ ends_ff (k_v q2) = true
  /\ view_read view_incbytes_keeps_length true ex_st ex_s1 7 q2
     = (0, [mkRRow [65535] [1] [255; 254; 255] 17; mkRRow [65535] [1] [255; 255] 12; mkRRow [65535] [1] [255; 255; 9] 11])
  /\ view_read view_incbytes_keeps_length true ex_st ex_s1 7 (ex_key 65535 1 [255; 254])
     = (0, [mkRRow [65535] [1] [255; 254; 255] 17]).
Proof. vm_compute. auto 10. Qed.

(* round trip / isolation: the same key values in another view and another workspace hold other
   rows; the rejected write left nothing; the history theorem's right-hand side is not trivial *)
Example get_history_nonvacuous :
  let k := ex_key 65535 1 [255; 255] in
  view_get ex_st ex_s1 7 k = GVal 12 /\ view_get ex_st ex_s2 7 k = GVal 14 /\ view_get ex_st ex_s1 8 k = GNone
  /\ view_get ex_st ex_s1 7 (ex_key 65535 1 []) = GInvalid
  /\ last_write (s_view ex_s1) 7 k (flat_map writes_of ex_ops) = Some 12
  /\ full_key ex_s1 k.
Proof.
  vm_compute. repeat split; auto; try (repeat constructor; reflexivity); try discriminate.
Qed.

Example encoding_nonvacuous :
  let k := mkKey [Some 18446744073709551615; Some 1] [Some 0] [] in
  enc_pkey ex_s3 7 k = [1; 46; 0; 0; 0; 0; 0; 0; 0; 7; 255; 255; 255; 255; 255; 255; 255; 255; 1]
  /\ enc_ccols ex_s1 (ex_key 65535 128 [97]) = [128; 97]
  /\ dec_fields (s_cc ex_s1) [128; 97] = Some ([128], [97])
  /\ upper_bound true [1; 255] = Some [2; 0] /\ upper_bound false [1; 255] = Some [2]
  /\ upper_bound true [255; 255] = None /\ upper_bound false [255; 255] = None.
Proof. vm_compute. auto 10. Qed.

Print Assumptions ccols_roundtrip.
Print Assumptions ccols_injective.
Print Assumptions pkey_isolates.
Print Assumptions view_get_put.
Print Assumptions view_put_frame.
Print Assumptions view_get_history.
Print Assumptions reachable_typed.
Print Assumptions prefix_is_range.
Print Assumptions partial_read_exact_partial.
Print Assumptions partial_read_exact.
Print Assumptions partial_read_exact_any_bound.
Print Assumptions batch_get_is_pointwise.
Print Assumptions batch_get_accepts.
Print Assumptions partial_read_minlen_refuted.
Print Assumptions read_rows_once.
Print Assumptions partial_read_old_bound_refuted.
Print Assumptions partial_read_nullkey_refuted.
