(* C17 - a compiled application definition says exactly what the VSQL source says.
   Statements only; every proof is `exact <lemma>` into C17_Compile/Proofs.v.

   `compile_items a Ideal` is the reference compiler (the executable form of the spec),
   `Declares a it` the declarative relation "item it is declared by schema a, directly or by the
   documented inheritance / system rules", `compile a Go` the faithful model of pkg/parser + appdef
   builder as they are, `wf a` the language rules (what the property calls a well-formed schema). *)
From Coq Require Import List NArith ZArith Bool String.
From V Require Import Lib.Check Gen.Params C17_Compile.Model C17_Compile.Proofs.
Import ListNotations.
Local Open Scope N_scope.

(* Nothing undeclared appears: every compiled item - workspace, table, nested table, type, view,
   command, query, projector, role, rate, limit - is declared; its fields are the system fields of
   its kind, then the members inherited along the INHERITS chain, then its own ones (struct_item),
   with the declared kinds, flags, lengths, reference targets, key split, parameters and grants. *)
Theorem compile_ref_sound :
  forall a, wf a = true -> forall it, In it (compile_items a Ideal) -> Declares a it.
Proof. exact wf_compile_sound. Qed.

(* Nothing declared is dropped (workspace ancestors are compared as a set). *)
Theorem compile_ref_complete :
  forall a, wf a = true -> forall it, Declares a it ->
  exists it', In it' (compile_items a Ideal) /\ item_equiv it it'.
Proof. exact wf_compile_complete. Qed.

(* One item per name: nothing is compiled twice, and two declarations of one name are one item. *)
Theorem compile_ref_no_duplicates :
  forall a, wf a = true -> NoDup (map item_key (compile_items a Ideal)).
Proof. exact wf_keys_nodup. Qed.

Theorem declared_once :
  forall a, wf a = true -> forall i j, Declares a i -> Declares a j -> item_key i = item_key j -> item_equiv i j.
Proof. exact wf_declared_once. Qed.

(* Field order: system fields ++ inherited (ancestors first) ++ declared, each in declaration order;
   same for containers. *)
Theorem fields_system_inherited_declared :
  forall a m pn wq t k sg b ls, Chain a pn t b ls ->
  exists inherited,
    ls = inherited ++ [(pn, t_items t)] /\
    struct_item m pn wq t k sg ls =
    ItStruct (pn, t_name t) k wq (t_abstract t) sg
             (sys_fields k ++ flat_map fields_of inherited ++ fields_of (pn, t_items t))
             (flat_map conts_of inherited ++ conts_of (pn, t_items t)) (uniqs_chain m ls).
Proof. exact struct_field_order. Qed.

Theorem declared_fields_in_order :
  forall l, map fd_name (fields_of l) =
            flat_map (fun it => match it with TField f => [f_name f] | TRef n _ _ => [n] | _ => [] end) (snd l).
Proof. exact fields_of_names. Qed.

(* Side conditions on what the translator read off pkg/parser (Gen/Params.v): the three behaviours
   that were defects F23, F24, F25 are the spec's.  A regression flips a flag and re-opens these. *)
Lemma uniques_numbered_per_type : parser_uniques_numbered_per_type = true.
Proof. reflexivity. Qed.
Lemma nested_tables_inherit : parser_nested_tables_inherit = true.
Proof. reflexivity. Qed.
Lemma view_refs_recorded : parser_view_refs_recorded = true.
Proof. reflexivity. Qed.
(* the same for F26 (c4379c0dc), F27 (baaf1a89d), F28 (11fb61cf8), F29 (d76d5c0c4) *)
Lemma lookup_respects_package : parser_lookup_respects_package = true.
Proof. reflexivity. Qed.
Lemma inherits_in_own_package : parser_inherits_in_own_package = true.
Proof. reflexivity. Qed.
Lemma inherited_grants_once : parser_inherited_grants_once = true.
Proof. reflexivity. Qed.
Lemma descriptor_refs_analysed : parser_descriptor_refs_analysed = true.
Proof. reflexivity. Qed.
(* and for F30 (cebdf3962), F31 (c18ef77d3), F32 (5c4cab4d1) *)
Lemma inherited_nested_in_own_package : parser_inherited_nested_in_own_package = true.
Proof. reflexivity. Qed.
Lemma diamond_below_heir_accepted : parser_diamond_below_heir_accepted = true.
Proof. reflexivity. Qed.
Lemma grant_inherited_columns : parser_grant_inherited_columns = true.
Proof. reflexivity. Qed.
(* an operation granted without columns means the whole table whatever else the statement lists for it
   (d412e0d3e; `op_cols` of the model follows the flag) *)
Lemma grant_whole_table_wins : parser_grant_whole_table_wins = true.
Proof. reflexivity. Qed.
(* IWorkspace.Ancestors() enumerates the direct ancestors only (F33, 7b472983d) *)
Lemma ancestors_direct : parser_ancestors_direct = true.
Proof. reflexivity. Qed.

(* The faithful model of the Go compiler against the spec - the link theorem: for every well-formed
   schema the model compiles it and the oracle `satisfies` accepts the model's output (so the
   property holds on every input on which compiler and model agree).  No hypothesis beyond `wf a`:
   the eleven points at which compilers of this family have differed are read off the source, and the
   source does all eleven the spec's way (side conditions above; a regression flips a flag and breaks one). *)
Theorem go_model_meets_spec :
  forall a, wf a = true ->
  exists d, compile a Go = Some d /\ satisfies (Trace a (render a) (Compiled d true true true)) = true.
Proof.
  exact (go_meets_spec_plain_proved uniques_numbered_per_type nested_tables_inherit view_refs_recorded
                                    inherited_grants_once lookup_respects_package inherits_in_own_package descriptor_refs_analysed
                                    inherited_nested_in_own_package diamond_below_heir_accepted grant_inherited_columns ancestors_direct).
Qed.

(* the form the theorem had while the repairs of F26..F33 were missing: each hypothesis reads "the
   compiler does it the spec's way, or the schema stays clear of the shape" - the hypotheses the proof
   forced were the findings *)
Theorem go_model_meets_spec_within :
  forall a, wf a = true ->
  (parser_inherited_grants_once = true \/ no_inherited_acl a = true) ->       (* F28 *)
  (parser_lookup_respects_package = true \/ names_distinct a = true) ->       (* F26 *)
  (parser_inherits_in_own_package = true \/ inherits_qualified a = true) ->   (* F27 *)
  (parser_descriptor_refs_analysed = true \/ no_desc_ref_targets a = true) -> (* F29 *)
  (parser_inherited_nested_in_own_package = true \/ no_foreign_nested a = true) ->  (* F30 *)
  (parser_diamond_below_heir_accepted = true \/ no_diamond_below a = true) ->       (* F31 *)
  (parser_grant_inherited_columns = true \/ grant_cols_own a = true) ->             (* F32 *)
  (parser_ancestors_direct = true \/ no_indirect_anc a = true) ->                   (* F33 *)
  exists d, compile a Go = Some d /\ satisfies (Trace a (render a) (Compiled d true true (direct_anc_shown a Go))) = true.
Proof. exact (go_meets_spec_within_proved uniques_numbered_per_type nested_tables_inherit view_refs_recorded). Qed.

(* item for item: the model's output is the spec's output (a workspace's ACL is its declared block of
   rules, once) *)
Theorem go_model_item_for_item :
  forall a, Forall2 item_ok (compile_items a Ideal) (compile_items a Go).
Proof.
  exact (fun a => go_item_for_item_proved uniques_numbered_per_type nested_tables_inherit view_refs_recorded a
                   (or_introl inherited_grants_once) (or_introl descriptor_refs_analysed)).
Qed.

(* The same for any compiler of this family (mode m): at each of the eleven points it does what the
   spec does, or the schema avoids the shape on which they differ ... *)
Theorem any_mode_meets_spec_conditional :
  forall a m, wf a = true ->
  (m_uniq_per_type m = true \/ no_unique_collision a m = true) ->
  (m_nested_inherit m = true \/ no_nested_user_inherit a = true) ->
  (m_view_refs m = true \/ no_view_ref_targets a = true) ->
  (m_acl_repeat m = false \/ no_inherited_acl a = true) ->
  (m_res_pkg m = true \/ names_distinct a = true) ->
  (m_res_inh m = true \/ inherits_qualified a = true) ->
  (m_desc_refs m = true \/ no_desc_ref_targets a = true) ->
  (m_nested_pkg m = true \/ no_foreign_nested a = true) ->
  (m_diamond m = true \/ no_diamond_below a = true) ->
  (m_grant_inh m = true \/ grant_cols_own a = true) ->
  (m_direct_anc m = true \/ no_indirect_anc a = true) ->
  exists d, compile a m = Some d /\ satisfies (Trace a (render a) (Compiled d true true (direct_anc_shown a m))) = true.
Proof. exact satisfies_model_output_proved. Qed.

(* ... and the conditions are needed: the compiler as it was before the repairs of F23, F24, F25
   (mode GoBefore) fails the oracle on three well-formed schemas, each hitting exactly one shape
   (the corpus cases f23, f24, f25 of corpus/C17, now regression probes). *)
Definition a_f23 : schema := [(Pkg "app1"%string [[(Ws "Ws1"%string false [] None [(ITable (Table "Base"%string true (Some (QR "sys"%string "CDoc"%string)) [(TField (Fld "a"%string DInt32 false false None)); (TUnique None ["a"%string])])); (ITable (Table "Child"%string false (Some (QR "app1"%string "Base"%string)) [(TField (Fld "b"%string DInt32 false false None)); (TUnique None ["b"%string])]))])]])].
Definition a_f24 : schema := [(Pkg "app1"%string [[(Ws "Ws1"%string false [] None [(ITable (Table "ARec"%string true (Some (QR "sys"%string "CRecord"%string)) [(TField (Fld "ax"%string DInt32 true false None)); (TNested "axs"%string (Table "ARecSub"%string false None [(TField (Fld "zz"%string DInt32 false false None))]))])); (ITable (Table "Doc"%string false (Some (QR "sys"%string "CDoc"%string)) [(TField (Fld "own"%string DInt32 false false None)); (TNested "items"%string (Table "It"%string false (Some (QR "app1"%string "ARec"%string)) [(TField (Fld "q"%string DInt32 false false None))]))]))])]])].
Definition a_f25 : schema := [(Pkg "app1"%string [[(Ws "Ws1"%string false [] None [(ITable (Table "T"%string false (Some (QR "sys"%string "CDoc"%string)) [(TField (Fld "a"%string DInt32 false false None))])); (IProj (Proj "P"%string false false [(TrTab true false false false [(QR ""%string "T"%string)])] [(QR ""%string "V"%string)] false)); (IView (View "V"%string [(VField "k"%string DInt32 false); (VField "c"%string DInt64 false); (VRef "r"%string [(QR ""%string "T"%string)] true)] ["k"%string] ["c"%string] (QR ""%string "P"%string)))])]])].

Example before_repair_refuted_F23 :
  wf a_f23 = true /\ compile a_f23 GoBefore = None
  /\ no_unique_collision a_f23 GoBefore = false /\ no_nested_user_inherit a_f23 = true /\ no_view_ref_targets a_f23 = true.
Proof. vm_compute. repeat split. Qed.

Example before_repair_refuted_F24 :
  wf a_f24 = true
  /\ (exists d, compile a_f24 GoBefore = Some d /\ satisfies (Trace a_f24 (render a_f24) (Compiled d true true true)) = false)
  /\ no_unique_collision a_f24 GoBefore = true /\ no_nested_user_inherit a_f24 = false /\ no_view_ref_targets a_f24 = true.
Proof. split; [vm_compute; reflexivity|]. split; [eexists; split; vm_compute; reflexivity|]. vm_compute. repeat split. Qed.

Example before_repair_refuted_F25 :
  wf a_f25 = true
  /\ (exists d, compile a_f25 GoBefore = Some d /\ satisfies (Trace a_f25 (render a_f25) (Compiled d true true true)) = false)
  /\ no_unique_collision a_f25 GoBefore = true /\ no_nested_user_inherit a_f25 = true /\ no_view_ref_targets a_f25 = false.
Proof. split; [vm_compute; reflexivity|]. split; [eexists; split; vm_compute; reflexivity|]. vm_compute. repeat split. Qed.

(* ... the same for F26..F29 (repaired since): each variant below is the spec's compiler with ONE point
   switched to the old behaviour; each probe is well-formed and hits exactly that shape (corpus/C17/f26..f29).
   F28 and F29 compile to something the oracle refuses (a rule three times; reference targets lost);
   for F26 and F27 the old name resolution is not modelled - `compile` yields None there and `agrees`
   abstains - the real compiler miscompiled the first (liba.Foo with app1.Foo's fields) and refused
   the second and third (`undefined table kind`, `undefined workspace`). *)
Definition a_f26 : schema := [(Pkg "app1"%string [[(Ws "W"%string false [(QR "liba"%string "Base"%string)] None [(ITable (Table "Foo"%string false (Some (QR "sys"%string "CDoc"%string)) [(TField (Fld "mainfield"%string DInt32 false false None))])); (ITable (Table "T"%string false (Some (QR "sys"%string "CDoc"%string)) [(TRef "r"%string [(QR "liba"%string "Foo"%string)] false)]))])]]); (Pkg "liba"%string [[(Ws "Base"%string true [] None [(ITable (Table "Foo"%string false (Some (QR "sys"%string "CDoc"%string)) [(TField (Fld "libfield"%string DInt32 false false None))]))])]])].
Definition a_f27t : schema := [(Pkg "app1"%string [[(Ws "W"%string false [(QR "liba"%string "Base"%string)] None [(ITable (Table "T"%string false (Some (QR "liba"%string "Mid"%string)) [(TField (Fld "c"%string DInt32 false false None))]))])]]); (Pkg "liba"%string [[(Ws "Base"%string true [] None [(ITable (Table "Root"%string true (Some (QR "sys"%string "CDoc"%string)) [(TField (Fld "a"%string DInt32 false false None))])); (ITable (Table "Mid"%string true (Some (QR ""%string "Root"%string)) [(TField (Fld "b"%string DInt32 false false None))]))])]])].
Definition a_f27w : schema := [(Pkg "app1"%string [[(Ws "W"%string false [(QR "liba"%string "Mid"%string)] None [])]]); (Pkg "liba"%string [[(Ws "Root"%string true [] None [(IRole "r"%string false)]); (Ws "Mid"%string true [(QR ""%string "Root"%string)] None [])]])].
Definition a_f28 : schema := [(Pkg "app1"%string [[(Ws "BaseWs"%string true [] None [(IRole "role1"%string false); (ITable (Table "Table1"%string false (Some (QR "sys"%string "CDoc"%string)) [(TField (Fld "a"%string DInt32 false false None))])); (IGrant (Grant false (GTable (QR ""%string "Table1"%string) [(OInsert, [])]) (QR ""%string "role1"%string)))]); (Ws "W1"%string false [(QR "app1"%string "BaseWs"%string)] None []); (Ws "W2"%string false [(QR "app1"%string "BaseWs"%string)] None [])]])].
Definition a_f29 : schema := [(Pkg "app1"%string [[(Ws "W"%string false [] (Some [(DRef "x"%string [(QR ""%string "Foo"%string)] true); (DField (Fld "d"%string DInt32 false false None)); (DRef "y"%string [(QR "app1"%string "Foo"%string)] false); (DRef "w"%string [] false)]) [(ITable (Table "Foo"%string false (Some (QR "sys"%string "CDoc"%string)) [(TField (Fld "a"%string DInt32 false false None))]))])]])].
Definition a_f29bad : schema := [(Pkg "app1"%string [[(Ws "W"%string false [] (Some [(DRef "x"%string [(QR ""%string "NoSuch"%string)] true)]) [])]])].

Example shapes_of_the_probes :
  (wf a_f26 = true /\ names_distinct a_f26 = false /\ inherits_qualified a_f26 = true /\ no_inherited_acl a_f26 = true /\ no_desc_ref_targets a_f26 = true)
  /\ (wf a_f27t = true /\ names_distinct a_f27t = true /\ inherits_qualified a_f27t = false /\ no_inherited_acl a_f27t = true /\ no_desc_ref_targets a_f27t = true)
  /\ (wf a_f27w = true /\ names_distinct a_f27w = true /\ inherits_qualified a_f27w = false /\ no_inherited_acl a_f27w = true /\ no_desc_ref_targets a_f27w = true)
  /\ (wf a_f28 = true /\ names_distinct a_f28 = true /\ inherits_qualified a_f28 = true /\ no_inherited_acl a_f28 = false /\ no_desc_ref_targets a_f28 = true)
  /\ (wf a_f29 = true /\ names_distinct a_f29 = true /\ inherits_qualified a_f29 = true /\ no_inherited_acl a_f29 = true /\ no_desc_ref_targets a_f29 = false)
  /\ wf a_f29bad = false.
Proof. vm_compute. repeat split. Qed.

Example old_name_lookup_not_the_spec_F26 : compile a_f26 (Mode true true true false false true true true true true true) = None.
Proof. vm_compute. reflexivity. Qed.
Example old_inherits_resolution_not_the_spec_F27 :
  compile a_f27t (Mode true true true false true false true true true true true) = None /\ compile a_f27w (Mode true true true false true false true true true true true) = None.
Proof. vm_compute. split; reflexivity. Qed.
Example repeated_acl_refuted_F28 :
  exists d, compile a_f28 (Mode true true true true true true true true true true true) = Some d
            /\ satisfies (Trace a_f28 (render a_f28) (Compiled d true true true)) = false.
Proof. eexists; split; vm_compute; reflexivity. Qed.
Example lost_descriptor_refs_refuted_F29 :
  exists d, compile a_f29 (Mode true true true false true true false true true true true) = Some d
            /\ satisfies (Trace a_f29 (render a_f29) (Compiled d true true true)) = false.
Proof. eexists; split; vm_compute; reflexivity. Qed.
(* F30, F31, F32 (repaired since): three more probes, each well-formed and hitting exactly one shape; the one-flag-off
   variants do not model what the code does there (it adds a phantom nested table / refuses the
   schema): `compile` = None, `agrees` abstains, the oracle judges the observed definition. *)
Definition a_f30 : schema := [(Pkg "app1"%string [[(Ws "W"%string false [(QR "liba"%string "Base"%string)] None [(ITable (Table "T"%string false (Some (QR "liba"%string "A"%string)) [(TField (Fld "c"%string DInt32 false false None))]))])]]); (Pkg "liba"%string [[(Ws "Base"%string true [] None [(ITable (Table "A"%string true (Some (QR "sys"%string "CDoc"%string)) [(TField (Fld "a"%string DInt32 false false None)); (TNested "items"%string (Table "N"%string false None [(TField (Fld "x"%string DInt32 false false None))]))])); (ITable (Table "U"%string false (Some (QR "liba"%string "A"%string)) [(TField (Fld "u"%string DInt32 false false None))]))])]])].
Definition a_f31 : schema := [(Pkg "app1"%string [[(Ws "Z"%string true [] None [(IRole "r"%string false)]); (Ws "A"%string true [(QR "app1"%string "Z"%string)] None []); (Ws "B"%string true [(QR "app1"%string "A"%string)] None []); (Ws "C"%string true [(QR "app1"%string "B"%string); (QR "app1"%string "A"%string)] None []); (Ws "W"%string false [(QR "app1"%string "C"%string)] None [])]])].
Definition a_f32 : schema := [(Pkg "app1"%string [[(Ws "W"%string false [] None [(IRole "r"%string false); (ITable (Table "A"%string true (Some (QR "sys"%string "CDoc"%string)) [(TField (Fld "a"%string DInt32 false false None))])); (ITable (Table "T"%string false (Some (QR "app1"%string "A"%string)) [(TField (Fld "c"%string DInt32 false false None))])); (IGrant (Grant false (GTable (QR ""%string "T"%string) [(OSelect, ["a"%string; "c"%string])]) (QR ""%string "r"%string))); (IGrant (Grant false (GTableAll (QR ""%string "T"%string) ["a"%string]) (QR ""%string "r"%string)))])]])].
Example shapes_of_the_probes_F30_F31_F32 :
  (wf a_f30 = true /\ no_foreign_nested a_f30 = false /\ no_diamond_below a_f30 = true /\ grant_cols_own a_f30 = true)
  /\ (wf a_f31 = true /\ no_foreign_nested a_f31 = true /\ no_diamond_below a_f31 = false /\ grant_cols_own a_f31 = true)
  /\ (wf a_f32 = true /\ no_foreign_nested a_f32 = true /\ no_diamond_below a_f32 = true /\ grant_cols_own a_f32 = false)
  /\ compile a_f30 (Mode true true true false true true true false true true true) = None
  /\ compile a_f31 (Mode true true true false true true true true false true true) = None
  /\ compile a_f32 (Mode true true true false true true true true true false true) = None
  /\ forallb (fun a => match compile a Go with
                       | Some d => satisfies (Trace a (render a) (Compiled d true true true))
                       | None => false end) [a_f30; a_f31; a_f32] = true
  /\ match find (fun i => qname_eqb (item_key i) ("app1", "T")%string) (compile_items a_f30 Ideal) with
     | Some (ItStruct _ _ _ _ _ _ cs _) => map cd_type cs = [("liba", "N")%string]
     | _ => False end.
Proof. vm_compute. repeat split. Qed.

(* F33 (repaired since, 7b472983d): W INHERITS A, A INHERITS Base.  The model's workspace item carries all ancestors; that
   Ancestors() of the compiled W is [A] and not [A; Base] is the separate observation `direct_anc`:
   a compiler that does not keep them apart shows `false` and the oracle refuses the trace. *)
Definition a_f33 : schema := [(Pkg "app1"%string [[(Ws "Base"%string true [] None []); (Ws "A"%string true [(QR "app1"%string "Base"%string)] None []); (Ws "W"%string false [(QR "app1"%string "A"%string)] None [])]])].
Example indirect_ancestors_shown_as_direct_refuted_F33 :
  wf a_f33 = true /\ no_indirect_anc a_f33 = false
  /\ direct_anc_shown a_f33 (Mode true true true false true true true true true true false) = false
  /\ (exists d, compile a_f33 Ideal = Some d
                /\ satisfies (Trace a_f33 (render a_f33) (Compiled d true true false)) = false
                /\ satisfies (Trace a_f33 (render a_f33) (Compiled d true true true)) = true).
Proof. split; [vm_compute; reflexivity|]. split; [vm_compute; reflexivity|]. split; [vm_compute; reflexivity|]. eexists; repeat split; vm_compute; reflexivity. Qed.

(* and the compiler as it is passes on all of them *)
Example repaired_compiler_on_the_probes :
  forallb (fun a => match compile a Go with
                    | Some d => satisfies (Trace a (render a) (Compiled d true true true))
                    | None => false end) [a_f26; a_f27t; a_f27w; a_f28; a_f29] = true.
Proof. vm_compute. reflexivity. Qed.

(* the three probes are accepted by the oracle for the compiler as it is *)
Example repaired_probes :
  (exists d, compile a_f23 Go = Some d /\ satisfies (Trace a_f23 (render a_f23) (Compiled d true true true)) = true)
  /\ (exists d, compile a_f24 Go = Some d /\ satisfies (Trace a_f24 (render a_f24) (Compiled d true true true)) = true)
  /\ (exists d, compile a_f25 Go = Some d /\ satisfies (Trace a_f25 (render a_f25) (Compiled d true true true)) = true).
Proof. repeat split; eexists; split; vm_compute; reflexivity. Qed.

(* non-vacuity: a two-package application (workspace and table inheritance across packages, a nested
   table with seven fields, references, uniques, grants in the inherited workspace) is well-formed,
   compiles to 11 items; the nested table's compiled fields are the
   five system fields of a CRecord followed by the seven declared ones in order *)
Definition ex : schema := [(Pkg "app1"%string [[(Ws "W1"%string false [(QR "liba"%string "AW"%string)] (Some [(DField (Fld "d"%string (DVarchar (Some 10%N)) false false None))]) [(ITable (Table "T2"%string false (Some (QR "liba"%string "Base"%string)) [(TField (Fld "g"%string (DVarchar (Some 65535%N)) true false None)); (TRef "r"%string [(QR "liba"%string "T1"%string); (QR ""%string "T2"%string)] false); (TNested "rows"%string (Table "T2Row"%string false (Some (QR "sys"%string "CRecord"%string)) [(TField (Fld "f1"%string DInt8 false false None)); (TField (Fld "f2"%string DInt16 false false None)); (TField (Fld "f3"%string DFloat32 false false None)); (TField (Fld "f4"%string DFloat64 false false None)); (TField (Fld "f5"%string DTimestamp false false None)); (TField (Fld "f6"%string DCurrency false false None)); (TField (Fld "f7"%string DBlob true false None)); (TUnique None ["f1"%string; "f2"%string])]))])); (IRole "R2"%string false); (IGrant (Grant false (GTable (QR ""%string "T2"%string) [(OSelect, ["g"%string]); (OUpdate, [])]) (QR ""%string "R2"%string))); (IGrant (Grant false (GRole (QR "liba"%string "R1"%string)) (QR ""%string "R2"%string)))])]; [(Ws "W2"%string false [] None [(IUse "W1"%string)])]]); (Pkg "liba"%string [[(Ws "AW"%string true [] None [(IRole "R1"%string true); (ITable (Table "Base"%string true (Some (QR "sys"%string "CDoc"%string)) [(TField (Fld "bx"%string DInt64 true false None)); (TUnique (Some "ub"%string) ["bx"%string])])); (ITable (Table "T1"%string false (Some (QR "liba"%string "Base"%string)) [(TField (Fld "h"%string DQName false false None))])); (IGrant (Grant false (GTableAll (QR ""%string "T1"%string) []) (QR ""%string "R1"%string))); (IGrant (Grant true (GTable (QR ""%string "T1"%string) [(OUpdate, ["h"%string])]) (QR ""%string "R1"%string)))])]])].

Example ex_nonvacuous :
  wf ex = true
  /\ List.length (compile_items ex Ideal) = 11%nat
  /\ (exists d, compile ex Go = Some d /\ satisfies (Trace ex (render ex) (Compiled d true true true)) = true)
  /\ match find (fun i => qname_eqb (item_key i) ("app1", "T2Row")%string) (compile_items ex Ideal) with
     | Some (ItStruct _ k _ _ _ fs _ us) =>
       k = KCRecord /\ map fd_name fs = ["sys.QName"; "sys.ID"; "sys.ParentID"; "sys.Container"; "sys.IsActive";
                                         "f1"; "f2"; "f3"; "f4"; "f5"; "f6"; "f7"]%string
       /\ map ud_name us = ["01"%string]
     | _ => False
     end
  /\ match find (fun i => qname_eqb (item_key i) ("app1", "T2")%string) (compile_items ex Ideal) with
     | Some (ItStruct _ k _ _ _ fs cs _) =>
       k = KCDoc /\ map fd_name fs = ["sys.QName"; "sys.ID"; "sys.IsActive"; "bx"; "g"; "r"]%string /\ List.length cs = 1%nat
     | _ => False
     end.
Proof.
  split; [vm_compute; reflexivity|]. split; [vm_compute; reflexivity|].
  split; [eexists; split; vm_compute; reflexivity|].
  split; vm_compute; repeat split.
Qed.

(* the declarative relation is inhabited on the same example *)
Example ex_declares_role : Declares ex (ItRole ("app1", "R2")%string ("app1", "W1")%string false).
Proof.
  pose (p := hd (Pkg ""%string []) ex). pose (w := hd (Ws ""%string false [] None []) (p_wss p)).
  apply (D_role ex p w "R2"%string false).
  - split; vm_compute; auto.
  - vm_compute. tauto.
Qed.

Print Assumptions compile_ref_sound.
Print Assumptions compile_ref_complete.
Print Assumptions compile_ref_no_duplicates.
Print Assumptions declared_once.
Print Assumptions fields_system_inherited_declared.
Print Assumptions declared_fields_in_order.
Print Assumptions go_model_meets_spec.
Print Assumptions go_model_meets_spec_within.
Print Assumptions go_model_item_for_item.
Print Assumptions any_mode_meets_spec_conditional.
Print Assumptions before_repair_refuted_F23.
Print Assumptions before_repair_refuted_F24.
Print Assumptions before_repair_refuted_F25.
Print Assumptions repaired_probes.
Print Assumptions shapes_of_the_probes.
Print Assumptions old_name_lookup_not_the_spec_F26.
Print Assumptions old_inherits_resolution_not_the_spec_F27.
Print Assumptions repeated_acl_refuted_F28.
Print Assumptions lost_descriptor_refs_refuted_F29.
Print Assumptions shapes_of_the_probes_F30_F31_F32.
Print Assumptions indirect_ancestors_shown_as_direct_refuted_F33.
Print Assumptions repaired_compiler_on_the_probes.
Print Assumptions ex_nonvacuous.
Print Assumptions ex_declares_role.
