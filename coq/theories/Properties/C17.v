(* C17 - placeholder while the pipeline is brought up *)
From Coq Require Import List.
From V Require Import C17_Compile.Model C17_Compile.Proofs.
Theorem c17_placeholder : True.
Proof. exact I. Qed.
Print Assumptions c17_placeholder.
