(* C14 - only genuine, unexpired tokens of the right application and payload type are accepted.
   Statements only; every proof is `exact <lemma>` into C14_Tokens/Proofs.v.
   validate_tok = itokensjwt.JWTSigner.ValidateToken, validate_app = itokens-payloads
   implIAppTokens.ValidateToken (also the first step of IAuthenticator.Authenticate), on the
   abstract view of the token string (C14_Tokens/Model.v). *)
From Coq Require Import List NArith ZArith Bool Lia.
From V Require Import Lib.Lex Lib.Check Gen.Params C14_Tokens.Model C14_Tokens.Proofs.
Import ListNotations.
Local Open Scope Z_scope.

(* ---- side conditions on what the translator took from the Go source ---- *)
(* IssueToken writes the claims under the names ValidateToken, buildGenericPayload and jwt/v5 read *)
Lemma issue_writes_what_validate_reads : keys_consistent.
Proof. intros aud app d t0 txt pl. cbv zeta. repeat split; reflexivity. Qed.
Lemma keyfunc_refuses_non_hmac_methods : jwt_keyfunc_requires_hmac = true.
Proof. reflexivity. Qed.
Lemma audience_is_compared : jwt_audience_compared = true.
Proof. reflexivity. Qed.
Lemma app_binding_is_checked : jwt_app_bound = true.
Proof. reflexivity. Qed.
Lemma signer_copies_secret : jwt_signer_copies_secret = true.
Proof. reflexivity. Qed.
Lemma secrets_have_a_minimum_length : (1 <= jwt_secret_min_len)%N.
Proof. vm_compute. discriminate. Qed.
Lemma parser_has_clock_and_json_number_only : jwt_parser_plain = true.
Proof. reflexivity. Qed.

(* ---- 1. "validating any string either fails with an error or succeeds" ----
   Full statement:   forall key aud now v, validate_tok key aud now v <> Panic.
   It holds exactly when both type assertions on the claims (aud, Duration) are checked ones.
   Before the repair of F13 they were bare and the statement was refuted by a token whose claims
   are `{}`; the conditional refutation and the partial statement are kept. *)
Theorem validate_total_iff_assertions_checked :
  (forall key aud now v, validate_tok key aud now v <> Panic) <-> jwt_aud_assert_checked && jwt_dur_assert_checked = true.
Proof. exact (no_panic_iff_checked jwt_aud_assert_checked jwt_dur_assert_checked jwt_sig_canon_checked). Qed.

Theorem validate_total_refuted :
  jwt_aud_assert_checked && jwt_dur_assert_checked = false ->
  exists key aud now v, validate_tok key aud now v = Panic /\ sig_verifies key v = false.
Proof.
  intros E. exists []%N, []%N, 0, bare_view. split; [|reflexivity].
  exact (bare_view_panics jwt_aud_assert_checked jwt_dur_assert_checked jwt_sig_canon_checked [] [] 0 E).
Qed.

Theorem validate_total_partial : forall key aud now v,
  (forall c, reaches_claims v = Some c -> str_claim jwt_k_aud_validate c = true /\ num_claim jwt_k_dur_validate c = true) ->
  validate_tok key aud now v <> Panic /\ forall app, validate_app key aud app now v <> Panic.
Proof.
  intros key aud now v H. pose proof (no_panic_typed jwt_aud_assert_checked jwt_dur_assert_checked jwt_sig_canon_checked key aud now v H) as P.
  split; [exact P|]. intros app E. apply app_panic_iff in E. exact (P E).
Qed.

(* exactly which inputs panic *)
Theorem validate_panics_iff : forall key aud now v,
  validate_tok key aud now v = Panic <->
  exists c, reaches_claims v = Some c /\ asserted_ok jwt_aud_assert_checked jwt_dur_assert_checked c = false.
Proof. exact (panic_iff jwt_aud_assert_checked jwt_dur_assert_checked jwt_sig_canon_checked). Qed.

(* whichever way the flags are in the current source: the statement, or its refutation *)
Theorem validate_total_status :
  if jwt_aud_assert_checked && jwt_dur_assert_checked
  then forall key aud now v, validate_tok key aud now v <> Panic
  else exists key aud now v, validate_tok key aud now v = Panic /\ sig_verifies key v = false.
Proof.
  destruct (jwt_aud_assert_checked && jwt_dur_assert_checked) eqn:E.
  - apply validate_total_iff_assertions_checked. exact E.
  - apply validate_total_refuted. exact E.
Qed.

(* ---- 2. "it succeeds only if ..." for every view, every clock, every expected type, every key ----
   key is the HMAC key of the validating signer: hmac_key H B applied to the WHOLE secret it was
   constructed with (H, B: hash and block size of the token's method).  Which secrets are the same
   key is section 2b. *)
Theorem accept_sound : forall key aud now v g p,
  validate_tok key aud now v = Ok g p ->
  accepted jwt_aud_assert_checked jwt_dur_assert_checked jwt_sig_canon_checked key aud now v g p.
Proof. exact (accept_sound_g jwt_aud_assert_checked jwt_dur_assert_checked jwt_sig_canon_checked). Qed.

Theorem accept_app_sound : forall key aud app now v g p,
  validate_app key aud app now v = Ok g p -> validate_tok key aud now v = Ok g p /\ gp_app g = app.
Proof. exact (accept_app_sound_g jwt_aud_assert_checked jwt_dur_assert_checked jwt_sig_canon_checked). Qed.

(* truncated, bit-flipped in header or claims, unsigned, alg none, not three segments: whatever
   carries no MAC made under the validator's secret is never accepted *)
Theorem unsigned_rejected : forall key aud now v,
  sig_verifies key v = false -> forall g p, validate_tok key aud now v <> Ok g p.
Proof. exact (unsigned_rejected_g jwt_aud_assert_checked jwt_dur_assert_checked jwt_sig_canon_checked). Qed.

(* re-signed or issued under a different HMAC key: never accepted.  The keys are computed from the
   whole secrets, so secrets of any length that differ anywhere (a prefix, an extension, one byte
   beyond the 64-byte minimum) are different keys - except for the pairs HMAC itself identifies,
   see 2b. *)
Theorem other_secret_rejected : forall key aud now t k,
  tk_mac_key t = Some k -> k <> key -> forall g p, validate_tok key aud now (VTok t) <> Ok g p.
Proof. exact (other_secret_rejected_g jwt_aud_assert_checked jwt_dur_assert_checked jwt_sig_canon_checked). Qed.

(* ---- 2b. "a signer with the same secret": which secrets are the same HMAC key ----
   Full statement wanted:  hmac_key H B k = hmac_key H B k' -> k = k'  (only the same secret verifies).
   It is FALSE for HMAC (refutation: hmac_equivalent_secrets_exist - for every secret whose length is
   not the block size its key block, used as a secret, is a different secret with the same key: a
   100-byte secret K and the 64-byte secret SHA-256(K) ++ 32 zero bytes accept each other's HS256
   tokens; also trailing_zeros_do_not_count).  NewJWTSigner admits every length >= 64, so such pairs
   are admissible configurations; this is a property of HMAC (RFC 2104), not of the code under test,
   and whoever holds one secret of such a pair can compute the other's key.  What holds (partial):
   a secret of exactly the block size is its own key; secrets of one length up to the block size are
   different keys; secrets longer than the block are different keys unless the hash collides. *)
Theorem hmac_equivalent_secrets_exist : forall H B k,
  (B < length k -> length (H k) <= B)%nat -> length k <> B ->
  exists k', k' <> k /\ hmac_key H B k' = hmac_key H B k.
Proof. exact secrets_not_injective. Qed.

Theorem trailing_zeros_do_not_count : forall H B k n,
  (length k + n <= B)%nat -> hmac_key H B (k ++ repeat 0%N n) = hmac_key H B k.
Proof. exact hmac_key_zero_ext. Qed.

Theorem secret_of_block_length_is_its_key : forall H B k, length k = B -> hmac_key H B k = k.
Proof. exact hmac_key_block. Qed.

Theorem equal_length_short_secrets_are_different_keys : forall H B k k',
  length k = length k' -> (length k <= B)%nat -> hmac_key H B k = hmac_key H B k' -> k = k'.
Proof. exact hmac_key_short_inj. Qed.

Theorem long_secrets_are_different_keys_unless_the_hash_collides : forall H B k k',
  (B < length k)%nat -> (B < length k')%nat -> length (H k) = length (H k') ->
  hmac_key H B k = hmac_key H B k' -> H k = H k'.
Proof. exact hmac_key_long_inj. Qed.

(* "the string is exactly a token issued ...": header and claims segments are covered by the MAC;
   the signature segment is not, and base64 has several spellings of the same bytes (unused low
   bits of the last character, CR/LF anywhere).  Full statement: an accepted token's signature
   segment is the canonical spelling.  It holds iff ValidateToken compares the segment with its
   re-encoding (jwt_sig_canon_checked; finding C14-SIGENC before that comparison was added). *)
Theorem accepted_spelling_status :
  if jwt_sig_canon_checked
  then forall key aud now t g p, validate_tok key aud now (VTok t) = Ok g p -> tk_sig_canon t = true
  else exists key aud now t g p, validate_tok key aud now (VTok t) = Ok g p /\ tk_sig_canon t = false.
Proof.
  unfold validate_tok. destruct jwt_sig_canon_checked.
  - exact (accepted_canonical jwt_aud_assert_checked jwt_dur_assert_checked).
  - eexists _, _, _, _, _, _. split; [exact (respelled_accepted jwt_aud_assert_checked jwt_dur_assert_checked) | reflexivity].
Qed.

(* ---- 3. issued tokens: all payloads, durations, clock positions and secrets ----
   k: secret of the issuing signer, key: secret of the validating signer (arbitrary byte strings) *)
Theorem issued_accept_iff : forall k key aud app d t0 txt pl dg aud' app' now g p,
  count_byte 47%N app = 1%nat ->        (* application name owner/name *)
  get k_nbf pl = None ->                (* no payload field named nbf (none of the payload types has one) *)
  (validate_app key aud' app' now (issued_view k aud app d t0 txt pl (Some dg)) = Ok g p
   <-> key = k /\ aud' = aud /\ app' = app /\ now < expiry t0 d /\ g = mkGp app d (Some t0) /\ p = dg).
Proof. exact (issued_accept_iff_g jwt_aud_assert_checked jwt_dur_assert_checked jwt_sig_canon_checked issue_writes_what_validate_reads). Qed.

Theorem issued_other_secret : forall k key aud app d t0 txt pl dg aud' now,
  count_byte 47%N app = 1%nat -> get k_nbf pl = None -> key <> k ->
  validate_tok key aud' now (issued_view k aud app d t0 txt pl dg) = Err ESignature.
Proof. exact (issued_other_secret_g jwt_aud_assert_checked jwt_dur_assert_checked jwt_sig_canon_checked issue_writes_what_validate_reads). Qed.

Theorem issued_within_lifetime : forall k key aud app d t0 txt pl dg aud' app' now g p,
  count_byte 47%N app = 1%nat -> get k_nbf pl = None ->
  validate_app key aud' app' now (issued_view k aud app d t0 txt pl (Some dg)) = Ok g p -> now < t0 + d.
Proof. exact (issued_within_lifetime_g jwt_aud_assert_checked jwt_dur_assert_checked jwt_sig_canon_checked issue_writes_what_validate_reads). Qed.

Theorem expiry_is_lifetime_end_rounded_down : forall t0 d, t0 + d - ns_per_s < expiry t0 d <= t0 + d.
Proof. intros t0 d. split; [exact (expiry_gt t0 d) | exact (expiry_le t0 d)]. Qed.

(* ---- 3b. "the decoded payload equals the issued one": integer payload fields ----
   issued_accept_iff returns the payload that is IN the token; IssueToken must have put the issued
   one there.  Full statement:   forall z, issue_number jwt_issue_uses_number z = z
   (every integer field reaches the claims unchanged).  It holds iff the marshalled payload is
   decoded into the claims map with json.Number; otherwise integers pass through float64, the
   statement is refuted at 2^53+1 (finding C14-INT53) and holds up to 2^53 in magnitude. *)
Theorem issued_integers_exact_iff_json_number :
  (forall z, issue_number jwt_issue_uses_number z = z) <-> jwt_issue_uses_number = true.
Proof. exact (issue_number_exact_iff jwt_issue_uses_number). Qed.

Theorem issued_integers_refuted :
  jwt_issue_uses_number = false -> exists z, issue_number jwt_issue_uses_number z <> z.
Proof. intros E. rewrite E. exists (two53 + 1). vm_compute. discriminate. Qed.

Theorem issued_integers_partial : forall z, Z.abs z <= two53 -> issue_number jwt_issue_uses_number z = z.
Proof. exact (issue_number_small jwt_issue_uses_number). Qed.

Theorem issued_integers_status :
  if jwt_issue_uses_number then forall z, issue_number jwt_issue_uses_number z = z
  else exists z, issue_number jwt_issue_uses_number z <> z.
Proof.
  destruct jwt_issue_uses_number eqn:E.
  - intros z. reflexivity.
  - exists (two53 + 1). vm_compute. discriminate.
Qed.

(* ---- 3c. "a signer with the same secret": the secret is the byte string the signer was constructed
   with.  Full statement: forall t, working_key t = t_key t (what the caller does to its buffer
   afterwards does not matter).  It holds iff NewJWTSigner copies the secret (it does since the repair of
   C14-ALIAS: side condition signer_copies_secret); if it kept the caller's slice, a caller that wipes
   its buffer would turn the signer's secret into zeros, under which anybody can sign; the partial
   statement is for callers that leave the buffer alone. *)
Theorem signer_secret_fixed_iff_copied :
  (forall t, working_key t = t_key t) <-> jwt_signer_copies_secret = true.
Proof. exact (working_key_iff jwt_signer_copies_secret). Qed.

Theorem signer_secret_status :
  if jwt_signer_copies_secret then forall t, working_key t = t_key t
  else exists t, working_key t <> t_key t.
Proof.
  unfold working_key. destruct jwt_signer_copies_secret.
  - intros t. reflexivity.
  - exists (mkTrace [1]%N [0]%N false 0 [] [] VNoSplit ORaw OPanic OPanic None). discriminate.
Qed.

Theorem signer_secret_partial : forall t, t_key_buf t = t_key t -> working_key t = t_key t.
Proof. intros t H. unfold working_key, working_key_g. destruct jwt_signer_copies_secret; [reflexivity|exact H]. Qed.

(* ---- 4. the trace oracle follows from the model wherever code and model agree ---- *)
Theorem oracle_follows_from_model : forall t,
  origin_consistent t -> t_aud t <> []%N ->
  validate_tok (t_key t) (t_aud t) (t_now t) (t_view t) <> Panic ->
  agrees (TVal t) = true -> satisfies (TVal t) = true.
Proof.
  intros t OC Ha NP A.
  exact (agrees_satisfies issue_writes_what_validate_reads t OC Ha (proj2 signer_secret_fixed_iff_copied signer_copies_secret t) NP A).
Qed.

Theorem key_oracle_follows_from_model : forall t, agrees (TKeys t) = true -> satisfies (TKeys t) = true.
Proof. exact agrees_satisfies_k. Qed.

(* ---- non-vacuity ---- *)
Definition ex_aud : bytes := [112;97;121;108;111;97;100;115;46;80]%N.   (* "payloads.P" *)
Definition ex_app : bytes := [116;47;97]%N.                              (* "t/a" *)
Definition ex_pl : claims := [([76;111;103;105;110]%N, JStr [117]%N); ([82;111;108;101;115]%N, JArr)].
Definition ex_t0 : Z := 1767225600999999999.
Definition ex_d : Z := 1500000001.
(* secrets longer than the 64-byte minimum that share their first 64 bytes *)
Definition ex_prefix : bytes := repeat 7%N 64.
(* stands in for SHA-256 in the examples (3 bytes: sum of the bytes, length) *)
Definition toy_hash (k : bytes) : bytes :=
  let s := fold_left N.add k 0%N in [s mod 256; (s / 256) mod 256; N.of_nat (length k) mod 256]%N.
Definition blk : bytes -> bytes := hmac_key toy_hash 64.
Definition ex_secret : bytes := ex_prefix ++ repeat 9%N 35 ++ [1]%N.              (* 100 bytes *)
Definition ex_secret_last : bytes := ex_prefix ++ repeat 9%N 35 ++ [2]%N.         (* other last byte *)
Definition ex_secret_65 : bytes := ex_prefix ++ [8]%N ++ repeat 9%N 34 ++ [1]%N.  (* other byte 65 *)
Definition ex_secret_ext : bytes := ex_secret ++ [5]%N.                           (* an extension *)
Definition ex_secret_equiv : bytes := blk ex_secret.   (* 64 bytes: hash of ex_secret and zeros - another secret, the same key *)
Definition ex_key : bytes := blk ex_secret.
Definition ex_key_last : bytes := blk ex_secret_last.
Definition ex_key_65 : bytes := blk ex_secret_65.
Definition ex_key_ext : bytes := blk ex_secret_ext.
Definition ex_view (k : bytes) : view := issued_view k ex_aud ex_app ex_d ex_t0 [50;48;50;54]%N ex_pl (Some 77%N).

(* an issued token: accepted one nanosecond before the expiry instant (which lies 0.5 s before the
   end of the lifetime), expired at it; refused for another type, application *)
Example issued_nonvacuous :
  expiry ex_t0 ex_d = 1767225602000000000
  /\ validate_app ex_key ex_aud ex_app 1767225601999999999 (ex_view ex_key) = Ok (mkGp ex_app ex_d (Some ex_t0)) 77
  /\ validate_app ex_key ex_aud ex_app 1767225602000000000 (ex_view ex_key) = Err EExpired
  /\ validate_app ex_key [120]%N ex_app ex_t0 (ex_view ex_key) = Err EAudience
  /\ validate_app ex_key ex_aud [116;47;98]%N ex_t0 (ex_view ex_key) = Err EOtherApp
  /\ validate_tok ex_key ex_aud ex_t0 (ex_view ex_key) = Ok (mkGp ex_app ex_d (Some ex_t0)) 77.
Proof. vm_compute. repeat split. Qed.

(* two secrets of 100 bytes sharing their first 64 bytes are different keys: the token of one is
   refused by the other; so is it by the common 64-byte prefix used as a secret (its own key), by an
   extension, and by a secret that differs in byte 65 only.  All of them construct a signer.
   The 64-byte secret ex_secret_equiv is a different secret with the same key: accepted. *)
Example other_secret_nonvacuous :
  firstn 64 ex_secret = firstn 64 ex_secret_last /\ firstn 64 ex_secret = ex_prefix /\ ex_secret <> ex_secret_last
  /\ forallb signer_constructible [ex_secret; ex_secret_last; ex_secret_65; ex_secret_ext; ex_prefix; ex_secret_equiv] = true
  /\ signer_constructible (firstn 63 ex_prefix) = false
  /\ blk ex_prefix = ex_prefix
  /\ ex_secret_equiv <> ex_secret /\ length ex_secret_equiv = 64%nat /\ blk ex_secret_equiv = blk ex_secret
  /\ validate_tok (blk ex_secret) ex_aud ex_t0 (ex_view (blk ex_secret_equiv)) = Ok (mkGp ex_app ex_d (Some ex_t0)) 77
  /\ validate_tok ex_key ex_aud ex_t0 (ex_view ex_key) = Ok (mkGp ex_app ex_d (Some ex_t0)) 77
  /\ validate_tok ex_key_last ex_aud ex_t0 (ex_view ex_key) = Err ESignature
  /\ validate_tok ex_key ex_aud ex_t0 (ex_view ex_key_last) = Err ESignature
  /\ validate_tok ex_prefix ex_aud ex_t0 (ex_view ex_key) = Err ESignature
  /\ validate_tok ex_key ex_aud ex_t0 (ex_view ex_prefix) = Err ESignature
  /\ validate_tok ex_key_65 ex_aud ex_t0 (ex_view ex_key) = Err ESignature
  /\ validate_tok ex_key_ext ex_aud ex_t0 (ex_view ex_key) = Err ESignature
  /\ validate_tok ex_key ex_aud ex_t0 (ex_view ex_key_ext) = Err ESignature.
Proof. vm_compute. repeat split; discriminate. Qed.

(* the oracle on such a pair: acceptance under the other secret is a violation, and so is an equal
   keyed hash; the model disagrees with both *)
Example key_oracle_nonvacuous :
  let bad := mkTrace ex_key_last ex_key_last false ex_t0 ex_aud ex_app (ex_view ex_key) (OIssued ex_key true ex_app ex_aud ex_t0 ex_d 77 [])
                     (OOk (mkGp ex_app ex_d (Some ex_t0)) 77) (OOk (mkGp ex_app ex_d (Some ex_t0)) 77) None in
  satisfies (TVal bad) = false /\ agrees (TVal bad) = false
  /\ satisfies (TKeys (mkKeys ex_secret ex_secret_last ex_key ex_key_last true true (Some true))) = false
  /\ agrees (TKeys (mkKeys ex_secret ex_secret_last ex_key ex_key_last true true (Some true))) = false
  /\ agrees (TKeys (mkKeys ex_secret ex_secret_last ex_key ex_key_last true true (Some false))) = true
  /\ satisfies (TKeys (mkKeys ex_secret ex_secret_last ex_key ex_key_last true true (Some false))) = true
  /\ agrees (TKeys (mkKeys ex_secret ex_secret_equiv ex_key (blk ex_secret_equiv) true true (Some true))) = true
  /\ satisfies (TKeys (mkKeys ex_secret ex_secret_equiv ex_key (blk ex_secret_equiv) true true (Some true))) = true
  /\ agrees (TKeys (mkKeys (firstn 63 ex_prefix) ex_prefix (blk (firstn 63 ex_prefix)) ex_prefix false true None)) = true.
Proof. vm_compute. repeat split. Qed.

(* float64 rounding of the integers seen in the field: 2^53+1, a workspace ID of cluster 65, MaxInt64,
   2^62+1, MaxUint64; 2^53 and below are kept *)
Example issued_integers_nonvacuous :
  issue_number false 9007199254740993 = 9007199254740992
  /\ issue_number false 9147936743227393 = 9147936743227392
  /\ issue_number false 9223372036854775807 = 9223372036854775808
  /\ issue_number false 4611686018427387905 = 4611686018427387904
  /\ issue_number false 18446744073709551615 = 18446744073709551616
  /\ issue_number false (-9007199254740995) = -9007199254740996
  /\ issue_number false 9007199254740992 = 9007199254740992
  /\ issue_number true 9007199254740993 = 9007199254740993
  /\ issued_int_ok false [([87]%N, JNum None 9007199254740992)] ([87]%N, 9007199254740993) = true
  /\ issued_int_ok true [([87]%N, JNum (Some 9007199254740992) 9007199254740992)] ([87]%N, 9007199254740993) = false.
Proof. vm_compute. repeat split. Qed.

(* a 64-byte secret, its buffer wiped by the caller, a token signed with 64 zero bytes: accepted by an
   aliasing signer, refused by a copying one; the oracle counts the acceptance as a violation *)
Example alias_nonvacuous :
  let zeros := repeat 0%N 64 in
  let v := issued_view zeros ex_aud ex_app ex_d ex_t0 [50;48;50;54]%N ex_pl (Some 77%N) in
  let t o := mkTrace ex_prefix zeros false ex_t0 ex_aud ex_app v (OSigned (Some zeros) (Some ex_aud) (Some ex_app) None) o o None in
  validate_tok (working_key_g false (t OPanic)) ex_aud ex_t0 v = Ok (mkGp ex_app ex_d (Some ex_t0)) 77
  /\ validate_tok (working_key_g true (t OPanic)) ex_aud ex_t0 v = Err ESignature
  /\ satisfies (TVal (t (OOk (mkGp ex_app ex_d (Some ex_t0)) 77))) = false
  /\ satisfies (TVal (t (OErr ESignature))) = true.
Proof. vm_compute. repeat split. Qed.

(* Authenticate: the empty string is the guest, a white-space string is not; white space around a
   genuine token is not that token *)
Example authenticate_nonvacuous :
  let t e v org a := mkTrace ex_key ex_key e ex_t0 ex_aud ex_app v org (OErr EInvalidToken) (OErr EInvalidToken) (Some a) in
  agrees (TVal (t true VNoSplit ORaw 3%N)) = true /\ satisfies (TVal (t true VNoSplit ORaw 3%N)) = true
  /\ agrees (TVal (t false VNoSplit ORaw 1%N)) = true /\ satisfies (TVal (t false VNoSplit ORaw 1%N)) = true
  /\ satisfies (TVal (t false VNoSplit ORaw 3%N)) = false /\ agrees (TVal (t false VNoSplit ORaw 3%N)) = false
  /\ satisfies (TVal (t false VNoSplit (OIssued ex_key false ex_app ex_aud ex_t0 ex_d 77 []) 0%N)) = false
  /\ agrees (TVal (t false VNoSplit (OIssued ex_key false ex_app ex_aud ex_t0 ex_d 77 []) 0%N)) = false.
Proof. vm_compute. repeat split. Qed.

(* forged views: typed claims never panic whatever else is wrong; the bare one is the F13 witness *)
Example partial_nonvacuous :
  let c := [([97;117;100]%N, JStr ex_aud); ([68;117;114;97;116;105;111;110]%N, JNum None 1)] in
  let v := VTok (mkTok (HObj (Some [110;111;110;101]%N)) (CObj c) true None true None None) in
  reaches_claims v = Some c
  /\ str_claim jwt_k_aud_validate c = true /\ num_claim jwt_k_dur_validate c = true
  /\ validate_tok ex_key ex_aud 0 v = Err EPayload
  /\ reaches_claims bare_view = Some []
  /\ asserted_ok false false [] = false.
Proof. vm_compute. repeat split. Qed.

Example accept_sound_nonvacuous : exists g p, validate_tok ex_key ex_aud ex_t0 (ex_view ex_key) = Ok g p.
Proof. eexists _, _. vm_compute. reflexivity. Qed.

Example unsigned_nonvacuous :
  sig_verifies ex_key (ex_view ex_key_last) = false /\ sig_verifies ex_key VNoSplit = false
  /\ sig_verifies ex_key (ex_view ex_key) = true
  /\ validate_tok ex_key ex_aud ex_t0 VNoSplit = Err EInvalidToken.
Proof. vm_compute. repeat split. Qed.

(* a re-spelled signature segment: accepted without the comparison, refused with it *)
Example spelling_nonvacuous :
  validate_tok_g false false false [1;2;3]%N [80]%N 0 respelled_view = Ok (mkGp [97;47;98]%N 1 None) 7
  /\ validate_tok_g false false true [1;2;3]%N [80]%N 0 respelled_view = Err EInvalidToken
  /\ validate_tok_g true true true [] [] 0 bare_view = Err EPayload.
Proof. vm_compute. repeat split. Qed.

(* a truthful trace on which the model's outputs are the observed ones *)
Example oracle_nonvacuous :
  let t := mkTrace ex_key ex_key false ex_t0 ex_aud ex_app (ex_view ex_key) (OIssued ex_key true ex_app ex_aud ex_t0 ex_d 77 [])
                   (OOk (mkGp ex_app ex_d (Some ex_t0)) 77) (OOk (mkGp ex_app ex_d (Some ex_t0)) 77) (Some 0%N) in
  agrees (TVal t) = true /\ satisfies (TVal t) = true /\ validate_tok (t_key t) (t_aud t) (t_now t) (t_view t) <> Panic.
Proof. vm_compute. repeat split. discriminate. Qed.

Print Assumptions validate_total_iff_assertions_checked.
Print Assumptions validate_total_refuted.
Print Assumptions validate_total_partial.
Print Assumptions validate_panics_iff.
Print Assumptions validate_total_status.
Print Assumptions accept_sound.
Print Assumptions accept_app_sound.
Print Assumptions unsigned_rejected.
Print Assumptions other_secret_rejected.
Print Assumptions hmac_equivalent_secrets_exist.
Print Assumptions trailing_zeros_do_not_count.
Print Assumptions secret_of_block_length_is_its_key.
Print Assumptions equal_length_short_secrets_are_different_keys.
Print Assumptions long_secrets_are_different_keys_unless_the_hash_collides.
Print Assumptions accepted_spelling_status.
Print Assumptions issued_accept_iff.
Print Assumptions issued_other_secret.
Print Assumptions issued_within_lifetime.
Print Assumptions issued_integers_exact_iff_json_number.
Print Assumptions issued_integers_refuted.
Print Assumptions issued_integers_partial.
Print Assumptions issued_integers_status.
Print Assumptions signer_secret_fixed_iff_copied.
Print Assumptions signer_secret_status.
Print Assumptions signer_secret_partial.
Print Assumptions expiry_is_lifetime_end_rounded_down.
Print Assumptions oracle_follows_from_model.
Print Assumptions key_oracle_follows_from_model.
