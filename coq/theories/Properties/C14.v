(* C14 - only genuine, unexpired tokens of the right application and payload type are accepted.
   Statements only; every proof is `exact <lemma>` into C14_Tokens/Proofs.v.
   validate_tok = itokensjwt.JWTSigner.ValidateToken, validate_app = itokens-payloads
   implIAppTokens.ValidateToken (also the first step of IAuthenticator.Authenticate), on the
   abstract view of the token string (C14_Tokens/Model.v). *)
From Coq Require Import List NArith ZArith Bool Lia.
From V Require Import Lib.Lex Lib.Check Gen.Params C14_Tokens.Model C14_Tokens.Proofs.
Import ListNotations.
Local Open Scope Z_scope.

(* ---- side conditions on what the translator took from the Go source ---- *)
(* IssueToken writes the claims under the names ValidateToken, buildGenericPayload and jwt/v5 read *)
Lemma issue_writes_what_validate_reads : keys_consistent.
Proof. intros aud app d t0 txt pl. cbv zeta. repeat split; reflexivity. Qed.
Lemma keyfunc_refuses_non_hmac_methods : jwt_keyfunc_requires_hmac = true.
Proof. reflexivity. Qed.
Lemma audience_is_compared : jwt_audience_compared = true.
Proof. reflexivity. Qed.
Lemma app_binding_is_checked : jwt_app_bound = true.
Proof. reflexivity. Qed.
Lemma parser_has_clock_and_json_number_only : jwt_parser_plain = true.
Proof. reflexivity. Qed.

(* ---- 1. "validating any string either fails with an error or succeeds" ----
   Full statement:   forall aud now v, validate_tok aud now v <> Panic.
   It holds exactly when both type assertions on the claims (aud, Duration) are checked ones; in
   the code as it is they are bare (jwt_aud_assert_checked = jwt_dur_assert_checked = false), the
   statement is refuted by a token whose claims are `{}` (finding F13), and what remains true is
   the partial statement: no panic on tokens that carry a string aud and a numeric Duration. *)
Theorem validate_total_iff_assertions_checked :
  (forall aud now v, validate_tok aud now v <> Panic) <-> jwt_aud_assert_checked && jwt_dur_assert_checked = true.
Proof. exact (no_panic_iff_checked jwt_aud_assert_checked jwt_dur_assert_checked jwt_sig_canon_checked). Qed.

Theorem validate_total_refuted :
  jwt_aud_assert_checked && jwt_dur_assert_checked = false ->
  exists aud now v, validate_tok aud now v = Panic /\ sig_verifies v = false.
Proof.
  intros E. exists []%N, 0, bare_view. split; [|reflexivity].
  exact (bare_view_panics jwt_aud_assert_checked jwt_dur_assert_checked jwt_sig_canon_checked [] 0 E).
Qed.

Theorem validate_total_partial : forall aud now v,
  (forall c, reaches_claims v = Some c -> str_claim jwt_k_aud_validate c = true /\ num_claim jwt_k_dur_validate c = true) ->
  validate_tok aud now v <> Panic /\ forall app, validate_app aud app now v <> Panic.
Proof.
  intros aud now v H. pose proof (no_panic_typed jwt_aud_assert_checked jwt_dur_assert_checked jwt_sig_canon_checked aud now v H) as P.
  split; [exact P|]. intros app E. apply app_panic_iff in E. exact (P E).
Qed.

(* exactly which inputs panic *)
Theorem validate_panics_iff : forall aud now v,
  validate_tok aud now v = Panic <->
  exists c, reaches_claims v = Some c /\ asserted_ok jwt_aud_assert_checked jwt_dur_assert_checked c = false.
Proof. exact (panic_iff jwt_aud_assert_checked jwt_dur_assert_checked jwt_sig_canon_checked). Qed.

(* whichever way the flags are in the current source: the statement, or its refutation *)
Theorem validate_total_status :
  if jwt_aud_assert_checked && jwt_dur_assert_checked
  then forall aud now v, validate_tok aud now v <> Panic
  else exists aud now v, validate_tok aud now v = Panic /\ sig_verifies v = false.
Proof.
  destruct (jwt_aud_assert_checked && jwt_dur_assert_checked) eqn:E.
  - apply validate_total_iff_assertions_checked. exact E.
  - apply validate_total_refuted. exact E.
Qed.

(* ---- 2. "it succeeds only if ..." for every view, every clock, every expected type ---- *)
Theorem accept_sound : forall aud now v g p,
  validate_tok aud now v = Ok g p ->
  accepted jwt_aud_assert_checked jwt_dur_assert_checked jwt_sig_canon_checked aud now v g p.
Proof. exact (accept_sound_g jwt_aud_assert_checked jwt_dur_assert_checked jwt_sig_canon_checked). Qed.

Theorem accept_app_sound : forall aud app now v g p,
  validate_app aud app now v = Ok g p -> validate_tok aud now v = Ok g p /\ gp_app g = app.
Proof. exact (accept_app_sound_g jwt_aud_assert_checked jwt_dur_assert_checked jwt_sig_canon_checked). Qed.

(* truncated, re-signed with another secret, bit-flipped in header or claims, unsigned, alg none:
   whatever leaves no MAC verifying under the validator's secret is never accepted *)
Theorem unsigned_rejected : forall aud now v,
  sig_verifies v = false -> forall g p, validate_tok aud now v <> Ok g p.
Proof. exact (unsigned_rejected_g jwt_aud_assert_checked jwt_dur_assert_checked jwt_sig_canon_checked). Qed.

(* "the string is exactly a token issued ...": header and claims segments are covered by the MAC;
   the signature segment is not, and base64 has several spellings of the same bytes (unused low
   bits of the last character, CR/LF anywhere).  Full statement: an accepted token's signature
   segment is the canonical spelling.  It holds iff ValidateToken compares the segment with its
   re-encoding (jwt_sig_canon_checked); in the code as it is it does not (finding C14-SIGENC). *)
Theorem accepted_spelling_status :
  if jwt_sig_canon_checked
  then forall aud now t g p, validate_tok aud now (VTok t) = Ok g p -> tk_sig_canon t = true
  else exists aud now t g p, validate_tok aud now (VTok t) = Ok g p /\ tk_sig_canon t = false.
Proof.
  unfold validate_tok. destruct jwt_sig_canon_checked.
  - exact (accepted_canonical jwt_aud_assert_checked jwt_dur_assert_checked).
  - eexists _, _, _, _, _. split; [exact (respelled_accepted jwt_aud_assert_checked jwt_dur_assert_checked) | reflexivity].
Qed.

(* ---- 3. issued tokens: all payloads, durations and clock positions ---- *)
Theorem issued_accept_iff : forall sk aud app d t0 txt pl dg aud' app' now g p,
  count_byte 47%N app = 1%nat ->        (* application name owner/name *)
  get k_nbf pl = None ->                (* no payload field named nbf (none of the payload types has one) *)
  (validate_app aud' app' now (issued_view sk aud app d t0 txt pl (Some dg)) = Ok g p
   <-> sk = true /\ aud' = aud /\ app' = app /\ now < expiry t0 d /\ g = mkGp app d (Some t0) /\ p = dg).
Proof. exact (issued_accept_iff_g jwt_aud_assert_checked jwt_dur_assert_checked jwt_sig_canon_checked issue_writes_what_validate_reads). Qed.

Theorem issued_within_lifetime : forall sk aud app d t0 txt pl dg aud' app' now g p,
  count_byte 47%N app = 1%nat -> get k_nbf pl = None ->
  validate_app aud' app' now (issued_view sk aud app d t0 txt pl (Some dg)) = Ok g p -> now < t0 + d.
Proof. exact (issued_within_lifetime_g jwt_aud_assert_checked jwt_dur_assert_checked jwt_sig_canon_checked issue_writes_what_validate_reads). Qed.

Theorem expiry_is_lifetime_end_rounded_down : forall t0 d, t0 + d - ns_per_s < expiry t0 d <= t0 + d.
Proof. intros t0 d. split; [exact (expiry_gt t0 d) | exact (expiry_le t0 d)]. Qed.

(* ---- 4. the trace oracle follows from the model wherever code and model agree ---- *)
Theorem oracle_follows_from_model : forall t,
  origin_consistent t -> t_aud t <> []%N ->
  validate_tok (t_aud t) (t_now t) (t_view t) <> Panic ->
  agrees t = true -> satisfies t = true.
Proof. exact (agrees_satisfies issue_writes_what_validate_reads). Qed.

(* ---- non-vacuity ---- *)
Definition ex_aud : bytes := [112;97;121;108;111;97;100;115;46;80]%N.   (* "payloads.P" *)
Definition ex_app : bytes := [116;47;97]%N.                              (* "t/a" *)
Definition ex_pl : claims := [([76;111;103;105;110]%N, JStr [117]%N); ([82;111;108;101;115]%N, JArr)].
Definition ex_t0 : Z := 1767225600999999999.
Definition ex_d : Z := 1500000001.
Definition ex_view (sk : bool) : view := issued_view sk ex_aud ex_app ex_d ex_t0 [50;48;50;54]%N ex_pl (Some 77%N).

(* an issued token: accepted one nanosecond before the expiry instant (which lies 0.5 s before the
   end of the lifetime), expired at it; refused for another key, type, application *)
Example issued_nonvacuous :
  expiry ex_t0 ex_d = 1767225602000000000
  /\ validate_app ex_aud ex_app 1767225601999999999 (ex_view true) = Ok (mkGp ex_app ex_d (Some ex_t0)) 77
  /\ validate_app ex_aud ex_app 1767225602000000000 (ex_view true) = Err EExpired
  /\ validate_app ex_aud ex_app ex_t0 (ex_view false) = Err ESignature
  /\ validate_app [120]%N ex_app ex_t0 (ex_view true) = Err EAudience
  /\ validate_app ex_aud [116;47;98]%N ex_t0 (ex_view true) = Err EOtherApp
  /\ validate_tok ex_aud ex_t0 (ex_view true) = Ok (mkGp ex_app ex_d (Some ex_t0)) 77.
Proof. vm_compute. repeat split. Qed.

(* forged views: typed claims never panic whatever else is wrong; the bare one is the F13 witness *)
Example partial_nonvacuous :
  let c := [([97;117;100]%N, JStr ex_aud); ([68;117;114;97;116;105;111;110]%N, JNum None 1)] in
  let v := VTok (mkTok (HObj (Some [110;111;110;101]%N)) (CObj c) true false true None None) in
  reaches_claims v = Some c
  /\ str_claim jwt_k_aud_validate c = true /\ num_claim jwt_k_dur_validate c = true
  /\ validate_tok ex_aud 0 v = Err EPayload
  /\ reaches_claims bare_view = Some []
  /\ asserted_ok false false [] = false.
Proof. vm_compute. repeat split. Qed.

Example accept_sound_nonvacuous : exists g p, validate_tok ex_aud ex_t0 (ex_view true) = Ok g p.
Proof. eexists _, _. vm_compute. reflexivity. Qed.

Example unsigned_nonvacuous :
  sig_verifies (ex_view false) = false /\ sig_verifies VNoSplit = false
  /\ validate_tok ex_aud ex_t0 VNoSplit = Err EInvalidToken.
Proof. vm_compute. repeat split. Qed.

(* a re-spelled signature segment: accepted without the comparison, refused with it *)
Example spelling_nonvacuous :
  validate_tok_g false false false [80]%N 0 respelled_view = Ok (mkGp [97;47;98]%N 1 None) 7
  /\ validate_tok_g false false true [80]%N 0 respelled_view = Err EInvalidToken
  /\ validate_tok_g true true true [] 0 bare_view = Err EPayload.
Proof. vm_compute. repeat split. Qed.

(* a truthful trace on which the model's outputs are the observed ones *)
Example oracle_nonvacuous :
  let t := mkTrace ex_t0 ex_aud ex_app (ex_view true) (OIssued true true ex_app ex_aud ex_t0 ex_d 77)
                   (OOk (mkGp ex_app ex_d (Some ex_t0)) 77) (OOk (mkGp ex_app ex_d (Some ex_t0)) 77) (Some 0%N) in
  agrees t = true /\ satisfies t = true /\ validate_tok (t_aud t) (t_now t) (t_view t) <> Panic.
Proof. vm_compute. repeat split. discriminate. Qed.

Print Assumptions validate_total_iff_assertions_checked.
Print Assumptions validate_total_refuted.
Print Assumptions validate_total_partial.
Print Assumptions validate_panics_iff.
Print Assumptions validate_total_status.
Print Assumptions accept_sound.
Print Assumptions accept_app_sound.
Print Assumptions unsigned_rejected.
Print Assumptions accepted_spelling_status.
Print Assumptions issued_accept_iff.
Print Assumptions issued_within_lifetime.
Print Assumptions expiry_is_lifetime_end_rounded_down.
Print Assumptions oracle_follows_from_model.
