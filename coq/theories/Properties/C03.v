(* C03 - stored records equal the fold of logged events; re-apply is idempotent.
   Statements only; every proof is `exact <lemma>` into C03_Records/Proofs.v. *)
From Coq Require Import List NArith ZArith Lia.
From V Require Import Lib.Lex Lib.SMap Gen.Params C03_Records.Model C03_Records.Proofs.
Import ListNotations.
Local Open Scope N_scope.

(* side conditions on what the translator took from the Go source (utils.go crackID/recordKey,
   consts.go partitionBits/lowMask, impl.go putRecordsBatch) *)
Lemma low_mask_is_partition_mask : rec_low_mask = N.ones rec_partition_bits.
Proof. reflexivity. Qed.
Lemma low_part_fits_two_bytes : rec_partition_bits <= 16.
Proof. vm_compute. discriminate. Qed.
Lemma reapply_overwrites : rec_reapply_overwrites = true.
Proof. reflexivity. Qed.
(* event-types.go applyRecs rebuilds every update over the stored row (repair of F-C03-1, e4efa7ee7);
   if the guard `if rec.originRec.empty()` comes back this fails and re-opens every theorem below *)
Lemma apply_reloads_origin : rec_apply_reloads_origin = true.
Proof. reflexivity. Qed.
(* impl.go validEvent gives an update that does not assign sys.IsActive the activity of the STORED
   record (repair of F-C03-2, 001f02315); if that refresh disappears this fails, [activity_ok] is a
   real hypothesis again and [apply_fold_spec] below is re-opened *)
Lemma update_activity_from_store : rec_update_activity_from_store = true.
Proof. reflexivity. Qed.

(* Distinct (workspace, id) pairs never share a storage row. *)
Theorem record_key_injective : forall ws id ws' id',
  ws < bound64 -> id < bound64 -> ws' < bound64 -> id' < bound64 ->
  rec_key ws id = rec_key ws' id' -> ws = ws' /\ id = id'.
Proof. exact (rec_key_inj low_mask_is_partition_mask low_part_fits_two_bytes). Qed.

(* After ANY sequence of valid events (any length, any interleaving of creates, updates,
   deactivations and reactivations over any number of workspaces, any field lists), reading ANY
   record returns exactly the per-field fold of the log: it exists iff some event created it; type,
   parent and container are those of the create; the activation flag is the one assigned by the newest event
   that assigns it; every field has the value given by the newest event naming that field,
   emptied fields (and empty strings) are absent.
   "valid" = accepted by BuildRawEvent, ids < 2^64, created ids new in their workspace (C04), and
   every update can be built over the row it meets in the store (so that Apply succeeds); the
   record object handed to ICUD.Update is arbitrary in field content and activity (stale, foreign,
   empty): [valid_history_but_activity] says nothing about it. *)
Theorem apply_fold_spec : forall h ws id,
  valid_history_but_activity [] h = true -> ws < bound64 -> id < bound64 ->
  lookup (run [] h) ws id = spec_rec (touches (rev h) ws id) id.
Proof.
  intros h ws id V. rewrite <- (valid_history_but_activity_eq update_activity_from_store) in V.
  exact (apply_fold_spec_proved low_mask_is_partition_mask low_part_fits_two_bytes apply_reloads_origin h ws id V).
Qed.

(* In the theorems below [valid_event] / [valid_history] / [valid_ops] contain the conjunct
   [activity_ok]; it is vacuous: *)
Theorem activity_hypothesis_vacuous : forall st e, valid_event st e = valid_event_but_activity st e.
Proof. exact (valid_event_but_activity_eq update_activity_from_store). Qed.


(* Records never created do not exist (in particular: the same id in another workspace). *)
Theorem untouched_absent : forall h ws id,
  valid_history [] h = true -> ws < bound64 -> id < bound64 ->
  (forall e c, In e h -> e_ws e = ws -> In c (e_creates e) -> c_id c <> id) ->
  lookup (run [] h) ws id = None.
Proof. exact (untouched_absent_proved low_mask_is_partition_mask low_part_fits_two_bytes apply_reloads_origin). Qed.

(* Re-applying an event that was just applied, with the origins reloaded from the store as
   recovery does, succeeds and leaves the whole store identical, from every state. *)
Theorem reapply_idem : forall st e,
  valid_event st e = true -> reapply (fst (apply st e)) e = (fst (apply st e), 0).
Proof. exact (reapply_idem_proved low_mask_is_partition_mask low_part_fits_two_bytes apply_reloads_origin reapply_overwrites). Qed.

(* Recovery of an event that was logged but whose records were not written yet does exactly what
   Apply would have done. *)
Theorem reapply_completes_apply : forall st e,
  valid_event st e = true -> reapply st e = apply st e.
Proof. exact (reapply_completes_apply_proved low_mask_is_partition_mask low_part_fits_two_bytes apply_reloads_origin reapply_overwrites). Qed.

(* The fold specification holds for every history in which any prefix is followed by any number
   of re-applies of its last event. *)
Theorem fold_spec_with_reapply : forall ops ws id,
  valid_ops [] None ops = true -> ws < bound64 -> id < bound64 ->
  lookup (run_ops [] None ops) ws id = spec_rec (touches (rev (applied ops)) ws id) id.
Proof. exact (fold_spec_with_reapply_proved low_mask_is_partition_mask low_part_fits_two_bytes apply_reloads_origin reapply_overwrites). Qed.

(* Any Apply (valid or not, complete or stopped half-way) leaves every record the event does not
   name untouched, in every workspace. *)
Theorem apply_frame : forall st e ws' id',
  ev_bounded e = true -> ws' < bound64 -> id' < bound64 ->
  (ws' <> e_ws e \/ ~ In id' (event_ids e)) ->
  lookup (fst (apply st e)) ws' id' = lookup st ws' id'.
Proof. exact (apply_frame_proved low_mask_is_partition_mask low_part_fits_two_bytes). Qed.

(* An update overwrites only the fields it names. *)
Theorem update_keeps_unnamed : forall o u r i,
  build_update o u = Some r -> (i < length (r_fields o))%nat -> nth i (u_changes u) Keep = Keep ->
  nth i (r_fields r) None = nth i (r_fields o) None.
Proof. exact (update_keeps_unnamed_proved low_mask_is_partition_mask low_part_fits_two_bytes). Qed.

(* Link to the correspondence check: on every valid history with re-applies, with any set of
   records read after every step, the trace the model produces is accepted by the oracle
   [satisfies] that bin/check evaluates on the traces observed from the Go code.  So wherever the
   observed trace equals the model's ([agrees]) on a valid history, the oracle's verdict is the theorem. *)
Theorem satisfies_model_trace : forall ops qs,
  valid_ops [] None ops = true -> qs_bounded qs -> satisfies (model_trace [] None ops qs) = true.
Proof. exact (satisfies_model_trace_proved low_mask_is_partition_mask low_part_fits_two_bytes apply_reloads_origin reapply_overwrites). Qed.

(* F-C03-1 (repaired in /repo e4efa7ee7).  Before the repair the live Apply built an update over
   the record OBJECT handed to ICUD.Update (never re-read) while the log holds the changes only: an
   older snapshot, or the record with the same id of another workspace, silently reverted the fields
   changed since (corpus/C03/stale_origin_reverts.json).  The old shape is kept in the model
   ([eff_origin_old], [apply_old], selected when the translator no longer finds the unconditional
   reload) and refutes the statement: [stale_witness] is a valid history - nothing is required of
   the content of the object handed to Update - on which the old Apply leaves a store that is not
   the fold, and the present one does not. *)
Definition stale_witness : list event :=
  let d0 := mkRec 204798 1 0 0 true [Some (FNum 1); None] in
  [ mkEvent 1 [mkCreate false 204798 1 0 0 true [SetTo (FNum 1); Keep]] [];
    mkEvent 1 [] [mkUpdate 204798 d0 0 0 (Some true) [Keep; SetTo (FStr [120])]];
    mkEvent 1 [] [mkUpdate 204798 d0 0 0 None [SetTo (FNum 7); Keep]] ].

Theorem apply_fold_spec_with_old_apply_refuted :
  exists h ws id, valid_history [] h = true /\ ws < bound64 /\ id < bound64 /\
    lookup (run_old [] h) ws id <> spec_rec (touches (rev h) ws id) id.
Proof. exists stale_witness, 1, 204798. vm_compute. repeat split; try reflexivity. discriminate. Qed.

Example stale_witness_now_folds :
  valid_history [] stale_witness = true /\
  lookup (run [] stale_witness) 1 204798 = Some (mkRec 204798 1 0 0 true [Some (FNum 7); Some (FStr [120])]).
Proof. vm_compute. split; reflexivity. Qed.

(* F-C03-2 (repaired in /repo 001f02315).  An update that does NOT assign sys.IsActive still carries
   an activity value; before the repair it was the one of the record object handed to ICUD.Update
   (newUpdateRec), it was logged with the row and updateRecType.build set the record's flag to it
   whenever the VALUES differed: built from an older object, an update naming only `name`
   reactivated a record deactivated since (naming nothing, an inactive snapshot deactivated an
   active one) while the logged row said "activity not assigned".  validEvent now takes the
   unassigned activity from the stored record before the row is logged.  The old shape is kept
   ([build_update_leak], [apply_leak]; the model itself falls back to it when the translator no
   longer finds the refresh) and refutes the statement on a history that is valid: *)
Definition activity_witness : list event :=
  let d0 := mkRec 200001 1 0 0 true [Some (FStr [97])] in
  [ mkEvent 1 [mkCreate false 200001 1 0 0 true [SetTo (FStr [97])]] [];
    mkEvent 1 [] [mkUpdate 200001 d0 0 0 (Some false) [Keep]];
    mkEvent 1 [] [mkUpdate 200001 d0 0 0 None [SetTo (FStr [98])]] ].

Theorem apply_fold_spec_without_activity_hypothesis_refuted :
  exists h ws id, valid_history_but_activity [] h = true /\ ws < bound64 /\ id < bound64 /\
    lookup (run_leak [] h) ws id <> spec_rec (touches (rev h) ws id) id.
Proof. exists activity_witness, 1, 200001. vm_compute. repeat split; try reflexivity. discriminate. Qed.

Example activity_witness_now_folds :
  valid_history_but_activity [] activity_witness = true /\
  lookup (run [] activity_witness) 1 200001 = Some (mkRec 200001 1 0 0 false [Some (FStr [98])]).
Proof. vm_compute. split; reflexivity. Qed.

(* non-vacuity: a concrete history over two workspaces (equal ids in both, ids on both sides of a
   4096 boundary), nested records, a singleton, field set / emptied / zero, deactivate and
   reactivate is valid, and the store computes to the expected rows *)
Definition demo : list event :=
  let doc := mkRec 204799 1 0 0 true [Some (FNum 0); None; Some (FStr [97])] in
  let doc' := mkRec 204799 1 0 0 false [Some (FNum 0); Some (FNum (-5)); None] in
  [ mkEvent 1 [mkCreate false 204799 1 0 0 true [SetTo (FNum 0); Keep; SetTo (FStr [97])];
               mkCreate false 204800 2 204799 1 true [SetTo (FStr []); SetTo (FNum 204799)]] [];
    mkEvent 2 [mkCreate false 204799 4 0 0 true [SetTo (FNum 9)];
               mkCreate true 65536 5 0 0 true [Keep; SetTo (FStr [1; 2])]] [];
    mkEvent 1 [] [mkUpdate 204799 doc 0 0 (Some false) [Keep; SetTo (FNum (-5)); Clear]];
    mkEvent 1 [] [mkUpdate 204799 doc' 0 0 (Some true) [Keep; Keep; SetTo (FStr [98; 99])];
                  mkUpdate 204800 (mkRec 204800 2 204799 1 true [None; Some (FNum 204799)]) 204799 1 None [SetTo (FStr [120]); Keep]] ].

Example apply_fold_spec_nonvacuous :
  valid_history_but_activity [] demo = true
  /\ lookup (run [] demo) 1 204799 = Some (mkRec 204799 1 0 0 true [Some (FNum 0); Some (FNum (-5)); Some (FStr [98; 99])])
  /\ lookup (run [] demo) 1 204800 = Some (mkRec 204800 2 204799 1 true [Some (FStr [120]); Some (FNum 204799)])
  /\ lookup (run [] demo) 2 204799 = Some (mkRec 204799 4 0 0 true [Some (FNum 9)])
  /\ lookup (run [] demo) 2 65536 = Some (mkRec 65536 5 0 0 true [None; Some (FStr [1; 2])])
  /\ lookup (run [] demo) 1 65536 = None
  /\ lookup (run [] demo) 2 204800 = None.
Proof. vm_compute. repeat split. Qed.

Example untouched_absent_nonvacuous :
  forall e c, In e demo -> e_ws e = 2 -> In c (e_creates e) -> c_id c <> 204800.
Proof.
  intros e c HE HW HC. cbn in HE.
  repeat (destruct HE as [<-|HE]; [cbn in HW, HC; try discriminate; repeat (destruct HC as [<-|HC]; [cbn; discriminate|]); try contradiction|]).
  contradiction.
Qed.

Example reapply_idem_nonvacuous :
  let st := run [] (firstn 3 demo) in
  let e := nth 3 demo (mkEvent 0 [] []) in
  valid_event st e = true /\ st <> fst (apply st e) /\ reapply (fst (apply st e)) e = (fst (apply st e), 0).
Proof. vm_compute. repeat split; try reflexivity. discriminate. Qed.

Example fold_spec_with_reapply_nonvacuous :
  valid_ops [] None (flat_map (fun e => [OApply e; OReapply; OReapply]) demo) = true.
Proof. vm_compute. reflexivity. Qed.

Example satisfies_model_trace_nonvacuous :
  let t := model_trace [] None (flat_map (fun e => [OApply e; OReapply]) demo) [(1, 204799); (2, 204799); (2, 65536); (1, 7)] in
  length t = 44%nat /\ satisfies t = true /\ agrees t = true.
Proof. vm_compute. repeat split. Qed.

Example apply_frame_nonvacuous :
  let st := run [] (firstn 3 demo) in
  let e := nth 3 demo (mkEvent 0 [] []) in
  ev_bounded e = true /\ lookup st 2 204799 <> None /\ lookup (fst (apply st e)) 2 204799 = lookup st 2 204799.
Proof. vm_compute. repeat split; try reflexivity. discriminate. Qed.

Example update_keeps_unnamed_nonvacuous :
  build_update (mkRec 7 1 0 0 true [Some (FNum 3); Some (FStr [97])]) (mkUpdate 7 (mkRec 7 1 0 0 true []) 0 0 (Some false) [Keep; Clear])
  = Some (mkRec 7 1 0 0 false [Some (FNum 3); None]).
Proof. vm_compute. reflexivity. Qed.

Print Assumptions record_key_injective.
Print Assumptions apply_fold_spec.
Print Assumptions activity_hypothesis_vacuous.
Print Assumptions untouched_absent.
Print Assumptions reapply_idem.
Print Assumptions reapply_completes_apply.
Print Assumptions fold_spec_with_reapply.
Print Assumptions apply_frame.
Print Assumptions update_keeps_unnamed.
Print Assumptions satisfies_model_trace.
Print Assumptions apply_fold_spec_with_old_apply_refuted.
Print Assumptions apply_fold_spec_without_activity_hypothesis_refuted.
