(* C16 - the VSQL compiler is total and deterministic (partial claim).
   Statements only; proofs are `exact <lemma>` into C16_Total/Proofs.v.

   Proved here, for every schema of the C17 fragment: what the compiler model hands out passes
   `builder_valid`, the model of the rules pkg/appdef's builder enforces (preconditions of its Add...
   calls and the Validate pass of Build) - "no definition together with a nil error that later fails to
   build" (within explicit guards a well-formed schema is compiled; outside them it is refused), and the
   compiler model never yields a panic (the builder's panics are recovered in buildAppDefs - a flag
   read off the source) nor a definition that fails to build (the analyser has the two checks `wf`
   has - two more flags).  NOT shown by any theorem:
   totality and determinism of the Go code on arbitrary texts, error positions (observed by the
   harness on mutated shipped sources and byte strings, see notes/C16.md). *)
From Coq Require Import List NArith ZArith Bool String.
From V Require Import Lib.Check Gen.Params C17_Compile.Model C16_Total.Model C16_Total.Proofs.
Import ListNotations.
Local Open Scope N_scope.

(* side condition on what the translator read off pkg/appdef: the identifier length bound the lexer's
   rule (255 characters) is measured against *)
Lemma max_ident_len_as_modelled : appdef_max_ident_len = 255.
Proof. reflexivity. Qed.

(* clause by clause: for every well-formed schema a and every compiler mode m (the Go compiler as it
   is: m = Go; the spec: m = Ideal) *)
Theorem names_used_once : forall a m, wf a = true -> bv_keys (compile_items a m) = true.
Proof. exact bv_keys_proved. Qed.

Theorem references_and_containers_resolve : forall a m, wf a = true -> bv_refs (compile_items a m) = true.
Proof. exact bv_refs_proved. Qed.

Theorem view_keys_well_formed : forall a m, wf a = true -> bv_views (compile_items a m) = true.
Proof. exact bv_views_proved. Qed.

Theorem function_parameters_have_allowed_kinds : forall a m, wf a = true -> bv_funcs (compile_items a m) = true.
Proof. exact bv_funcs_proved. Qed.

Theorem projector_triggers_and_intents_exist : forall a m, wf a = true -> bv_projs (compile_items a m) = true.
Proof. exact bv_projs_proved. Qed.

Theorem limits_name_visible_rates_and_targets : forall a m, wf a = true -> bv_limit (compile_items a m) = true.
Proof. exact bv_limit_proved. Qed.

Theorem acl_rules_name_visible_roles_and_resources : forall a m, wf a = true -> bv_acl (compile_items a m) = true.
Proof. exact bv_acl_proved. Qed.

Theorem workspaces_ancestors_descriptors_exist : forall a m, wf a = true -> bv_ws (compile_items a m) = true.
Proof. exact bv_ws_proved. Qed.

Theorem member_names_used_once_uniques_name_fields :
  forall a m, wf a = true -> lexical a = true -> no_unique_collision a m = true -> bv_members (compile_items a m) = true.
Proof. exact bv_members_proved. Qed.

(* every name is a valid identifier: what the lexer delivered, or a generated name
   (<workspace>Descriptor, <table>$uniques$<n>) within the length guard *)
Theorem names_well_formed :
  forall a m, wf a = true -> lexical a = true -> gen_names_short (compile_items a m) = true ->
  bv_names (compile_items a m) = true.
Proof. exact (fun a m Hwf Hlex => bv_names_proved a m Hwf Hlex max_ident_len_as_modelled). Qed.

(* all clauses.  `guards` = what the parser does not check and the builder does (member counts, length
   of the generated names) + the one unproved clause (no unique's field set contains another's) *)
Theorem compiled_definition_passes_validation :
  forall a m, wf a = true -> lexical a = true -> no_unique_collision a m = true ->
  guards (compile_items a m) = true -> builder_valid (compile_items a m) = true.
Proof. exact (fun a m Hwf Hlex Hc => builder_valid_proved a m Hwf Hlex Hc max_ident_len_as_modelled). Qed.

(* side conditions on what the translator read off pkg/parser: buildAppDefs recovers a panic of the
   definition builder (repair of C16-F1), and the rules of one `... ON TABLE` statement are written in
   operation order (repair of C16-F2).  A regression flips a flag and re-opens these. *)
Lemma builder_panics_recovered : parser_recovers_builder_panics = true.
Proof. reflexivity. Qed.
Lemma grant_rules_in_operation_order : parser_grant_rules_sorted = true.
Proof. reflexivity. Qed.

(* source anchors of repairs whose subject lies outside the C17 fragment (texts only; the claims
   themselves are observed by the harness, not proved): a ROLE outside a workspace is an error
   (C16-F3, 7ddd85b13), the missing view intent of a job is reported without touching the absent
   projector (C16-F4, a6c74ddce), field sets that include themselves are an error (C16-F5, f76fc3ec8),
   grants are compiled in package path order (C16-F8, 4db55a7c2).  Reverting one breaks its lemma. *)
Lemma role_outside_workspace_is_error : parser_role_outside_workspace_is_error = true.
Proof. reflexivity. Qed.
Lemma view_intent_error_without_projector : parser_view_intent_error_without_projector = true.
Proof. reflexivity. Qed.
Lemma field_set_cycles_checked : parser_field_set_cycles_checked = true.
Proof. reflexivity. Qed.
Lemma grants_in_package_path_order : parser_grants_in_package_path_order = true.
Proof. reflexivity. Qed.
(* two more: the analyser's field lookup has the field-set cycle guard too (C16-F9, 87e6dec40), and the
   refusal of a container field of the wrong family carries the field's position (C16-F10, 70f4f5752) *)
Lemma field_lookup_cycles_checked : parser_field_lookup_cycles_checked = true.
Proof. reflexivity. Qed.
Lemma container_kind_error_positioned : parser_container_kind_error_positioned = true.
Proof. reflexivity. Qed.
(* five more: the field-set cycle guard is kept per definition being built (C16-F5b, 243abdcb2 - the guard of
   f76fc3ec8 was one stack for the whole build and reported false cycles), the INHERITS chain of a system
   table is walked too (C16-F11, 0a0d68cc1), a job's schedule is checked with the parser the definition
   builder uses (C16-F13, b868c7680), the package of a parameter type is the resolved one (C16-F16,
   385a7f25a), the depth of parentheses is bounded before the recursive descent starts (C16-F17, 300f06f2c) *)
Lemma field_set_guard_per_definition : parser_field_set_guard_per_definition = true.
Proof. reflexivity. Qed.
Lemma system_tables_chain_checked : parser_system_tables_chain_checked = true.
Proof. reflexivity. Qed.
Lemma job_schedule_standard : parser_job_schedule_standard = true.
Proof. reflexivity. Qed.
Lemma parameter_package_resolved : parser_parameter_package_resolved = true.
Proof. reflexivity. Qed.
Lemma nesting_depth_bounded : parser_nesting_depth_bounded = true.
Proof. reflexivity. Qed.
(* five more: the column lookup of GRANT visits every TYPE once (C16-F20, 2a6677897 - the lookup added by d88fceb13
   followed field sets to depth 32 along every path), field sets included along many paths are searched / expanded
   once (C16-F21, 8994eec81), a table declared in place gets its comment whoever builds it (C16-F22, 6660b8410), a blob
   field needs the table sys.BLOB (C16-F23, ef5455249), REVOKE of a role is refused by the analyser, with a position
   (C16-F24, 1d9ef77e6) *)
Lemma grant_column_lookup_visits_once : parser_grant_column_lookup_visits_once = true.
Proof. reflexivity. Qed.
Lemma field_sets_expanded_once : parser_field_sets_expanded_once = true.
Proof. reflexivity. Qed.
Lemma nested_table_comments_applied : parser_nested_table_comments_applied = true.
Proof. reflexivity. Qed.
Lemma blob_table_checked : parser_blob_table_checked = true.
Proof. reflexivity. Qed.
Lemma revoke_role_refused_by_analyser : parser_revoke_role_refused_by_analyser = true.
Proof. reflexivity. Qed.

(* the headline: the compiler model never panics, on any schema (no guard, not even wf) *)
Theorem compiler_model_total : forall a, compile16 a <> VPanic.
Proof. exact (compile16_total_flag builder_panics_recovered). Qed.

(* within the guards a well-formed schema is compiled; and whatever is handed out builds *)
Theorem compiler_model_compiles_within_guards :
  forall a, wf a = true -> lexical a = true -> no_unique_collision a Go = true -> guards (compile_items a Go) = true ->
  compile16 a = VCompiled (compile_items a Go) /\ builder_valid (compile_items a Go) = true.
Proof. exact (fun a => compile16_compiles_proved parser_recovers_builder_panics go_checks a max_ident_len_as_modelled). Qed.

Theorem handed_out_definition_builds :
  forall a d, compile16 a = VCompiled d -> builder_valid d = true /\ wf a = true.
Proof. exact (compile16_accepts_valid_proved parser_recovers_builder_panics go_checks). Qed.

(* side conditions: the compiler itself refuses a view without partition key group (repair of C16-F6,
   55541a167) and a GRANT / REVOKE whose class matches nothing in its workspace (repair of C16-F7,
   510061369) - read off pkg/parser by the translator.  A regression flips a flag and re-opens these. *)
Lemma compiler_checks_view_partition_key : parser_checks_view_partition_key = true.
Proof. reflexivity. Qed.
Lemma compiler_checks_grant_matches : parser_checks_grant_matches = true.
Proof. reflexivity. Qed.

(* side condition: the compiler checks the kind of a table named as a command parameter itself (repair of
   C16-F12, fc0be6878) *)
Lemma compiler_checks_command_parameter_kinds : parser_command_parameter_kinds_checked = true.
Proof. reflexivity. Qed.

(* the second headline - "no nil error followed by a failing Build()" as a statement about the compiler
   model: no schema at all (no guard, not even wf) gets the verdict Invalid *)
Theorem no_unbuildable_definition : forall a, compile16 a <> VInvalid.
Proof.
  exact (compile16_never_invalid_flag compiler_checks_view_partition_key compiler_checks_grant_matches
                                      compiler_checks_command_parameter_kinds).
Qed.

(* the same for any analyser that has both checks, whether or not it recovers builder panics ... *)
Theorem no_unbuildable_definition_when_analyser_checks :
  forall r a, compile16_with r (PChecks true true true) a <> VInvalid.
Proof. exact compile16_never_invalid_proved. Qed.

(* ... and is refuted for an analyser that lacks one of the checks - as the shipped one lacked both
   before 55541a167 / 510061369 (former findings C16-F6, C16-F7): a view without partition key group,
   and GRANT ... ON ALL VIEWS in a workspace without views, are handed to the builder, which refuses
   them.  The statements are about the flag-false variants; the real compiler is replayed on
   corpus/C16/f6_view_without_partition_key.json and f7_grant_all_views_none.json on every run *)
Definition a_view_no_pk : schema := [(Pkg "app1"%string [[(Ws "Ws1"%string false [] None [(ITable (Table "T"%string false (Some (QR "sys"%string "CDoc"%string)) [(TField (Fld "a"%string DInt32 false false None))])); (IProj (Proj "P"%string false false [(TrTab true false false false [(QR ""%string "T"%string)])] [(QR ""%string "V"%string)] false)); (IView (View "V"%string [(VField "c"%string DInt64 false); (VField "x"%string DInt32 false)] [] ["c"%string] (QR ""%string "P"%string)))])]])].
Definition a_grant_no_views : schema := [(Pkg "app1"%string [[(Ws "Ws1"%string false [] None [(IRole "R"%string false); (IGrant (Grant false GAllViews (QR ""%string "R"%string)))])]])].

Example unbuildable_definition_refuted_F6 :
  compile16_with true (PChecks false true true) a_view_no_pk = VInvalid /\ wf a_view_no_pk = false
  /\ compile16_with true (PChecks true false true) a_view_no_pk = VError.
Proof. vm_compute. repeat split. Qed.

Definition a_cmd_param_cdoc : schema := [(Pkg "app1"%string [[(Ws "Ws1"%string false [] None [(ITable (Table "T"%string false (Some (QR "sys"%string "CDoc"%string)) [(TField (Fld "a"%string DInt32 false false None))])); (IFunc (Func "C"%string true false (PDef (QR ""%string "T"%string)) PNone PNone))])]])].
Example unbuildable_definition_refuted_F12 :
  compile16_with true (PChecks true true false) a_cmd_param_cdoc = VInvalid /\ wf a_cmd_param_cdoc = false
  /\ compile16_with true (PChecks true true true) a_cmd_param_cdoc = VError.
Proof. vm_compute. repeat split. Qed.

Example unbuildable_definition_refuted_F7 :
  compile16_with true (PChecks true false true) a_grant_no_views = VInvalid /\ wf a_grant_no_views = false
  /\ compile16_with true (PChecks false true true) a_grant_no_views = VError.
Proof. vm_compute. repeat split. Qed.

(* INHERITS: `wf` is about reachability, not membership.  A well-formed schema's every table reaches a
   system table along its INHERITS chain in finitely many steps, every workspace has a finite list of
   ancestors ... *)
Theorem wf_inherits_chains_end :
  forall a, wf a = true -> forall p w, In_ws a p w ->
  (exists l, ws_anc a (fuelw a) (p_name p) (w_inh w) = Some l)
  /\ forall t, In (ITable t) (w_items w) ->
     (exists b ls, Chain a (p_name p) t b ls)
     /\ forall t', In t' (nested_tables t) -> t_inh t' <> None -> exists b ls, Chain a (p_name p) t' b ls.
Proof. exact wf_chains_end_proved. Qed.

(* ... so a schema in which a table / nested table / workspace merely REACHES an INHERITS cycle it is
   not part of is not well-formed, exactly like one whose items are all on the cycle; the model's
   verdict is Error (corpus/C16/cycle_*.json; the seeded mutation c16-1 turns these into a stack
   overflow of the real compiler) *)
Definition a_leaf_on_table_cycle : schema := [(Pkg "app1"%string [[(Ws "Ws1"%string false [] None [(ITable (Table "Cyc1"%string true (Some (QR "app1"%string "Cyc2"%string)) [])); (ITable (Table "Cyc2"%string true (Some (QR "app1"%string "Cyc1"%string)) [])); (ITable (Table "Leaf"%string false (Some (QR "app1"%string "Cyc1"%string)) []))])]])].
Definition a_nested_on_table_cycle : schema := [(Pkg "app1"%string [[(Ws "Ws1"%string false [] None [(ITable (Table "Cyc1"%string true (Some (QR "app1"%string "Cyc2"%string)) [])); (ITable (Table "Cyc2"%string true (Some (QR "app1"%string "Cyc3"%string)) [])); (ITable (Table "Cyc3"%string true (Some (QR "app1"%string "Cyc1"%string)) [])); (ITable (Table "Doc"%string false (Some (QR "sys"%string "CDoc"%string)) [(TNested "cn"%string (Table "Nest"%string false (Some (QR "app1"%string "Cyc1"%string)) []))]))])]])].
Definition a_leaf_on_workspace_cycle : schema := [(Pkg "app1"%string [[(Ws "Ws1"%string false [] None []); (Ws "WBase"%string true [] None []); (Ws "WCyc1"%string true [(QR "app1"%string "WCyc2"%string)] None []); (Ws "WCyc2"%string true [(QR "app1"%string "WCyc1"%string)] None []); (Ws "WLeaf"%string false [(QR "app1"%string "WBase"%string); (QR "app1"%string "WCyc1"%string)] None [])]])].

Example reaching_an_inherits_cycle_is_not_wf :
  wf a_leaf_on_table_cycle = false /\ compile16 a_leaf_on_table_cycle = VError
  /\ chain a_leaf_on_table_cycle (fuel0 a_leaf_on_table_cycle) "app1"%string
        (Table "Leaf"%string false (Some (QR "app1"%string "Cyc1"%string)) []) = None
  /\ wf a_nested_on_table_cycle = false /\ compile16 a_nested_on_table_cycle = VError
  /\ wf a_leaf_on_workspace_cycle = false /\ compile16 a_leaf_on_workspace_cycle = VError
  /\ ws_anc a_leaf_on_workspace_cycle (fuelw a_leaf_on_workspace_cycle) "app1"%string [QR "app1"%string "WBase"%string; QR "app1"%string "WCyc1"%string] = None.
Proof. vm_compute. repeat split. Qed.

(* The guards of `compiled_definition_passes_validation` are needed, and before the repair of C16-F1
   (no recover: `compile16_with false`) leaving them was a panic: 101 UNIQUE constraints; a workspace
   name of 246 characters whose generated descriptor name has 256 (corpus/C16/f1_uniques_101.json,
   f1_ws_name_246.json, now regression probes).  With the recover both are refused with an error.
   The neighbouring legal schema (100 uniques) compiles. *)
Definition a_uniques_101 : schema := [(Pkg "app1"%string [[(Ws "Ws1"%string false [] None [(ITable (Table "Bnd1"%string false (Some (QR "sys"%string "CDoc"%string)) [(TField (Fld "bf0"%string DInt32 false false None)); (TField (Fld "bf1"%string DInt32 false false None)); (TField (Fld "bf2"%string DInt32 false false None)); (TField (Fld "bf3"%string DInt32 false false None)); (TField (Fld "bf4"%string DInt32 false false None)); (TField (Fld "bf5"%string DInt32 false false None)); (TField (Fld "bf6"%string DInt32 false false None)); (TField (Fld "bf7"%string DInt32 false false None)); (TField (Fld "bf8"%string DInt32 false false None)); (TField (Fld "bf9"%string DInt32 false false None)); (TField (Fld "bf10"%string DInt32 false false None)); (TField (Fld "bf11"%string DInt32 false false None)); (TField (Fld "bf12"%string DInt32 false false None)); (TField (Fld "bf13"%string DInt32 false false None)); (TField (Fld "bf14"%string DInt32 false false None)); (TField (Fld "bf15"%string DInt32 false false None)); (TField (Fld "bf16"%string DInt32 false false None)); (TField (Fld "bf17"%string DInt32 false false None)); (TField (Fld "bf18"%string DInt32 false false None)); (TField (Fld "bf19"%string DInt32 false false None)); (TField (Fld "bf20"%string DInt32 false false None)); (TField (Fld "bf21"%string DInt32 false false None)); (TField (Fld "bf22"%string DInt32 false false None)); (TField (Fld "bf23"%string DInt32 false false None)); (TField (Fld "bf24"%string DInt32 false false None)); (TField (Fld "bf25"%string DInt32 false false None)); (TField (Fld "bf26"%string DInt32 false false None)); (TField (Fld "bf27"%string DInt32 false false None)); (TField (Fld "bf28"%string DInt32 false false None)); (TField (Fld "bf29"%string DInt32 false false None)); (TField (Fld "bf30"%string DInt32 false false None)); (TField (Fld "bf31"%string DInt32 false false None)); (TField (Fld "bf32"%string DInt32 false false None)); (TField (Fld "bf33"%string DInt32 false false None)); (TField (Fld "bf34"%string DInt32 false false None)); (TField (Fld "bf35"%string DInt32 false false None)); (TField (Fld "bf36"%string DInt32 false false None)); (TField (Fld "bf37"%string DInt32 false false None)); (TField (Fld "bf38"%string DInt32 false false None)); (TField (Fld "bf39"%string DInt32 false false None)); (TField (Fld "bf40"%string DInt32 false false None)); (TField (Fld "bf41"%string DInt32 false false None)); (TField (Fld "bf42"%string DInt32 false false None)); (TField (Fld "bf43"%string DInt32 false false None)); (TField (Fld "bf44"%string DInt32 false false None)); (TField (Fld "bf45"%string DInt32 false false None)); (TField (Fld "bf46"%string DInt32 false false None)); (TField (Fld "bf47"%string DInt32 false false None)); (TField (Fld "bf48"%string DInt32 false false None)); (TField (Fld "bf49"%string DInt32 false false None)); (TField (Fld "bf50"%string DInt32 false false None)); (TField (Fld "bf51"%string DInt32 false false None)); (TField (Fld "bf52"%string DInt32 false false None)); (TField (Fld "bf53"%string DInt32 false false None)); (TField (Fld "bf54"%string DInt32 false false None)); (TField (Fld "bf55"%string DInt32 false false None)); (TField (Fld "bf56"%string DInt32 false false None)); (TField (Fld "bf57"%string DInt32 false false None)); (TField (Fld "bf58"%string DInt32 false false None)); (TField (Fld "bf59"%string DInt32 false false None)); (TField (Fld "bf60"%string DInt32 false false None)); (TField (Fld "bf61"%string DInt32 false false None)); (TField (Fld "bf62"%string DInt32 false false None)); (TField (Fld "bf63"%string DInt32 false false None)); (TField (Fld "bf64"%string DInt32 false false None)); (TField (Fld "bf65"%string DInt32 false false None)); (TField (Fld "bf66"%string DInt32 false false None)); (TField (Fld "bf67"%string DInt32 false false None)); (TField (Fld "bf68"%string DInt32 false false None)); (TField (Fld "bf69"%string DInt32 false false None)); (TField (Fld "bf70"%string DInt32 false false None)); (TField (Fld "bf71"%string DInt32 false false None)); (TField (Fld "bf72"%string DInt32 false false None)); (TField (Fld "bf73"%string DInt32 false false None)); (TField (Fld "bf74"%string DInt32 false false None)); (TField (Fld "bf75"%string DInt32 false false None)); (TField (Fld "bf76"%string DInt32 false false None)); (TField (Fld "bf77"%string DInt32 false false None)); (TField (Fld "bf78"%string DInt32 false false None)); (TField (Fld "bf79"%string DInt32 false false None)); (TField (Fld "bf80"%string DInt32 false false None)); (TField (Fld "bf81"%string DInt32 false false None)); (TField (Fld "bf82"%string DInt32 false false None)); (TField (Fld "bf83"%string DInt32 false false None)); (TField (Fld "bf84"%string DInt32 false false None)); (TField (Fld "bf85"%string DInt32 false false None)); (TField (Fld "bf86"%string DInt32 false false None)); (TField (Fld "bf87"%string DInt32 false false None)); (TField (Fld "bf88"%string DInt32 false false None)); (TField (Fld "bf89"%string DInt32 false false None)); (TField (Fld "bf90"%string DInt32 false false None)); (TField (Fld "bf91"%string DInt32 false false None)); (TField (Fld "bf92"%string DInt32 false false None)); (TField (Fld "bf93"%string DInt32 false false None)); (TField (Fld "bf94"%string DInt32 false false None)); (TField (Fld "bf95"%string DInt32 false false None)); (TField (Fld "bf96"%string DInt32 false false None)); (TField (Fld "bf97"%string DInt32 false false None)); (TField (Fld "bf98"%string DInt32 false false None)); (TField (Fld "bf99"%string DInt32 false false None)); (TField (Fld "bf100"%string DInt32 false false None)); (TUnique None ["bf0"%string]); (TUnique None ["bf1"%string]); (TUnique None ["bf2"%string]); (TUnique None ["bf3"%string]); (TUnique None ["bf4"%string]); (TUnique None ["bf5"%string]); (TUnique None ["bf6"%string]); (TUnique None ["bf7"%string]); (TUnique None ["bf8"%string]); (TUnique None ["bf9"%string]); (TUnique None ["bf10"%string]); (TUnique None ["bf11"%string]); (TUnique None ["bf12"%string]); (TUnique None ["bf13"%string]); (TUnique None ["bf14"%string]); (TUnique None ["bf15"%string]); (TUnique None ["bf16"%string]); (TUnique None ["bf17"%string]); (TUnique None ["bf18"%string]); (TUnique None ["bf19"%string]); (TUnique None ["bf20"%string]); (TUnique None ["bf21"%string]); (TUnique None ["bf22"%string]); (TUnique None ["bf23"%string]); (TUnique None ["bf24"%string]); (TUnique None ["bf25"%string]); (TUnique None ["bf26"%string]); (TUnique None ["bf27"%string]); (TUnique None ["bf28"%string]); (TUnique None ["bf29"%string]); (TUnique None ["bf30"%string]); (TUnique None ["bf31"%string]); (TUnique None ["bf32"%string]); (TUnique None ["bf33"%string]); (TUnique None ["bf34"%string]); (TUnique None ["bf35"%string]); (TUnique None ["bf36"%string]); (TUnique None ["bf37"%string]); (TUnique None ["bf38"%string]); (TUnique None ["bf39"%string]); (TUnique None ["bf40"%string]); (TUnique None ["bf41"%string]); (TUnique None ["bf42"%string]); (TUnique None ["bf43"%string]); (TUnique None ["bf44"%string]); (TUnique None ["bf45"%string]); (TUnique None ["bf46"%string]); (TUnique None ["bf47"%string]); (TUnique None ["bf48"%string]); (TUnique None ["bf49"%string]); (TUnique None ["bf50"%string]); (TUnique None ["bf51"%string]); (TUnique None ["bf52"%string]); (TUnique None ["bf53"%string]); (TUnique None ["bf54"%string]); (TUnique None ["bf55"%string]); (TUnique None ["bf56"%string]); (TUnique None ["bf57"%string]); (TUnique None ["bf58"%string]); (TUnique None ["bf59"%string]); (TUnique None ["bf60"%string]); (TUnique None ["bf61"%string]); (TUnique None ["bf62"%string]); (TUnique None ["bf63"%string]); (TUnique None ["bf64"%string]); (TUnique None ["bf65"%string]); (TUnique None ["bf66"%string]); (TUnique None ["bf67"%string]); (TUnique None ["bf68"%string]); (TUnique None ["bf69"%string]); (TUnique None ["bf70"%string]); (TUnique None ["bf71"%string]); (TUnique None ["bf72"%string]); (TUnique None ["bf73"%string]); (TUnique None ["bf74"%string]); (TUnique None ["bf75"%string]); (TUnique None ["bf76"%string]); (TUnique None ["bf77"%string]); (TUnique None ["bf78"%string]); (TUnique None ["bf79"%string]); (TUnique None ["bf80"%string]); (TUnique None ["bf81"%string]); (TUnique None ["bf82"%string]); (TUnique None ["bf83"%string]); (TUnique None ["bf84"%string]); (TUnique None ["bf85"%string]); (TUnique None ["bf86"%string]); (TUnique None ["bf87"%string]); (TUnique None ["bf88"%string]); (TUnique None ["bf89"%string]); (TUnique None ["bf90"%string]); (TUnique None ["bf91"%string]); (TUnique None ["bf92"%string]); (TUnique None ["bf93"%string]); (TUnique None ["bf94"%string]); (TUnique None ["bf95"%string]); (TUnique None ["bf96"%string]); (TUnique None ["bf97"%string]); (TUnique None ["bf98"%string]); (TUnique None ["bf99"%string]); (TUnique None ["bf100"%string])]))])]])].
Definition a_ws_name_246 : schema := [(Pkg "app1"%string [[(Ws "Ws1"%string false [] None []); (Ws "Baaaaaaaaaaaaaaaaaaaaaaaaaaaaaaaaaaaaaaaaaaaaaaaaaaaaaaaaaaaaaaaaaaaaaaaaaaaaaaaaaaaaaaaaaaaaaaaaaaaaaaaaaaaaaaaaaaaaaaaaaaaaaaaaaaaaaaaaaaaaaaaaaaaaaaaaaaaaaaaaaaaaaaaaaaaaaaaaaaaaaaaaaaaaaaaaaaaaaaaaaaaaaaaaaaaaaaaaaaaaaaaaaaaaaaaaaaaaaaaaaaaaa"%string false [] None [])]])].
Definition a_uniques_100 : schema := [(Pkg "app1"%string [[(Ws "Ws1"%string false [] None [(ITable (Table "Bnd1"%string false (Some (QR "sys"%string "CDoc"%string)) [(TField (Fld "bf0"%string DInt32 false false None)); (TField (Fld "bf1"%string DInt32 false false None)); (TField (Fld "bf2"%string DInt32 false false None)); (TField (Fld "bf3"%string DInt32 false false None)); (TField (Fld "bf4"%string DInt32 false false None)); (TField (Fld "bf5"%string DInt32 false false None)); (TField (Fld "bf6"%string DInt32 false false None)); (TField (Fld "bf7"%string DInt32 false false None)); (TField (Fld "bf8"%string DInt32 false false None)); (TField (Fld "bf9"%string DInt32 false false None)); (TField (Fld "bf10"%string DInt32 false false None)); (TField (Fld "bf11"%string DInt32 false false None)); (TField (Fld "bf12"%string DInt32 false false None)); (TField (Fld "bf13"%string DInt32 false false None)); (TField (Fld "bf14"%string DInt32 false false None)); (TField (Fld "bf15"%string DInt32 false false None)); (TField (Fld "bf16"%string DInt32 false false None)); (TField (Fld "bf17"%string DInt32 false false None)); (TField (Fld "bf18"%string DInt32 false false None)); (TField (Fld "bf19"%string DInt32 false false None)); (TField (Fld "bf20"%string DInt32 false false None)); (TField (Fld "bf21"%string DInt32 false false None)); (TField (Fld "bf22"%string DInt32 false false None)); (TField (Fld "bf23"%string DInt32 false false None)); (TField (Fld "bf24"%string DInt32 false false None)); (TField (Fld "bf25"%string DInt32 false false None)); (TField (Fld "bf26"%string DInt32 false false None)); (TField (Fld "bf27"%string DInt32 false false None)); (TField (Fld "bf28"%string DInt32 false false None)); (TField (Fld "bf29"%string DInt32 false false None)); (TField (Fld "bf30"%string DInt32 false false None)); (TField (Fld "bf31"%string DInt32 false false None)); (TField (Fld "bf32"%string DInt32 false false None)); (TField (Fld "bf33"%string DInt32 false false None)); (TField (Fld "bf34"%string DInt32 false false None)); (TField (Fld "bf35"%string DInt32 false false None)); (TField (Fld "bf36"%string DInt32 false false None)); (TField (Fld "bf37"%string DInt32 false false None)); (TField (Fld "bf38"%string DInt32 false false None)); (TField (Fld "bf39"%string DInt32 false false None)); (TField (Fld "bf40"%string DInt32 false false None)); (TField (Fld "bf41"%string DInt32 false false None)); (TField (Fld "bf42"%string DInt32 false false None)); (TField (Fld "bf43"%string DInt32 false false None)); (TField (Fld "bf44"%string DInt32 false false None)); (TField (Fld "bf45"%string DInt32 false false None)); (TField (Fld "bf46"%string DInt32 false false None)); (TField (Fld "bf47"%string DInt32 false false None)); (TField (Fld "bf48"%string DInt32 false false None)); (TField (Fld "bf49"%string DInt32 false false None)); (TField (Fld "bf50"%string DInt32 false false None)); (TField (Fld "bf51"%string DInt32 false false None)); (TField (Fld "bf52"%string DInt32 false false None)); (TField (Fld "bf53"%string DInt32 false false None)); (TField (Fld "bf54"%string DInt32 false false None)); (TField (Fld "bf55"%string DInt32 false false None)); (TField (Fld "bf56"%string DInt32 false false None)); (TField (Fld "bf57"%string DInt32 false false None)); (TField (Fld "bf58"%string DInt32 false false None)); (TField (Fld "bf59"%string DInt32 false false None)); (TField (Fld "bf60"%string DInt32 false false None)); (TField (Fld "bf61"%string DInt32 false false None)); (TField (Fld "bf62"%string DInt32 false false None)); (TField (Fld "bf63"%string DInt32 false false None)); (TField (Fld "bf64"%string DInt32 false false None)); (TField (Fld "bf65"%string DInt32 false false None)); (TField (Fld "bf66"%string DInt32 false false None)); (TField (Fld "bf67"%string DInt32 false false None)); (TField (Fld "bf68"%string DInt32 false false None)); (TField (Fld "bf69"%string DInt32 false false None)); (TField (Fld "bf70"%string DInt32 false false None)); (TField (Fld "bf71"%string DInt32 false false None)); (TField (Fld "bf72"%string DInt32 false false None)); (TField (Fld "bf73"%string DInt32 false false None)); (TField (Fld "bf74"%string DInt32 false false None)); (TField (Fld "bf75"%string DInt32 false false None)); (TField (Fld "bf76"%string DInt32 false false None)); (TField (Fld "bf77"%string DInt32 false false None)); (TField (Fld "bf78"%string DInt32 false false None)); (TField (Fld "bf79"%string DInt32 false false None)); (TField (Fld "bf80"%string DInt32 false false None)); (TField (Fld "bf81"%string DInt32 false false None)); (TField (Fld "bf82"%string DInt32 false false None)); (TField (Fld "bf83"%string DInt32 false false None)); (TField (Fld "bf84"%string DInt32 false false None)); (TField (Fld "bf85"%string DInt32 false false None)); (TField (Fld "bf86"%string DInt32 false false None)); (TField (Fld "bf87"%string DInt32 false false None)); (TField (Fld "bf88"%string DInt32 false false None)); (TField (Fld "bf89"%string DInt32 false false None)); (TField (Fld "bf90"%string DInt32 false false None)); (TField (Fld "bf91"%string DInt32 false false None)); (TField (Fld "bf92"%string DInt32 false false None)); (TField (Fld "bf93"%string DInt32 false false None)); (TField (Fld "bf94"%string DInt32 false false None)); (TField (Fld "bf95"%string DInt32 false false None)); (TField (Fld "bf96"%string DInt32 false false None)); (TField (Fld "bf97"%string DInt32 false false None)); (TField (Fld "bf98"%string DInt32 false false None)); (TField (Fld "bf99"%string DInt32 false false None)); (TUnique None ["bf0"%string]); (TUnique None ["bf1"%string]); (TUnique None ["bf2"%string]); (TUnique None ["bf3"%string]); (TUnique None ["bf4"%string]); (TUnique None ["bf5"%string]); (TUnique None ["bf6"%string]); (TUnique None ["bf7"%string]); (TUnique None ["bf8"%string]); (TUnique None ["bf9"%string]); (TUnique None ["bf10"%string]); (TUnique None ["bf11"%string]); (TUnique None ["bf12"%string]); (TUnique None ["bf13"%string]); (TUnique None ["bf14"%string]); (TUnique None ["bf15"%string]); (TUnique None ["bf16"%string]); (TUnique None ["bf17"%string]); (TUnique None ["bf18"%string]); (TUnique None ["bf19"%string]); (TUnique None ["bf20"%string]); (TUnique None ["bf21"%string]); (TUnique None ["bf22"%string]); (TUnique None ["bf23"%string]); (TUnique None ["bf24"%string]); (TUnique None ["bf25"%string]); (TUnique None ["bf26"%string]); (TUnique None ["bf27"%string]); (TUnique None ["bf28"%string]); (TUnique None ["bf29"%string]); (TUnique None ["bf30"%string]); (TUnique None ["bf31"%string]); (TUnique None ["bf32"%string]); (TUnique None ["bf33"%string]); (TUnique None ["bf34"%string]); (TUnique None ["bf35"%string]); (TUnique None ["bf36"%string]); (TUnique None ["bf37"%string]); (TUnique None ["bf38"%string]); (TUnique None ["bf39"%string]); (TUnique None ["bf40"%string]); (TUnique None ["bf41"%string]); (TUnique None ["bf42"%string]); (TUnique None ["bf43"%string]); (TUnique None ["bf44"%string]); (TUnique None ["bf45"%string]); (TUnique None ["bf46"%string]); (TUnique None ["bf47"%string]); (TUnique None ["bf48"%string]); (TUnique None ["bf49"%string]); (TUnique None ["bf50"%string]); (TUnique None ["bf51"%string]); (TUnique None ["bf52"%string]); (TUnique None ["bf53"%string]); (TUnique None ["bf54"%string]); (TUnique None ["bf55"%string]); (TUnique None ["bf56"%string]); (TUnique None ["bf57"%string]); (TUnique None ["bf58"%string]); (TUnique None ["bf59"%string]); (TUnique None ["bf60"%string]); (TUnique None ["bf61"%string]); (TUnique None ["bf62"%string]); (TUnique None ["bf63"%string]); (TUnique None ["bf64"%string]); (TUnique None ["bf65"%string]); (TUnique None ["bf66"%string]); (TUnique None ["bf67"%string]); (TUnique None ["bf68"%string]); (TUnique None ["bf69"%string]); (TUnique None ["bf70"%string]); (TUnique None ["bf71"%string]); (TUnique None ["bf72"%string]); (TUnique None ["bf73"%string]); (TUnique None ["bf74"%string]); (TUnique None ["bf75"%string]); (TUnique None ["bf76"%string]); (TUnique None ["bf77"%string]); (TUnique None ["bf78"%string]); (TUnique None ["bf79"%string]); (TUnique None ["bf80"%string]); (TUnique None ["bf81"%string]); (TUnique None ["bf82"%string]); (TUnique None ["bf83"%string]); (TUnique None ["bf84"%string]); (TUnique None ["bf85"%string]); (TUnique None ["bf86"%string]); (TUnique None ["bf87"%string]); (TUnique None ["bf88"%string]); (TUnique None ["bf89"%string]); (TUnique None ["bf90"%string]); (TUnique None ["bf91"%string]); (TUnique None ["bf92"%string]); (TUnique None ["bf93"%string]); (TUnique None ["bf94"%string]); (TUnique None ["bf95"%string]); (TUnique None ["bf96"%string]); (TUnique None ["bf97"%string]); (TUnique None ["bf98"%string]); (TUnique None ["bf99"%string])]))])]])].

Example unrecovered_panic_on_uniques :
  wf a_uniques_101 = true /\ lexical a_uniques_101 = true /\ no_unique_collision a_uniques_101 Go = true
  /\ compile16_with false go_checks a_uniques_101 = VPanic /\ compile16 a_uniques_101 = VError
  /\ bv_limits (compile_items a_uniques_101 Go) = false.
Proof. vm_compute. repeat split. Qed.

Example unrecovered_panic_on_name_length :
  wf a_ws_name_246 = true /\ lexical a_ws_name_246 = true /\ no_unique_collision a_ws_name_246 Go = true
  /\ compile16_with false go_checks a_ws_name_246 = VPanic /\ compile16 a_ws_name_246 = VError
  /\ gen_names_short (compile_items a_ws_name_246 Go) = false.
Proof. vm_compute. repeat split. Qed.

(* non-vacuity: the boundary schema meets every hypothesis and compiles to a definition the
   validation model accepts *)
Example boundary_nonvacuous :
  wf a_uniques_100 = true /\ lexical a_uniques_100 = true /\ no_unique_collision a_uniques_100 Go = true
  /\ guards (compile_items a_uniques_100 Go) = true /\ builder_valid (compile_items a_uniques_100 Go) = true
  /\ match compile16 a_uniques_100 with VCompiled d => List.length d = 3%nat | _ => False end.
Proof. vm_compute. repeat split. Qed.

Print Assumptions names_used_once.
Print Assumptions references_and_containers_resolve.
Print Assumptions view_keys_well_formed.
Print Assumptions function_parameters_have_allowed_kinds.
Print Assumptions projector_triggers_and_intents_exist.
Print Assumptions limits_name_visible_rates_and_targets.
Print Assumptions acl_rules_name_visible_roles_and_resources.
Print Assumptions workspaces_ancestors_descriptors_exist.
Print Assumptions member_names_used_once_uniques_name_fields.
Print Assumptions names_well_formed.
Print Assumptions compiled_definition_passes_validation.
Print Assumptions compiler_model_total.
Print Assumptions compiler_model_compiles_within_guards.
Print Assumptions handed_out_definition_builds.
Print Assumptions no_unbuildable_definition.
Print Assumptions no_unbuildable_definition_when_analyser_checks.
Print Assumptions unbuildable_definition_refuted_F6.
Print Assumptions unbuildable_definition_refuted_F7.
Print Assumptions unbuildable_definition_refuted_F12.
Print Assumptions wf_inherits_chains_end.
Print Assumptions reaching_an_inherits_cycle_is_not_wf.
Print Assumptions unrecovered_panic_on_uniques.
Print Assumptions unrecovered_panic_on_name_length.
Print Assumptions boundary_nonvacuous.
