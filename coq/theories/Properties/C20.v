(* C20 - subscribers eventually learn the latest offset of each subscribed projection; reported
   offsets never decrease; Update never waits on watchers; quotas are respected and returned.
   Statements only; every proof is `exact <lemma>` into C20_Notify/{Wake,Mono,Drain,Quota,Stale,Proofs}.v.

   The model (C20_Notify/Model.v) is the interleaving of the lock-delimited steps of
   pkg/in10nmem/impl.go (after the fixes of F19 and C20-Q0 in /repo); [reach P q s evs] says that
   state s with event list evs is reachable from the empty broker with quotas q by steps that
   satisfy the side condition P:
     adm_mono  offsets of one projection are updated with non-decreasing values,
     adm_any   no condition. *)
From Coq Require Import List NArith Bool Lia Sorted.
From V Require Import Gen.Params C20_Notify.Model C20_Notify.Proofs.
Import ListNotations.
Local Open Scope N_scope.

(* side conditions on what the translator took from the Go source *)
Lemma events_cap_positive : 0 < cap.
Proof. vm_compute. reflexivity. Qed.
Lemma token_is_boolean : in10n_cchan_cap = 1.
Proof. reflexivity. Qed.
Lemma token_send_never_blocks : in10n_token_send_nonblocking = true.
Proof. reflexivity. Qed.
(* the two repairs are still in the source (a regression flips the flag, the model follows the old
   shape and every proof below that relies on the repaired shape breaks) *)
Lemma tosubscribe_written_under_broker_lock : mark_early = true.
Proof. exact mark_early_true. Qed.
Lemma first_channel_of_subject_checked : first_checked = true.
Proof. exact first_checked_true. Qed.
(* Update queues its event with an unconditional blocking send (with a select/default the flag is
   false, the model drops the event when the queue is full, and Wake.v - hence quiescent_delivered -
   no longer goes through: see drop_when_full_loses_last_offset_refuted) *)
Lemma update_enqueue_is_blocking : upd_blocking = true.
Proof. exact upd_blocking_true. Qed.

(* 1. Quiescence.  In every reachable state in which the event queue is empty, the notifier is
   idle and no API call is in flight, every subscription of a channel whose watcher is waiting
   with no token left has been marked delivered up to the projection's current offset - whatever
   the other watchers are doing (they may be parked anywhere), including updates made before the
   subscription.  (Delivered-marked offsets are handed to the callback by the same watcher before
   it waits again: the watcher is at WIdle only after AWDeliver.) *)
Theorem quiescent_delivered :
  forall q s evs, reach adm_mono q s evs ->
  queue s = [] -> notif s = NIdle -> calls s = [] ->
  forall c ch p d, get c (chans s) = Some ch -> c_w ch = WIdle -> c_tok ch = false ->
  get p (c_subs ch) = Some d -> d = offset s p.
Proof. exact quiescent_delivered_proved. Qed.

(* This is the full statement: concurrent Subscribe / Unsubscribe / cleanup of the same
   (channel, projection) in any overlap are covered (before the fix 8c5de4e31 it needed a
   non-overlap hypothesis and was refuted without it, finding F19).  The schedule that used to
   lose the subscription now ends with the offset delivered: *)
Example f19_schedule_delivers :
  exists s evs, run adm_mono (init qbig) f19_lost = Some (s, evs) /\ quiet s = true /\ offset s 0 = 5 /\
    (exists ch, get 0 (chans s) = Some ch /\ get 0 (c_subs ch) = Some 5) /\ reports 0 0 evs = [5].
Proof.
  destruct (run adm_mono (init qbig) f19_lost) as [[s evs]|] eqn:E; [|vm_compute in E; discriminate].
  exists s, evs. vm_compute in E. inversion E; subst; clear E. vm_compute.
  repeat split; try reflexivity. eexists. split; reflexivity.
Qed.

(* 1b. Conversely, at quiescence the notifier's subscribedChannels hold only channels whose
   subscription exists: nothing stale is signalled, and nothing is left once every channel has
   been cleaned up (its subscriptions are gone by cleanup_returns_all).  Any schedule. *)
Theorem quiescent_no_stale :
  forall P q s evs, reach P q s evs ->
  queue s = [] -> notif s = NIdle -> calls s = [] ->
  forall p c, In c (p_subd (getp p s)) ->
  exists ch d, get c (chans s) = Some ch /\ get p (c_subs ch) = Some d.
Proof. exact quiescent_no_stale_proved. Qed.

(* the schedule that used to leave a cleaned-up channel in subscribedChannels *)
Example f19_schedule_leaves_nothing :
  exists s evs, run adm_mono (init qbig) f19_stale = Some (s, evs) /\ quiet s = true /\ count_live (chans s) = 0 /\
    p_subd (getp 0 s) = [] /\ nsubs s = 0 /\ metric s 0 = (0, 0).
Proof.
  destruct (run adm_mono (init qbig) f19_stale) as [[s evs]|] eqn:E; [|vm_compute in E; discriminate].
  exists s, evs. vm_compute in E. inversion E; subst; clear E. vm_compute. repeat split; reflexivity.
Qed.

(* 2. Offsets reported to one channel for one projection never decrease (also across
   unsubscribe / re-subscribe), and never exceed the projection's offset. *)
Theorem reported_monotone :
  forall q s evs c p, reach adm_mono q s evs -> StronglySorted N.le (reports c p evs).
Proof. exact reported_monotone_proved. Qed.

Theorem reported_le_offset :
  forall q s evs c p r, reach adm_mono q s evs -> In r (reports c p evs) -> r <= offset s p.
Proof. exact reported_le_offset_proved. Qed.

(* 2b. Within one subscription this needs no hypothesis at all - not on the schedule and not on
   the offsets passed to Update (late or racing updaters may store a lower offset): the delivered
   offset of an existing subscription never goes down in any step, and a scan reports for a
   subscription only an offset strictly above its delivered one (which becomes the new delivered
   offset).  So what one subscription is told strictly increases; only Unsubscribe + Subscribe
   (a new subscription, delivered = 0) can repeat or, after a decreasing update, lower it. *)
Theorem delivered_never_decreases :
  forall s a s' o c p d d', step s a = Some (s', o) ->
  subv (chans s) c p = Some d -> subv (chans s') c p = Some d' -> d <= d'.
Proof. exact delivered_never_decreases_proved. Qed.

Theorem scan_reports_above_delivered :
  forall s c s' o ch u p x, step s (AWScan c) = Some (s', o) -> get c (chans s) = Some ch ->
  wv (chans s') c = WPend u -> In (p, x) u ->
  exists d, In (p, d) (c_subs ch) /\ d < x /\ x = offset s p.
Proof. exact scan_reports_above_delivered_proved. Qed.

(* a stale update: 7 delivered, then 3 stored (not admissible for adm_mono, so adm_any), the
   watcher is woken and scans: nothing is reported, delivered stays 7 *)
Example stale_update_is_ignored :
  let l := [ANewChan 0; ASubReg 0 0; ASubMark 0 0; ASubEnq 0 0; AWStart 0; AUpdStore 0 7; AUpdEnq 0;
            ANDeq; ANMerge; ANSend 0; ANDeq; ANMerge; ANSend 0; AWTake 0; AWScan 0; AWDeliver 0;
            AUpdStore 0 3; AUpdEnq 0; ANDeq; ANMerge; ANSend 0; AWTake 0; AWScan 0; AWDeliver 0] in
  exists s evs, run adm_any (init qbig) l = Some (s, evs) /\ quiet s = true /\ offset s 0 = 3 /\
    reports 0 0 evs = [7] /\ (exists ch, get 0 (chans s) = Some ch /\ get 0 (c_subs ch) = Some 7).
Proof.
  cbv zeta.
  match goal with |- exists s evs, run ?P ?i ?l = _ /\ _ => destruct (run P i l) as [[s evs]|] eqn:E; [|vm_compute in E; discriminate] end.
  exists s, evs. vm_compute in E. inversion E; subst; clear E. vm_compute.
  repeat split; try reflexivity. eexists. split; reflexivity.
Qed.

(* 3. Update never waits on a watcher: its first step is always enabled, and from every
   reachable state (no condition on the schedule, on tokens or on where watchers are parked) the
   notifier alone empties the queue - its steps never wait for a token to be taken - after which
   the Update's enqueue is enabled.  No watcher state changes on the way. *)
Theorem update_store_enabled : forall s p x, step s (AUpdStore p x) = Some (upd_store p x s, ONone).
Proof. exact update_store_enabled_proved. Qed.

Theorem notifier_drains_alone :
  forall P q s evs, reach P q s evs ->
  exists l s' evs', forallb is_notif l = true /\ run adm_any s l = Some (s', evs')
                    /\ notif s' = NIdle /\ queue s' = [] /\ calls s' = calls s
                    /\ (forall c, wv (chans s') c = wv (chans s) c).
Proof. exact notifier_drains_alone_proved. Qed.

Theorem update_completes_without_watchers :
  forall P q s evs p, reach P q s evs -> In (KUpd p) (calls s) ->
  exists l s1 evs1 s2, forallb is_notif l = true /\ run adm_any s l = Some (s1, evs1)
                       /\ (forall c, wv (chans s1) c = wv (chans s) c)
                       /\ step s1 (AUpdEnq p) = Some (s2, ONone).
Proof. exact (update_completes_without_watchers_proved events_cap_positive). Qed.

(* 3b. The enqueue of Update waits for nothing but room in the queue and never loses its event:
   whenever the step is taken the projection is queued. *)
Theorem update_event_never_dropped :
  forall s p s' o, step s (AUpdEnq p) = Some (s', o) -> queue s' = queue s ++ [p].
Proof. exact update_event_never_dropped_proved. Qed.

(* This is what quiescent_delivered rests on.  Under drop-when-full semantics of that enqueue
   (step_drop = the model with upd_blocking = false) the statement is false: ten queued updates
   of another projection, the update of projection 0 to 5 returns without an event, and at
   quiescence the waiting watcher of projection 0 has delivered 0 <> 5. *)
Theorem drop_when_full_loses_last_offset_refuted :
  exists s evs ch,
    run_with step_drop adm_mono (init qbig) (burst ++ [AUpdEnq 0] ++ drain10) = Some (s, evs) /\
    quiet s = true /\ get 0 (chans s) = Some ch /\ c_w ch = WIdle /\ get 0 (c_subs ch) = Some 0 /\ offset s 0 = 5.
Proof. exact drop_when_full_loses_last_offset_proved. Qed.

(* the same schedule on the code as it is: the Update is blocked while the queue is full
   (ABlocked accepted, AUpdEnq not enabled), passes after one dequeue, and 5 is delivered *)
Example blocking_send_keeps_last_offset :
  exists s evs s' evs',
    run adm_mono (init qbig) (burst ++ [ABlocked 0]) = Some (s, evs) /\ step s (AUpdEnq 0) = None /\
    run adm_mono s ([ANDeq; AUpdEnq 0; ANMerge] ++ drain10 ++ [ANSend 0; AWTake 0; AWScan 0; AWDeliver 0]) = Some (s', evs') /\
    quiet s' = true /\ reports 0 0 evs' = [5].
Proof. exact blocking_send_keeps_last_offset_proved. Qed.

(* 4. Quotas.  For every schedule: the broker's counters equal the true numbers of live channels
   and subscriptions (globally and per subject) and the true numbers respect the quotas ... *)
Theorem quota_invariant :
  forall P q s evs, reach P q s evs ->
  count_live (chans s) <= q_ch q /\ tot_subs s <= q_sub q
  /\ (forall j, subj_chans s j <= q_chs q /\ subj_subs s j <= q_subs q)
  /\ nsubs s = tot_subs s /\ (forall j, metric s j = (subj_chans s j, subj_subs s j)).
Proof. exact quota_invariant_proved. Qed.

(* ... for every quota value, 0 included (before the fix f750ec5e8 a subject's first channel was
   not checked, finding C20-Q0): with ChannelsPerSubject = 0 NewChannel is refused *)
Example quota_zero_refuses :
  let q := mkQ 4 0 9 6 in
  exists s evs, run adm_mono (init q) [ANewChan 7] = Some (s, evs) /\ evs = [(ANewChan 7, ORes RQChansSubj)] /\
    count_live (chans s) = 0 /\ subj_chans s 7 = 0.
Proof.
  cbv zeta. destruct (run adm_mono (init (mkQ 4 0 9 6)) [ANewChan 7]) as [[s evs]|] eqn:E; [|vm_compute in E; discriminate].
  exists s, evs. vm_compute in E. inversion E; subst; clear E. vm_compute. repeat split; reflexivity.
Qed.

(* ... and when every channel has been cleaned up all counters are zero again. *)
Theorem cleanup_returns_all :
  forall P q s evs, reach P q s evs -> count_live (chans s) = 0 ->
  nsubs s = 0 /\ forall j, metric s j = (0, 0).
Proof. exact cleanup_returns_all_proved. Qed.

(* the executable runs used by the examples and by `agrees` are reachability proofs *)
Theorem run_is_reach :
  forall P q l s evs, run P (init q) l = Some (s, evs) -> reach P q s evs.
Proof. intros P q l s evs H. exact (run_reach P q (init q) [] l s evs (reach_init P q) H). Qed.

(* ---- non-vacuity ---- *)
(* an admissible 57-step run: update 5 before any subscription, two channels subscribe and are
   watched, update 7 lands between a scan and its delivery, channel 0 unsubscribes and
   re-subscribes; at the end the hypotheses of quiescent_delivered hold and both subscriptions
   are at offset 7; channel 0 was told 5, 7 and (new subscription) 7 again *)
Example quiescent_delivered_nonvacuous :
  exists s evs, run adm_mono (init qbig) demo = Some (s, evs) /\
    queue s = [] /\ notif s = NIdle /\ calls s = [] /\ offset s 0 = 7 /\
    (exists ch, get 0 (chans s) = Some ch /\ c_w ch = WIdle /\ c_tok ch = false /\ get 0 (c_subs ch) = Some 7) /\
    (exists ch, get 1 (chans s) = Some ch /\ c_w ch = WIdle /\ c_tok ch = false /\ get 0 (c_subs ch) = Some 7) /\
    reports 0 0 evs = [5; 7; 7] /\ reports 1 0 evs = [7] /\ p_subd (getp 0 s) = [0; 1].
Proof.
  destruct (run adm_mono (init qbig) demo) as [[s evs]|] eqn:E; [|vm_compute in E; discriminate].
  exists s, evs. vm_compute in E. inversion E; subst; clear E. vm_compute.
  repeat split; try reflexivity; eexists; repeat split; reflexivity.
Qed.

(* Update's enqueue really can be disabled (full queue) and is enabled again after notifier steps only *)
Example update_blocked_only_by_queue :
  let l := flat_map (fun _ => [AUpdStore 0 1; AUpdEnq 0]) (seq 0 10) ++ [AUpdStore 0 1] in
  exists s evs, run adm_mono (init qbig) l = Some (s, evs) /\ step s (AUpdEnq 0) = None /\
    exists s1 o1 s2 o2 s3, step s ANDeq = Some (s1, o1) /\ step s1 ANMerge = Some (s2, o2) /\ step s2 (AUpdEnq 0) = Some (s3, ONone).
Proof.
  cbv zeta.
  destruct (run adm_mono (init qbig) (flat_map (fun _ => [AUpdStore 0 1; AUpdEnq 0]) (seq 0 10) ++ [AUpdStore 0 1])) as [[s evs]|] eqn:E; [|vm_compute in E; discriminate].
  exists s, evs. vm_compute in E. inversion E; subst; clear E. split; [reflexivity|]. split; [vm_compute; reflexivity|].
  repeat eexists; vm_compute; reflexivity.
Qed.

(* quotas: three channels of two subjects, subscriptions up to the per-subject quota, a refusal,
   then cleanup of everything returns every counter to zero *)
Example quota_nonvacuous :
  let q := mkQ 3 2 3 2 in
  let l := [ANewChan 0; ANewChan 0; ANewChan 1; ASubReg 0 0; ASubReg 1 0; ASubReg 2 1] in
  exists s evs, run adm_mono (init q) l = Some (s, evs) /\
    count_live (chans s) = 3 /\ tot_subs s = 3 /\ subj_chans s 0 = 2 /\ subj_subs s 0 = 2 /\
    fst (new_chan 0 s) = s /\ snd (sub_reg 2 0 s) = ORes RQSubs /\
    exists s' evs', run adm_mono s [ASubMark 0 0; ASubEnq 0 0; ASubMark 1 0; ASubEnq 1 0; ASubMark 2 1; ASubEnq 2 1;
                               AClnTerm 0; AClnReg 0 0; AUnsMark 0 0; AUnsEnq 0 0; AClnFin 0;
                               AClnTerm 1; AClnReg 1 0; AUnsMark 1 0; AUnsEnq 1 0; AClnFin 1;
                               AClnTerm 2; AClnReg 2 1; AUnsMark 2 1; AUnsEnq 2 1; AClnFin 2] = Some (s', evs') /\
      count_live (chans s') = 0 /\ nsubs s' = 0 /\ metric s' 0 = (0, 0) /\ metric s' 1 = (0, 0).
Proof.
  cbv zeta.
  destruct (run adm_mono (init (mkQ 3 2 3 2)) [ANewChan 0; ANewChan 0; ANewChan 1; ASubReg 0 0; ASubReg 1 0; ASubReg 2 1]) as [[s evs]|] eqn:E; [|vm_compute in E; discriminate].
  exists s, evs. vm_compute in E. inversion E; subst; clear E. split; [reflexivity|].
  repeat (split; [vm_compute; reflexivity|]).
  eexists. eexists. split; [vm_compute; reflexivity|]. vm_compute. repeat split; reflexivity.
Qed.

Print Assumptions quiescent_delivered.
Print Assumptions quiescent_no_stale.
Print Assumptions reported_monotone.
Print Assumptions reported_le_offset.
Print Assumptions delivered_never_decreases.
Print Assumptions scan_reports_above_delivered.
Print Assumptions update_store_enabled.
Print Assumptions notifier_drains_alone.
Print Assumptions update_completes_without_watchers.
Print Assumptions update_event_never_dropped.
Print Assumptions drop_when_full_loses_last_offset_refuted.
Print Assumptions quota_invariant.
Print Assumptions cleanup_returns_all.
Print Assumptions run_is_reach.
