(* C18 - the upgrade compatibility check (pkg/appdefcompat) flags every storage-breaking schema
   change.  Statements only; every proof is `exact <lemma>` into C18_Compat/Proofs.v.

   The comparer works on compatibility trees (AppDef / Types / <type> / Fields / <field> ...).
   All statements quantify over ALL trees [o] (old) and [n] (new), all paths and all positions;
   the only domain restriction is [wfb]: sibling node names are pairwise different (true of every
   tree buildTree makes: QNames, field names, container names are unique in their parent; checked
   on every observed tree by [agrees]).  [constrains] is the table of impl.go, [check_compat]
   is checkBackwardCompatibility(old,new).Errors. *)
From Coq Require Import List NArith Bool String.
From V Require Import Lib.Check Gen.Params C18_Compat.Model C18_Compat.Proofs.
Import ListNotations.
Local Open Scope string_scope.

(* ---- side conditions on the constants and the table the translator took from the Go source ---- *)
Lemma nonmod_has_no_order_bit : bit compat_c_non_modifiable compat_c_order_change_only = false.
Proof. reflexivity. Qed.

(* Fields: append-only - appending allowed, inserting not; removal and reordering reported *)
Lemma table_fields :
  let c := find_constraint "Fields" constrains in
  allows_append c = true /\ allows_insert c = false /\ reports_removal c = true /\ reports_reorder c = true.
Proof. vm_compute. repeat split. Qed.

(* Types (AppDef/Types and <workspace>/Types): insert-only - new members anywhere, removal reported *)
Lemma table_types :
  let c := find_constraint "Types" constrains in allows_insert c = true /\ reports_removal c = true.
Proof. vm_compute. repeat split. Qed.

(* view key: non-modifiable *)
Lemma table_view_key :
  forall nm, nm = "PartKeyFields" \/ nm = "ClustColsFields" ->
  let c := find_constraint nm constrains in
  is_nonmod c = true /\ reports_removal c = true /\ reports_reorder c = true /\ allows_append c = false.
Proof. intros nm [-> | ->]; vm_compute; repeat split. Qed.

(* Containers: insert-only (fix 9d1012ac0 of finding F15a) - new containers anywhere, removal reported *)
Lemma table_containers :
  let c := find_constraint "Containers" constrains in allows_insert c = true /\ reports_removal c = true.
Proof. vm_compute. repeat split. Qed.

(* nodes without a table row (type nodes, workspace nodes, Uniques, QueryArgs, QueryResult):
   everything is allowed below them *)
Lemma table_unconstrained :
  forall nm, In nm ["QueryArgs"; "QueryResult"; "Uniques"; "AppDef"; "app.T"] ->
  find_constraint nm constrains = compat_c_all_allowed.
Proof. intros nm H. cbn in H. repeat (destruct H as [<- | H]; [vm_compute; reflexivity|]). contradiction. Qed.

(* ---- 1. comparing a schema with itself reports nothing ---- *)
Theorem self_compare_silent : forall t, wfb t = true -> check_compat constrains t t = [].
Proof. exact (compare_refl_proved constrains). Qed.

(* ---- 2. compatible changes report nothing ----
   [Compat o n] (Model.v): same values; every old child has a same-named Compat counterpart in the
   same relative order; additional new children stand after all old ones where the node's
   constraint allows appending (Fields: table and view-value fields), anywhere where it allows
   inserting (Types: new types, new workspace members; unconstrained nodes), nowhere otherwise.
   Any number of such changes at once, at any depth. *)
Theorem compatible_changes_silent :
  forall o n, Compat constrains o n -> wfb n = true -> check_compat constrains o n = [].
Proof. exact (fun o n => compat_silent_proved constrains o n [tname o]). Qed.

(* the property's compatible edit kinds are instances of Compat, at every position: *)
Theorem append_fields_is_compat :      (* new fields at the end of a table / view value *)
  forall v fs extra, Compat constrains (Node "Fields" v fs) (Node "Fields" v (fs ++ extra)%list).
Proof. exact (fun v fs extra => compat_append_proved constrains "Fields" v fs extra (proj1 table_fields)). Qed.

Theorem insert_type_is_compat :        (* a new type / a new workspace member, at any index *)
  forall v a b x, Compat constrains (Node "Types" v (a ++ b)%list) (Node "Types" v (a ++ x :: b)%list).
Proof. exact (fun v a b x => compat_insert_proved constrains "Types" v a b x (proj1 table_types)). Qed.

Theorem compat_at_any_depth :          (* ... inside any child of any node *)
  forall nm v a b c c', tname c = tname c' -> Compat constrains c c' ->
  Compat constrains (Node nm v (a ++ c :: b)%list) (Node nm v (a ++ c' :: b)%list).
Proof. exact (compat_inside_proved constrains). Qed.

(* ---- 2b. a new type in a NEW package ("a version that only appends new types") ----
   Packages is insert-only since fix 73ee9ff73 (finding C18-PKG): a new package node is a compatible
   change wherever it stands among the children of AppDef/Packages (buildPackagesNode ranges over a Go
   map, so its position is arbitrary), and a removed package is still reported. *)
Lemma table_packages :
  let c := find_constraint "Packages" constrains in allows_insert c = true /\ reports_removal c = true.
Proof. vm_compute. split; reflexivity. Qed.

Theorem insert_package_is_compat :     (* a new package node, at any index *)
  forall v a b x, Compat constrains (Node "Packages" v (a ++ b)%list) (Node "Packages" v (a ++ x :: b)%list).
Proof. exact (fun v a b x => compat_insert_proved constrains "Packages" v a b x (proj1 table_packages)). Qed.

(* the table before the fix (Packages: AppendOnly|OrderChangeOnly), kept as the witness of the finding:
   under it the same pair of schemas (a type and its new package added, nothing else) was reported, with one
   or two errors depending on where the map order put the new package *)
Definition constrains_before_73ee9ff73 : ctable :=
  map (fun r => if String.eqb (fst r) "Packages" then (fst r, N.lor compat_c_append_only compat_c_order_change_only) else r) constrains.

Definition ex_pkg_old : tree :=
  Node "AppDef" VNil [Node "Types" VNil [Node "app.T" VNil []]; Node "Packages" VNil [Node "test.com/app" (VStr "app") []]].
Definition ex_pkg_new (lib_first : bool) : tree :=
  Node "AppDef" VNil [Node "Types" VNil [Node "app.T" VNil []; Node "lib.D" VNil []];
                      Node "Packages" VNil (if lib_first then [Node "test.com/lib" (VStr "lib") []; Node "test.com/app" (VStr "app") []]
                                            else [Node "test.com/app" (VStr "app") []; Node "test.com/lib" (VStr "lib") []])].

Theorem new_package_type_silent_refuted :   (* for the old table *)
  let cs := constrains_before_73ee9ff73 in
  wfb ex_pkg_old = true /\ wfb (ex_pkg_new false) = true /\ supertreeb ex_pkg_old (ex_pkg_new false) = true /\
  perm_b (pkgs (ex_pkg_new true)) (pkgs (ex_pkg_new false)) = true /\
  check_compat cs ex_pkg_old (ex_pkg_new false) = [mkerr 18 ["AppDef"; "Packages"] NodeModified] /\
  check_compat cs ex_pkg_old (ex_pkg_new true) = [mkerr 18 ["AppDef"; "Packages"] NodeInserted; mkerr 18 ["AppDef"; "Packages"] NodeModified].
Proof. vm_compute. repeat split. Qed.

(* with the current table both orders are Compat and silent *)
Example new_package_type_silent_nonvacuous :
  forall b, Compat constrains ex_pkg_old (ex_pkg_new b) /\ check_compat constrains ex_pkg_old (ex_pkg_new b) = [].
Proof. intros [|]; (split; [apply compatb_sound; vm_compute; reflexivity | vm_compute; reflexivity]). Qed.

(* ---- 3. removals: a child present in old and absent in new, under a node that exists in both
   trees, is reported at the child's path whatever else changed - for every node whose constraint
   reports removals, which the current table does for fields, types (application and workspace
   level), key fields and containers (the last since fix 9d1012ac0; before it the statement was
   refuted for Containers: finding F15a, corpus/C18/f15_container_removal.json) ---- *)
Definition ex_tbl (nm : string) (fs cs : list tree) : tree :=
  Node nm VNil [Node "Uniques" VNil []; Node "Fields" VNil fs; Node "Containers" VNil cs; Node "Abstract" (VBool false) []].
Definition ex_fld (nm : string) (k : N) : tree := Node nm (VKind k) [].
Definition ex_view (nm : string) (pk cc vs : list tree) : tree :=
  Node nm VNil [Node "PartKeyFields" VNil pk; Node "ClustColsFields" VNil cc; Node "Fields" VNil vs].
Definition ex_cmd (nm : string) (a r : value) : tree :=
  Node nm VNil [Node "CommandArgs" a []; Node "UnloggedArgs" VNil []; Node "CommandResult" r []].
Definition ex_qry (nm : string) (args res : list tree) : tree :=
  Node nm VNil [Node "QueryArgs" VNil args; Node "QueryResult" VNil res].
Definition ex_ws (nm : string) (members : list string) : tree :=
  Node nm VNil [Node "Types" VNil (map (fun m => Node m (VStr m) []) members); Node "Descriptor" (VStr "") []; Node "Abstract" (VBool false) []].
Definition ex_app (types : list tree) : tree :=
  Node "AppDef" VNil [Node "Types" VNil types; Node "Packages" VNil [Node "test.com/app" (VStr "app") []]].

Definition ex_T := ex_tbl "app.T" [ex_fld "sys.ID" 11; ex_fld "a" 3; ex_fld "b" 8; ex_fld "c" 4] [Node "c0" (VStr "app.R") []; Node "c1" (VStr "app.R") []].
Definition ex_old : tree :=
  ex_app [ex_cmd "app.C" (VStr "app.O") VNil; ex_qry "app.Q" [ex_fld "x" 3] [ex_fld "y" 8]; ex_T;
          ex_view "app.V" [ex_fld "p" 4; ex_fld "q" 3] [ex_fld "k" 8] [ex_fld "v" 3];
          ex_ws "app.W" ["app.C"; "app.Q"; "app.T"; "app.V"]].
(* replace the type at index i of AppDef/Types *)
Definition ex_with (i : nat) (t : tree) : tree :=
  match ex_old with
  | Node a v (Node b w ts :: rest) => Node a v (Node b w (firstn i ts ++ t :: skipn (S i) ts)%list :: rest)
  | x => x
  end.

Theorem removal_reported :
  forall o n par x po pn,
  sub_at par o = Some po -> sub_at par n = Some pn ->
  In x (map tname (tprops po)) -> ~ In x (map tname (tprops pn)) ->
  reports_removal (find_constraint (tname po) constrains) = true ->
  exists e, In e (check_compat constrains o n) /\ e_path e = (par ++ [x])%list /\
            e_constraint e = find_constraint (tname po) constrains /\ (e_type e = NodeRemoved \/ e_type e = NodeModified).
Proof. exact (removal_reported_proved constrains). Qed.

(* ... which holds for fields (tables, view values), types (application and workspace level), key fields and containers *)
Theorem removal_reported_fields_types_keys :
  forall nm, In nm ["Fields"; "Types"; "PartKeyFields"; "ClustColsFields"; "Containers"; "Packages"] ->
  reports_removal (find_constraint nm constrains) = true.
Proof. intros nm H. cbn in H. repeat (destruct H as [<- | H]; [vm_compute; reflexivity|]). contradiction. Qed.

(* ---- 4. reordering: a child that stands at another index (nothing removed from its parent) ---- *)
Theorem reorder_reported :
  forall o n par po pn k j oc y,
  sub_at par o = Some po -> sub_at par n = Some pn ->
  (forall c, In c (tprops po) -> In (tname c) (map tname (tprops pn))) ->
  nth_error (tprops po) k = Some oc -> find_last (tname oc) (tprops pn) = Some (j, y) -> k <> j ->
  reports_reorder (find_constraint (tname po) constrains) = true ->
  exists e, In e (check_compat constrains o n) /\ e_path e = (par ++ [tname oc])%list /\
            e_constraint e = find_constraint (tname po) constrains /\ (e_type e = OrderChanged \/ e_type e = NodeModified).
Proof. exact (reorder_reported_proved constrains). Qed.

Theorem reorder_reported_fields_keys :
  forall nm, In nm ["Fields"; "PartKeyFields"; "ClustColsFields"] ->
  reports_reorder (find_constraint nm constrains) = true.
Proof. intros nm H. cbn in H. repeat (destruct H as [<- | H]; [vm_compute; reflexivity|]). contradiction. Qed.

(* ---- 5. value changes (a field's data kind, a key field's kind, a command's argument, unlogged
   argument or result QName, a container's type): reported at the node, whatever the table says ---- *)
Theorem value_change_reported :
  forall o n q a b, sub_at q o = Some a -> sub_at q n = Some b -> tval a <> tval b ->
  In (mkerr compat_c_value_match q ValueChanged) (check_compat constrains o n).
Proof. exact (value_change_reported_proved constrains). Qed.

(* ---- 6. a changed child-name list (fields added, removed, renamed, permuted) ----
   Full statement (view key structure and query argument / result types):
     forall o n q a b, sub_at q o = Some a -> sub_at q n = Some b ->
       tname a ∈ {PartKeyFields, ClustColsFields, QueryArgs, QueryResult} ->
       names a <> names b -> exists e ∈ check_compat o n, e_path e = q or q ++ [x].
   Refuted by the current table for QueryArgs / QueryResult (finding F15): *)
Theorem element_change_reported_refuted :
  exists o n q a b,
    wfb o = true /\ wfb n = true /\
    sub_at q o = Some a /\ sub_at q n = Some b /\ tname a = "QueryArgs" /\
    map tname (tprops a) <> map tname (tprops b) /\
    check_compat constrains o n = [].
Proof.
  exists ex_old, (ex_with 1 (ex_qry "app.Q" [ex_fld "z" 4; ex_fld "w" 3] [ex_fld "y" 8])), ["AppDef"; "Types"; "app.Q"; "QueryArgs"].
  eexists. eexists. vm_compute. repeat split; try reflexivity. discriminate.
Qed.

(* Proved for every non-modifiable node (the view key) - the hypothesis excludes exactly the witness *)
Theorem element_change_reported_partial :
  forall o n q a b,
  sub_at q o = Some a -> sub_at q n = Some b ->
  is_nonmod (find_constraint (tname a) constrains) = true ->
  map tname (tprops a) <> map tname (tprops b) ->
  exists e, In e (check_compat constrains o n) /\ (e_path e = q \/ exists x, e_path e = (q ++ [x])%list).
Proof. exact (fun o n q a b => listchange_reported_proved constrains o n q a b nonmod_has_no_order_bit). Qed.

(* ---- 7. link to the observed traces: whenever the model reproduces a trace ([agrees]) and the
   claimed change is of a kind the table covers, the oracle [satisfies] accepts it ---- *)
Theorem agrees_satisfies :
  forall t, agrees t = true -> covered constrains t = true -> satisfies t = true.
Proof. exact (fun t => agrees_satisfies_proved t nonmod_has_no_order_bit). Qed.

(* ---- 8. the exported IgnoreCompatibilityErrors drops exactly the errors at the listed paths ---- *)
Theorem ignore_errors_spec :
  forall ps errs e, In e (ignore_errors ps errs) <-> In e errs /\ ~ In (e_path e) ps.
Proof. exact ignore_errors_spec_proved. Qed.

(* ---- non-vacuity: concrete schema trees meeting the hypotheses ---- *)
Example self_compare_nonvacuous : wfb ex_old = true /\ check_compat constrains ex_old ex_old = [].
Proof. vm_compute. split; reflexivity. Qed.

(* field appended to a table and to a view value, a type inserted first, a workspace member added - at once *)
Definition ex_compat_new : tree :=
  ex_app [ex_tbl "app.A" [ex_fld "n" 3] []; ex_cmd "app.C" (VStr "app.O") VNil; ex_qry "app.Q" [ex_fld "x" 3] [ex_fld "y" 8];
          ex_tbl "app.T" [ex_fld "sys.ID" 11; ex_fld "a" 3; ex_fld "b" 8; ex_fld "c" 4; ex_fld "d" 7] [Node "c0" (VStr "app.R") []; Node "c1" (VStr "app.R") []];
          ex_view "app.V" [ex_fld "p" 4; ex_fld "q" 3] [ex_fld "k" 8] [ex_fld "v" 3; ex_fld "w" 8];
          ex_ws "app.W" ["app.A"; "app.C"; "app.Q"; "app.T"; "app.V"]].
Example compatible_changes_nonvacuous :
  Compat constrains ex_old ex_compat_new /\ wfb ex_compat_new = true /\ ex_old <> ex_compat_new /\
  check_compat constrains ex_old ex_compat_new = [].
Proof.
  split; [apply compatb_sound; vm_compute; reflexivity|]. split; [vm_compute; reflexivity|].
  split; [discriminate | vm_compute; reflexivity].
Qed.

(* the same field inserted in the middle instead of appended is not Compat and is reported *)
Example insert_field_not_compat :
  let n := ex_with 2 (ex_tbl "app.T" [ex_fld "sys.ID" 11; ex_fld "d" 7; ex_fld "a" 3; ex_fld "b" 8; ex_fld "c" 4] [Node "c0" (VStr "app.R") []; Node "c1" (VStr "app.R") []]) in
  compatb constrains ex_old n = false /\
  map e_path (check_compat constrains ex_old n) =
    [["AppDef"; "Types"; "app.T"; "Fields"]; ["AppDef"; "Types"; "app.T"; "Fields"; "a"];
     ["AppDef"; "Types"; "app.T"; "Fields"; "b"]; ["AppDef"; "Types"; "app.T"; "Fields"; "c"]].
Proof. vm_compute. split; reflexivity. Qed.

Example container_removal_reported_nonvacuous :   (* container c0 removed from app.T (the F15a input) *)
  let n := ex_with 2 (ex_tbl "app.T" [ex_fld "sys.ID" 11; ex_fld "a" 3; ex_fld "b" 8; ex_fld "c" 4] [Node "c1" (VStr "app.R") []]) in
  check_compat constrains ex_old n = [mkerr compat_c_insert_only ["AppDef"; "Types"; "app.T"; "Containers"; "c0"] NodeRemoved].
Proof. vm_compute. reflexivity. Qed.

Example removal_reported_nonvacuous :   (* field b removed from app.T; type app.V removed *)
  let n1 := ex_with 2 (ex_tbl "app.T" [ex_fld "sys.ID" 11; ex_fld "a" 3; ex_fld "c" 4] [Node "c0" (VStr "app.R") []; Node "c1" (VStr "app.R") []]) in
  let n2 := ex_app [ex_cmd "app.C" (VStr "app.O") VNil; ex_qry "app.Q" [ex_fld "x" 3] [ex_fld "y" 8]; ex_T; ex_ws "app.W" ["app.C"; "app.Q"; "app.T"]] in
  check_compat constrains ex_old n1 = [mkerr compat_c_append_only ["AppDef"; "Types"; "app.T"; "Fields"; "b"] NodeRemoved] /\
  check_compat constrains ex_old n2 = [mkerr compat_c_insert_only ["AppDef"; "Types"; "app.V"] NodeRemoved;
                                       mkerr compat_c_insert_only ["AppDef"; "Types"; "app.W"; "Types"; "app.V"] NodeRemoved].
Proof. vm_compute. split; reflexivity. Qed.

Example reorder_reported_nonvacuous :   (* fields a and c swapped *)
  let n := ex_with 2 (ex_tbl "app.T" [ex_fld "sys.ID" 11; ex_fld "c" 4; ex_fld "b" 8; ex_fld "a" 3] [Node "c0" (VStr "app.R") []; Node "c1" (VStr "app.R") []]) in
  check_compat constrains ex_old n = [mkerr compat_c_append_only ["AppDef"; "Types"; "app.T"; "Fields"; "a"] OrderChanged;
                                      mkerr compat_c_append_only ["AppDef"; "Types"; "app.T"; "Fields"; "c"] OrderChanged].
Proof. vm_compute. reflexivity. Qed.

Example value_change_nonvacuous :       (* field kind changed; command argument and result changed *)
  let n1 := ex_with 2 (ex_tbl "app.T" [ex_fld "sys.ID" 11; ex_fld "a" 4; ex_fld "b" 8; ex_fld "c" 4] [Node "c0" (VStr "app.R") []; Node "c1" (VStr "app.R") []]) in
  let n2 := ex_with 0 (ex_cmd "app.C" VNil (VStr "app.O")) in
  check_compat constrains ex_old n1 = [mkerr compat_c_value_match ["AppDef"; "Types"; "app.T"; "Fields"; "a"] ValueChanged] /\
  check_compat constrains ex_old n2 = [mkerr compat_c_value_match ["AppDef"; "Types"; "app.C"; "CommandArgs"] ValueChanged;
                                       mkerr compat_c_value_match ["AppDef"; "Types"; "app.C"; "CommandResult"] ValueChanged].
Proof. vm_compute. split; reflexivity. Qed.

Example key_change_nonvacuous :         (* partition key field added; clustering column replaced *)
  let n1 := ex_with 3 (ex_view "app.V" [ex_fld "p" 4; ex_fld "q" 3; ex_fld "r" 3] [ex_fld "k" 8] [ex_fld "v" 3]) in
  let n2 := ex_with 3 (ex_view "app.V" [ex_fld "p" 4; ex_fld "q" 3] [ex_fld "m" 8] [ex_fld "v" 3]) in
  check_compat constrains ex_old n1 = [mkerr compat_c_non_modifiable ["AppDef"; "Types"; "app.V"; "PartKeyFields"] NodeModified] /\
  check_compat constrains ex_old n2 = [mkerr compat_c_non_modifiable ["AppDef"; "Types"; "app.V"; "ClustColsFields"; "k"] NodeModified].
Proof. vm_compute. split; reflexivity. Qed.

Example agrees_satisfies_nonvacuous :
  let n := ex_with 2 (ex_tbl "app.T" [ex_fld "sys.ID" 11; ex_fld "a" 3; ex_fld "c" 4] [Node "c0" (VStr "app.R") []; Node "c1" (VStr "app.R") []]) in
  let t := mkTrace ex_old n (CRemoved ["AppDef"; "Types"; "app.T"; "Fields"; "b"])
                   [mkerr compat_c_append_only ["AppDef"; "Types"; "app.T"; "Fields"; "b"] NodeRemoved] [] [] [] in
  agrees t = true /\ covered constrains t = true /\ satisfies t = true /\
  (* the F15b trace (query argument type changed) is reproduced by the model, not covered, and fails the oracle *)
  let n' := ex_with 1 (ex_qry "app.Q" [ex_fld "z" 4; ex_fld "w" 3] [ex_fld "y" 8]) in
  let t' := mkTrace ex_old n' (CChanged ["AppDef"; "Types"; "app.Q"; "QueryArgs"]) [] [] [] [] in
  agrees t' = true /\ covered constrains t' = false /\ satisfies t' = false.
Proof. vm_compute. repeat split. Qed.

Print Assumptions self_compare_silent.
Print Assumptions compatible_changes_silent.
Print Assumptions append_fields_is_compat.
Print Assumptions insert_type_is_compat.
Print Assumptions compat_at_any_depth.
Print Assumptions insert_package_is_compat.
Print Assumptions new_package_type_silent_refuted.
Print Assumptions removal_reported.
Print Assumptions removal_reported_fields_types_keys.
Print Assumptions reorder_reported.
Print Assumptions reorder_reported_fields_keys.
Print Assumptions value_change_reported.
Print Assumptions element_change_reported_refuted.
Print Assumptions element_change_reported_partial.
Print Assumptions agrees_satisfies.
Print Assumptions ignore_errors_spec.
