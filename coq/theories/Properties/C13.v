(* C13 - access decisions equal the declared grant/revoke semantics, default deny.
   Statements only; every proof is `exact <lemma>` into C13_ACL/{Proofs,Roles,Closure,Link}.v.
   Model: C13_ACL/Model.v (pkg/appdef/acl).  Names are numbered in QName order; fields 0..4 are
   the system fields.  The model takes three flags the translator reads from the Go source; the
   main theorems below are about the code as it is now (defects C13-F1..F6, F8 repaired: commits
   f6551f282, f6b8b67e8, feabf8710, 703ca3b05, 7ccaa0849, 96748c4dd) and rest on the three side-condition lemmas, so that a
   regression of any of the repairs re-opens them.  The shapes found before the repairs are kept
   at the end as refutation witnesses about explicit flag values. *)
From Coq Require Import List NArith Bool Relations.
From V Require Import Lib.Check Gen.Params C13_ACL.Model C13_ACL.Proofs C13_ACL.Roles C13_ACL.Closure C13_ACL.Link.
Import ListNotations.
Local Open Scope N_scope.

(* side conditions on what the translator took from the Go source *)
Lemma ops_distinct : NoDup [acl_op_insert; acl_op_update; acl_op_activate; acl_op_deactivate; acl_op_select; acl_op_execute; acl_op_inherits].
Proof. repeat constructor; cbn; intuition discriminate. Qed.
Lemma five_system_fields : acl_sys_field_count = 5.
Proof. reflexivity. Qed.
(* IsOperationAllowed expands the supplied roles over a snapshot of the slice (C13-F1 repaired) *)
Lemma role_loop_iterates_snapshot : acl_roles_loop_aliased = false.
Proof. reflexivity. Qed.
(* the Allow branch adds only fields the resource has and takes the result from the map (C13-F4 repaired) *)
Lemma grant_checks_field : acl_grant_checks_field = true.
Proof. reflexivity. Qed.
(* RecursiveRoleAncestors is one closure with a visited set (C13-F2/F3 repaired) *)
Lemma role_ancestors_is_closure : acl_rra_closure = true.
Proof. reflexivity. Qed.

(* GRANT ALL / REVOKE ALL is refused unless all types its filter matches have the same operations (C13-F5 repaired) *)
Lemma all_rule_requires_uniform_operations : acl_all_requires_uniform_ops = true.
Proof. reflexivity. Qed.
(* the VSQL compiler emits the GRANTs and REVOKEs of a block in textual order (C13-F6 repaired) *)
Lemma rules_compiled_in_source_order : parser_acl_grants_first = false.
Proof. reflexivity. Qed.
(* the compiler's operation lists for ALL / ALL(columns) ON TABLE are the documented SELECT, INSERT, UPDATE *)
Lemma vsql_all_is_the_documented_list :
  parser_all_table_ops = vsql_all_documented /\ parser_all_columns_table_ops = vsql_all_documented.
Proof. split; reflexivity. Qed.
(* a rule keeps its own copy of the field list it is declared with (C13-F8 repaired) *)
Lemma rule_clones_field_list : acl_rule_clones_fields = true.
Proof. reflexivity. Qed.

(* ===== declared rules ===== *)

(* The rule list the built application holds (per workspace and application-wide; compared with
   IWorkspace.ACL() / IAppDef.ACL() on every run) is the declared list in declaration order -
   nothing reordered, so a rule repeated after an opposing rule takes effect again. *)
Theorem rules_kept_in_declared_order : forall l, compiled_order l = l.
Proof. exact (compiled_order_cur rules_compiled_in_source_order). Qed.

(* A declared GRANT ALL / REVOKE ALL that the builder accepts gives every resource it matches exactly
   the operations applicable to that resource - what the oracle reads ALL as. *)
Theorem all_rule_covers_every_applicable_operation :
  forall S d t, accepted S d = true -> dall d = true -> dsrc d = false ->
  In t (vis_types S (dws d)) -> fmatch (rflt (drl d)) t = true -> rops (eff_rule S d) = taclops t.
Proof. exact (accepted_all_ops_cur all_rule_requires_uniform_operations). Qed.

(* VSQL's ALL on tables is documented as SELECT, INSERT, UPDATE (not ACTIVATE/DEACTIVATE; the builder's
   GrantAll/RevokeAll is a different, wider API): a compiled `GRANT/REVOKE ALL [(columns)] ON TABLE` rule
   carries exactly that list - which the oracle also reads such a statement as. *)
Theorem vsql_all_rule_has_the_documented_operations :
  forall S d, dall d = true -> dsrc d = true -> rops (eff_rule S d) = vsql_all_documented.
Proof. exact (vsql_all_ops vsql_all_is_the_documented_list). Qed.

(* A rule keeps the field list it was declared with, whatever the caller does afterwards with the
   slice it passed (C13-F8 repaired: the rule clones it). *)
Theorem rule_fields_kept : forall S d, rfields (eff_rule S d) = rfields (drl d).
Proof. exact (eff_rule_fields_cur rule_clones_field_list). Qed.

(* ===== the rule fold of checkOperationOnTypeForRoles ===== *)

(* For every ordered rule list (= every schema: ancestors' rules first), operation, resource with
   fields and role set: the allowed-field map holds only fields of the resource, and a field is in
   it iff some matching grant covers it and no later matching revoke covers it. *)
Theorem fields_fold_is_last_rule_wins :
  forall op t roles fs rules, tflds t = Some fs ->
  incl (snd (run acl_grant_checks_field op t roles rules)) fs /\
  forall f, In f fs -> (In f (snd (run acl_grant_checks_field op t roles rules)) <-> field_granted op t roles rules f).
Proof. exact (run_cur grant_checks_field). Qed.

(* Type-level result of the fold: the map is non-empty (resources with fields) / the last matching
   rule is a grant (commands, queries). *)
Theorem fold_result_with_fields :
  forall chk op t roles fs rules, tflds t = Some fs -> fs <> [] ->
  fst (run chk op t roles rules) = negb (is_nil (snd (run chk op t roles rules))).
Proof. exact run_result. Qed.
Theorem fold_result_without_fields :
  forall chk op t roles rules, tflds t = None ->
  (fst (run chk op t roles rules) = true <-> field_granted op t roles rules 0).
Proof. intros chk op t roles rules H. rewrite (run_result_nofields chk op t roles 0 rules H). apply spec_field_granted. Qed.

(* The decision is the declared one, for every rule list, operation, resource, requested field
   list within the resource and (expanded) role set: system role, or some field of the resource
   granted and every requested field granted (last rule wins per field, default deny). *)
Theorem decision_is_declared_semantics :
  forall sysr op t fld roles rules,
  match tflds t with Some fs => NoDup fs /\ fs <> [] /\ incl fld fs | None => True end ->
  (decide acl_grant_checks_field sysr op t fld roles rules = true <-> declared_allowed sysr op t fld roles rules).
Proof. exact (decide_cur grant_checks_field). Qed.

(* Nothing is allowed without a matching grant reaching one of the (expanded) caller roles. *)
Theorem default_deny :
  forall chk sysr op t fld roles rules, mem sysr roles = false ->
  (forall rl, In rl rules -> matched op t roles rl = true -> rallow rl = false) ->
  decide chk sysr op t fld roles rules = false.
Proof. exact default_deny. Qed.

Theorem system_role_allows :
  forall chk sysr op t fld roles rules, mem sysr roles = true -> decide chk sysr op t fld roles rules = true.
Proof. exact system_role_allows. Qed.

Theorem requested_fields_subset :
  forall chk sysr op t fld fld' roles rules, incl fld' fld ->
  decide chk sysr op t fld roles rules = true -> decide chk sysr op t fld' roles rules = true.
Proof. exact requested_fields_subset. Qed.

(* Unrelated declarations: rules matching no (operation, resource, role) of the request can be
   inserted or removed anywhere; two rule lists with the same matching sub-sequence decide alike. *)
Theorem unrelated_rules_irrelevant :
  forall chk sysr op t fld roles r1 x r2, (forall rl, In rl x -> matched op t roles rl = false) ->
  decide chk sysr op t fld roles (r1 ++ x ++ r2) = decide chk sysr op t fld roles (r1 ++ r2).
Proof. exact unrelated_rules_irrelevant. Qed.
Theorem same_matching_rules_same_decision :
  forall chk sysr op t fld roles ra rb, filter (matched op t roles) ra = filter (matched op t roles) rb ->
  decide chk sysr op t fld roles ra = decide chk sysr op t fld roles rb.
Proof. exact same_matched_same_decision. Qed.

(* The whole answer of IsOperationAllowed (errors included) depends on the supplied roles as a set. *)
Theorem role_order_irrelevant :
  forall c S sysr w op res fld rol rol', (forall x, In x rol <-> In x rol') ->
  is_allowed_gen c S sysr w op res fld rol = is_allowed_gen c S sysr w op res fld rol'.
Proof. exact role_order_irrelevant. Qed.

(* ===== role inheritance ===== *)

(* `reach S w` = reflexive-transitive closure of the inheritance declarations (principal, inherited
   role) of the workspace w and all its ancestors (`inh_edges`, each rule's filter evaluated
   over the types visible where it is declared). *)

(* RecursiveRoleAncestors always returns, and returns exactly the roles reachable from the role:
   sound and complete, cycles included. *)
Theorem role_ancestors_exact :
  forall S r w, exists l, rra_any acl_rra_closure S r w = Some l /\ forall x, In x l <-> reach S w r x.
Proof. exact (rra_cur role_ancestors_is_closure). Qed.
Theorem role_ancestors_sound :
  forall closure S r w l, rra_any closure S r w = Some l -> forall x, In x l -> inherits_star S w r x.
Proof. exact rra_any_sound. Qed.

(* The role set IsOperationAllowed decides with: the supplied names plus everything reachable from
   each supplied role - every supplied role is expanded, whatever their number and order. *)
Theorem expansion_exact :
  forall S w rol, exists l, expand S w rol = Some l /\
  forall x, In x l <-> In x rol \/ exists r, In r rol /\ is_role S w r = true /\ reach S w r x.
Proof. exact (expand_cur role_loop_iterates_snapshot role_ancestors_is_closure). Qed.
Theorem expansion_sound :
  forall closure S w r0 l, union_expand closure S w r0 = Some l ->
  forall x, In x l -> exists r, In r r0 /\ inherits_star S w r x.
Proof. exact union_expand_sound. Qed.

(* ===== IsOperationAllowed end to end ===== *)

(* A well-formed request (resource visible, operation applicable, fields of the resource, at least
   one role) is answered allow or deny - never an error, never no answer - and allow iff the
   declared grants/revokes of the workspace and its ancestors allow it for the supplied roles and
   everything they inherit. *)
Theorem access_decision_is_declared :
  forall S sysr w op res fld rol t,
  find_type S w res = Some t -> validate op t fld = None -> rol <> [] ->
  match tflds t with Some fs => NoDup fs /\ fs <> [] /\ incl fld fs | None => True end ->
  exists roles,
    (forall x, In x roles <-> In x rol \/ exists r, In r rol /\ is_role S w r = true /\ reach S w r x) /\
    (is_allowed S sysr w op res fld rol = OAllow \/ is_allowed S sysr w op res fld rol = ODeny) /\
    (is_allowed S sysr w op res fld rol = OAllow <-> declared_allowed sysr op t fld roles (all_rules S w)).
Proof. exact (is_allowed_cur role_loop_iterates_snapshot grant_checks_field role_ancestors_is_closure). Qed.

(* ===== link to the trace oracle ===== *)

(* Whatever the configuration: if a request is answered as the model answers, the model's role
   expansion for it is the declared inheritance closure (F1-F3 do not strike) and - without the
   field check - the matching grants list only fields of the resource (F4 does not strike), then
   the answer passes the oracle `sat_query` used by `satisfies`: errors exactly for malformed
   requests, otherwise the declared decision. *)
Theorem model_answer_satisfies_oracle :
  forall c S srules sysr q,
  qout q = is_allowed_gen c S sysr (qws q) (qop q) (qres q) (qflds q) (qroles q) ->
  (forall t, find_type S (qws q) (qres q) = Some t -> srules (qws q) t = all_rules S (qws q)) ->
  (is_nil (qroles q) = false ->
   expand_gen (c_aliased c) (c_closure c) S (qws q) (qroles q) = Some (spec_roles S (qws q) (qroles q))) ->
  (forall t fs, find_type S (qws q) (qres q) = Some t -> tflds t = Some fs ->
     NoDup fs /\ fs <> [] /\
     (c_chkfield c = true \/ rules_wf (qop q) t (spec_roles S (qws q) (qroles q)) fs (all_rules S (qws q)))) ->
  sat_query S srules sysr q = true.
Proof. exact sat_query_link. Qed.

(* The oracle reads a declared GRANT ALL / REVOKE ALL as "every operation applicable to the
   resource asked about"; the code gives the rule the operations of the first type its filter
   matches.  The two readings coincide whenever the matched types have the same applicable
   operations (always so for rules written in VSQL: tables, views and functions have separate
   statement forms). *)
Theorem grant_all_reading :
  forall S d t, dall d = true -> dsrc d = false -> In t (vis_types S (dws d)) -> fmatch (rflt (drl d)) t = true ->
  (forall t', In t' (vis_types S (dws d)) -> fmatch (rflt (drl d)) t' = true -> taclops t' = taclops t) ->
  rops (eff_rule S d) = taclops t.
Proof. exact eff_rule_uniform. Qed.

(* ===== the shapes found before the repairs (kept as witnesses over explicit flag values) ===== *)

(* C13-F4: without the field check a matching grant may list fields the resource does not have;
   they entered the map and its size was compared with the field count. *)
Theorem decision_refuted_without_field_check :
  exists sysr op t fld roles rules, (forall fs, tflds t = Some fs -> NoDup fs /\ incl fld fs) /\
    decide false sysr op t fld roles rules = true /\ ~ declared_allowed sysr op t fld roles rules.
Proof.
  exists 99, acl_op_insert, (mkTyp 14 8 21 [] (Some [0; 1; 4; 5]) true false false true [1; 2; 3; 4; 5]), [1], [11],
    [mkRule [acl_op_insert] true (FTypes [8]) [6; 7; 8] 11; mkRule [acl_op_insert] true (FQNames [14]) [5] 11].
  split; [|split].
  - intros fs E. inversion E; subst. split; [repeat constructor; cbn; intuition discriminate|].
    intros x [<-|[]]. cbn. auto.
  - vm_compute. reflexivity.
  - intros H. apply spec_decide_declared in H. vm_compute in H. discriminate.
Qed.
(* ... and what held then: the declared decision under `rules_wf` (matching grants list only fields of the resource) *)
Theorem decision_is_declared_semantics_either_shape :
  forall chk sysr op t fld roles rules,
  match tflds t with
  | Some fs => NoDup fs /\ fs <> [] /\ incl fld fs /\ (chk = true \/ rules_wf op t roles fs rules)
  | None => True
  end ->
  (decide chk sysr op t fld roles rules = true <-> declared_allowed sysr op t fld roles rules).
Proof. exact decide_declared. Qed.

(* C13-F1: the loop ranged over the slice it inserted into; with spare capacity (3, 5, 6, 7 ...
   distinct roles) an insertion shifted the elements still to be visited. *)
Theorem expansion_refuted_when_aliased :
  exists S w rol, expand_gen true false S w rol <> union_expand false S w (sfrom rol).
Proof.
  exists (mkSchema [mkTyp 10 19 20 [] None false false true false [8]; mkTyp 11 19 20 [] None false false true false [8];
                    mkTyp 12 19 20 [] None false false true false [8]; mkTyp 13 19 20 [] None false false true false [8];
                    mkTyp 15 19 20 [] None false false true false [8]]
            [mkWs 20 [] [mkRule [acl_op_inherits] true (FQNames [10]) [] 11; mkRule [acl_op_inherits] true (FQNames [15]) [] 13]]),
    20, [11; 12; 13].
  vm_compute. discriminate.
Qed.
Theorem expansion_partial_full_slice :
  forall closure S w rol, cap_for (length (sfrom rol)) = length (sfrom rol) ->
  expand_gen true closure S w rol = union_expand closure S w (sfrom rol).
Proof. intros closure S w rol H. rewrite (expand_full_slice true closure S w rol H). apply expand_unaliased_union. Qed.

(* C13-F2: an inherited role was only expanded in the workspace declaring the inheritance and above;
   C13-F3: with a cycle the recursion did not return. *)
Theorem role_ancestors_complete_refuted :
  exists S r w l x, rra_any false S r w = Some l /\ inherits_star S w r x /\ ~ In x l.
Proof.
  pose (role := fun n => mkTyp n 19 20 [] None false false true false [8]).
  exists (mkSchema [role 10; role 11; role 12]
            [mkWs 20 [] [mkRule [acl_op_inherits] true (FQNames [10]) [] 11];
             mkWs 21 [20] [mkRule [acl_op_inherits] true (FQNames [12]) [] 10]]), 11, 21, [10; 11], 12.
  split; [vm_compute; reflexivity|]. split.
  - apply rt_trans with (y := 10); apply rt_step.
    + exists 20, (mkRule [acl_op_inherits] true (FQNames [10]) [] 11), (role 10).
      repeat split; try reflexivity; try (cbn; auto; fail); try constructor.
      eapply as_step; [left; reflexivity|constructor].
    + exists 21, (mkRule [acl_op_inherits] true (FQNames [12]) [] 10), (role 12).
      repeat split; try reflexivity; try (cbn; auto; fail); try constructor.
      eapply as_step; [left; reflexivity|constructor].
  - cbn. intuition discriminate.
Qed.
Theorem role_ancestors_diverge_on_cycle :
  exists S r w, rra_any false S r w = None /\ exists l, rra_any true S r w = Some l.
Proof.
  pose (role := fun n => mkTyp n 19 20 [] None false false true false [8]).
  exists (mkSchema [role 10; role 11]
            [mkWs 20 [] [mkRule [acl_op_inherits] true (FQNames [11]) [] 10; mkRule [acl_op_inherits] true (FQNames [10]) [] 11]]), 10, 20.
  split; [vm_compute; reflexivity|]. eexists. vm_compute. reflexivity.
Qed.
(* C13-F8: a rule sharing the caller's slice shows whatever the caller writes there later ... *)
Theorem rule_fields_refuted_when_shared :
  exists S d, rfields (eff_rule_gen false S d) <> rfields (drl d).
Proof.
  exists (mkSchema [] []), (mkD 20 0 false [6] false (mkRule [acl_op_select] true (FQNames [14]) [5] 11)).
  vm_compute. discriminate.
Qed.
(* ... unless the caller leaves its slice alone *)
Theorem rule_fields_partial :
  forall clones S d, clones = true \/ dscr d = [] -> rfields (eff_rule_gen clones S d) = rfields (drl d).
Proof. intros clones S d H. exact (eff_fields_declared clones d H). Qed.

(* C13-F6: with all GRANTs of a block compiled before its REVOKEs the ACL is not the declared list and
   the decision changes (REVOKE; GRANT in one block: allowed as declared, denied as compiled) ... *)
Theorem grants_first_refuted :
  exists S l sysr w op res rol, compiled_order_gen true l <> l /\
    is_allowed (install S l) sysr w op res [] rol = OAllow /\
    is_allowed (install S (compiled_order_gen true l)) sysr w op res [] rol = ODeny.
Proof.
  exists (mkSchema [mkTyp 11 19 20 [] None false false true false [8]; mkTyp 14 5 20 [] (Some [0; 1; 4; 5]) true false false true [1; 2; 3; 4; 5]] [mkWs 20 [] []]),
    [mkD 20 7 false [] false (mkRule [acl_op_select] false (FQNames [14]) [] 11); mkD 20 7 false [] false (mkRule [acl_op_select] true (FQNames [14]) [] 11)],
    99, 20, acl_op_select, 14, [11].
  split; [vm_compute; discriminate|]. split; vm_compute; reflexivity.
Qed.
(* ... except for rules declared one by one (a block each), as through the builder API *)
Theorem grants_first_partial :
  forall gf l, NoDup (map dblk l) -> compiled_order_gen gf l = l.
Proof. exact compiled_order_distinct_blocks. Qed.
(* C13-F5: without the uniformity requirement an accepted ALL rule could give a resource fewer
   operations than apply to it (view sorting before a table) *)
Theorem all_rule_refuted_without_uniformity :
  exists S d t, accepted_gen false S d = true /\ dall d = true /\ In t (vis_types S (dws d)) /\
    fmatch (rflt (drl d)) t = true /\ dsrc d = false /\ rops (eff_rule S d) <> taclops t.
Proof.
  pose (v := mkTyp 13 12 20 [] (Some [0; 5]) false false false true [1; 2; 5]).
  pose (t := mkTyp 14 7 20 [] (Some [0; 1; 4; 5]) true false false true [1; 2; 3; 4; 5]).
  exists (mkSchema [v; t] [mkWs 20 [] []]), (mkD 20 0 true [] false (mkRule [] true (FQNames [13; 14]) [] 11)), t.
  split; [reflexivity|]. split; [reflexivity|]. split; [vm_compute; auto|]. split; [reflexivity|]. split; [reflexivity|]. vm_compute. discriminate.
Qed.

Theorem role_ancestors_complete_partial :
  forall S w, ancs S w = [] -> forall r x, inherits_star S w r x ->
  forall fuel l, rra fuel S r w = Some l -> In x l.
Proof. intros S w H r x Hs fuel l E. exact (rra_flat_complete S w H r x Hs fuel [] l E). Qed.

(* ===== non-vacuity ===== *)
Definition ex_doc := mkTyp 14 5 20 [] (Some [0; 1; 4; 5; 6]) true false false true [1; 2; 3; 4; 5].
Definition ex_cmd := mkTyp 16 16 20 [] None false true false true [6].
Definition ex_rules :=
  [mkRule [acl_op_select] true (FQNames [14]) [] 11;
   mkRule [acl_op_select] false (FQNames [14]) [6] 11;
   mkRule [acl_op_insert; acl_op_select] true (FTypes [5]) [5] 12;
   mkRule [acl_op_execute] true (FQNames [16]) [] 11;
   mkRule [acl_op_execute] false (FTypes [16]) [] 11].

Example decision_nonvacuous :
  decide false 99 acl_op_select ex_doc [5] [11] ex_rules = true /\ decide false 99 acl_op_select ex_doc [6] [11] ex_rules = false /\
  decide false 99 acl_op_select ex_doc [] [11] ex_rules = true /\ decide false 99 acl_op_insert ex_doc [5] [12] ex_rules = true /\
  decide false 99 acl_op_insert ex_doc [1] [12] ex_rules = false /\ decide false 99 acl_op_select ex_doc [1] [12] ex_rules = true /\
  decide false 99 acl_op_execute ex_cmd [] [11] ex_rules = false /\
  spec_decide 99 acl_op_select ex_doc [6] [11] ex_rules = false /\ spec_decide 99 acl_op_select ex_doc [1; 5] [12] ex_rules = true /\
  forallb (fun rl => negb (matched acl_op_select ex_doc [11] rl && rallow rl) || forallb (fun f => mem f [0; 1; 4; 5; 6]) (rfields rl)) ex_rules = true.
Proof. vm_compute. repeat split. Qed.

Example decision_with_field_check_nonvacuous :
  let t := mkTyp 14 8 21 [] (Some [0; 1; 4; 5]) true false false true [1; 2; 3; 4; 5] in
  let rules := [mkRule [acl_op_insert] true (FTypes [8]) [6; 7; 8] 11; mkRule [acl_op_insert] true (FQNames [14]) [5] 11] in
  decide true 99 acl_op_insert t [1] [11] rules = false /\ decide true 99 acl_op_insert t [5] [11] rules = true /\
  decide false 99 acl_op_insert t [1] [11] rules = true /\ spec_decide 99 acl_op_insert t [1] [11] rules = false.
Proof. vm_compute. repeat split. Qed.

Example default_deny_nonvacuous :
  forallb (fun rl => negb (matched acl_op_update ex_doc [11; 12] rl) || negb (rallow rl)) ex_rules = true /\
  existsb (fun rl => fmatch (rflt rl) ex_doc) ex_rules = true /\
  decide false 99 acl_op_update ex_doc [] [11; 12] ex_rules = false /\ decide false 99 acl_op_update ex_doc [] [11; 99] ex_rules = true.
Proof. vm_compute. repeat split. Qed.

Example unrelated_rules_nonvacuous :
  let x := [mkRule [acl_op_select] false (FQNames [14]) [] 13; mkRule [acl_op_update] true FTrue [] 11] in
  forallb (fun rl => negb (matched acl_op_select ex_doc [11] rl)) x = true /\
  decide false 99 acl_op_select ex_doc [5] [11] (firstn 1 ex_rules ++ x ++ skipn 1 ex_rules) = true /\
  decide false 99 acl_op_select ex_doc [6] [11] (firstn 1 ex_rules ++ x ++ skipn 1 ex_rules) = false.
Proof. vm_compute. repeat split. Qed.

Definition ex_role n := mkTyp n 19 20 [] None false false true false [8].
Definition ex_schema := mkSchema [ex_role 10; ex_role 11; ex_role 12; ex_role 13; mkTyp 14 5 20 [] (Some [0; 1; 4; 5]) true false false true [1; 2; 3; 4; 5]; ex_role 15]
  [mkWs 20 [] [mkRule [acl_op_inherits] true (FQNames [10]) [] 11; mkRule [acl_op_inherits] true (FQNames [15]) [] 13;
               mkRule [acl_op_select] true (FQNames [14]) [] 15]].

Example role_order_nonvacuous :
  is_allowed_gen (mkCfg false false false) ex_schema 99 20 acl_op_select 14 [] [11; 12; 13] = OAllow /\
  is_allowed_gen (mkCfg false false false) ex_schema 99 20 acl_op_select 14 [] [13; 11; 12; 11] = OAllow /\
  is_allowed_gen (mkCfg false false false) ex_schema 99 20 acl_op_select 14 [] [11; 12] = ODeny /\
  is_allowed_gen found_cfg ex_schema 99 20 acl_op_select 14 [] [11; 12; 13] = ODeny /\
  is_allowed_gen found_cfg ex_schema 99 20 acl_op_select 14 [] [10; 11; 12; 13] = OAllow /\
  is_allowed_gen found_cfg ex_schema 99 20 acl_op_select 14 [] [13] = OAllow.
Proof. vm_compute. repeat split. Qed.

Example expansion_nonvacuous :
  cap_for (length (sfrom [13; 10; 11; 12])) = length (sfrom [13; 10; 11; 12]) /\
  expand_gen true false ex_schema 20 [13; 10; 11; 12] = Some [10; 11; 12; 13; 15] /\
  union_expand false ex_schema 20 (sfrom [11; 12; 13]) = Some [10; 11; 12; 13; 15] /\
  union_expand true ex_schema 20 (sfrom [11; 12; 13]) = Some [10; 11; 12; 13; 15] /\
  rra_any false ex_schema 13 20 = Some [13; 15] /\ rra_any true ex_schema 13 20 = Some [13; 15] /\ ancs ex_schema 20 = [].
Proof. vm_compute. repeat split. Qed.

Example access_decision_nonvacuous :
  find_type ex_schema 20 14 = Some (mkTyp 14 5 20 [] (Some [0; 1; 4; 5]) true false false true [1; 2; 3; 4; 5]) /\
  validate acl_op_select (mkTyp 14 5 20 [] (Some [0; 1; 4; 5]) true false false true [1; 2; 3; 4; 5]) [1; 5] = None /\
  is_allowed ex_schema 99 20 acl_op_select 14 [1; 5] [11; 12; 13] = OAllow /\
  is_allowed ex_schema 99 20 acl_op_select 14 [1; 5] [11; 12] = ODeny /\
  expand ex_schema 20 [11; 12; 13] = Some [10; 11; 12; 13; 15] /\
  rra_any acl_rra_closure ex_schema 13 20 = Some [13; 15].
Proof. vm_compute. repeat split. Qed.

Example role_cycle_nonvacuous :
  let S := mkSchema [ex_role 10; ex_role 11; mkTyp 14 5 20 [] (Some [0; 1; 4; 5]) true false false true [1; 2; 3; 4; 5]]
            [mkWs 20 [] [mkRule [acl_op_inherits] true (FQNames [11]) [] 10; mkRule [acl_op_inherits] true (FQNames [10]) [] 11;
                         mkRule [acl_op_select] true (FQNames [14]) [] 11]] in
  rra_any acl_rra_closure S 10 20 = Some [10; 11] /\ is_allowed S 99 20 acl_op_select 14 [] [10] = OAllow.
Proof. vm_compute. repeat split. Qed.

Example declared_order_nonvacuous :
  let S0 := mkSchema [ex_role 11; mkTyp 14 5 20 [] (Some [0; 1; 4; 5]) true false false true [1; 2; 3; 4; 5];
                      mkTyp 16 12 20 [] (Some [0; 5]) false false false true [1; 2; 5]] [mkWs 20 [] []] in
  let g := mkD 20 0 false [] false (mkRule [acl_op_select] true (FQNames [14]) [] 11) in
  let r := mkD 20 0 false [] false (mkRule [acl_op_select] false (FQNames [14]) [] 11) in
  let all := mkD 20 0 true [] false (mkRule [] true (FQNames [14; 16]) [] 11) in
  is_allowed (install S0 [g; r; g]) 99 20 acl_op_select 14 [] [11] = OAllow /\
  is_allowed (install S0 [g; r]) 99 20 acl_op_select 14 [] [11] = ODeny /\
  is_allowed (install S0 [r; g; r]) 99 20 acl_op_select 14 [] [11] = ODeny /\
  rops (eff_rule S0 all) = [1; 2; 3; 4; 5] /\
  map rops (spec_rules S0 [all] 20 (mkTyp 16 12 20 [] (Some [0; 5]) false false false true [1; 2; 5])) = [[1; 2; 5]].
Proof. vm_compute. repeat split. Qed.

Example all_rule_nonvacuous :
  let S0 := mkSchema [mkTyp 13 7 20 [] (Some [0; 1; 4; 5]) true false false true [1; 2; 3; 4; 5];
                      mkTyp 14 5 20 [] (Some [0; 1; 4; 6]) true false false true [1; 2; 3; 4; 5];
                      mkTyp 16 12 20 [] (Some [0; 5]) false false false true [1; 2; 5]] [mkWs 20 [] []] in
  accepted S0 (mkD 20 0 true [] false (mkRule [] true (FQNames [13; 14]) [] 11)) = true /\
  rops (eff_rule S0 (mkD 20 0 true [] false (mkRule [] true (FQNames [13; 14]) [] 11))) = [1; 2; 3; 4; 5] /\
  accepted S0 (mkD 20 0 true [] false (mkRule [] true (FQNames [14; 16]) [] 11)) = false /\
  accepted S0 (mkD 20 0 false [] false (mkRule [acl_op_select] true (FQNames [14; 16]) [] 11)) = true.
Proof. vm_compute. repeat split. Qed.

(* consequences of the declared semantics that look odd (seed agent c13-5, observations 8a-8c); the
   oracle says the same as the code here, explicitly: a SELECT grant with a field list also grants the
   system fields of the resource (`touches`; pinned by the repository's own acl tests), a field-list
   revoke removes the listed fields only, the last rule that touches a field wins *)
Example implicit_system_fields_consequences :
  let t := mkTyp 14 5 20 [] (Some [0; 1; 4; 5; 6]) true false false true [1; 2; 3; 4; 5] in
  let g1 := mkRule [acl_op_select] true (FQNames [14]) [5] 11 in        (* GRANT SELECT(f5) *)
  let r1 := mkRule [acl_op_select] false (FQNames [14]) [5] 11 in       (* REVOKE SELECT(f5) *)
  let ga := mkRule [acl_op_select] true (FQNames [14]) [] 11 in         (* GRANT SELECT *)
  let rid := mkRule [acl_op_select] false (FQNames [14]) [1] 11 in      (* REVOKE SELECT(sys.ID) *)
  (* 8a: the system fields granted along with f5 survive the revoke of f5 *)
  spec_decide 99 acl_op_select t [] [11] [g1; r1] = true /\ decide true 99 acl_op_select t [] [11] [g1; r1] = true /\
  spec_decide 99 acl_op_select t [1] [11] [g1; r1] = true /\ spec_decide 99 acl_op_select t [5] [11] [g1; r1] = false /\
  (* 8b: a later field-list grant grants sys.ID again (last touching rule wins) *)
  spec_decide 99 acl_op_select t [1] [11] [ga; rid] = false /\
  spec_decide 99 acl_op_select t [1] [11] [ga; rid; g1] = true /\ decide true 99 acl_op_select t [1] [11] [ga; rid; g1] = true /\
  (* not so for other operations: no implicit system fields *)
  spec_decide 99 acl_op_insert t [1] [11] [mkRule [acl_op_insert] true (FQNames [14]) [5] 11] = false.
Proof. vm_compute. repeat split. Qed.

(* 8c: sibling ancestors are visited in the order Ancestors() reports them (name order), whatever
   the order they were listed in; the later one wins *)
Example sibling_ancestors_in_name_order :
  let t := mkTyp 14 5 21 [] (Some [0; 1; 4; 5]) true false false true [1; 2; 3; 4; 5] in
  let g := mkRule [acl_op_select] true (FQNames [14]) [] 11 in
  let r := mkRule [acl_op_select] false (FQNames [14]) [] 11 in
  let S a b := mkSchema [mkTyp 11 19 21 [] None false false true false [8]; t]
                 [mkWs 21 [] []; mkWs 22 [21] a; mkWs 23 [21] b; mkWs 24 [22; 23] []] in
  is_allowed (S [g] [r]) 99 24 acl_op_select 14 [] [11] = ODeny /\
  is_allowed (S [r] [g]) 99 24 acl_op_select 14 [] [11] = OAllow /\
  ws_order (S [g] [r]) 24 = [21; 22; 23; 24].
Proof. vm_compute. repeat split. Qed.

Example rule_fields_nonvacuous :
  let d := mkD 20 0 false [6] false (mkRule [acl_op_update] true (FQNames [14]) [5] 11) in
  rfields (eff_rule (mkSchema [] []) d) = [5] /\ rfields (eff_rule_gen false (mkSchema [] []) d) = [6].
Proof. vm_compute. split; reflexivity. Qed.

Example vsql_all_nonvacuous :
  let t := mkTyp 14 5 20 [] (Some [0; 1; 4; 5]) true false false true [1; 2; 3; 4; 5] in
  let S0 := mkSchema [ex_role 11; t] [mkWs 20 [] []] in
  let g o := mkD 20 0 false [] true (mkRule [o] true (FQNames [14]) [] 11) in
  let rall := mkD 20 0 true [] true (mkRule [] false (FQNames [14]) [] 11) in
  let l := [g acl_op_insert; g acl_op_select; g acl_op_activate; rall] in
  rops (eff_rule S0 rall) = [5; 1; 2] /\
  is_allowed (install S0 l) 99 20 acl_op_select 14 [] [11] = ODeny /\
  is_allowed (install S0 l) 99 20 acl_op_activate 14 [] [11] = OAllow /\
  map rops (spec_rules S0 [rall] 20 t) = [[5; 1; 2]].
Proof. vm_compute. repeat split. Qed.

Example link_nonvacuous :
  let q := mkQ 20 acl_op_select 14 [1; 5] [13; 10; 11; 12] OAllow in
  qout q = is_allowed_gen found_cfg ex_schema 99 20 acl_op_select 14 [1; 5] [13; 10; 11; 12] /\
  expand_gen true false ex_schema 20 (qroles q) = Some (spec_roles ex_schema 20 (qroles q)) /\
  sat_query ex_schema (fun w _ => all_rules ex_schema w) 99 q = true /\ sat_query ex_schema (fun w _ => all_rules ex_schema w) 99 (mkQ 20 acl_op_select 14 [1; 5] [13; 10; 11; 12] ODeny) = false /\
  sat_query ex_schema (fun w _ => all_rules ex_schema w) 99 (mkQ 20 acl_op_select 14 [7] [13] (OErr 1)) = true /\
  sat_query ex_schema (fun w _ => all_rules ex_schema w) 99 (mkQ 20 acl_op_select 14 [7] [13] ODeny) = false.
Proof. vm_compute. repeat split. Qed.

Print Assumptions rules_kept_in_declared_order.
Print Assumptions all_rule_covers_every_applicable_operation.
Print Assumptions vsql_all_rule_has_the_documented_operations.
Print Assumptions grants_first_refuted.
Print Assumptions grants_first_partial.
Print Assumptions all_rule_refuted_without_uniformity.
Print Assumptions rule_fields_refuted_when_shared.
Print Assumptions rule_fields_partial.
Print Assumptions rule_fields_kept.
Print Assumptions fields_fold_is_last_rule_wins.
Print Assumptions fold_result_with_fields.
Print Assumptions fold_result_without_fields.
Print Assumptions decision_is_declared_semantics.
Print Assumptions default_deny.
Print Assumptions system_role_allows.
Print Assumptions requested_fields_subset.
Print Assumptions unrelated_rules_irrelevant.
Print Assumptions same_matching_rules_same_decision.
Print Assumptions role_order_irrelevant.
Print Assumptions role_ancestors_exact.
Print Assumptions role_ancestors_sound.
Print Assumptions expansion_exact.
Print Assumptions expansion_sound.
Print Assumptions access_decision_is_declared.
Print Assumptions model_answer_satisfies_oracle.
Print Assumptions grant_all_reading.
Print Assumptions decision_refuted_without_field_check.
Print Assumptions decision_is_declared_semantics_either_shape.
Print Assumptions expansion_refuted_when_aliased.
Print Assumptions expansion_partial_full_slice.
Print Assumptions role_ancestors_complete_refuted.
Print Assumptions role_ancestors_diverge_on_cycle.
Print Assumptions role_ancestors_complete_partial.
