(* C13 - access decisions equal the declared grant/revoke semantics, default deny.
   Statements only; every proof is `exact <lemma>` into C13_ACL/{Proofs,Roles}.v.
   Model: C13_ACL/Model.v (pkg/appdef/acl as the code is).  Names are numbered in QName order;
   fields 0..4 are the system fields. *)
From Coq Require Import List NArith Bool Relations.
From V Require Import Lib.Check Gen.Params C13_ACL.Model C13_ACL.Proofs C13_ACL.Roles C13_ACL.Link.
Import ListNotations.
Local Open Scope N_scope.

(* side conditions on what the translator took from the Go source *)
Lemma ops_distinct : NoDup [acl_op_insert; acl_op_update; acl_op_activate; acl_op_deactivate; acl_op_select; acl_op_execute; acl_op_inherits].
Proof. repeat constructor; cbn; intuition discriminate. Qed.
Lemma five_system_fields : acl_sys_field_count = 5.
Proof. reflexivity. Qed.

(* The model is parametric in the three places where the code was found to violate the property
   (findings C13-F1, F2/F3, F4): `found_cfg` is the code as first read, `cur_cfg` is what the
   translator reads from the source now, so the statements marked "if repaired" apply to the code
   as soon as the repair is in the source.  `chk` below is `c_chkfield`: the Allow branch adds
   only fields the resource has. *)

(* ===== the rule fold of checkOperationOnTypeForRoles ===== *)

(* Per field, for every ordered rule list (= every schema: ancestors' rules first), operation,
   resource with fields and role set: a field of the resource (without the check: any name) is in
   the allowed-field map the code builds iff some matching grant covers it and no later matching
   revoke covers it. *)
Theorem fields_fold_is_last_rule_wins :
  forall chk op t roles fs rules f, tflds t = Some fs -> chk = false \/ In f fs ->
  (In f (snd (run chk op t roles rules)) <-> field_granted op t roles rules f).
Proof. exact run_field_granted. Qed.

(* Type-level result of the fold: some name is in the map (resources with fields) / the last
   matching rule is a grant (commands, queries). *)
Theorem fold_result_with_fields :
  forall chk op t roles fs rules, tflds t = Some fs -> fs <> [] ->
  fst (run chk op t roles rules) = negb (is_nil (snd (run chk op t roles rules))).
Proof. exact run_result. Qed.
Theorem fold_result_without_fields :
  forall chk op t roles rules, tflds t = None ->
  (fst (run chk op t roles rules) = true <-> field_granted op t roles rules 0).
Proof. intros chk op t roles rules H. rewrite (run_result_nofields chk op t roles 0 rules H). apply spec_field_granted. Qed.

(* FULL STATEMENT (refuted by the code as found, finding C13-F4):
     forall sysr op t fld roles rules, (fld within the fields of t) ->
       (decide false sysr op t fld roles rules = true <-> declared_allowed sysr op t fld roles rules).
   A matching grant may list fields the resource does not have (a rule of an ancestor workspace
   whose TYPES filter also matches a descendant's table); the code puts them into the map and
   then compares the map size with the field count. *)
Theorem decision_refuted_without_field_check :
  exists sysr op t fld roles rules, (forall fs, tflds t = Some fs -> NoDup fs /\ incl fld fs) /\
    decide false sysr op t fld roles rules = true /\ ~ declared_allowed sysr op t fld roles rules.
Proof.
  exists 99, acl_op_insert, (mkTyp 14 8 21 [] (Some [0; 1; 4; 5]) true false false true [1; 2; 3; 4; 5]), [1], [11],
    [mkRule [acl_op_insert] true (FTypes [8]) [6; 7; 8] 11; mkRule [acl_op_insert] true (FQNames [14]) [5] 11].
  split; [|split].
  - intros fs E. inversion E; subst. split; [repeat constructor; cbn; intuition discriminate|].
    intros x [<-|[]]. cbn. auto.
  - vm_compute. reflexivity.
  - intros H. apply spec_decide_declared in H. vm_compute in H. discriminate.
Qed.

(* The decision is the declared one - system role, or some field of the resource granted and every
   requested field granted (last rule wins per field, default deny) - for every rule list when the
   Allow branch checks the fields (repaired code), and for the code as found (PARTIAL) under the
   extra hypothesis `rules_wf`, which is exactly what excludes the witness: matching grants list
   only fields of the resource. *)
Theorem decision_is_declared_semantics :
  forall chk sysr op t fld roles rules,
  match tflds t with
  | Some fs => NoDup fs /\ fs <> [] /\ incl fld fs /\ (chk = true \/ rules_wf op t roles fs rules)
  | None => True
  end ->
  (decide chk sysr op t fld roles rules = true <-> declared_allowed sysr op t fld roles rules).
Proof. exact decide_declared. Qed.

(* Nothing is allowed without a matching grant reaching one of the (expanded) caller roles. *)
Theorem default_deny :
  forall chk sysr op t fld roles rules, mem sysr roles = false ->
  (forall rl, In rl rules -> matched op t roles rl = true -> rallow rl = false) ->
  decide chk sysr op t fld roles rules = false.
Proof. exact default_deny. Qed.

Theorem system_role_allows :
  forall chk sysr op t fld roles rules, mem sysr roles = true -> decide chk sysr op t fld roles rules = true.
Proof. exact system_role_allows. Qed.

Theorem requested_fields_subset :
  forall chk sysr op t fld fld' roles rules, incl fld' fld ->
  decide chk sysr op t fld roles rules = true -> decide chk sysr op t fld' roles rules = true.
Proof. exact requested_fields_subset. Qed.

(* Unrelated declarations: rules matching no (operation, resource, role) of the request can be
   inserted or removed anywhere; two rule lists with the same matching sub-sequence decide alike. *)
Theorem unrelated_rules_irrelevant :
  forall chk sysr op t fld roles r1 x r2, (forall rl, In rl x -> matched op t roles rl = false) ->
  decide chk sysr op t fld roles (r1 ++ x ++ r2) = decide chk sysr op t fld roles (r1 ++ r2).
Proof. exact unrelated_rules_irrelevant. Qed.
Theorem same_matching_rules_same_decision :
  forall chk sysr op t fld roles ra rb, filter (matched op t roles) ra = filter (matched op t roles) rb ->
  decide chk sysr op t fld roles ra = decide chk sysr op t fld roles rb.
Proof. exact same_matched_same_decision. Qed.

(* The whole answer of IsOperationAllowed (errors included) depends on the supplied roles as a set. *)
Theorem role_order_irrelevant :
  forall c S sysr w op res fld rol rol', (forall x, In x rol <-> In x rol') ->
  is_allowed_gen c S sysr w op res fld rol = is_allowed_gen c S sysr w op res fld rol'.
Proof. exact role_order_irrelevant. Qed.

(* ===== role expansion ===== *)

(* FULL STATEMENT (refuted by the code as found, finding C13-F1):
     forall closure S w rol, expand_gen true closure S w rol = union_expand closure S w (sfrom rol)
   i.e. every supplied role is expanded by its recursive ancestors.  The loop ranges over the
   slice it inserts into; with spare capacity (3, 5, 6, 7 ... distinct roles) an insertion shifts
   the elements still to be visited and a supplied role is skipped. *)
Theorem expansion_refuted_when_aliased :
  exists S w rol, expand_gen true false S w rol <> union_expand false S w (sfrom rol).
Proof.
  exists (mkSchema [mkTyp 10 19 20 [] None false false true false [8]; mkTyp 11 19 20 [] None false false true false [8];
                    mkTyp 12 19 20 [] None false false true false [8]; mkTyp 13 19 20 [] None false false true false [8];
                    mkTyp 15 19 20 [] None false false true false [8]]
            [mkWs 20 [] [mkRule [acl_op_inherits] true (FQNames [10]) [] 11; mkRule [acl_op_inherits] true (FQNames [15]) [] 13]]),
    20, [11; 12; 13].
  vm_compute. discriminate.
Qed.
(* PARTIAL: a full slice (1, 2, 4, 8 ... distinct supplied roles) is never shifted. *)
Theorem expansion_partial_full_slice :
  forall closure S w rol, cap_for (length (sfrom rol)) = length (sfrom rol) ->
  expand_gen true closure S w rol = union_expand closure S w (sfrom rol).
Proof. intros closure S w rol H. rewrite (expand_full_slice true closure S w rol H). apply expand_unaliased_union. Qed.
(* the statement at full strength for a loop over a snapshot; `expand` is `expand_gen` of the
   flags the translator reads from the source, so it holds for the code once F1 is repaired *)
Theorem expansion_complete_if_loop_not_aliased :
  acl_roles_loop_aliased = false -> forall S w rol, expand S w rol = union_expand acl_rra_closure S w (sfrom rol).
Proof. intros H S w rol. unfold expand. rewrite H. apply expand_unaliased_union. Qed.

(* Nothing enters the expanded role set without a chain of inheritance declarations, visible in
   the workspace or an ancestor, from a supplied role (either shape of RecursiveRoleAncestors). *)
Theorem expansion_sound :
  forall closure S w r0 l, union_expand closure S w r0 = Some l ->
  forall x, In x l -> exists r, In r r0 /\ inherits_star S w r x.
Proof. exact union_expand_sound. Qed.
Theorem role_ancestors_sound :
  forall closure S r w l, rra_any closure S r w = Some l -> forall x, In x l -> inherits_star S w r x.
Proof. exact rra_any_sound. Qed.

(* FULL STATEMENT (refuted by the code as found, finding C13-F2):
     forall S r w l, rra_any false S r w = Some l -> forall x, inherits_star S w r x -> In x l.
   An inherited role is only expanded in the workspace that declares the inheritance and above.
   (F3: with a cycle `rra_any false` is None - the Go recursion does not return.) *)
Theorem role_ancestors_complete_refuted :
  exists S r w l x, rra_any false S r w = Some l /\ inherits_star S w r x /\ ~ In x l.
Proof.
  pose (role := fun n => mkTyp n 19 20 [] None false false true false [8]).
  exists (mkSchema [role 10; role 11; role 12]
            [mkWs 20 [] [mkRule [acl_op_inherits] true (FQNames [10]) [] 11];
             mkWs 21 [20] [mkRule [acl_op_inherits] true (FQNames [12]) [] 10]]), 11, 21, [10; 11], 12.
  split; [vm_compute; reflexivity|]. split.
  - apply rt_trans with (y := 10); apply rt_step.
    + exists 20, (mkRule [acl_op_inherits] true (FQNames [10]) [] 11), (role 10).
      repeat split; try reflexivity; try (cbn; auto; fail); try constructor.
      eapply as_step; [left; reflexivity|constructor].
    + exists 21, (mkRule [acl_op_inherits] true (FQNames [12]) [] 10), (role 12).
      repeat split; try reflexivity; try (cbn; auto; fail); try constructor.
      eapply as_step; [left; reflexivity|constructor].
  - cbn. intuition discriminate.
Qed.
Theorem role_ancestors_diverge_on_cycle :
  exists S r w, rra_any false S r w = None /\ exists l, rra_any true S r w = Some l.
Proof.
  pose (role := fun n => mkTyp n 19 20 [] None false false true false [8]).
  exists (mkSchema [role 10; role 11]
            [mkWs 20 [] [mkRule [acl_op_inherits] true (FQNames [11]) [] 10; mkRule [acl_op_inherits] true (FQNames [10]) [] 11]]), 10, 20.
  split; [vm_compute; reflexivity|]. eexists. vm_compute. reflexivity.
Qed.
(* PARTIAL: inside a workspace without ancestors the result, when there is one, is the closure. *)
Theorem role_ancestors_complete_partial :
  forall S w, ancs S w = [] -> forall r x, inherits_star S w r x ->
  forall fuel l, rra fuel S r w = Some l -> In x l.
Proof. intros S w H r x Hs fuel l E. exact (rra_flat_complete S w H r x Hs fuel [] l E). Qed.

(* ===== link to the trace oracle ===== *)

(* Whatever the configuration: if a request is answered as the model answers, the model's role
   expansion for it is the declared inheritance closure (F1-F3 do not strike) and - without the
   field check - the matching grants list only fields of the resource (F4 does not strike), then
   the answer passes the oracle `sat_query` used by `satisfies`: errors exactly for malformed
   requests, otherwise the declared decision. *)
Theorem model_answer_satisfies_oracle :
  forall c S sysr q,
  qout q = is_allowed_gen c S sysr (qws q) (qop q) (qres q) (qflds q) (qroles q) ->
  (is_nil (qroles q) = false ->
   expand_gen (c_aliased c) (c_closure c) S (qws q) (qroles q) = Some (spec_roles S (qws q) (qroles q))) ->
  (forall t fs, find_type S (qws q) (qres q) = Some t -> tflds t = Some fs ->
     NoDup fs /\ fs <> [] /\
     (c_chkfield c = true \/ rules_wf (qop q) t (spec_roles S (qws q) (qroles q)) fs (all_rules S (qws q)))) ->
  sat_query S sysr q = true.
Proof. exact sat_query_link. Qed.

(* ===== non-vacuity ===== *)
Definition ex_doc := mkTyp 14 5 20 [] (Some [0; 1; 4; 5; 6]) true false false true [1; 2; 3; 4; 5].
Definition ex_cmd := mkTyp 16 16 20 [] None false true false true [6].
Definition ex_rules :=
  [mkRule [acl_op_select] true (FQNames [14]) [] 11;
   mkRule [acl_op_select] false (FQNames [14]) [6] 11;
   mkRule [acl_op_insert; acl_op_select] true (FTypes [5]) [5] 12;
   mkRule [acl_op_execute] true (FQNames [16]) [] 11;
   mkRule [acl_op_execute] false (FTypes [16]) [] 11].

Example decision_nonvacuous :
  decide false 99 acl_op_select ex_doc [5] [11] ex_rules = true /\ decide false 99 acl_op_select ex_doc [6] [11] ex_rules = false /\
  decide false 99 acl_op_select ex_doc [] [11] ex_rules = true /\ decide false 99 acl_op_insert ex_doc [5] [12] ex_rules = true /\
  decide false 99 acl_op_insert ex_doc [1] [12] ex_rules = false /\ decide false 99 acl_op_select ex_doc [1] [12] ex_rules = true /\
  decide false 99 acl_op_execute ex_cmd [] [11] ex_rules = false /\
  spec_decide 99 acl_op_select ex_doc [6] [11] ex_rules = false /\ spec_decide 99 acl_op_select ex_doc [1; 5] [12] ex_rules = true /\
  forallb (fun rl => negb (matched acl_op_select ex_doc [11] rl && rallow rl) || forallb (fun f => mem f [0; 1; 4; 5; 6]) (rfields rl)) ex_rules = true.
Proof. vm_compute. repeat split. Qed.

Example decision_with_field_check_nonvacuous :
  let t := mkTyp 14 8 21 [] (Some [0; 1; 4; 5]) true false false true [1; 2; 3; 4; 5] in
  let rules := [mkRule [acl_op_insert] true (FTypes [8]) [6; 7; 8] 11; mkRule [acl_op_insert] true (FQNames [14]) [5] 11] in
  decide true 99 acl_op_insert t [1] [11] rules = false /\ decide true 99 acl_op_insert t [5] [11] rules = true /\
  decide false 99 acl_op_insert t [1] [11] rules = true /\ spec_decide 99 acl_op_insert t [1] [11] rules = false.
Proof. vm_compute. repeat split. Qed.

Example default_deny_nonvacuous :
  forallb (fun rl => negb (matched acl_op_update ex_doc [11; 12] rl) || negb (rallow rl)) ex_rules = true /\
  existsb (fun rl => fmatch (rflt rl) ex_doc) ex_rules = true /\
  decide false 99 acl_op_update ex_doc [] [11; 12] ex_rules = false /\ decide false 99 acl_op_update ex_doc [] [11; 99] ex_rules = true.
Proof. vm_compute. repeat split. Qed.

Example unrelated_rules_nonvacuous :
  let x := [mkRule [acl_op_select] false (FQNames [14]) [] 13; mkRule [acl_op_update] true FTrue [] 11] in
  forallb (fun rl => negb (matched acl_op_select ex_doc [11] rl)) x = true /\
  decide false 99 acl_op_select ex_doc [5] [11] (firstn 1 ex_rules ++ x ++ skipn 1 ex_rules) = true /\
  decide false 99 acl_op_select ex_doc [6] [11] (firstn 1 ex_rules ++ x ++ skipn 1 ex_rules) = false.
Proof. vm_compute. repeat split. Qed.

Definition ex_role n := mkTyp n 19 20 [] None false false true false [8].
Definition ex_schema := mkSchema [ex_role 10; ex_role 11; ex_role 12; ex_role 13; mkTyp 14 5 20 [] (Some [0; 1; 4; 5]) true false false true [1; 2; 3; 4; 5]; ex_role 15]
  [mkWs 20 [] [mkRule [acl_op_inherits] true (FQNames [10]) [] 11; mkRule [acl_op_inherits] true (FQNames [15]) [] 13;
               mkRule [acl_op_select] true (FQNames [14]) [] 15]].

Example role_order_nonvacuous :
  is_allowed_gen (mkCfg false false false) ex_schema 99 20 acl_op_select 14 [] [11; 12; 13] = OAllow /\
  is_allowed_gen (mkCfg false false false) ex_schema 99 20 acl_op_select 14 [] [13; 11; 12; 11] = OAllow /\
  is_allowed_gen (mkCfg false false false) ex_schema 99 20 acl_op_select 14 [] [11; 12] = ODeny /\
  is_allowed_gen found_cfg ex_schema 99 20 acl_op_select 14 [] [11; 12; 13] = ODeny /\
  is_allowed_gen found_cfg ex_schema 99 20 acl_op_select 14 [] [10; 11; 12; 13] = OAllow /\
  is_allowed_gen found_cfg ex_schema 99 20 acl_op_select 14 [] [13] = OAllow.
Proof. vm_compute. repeat split. Qed.

Example expansion_nonvacuous :
  cap_for (length (sfrom [13; 10; 11; 12])) = length (sfrom [13; 10; 11; 12]) /\
  expand_gen true false ex_schema 20 [13; 10; 11; 12] = Some [10; 11; 12; 13; 15] /\
  union_expand false ex_schema 20 (sfrom [11; 12; 13]) = Some [10; 11; 12; 13; 15] /\
  union_expand true ex_schema 20 (sfrom [11; 12; 13]) = Some [10; 11; 12; 13; 15] /\
  rra_any false ex_schema 13 20 = Some [13; 15] /\ rra_any true ex_schema 13 20 = Some [13; 15] /\ ancs ex_schema 20 = [].
Proof. vm_compute. repeat split. Qed.

Example link_nonvacuous :
  let q := mkQ 20 acl_op_select 14 [1; 5] [13; 10; 11; 12] OAllow in
  qout q = is_allowed_gen found_cfg ex_schema 99 20 acl_op_select 14 [1; 5] [13; 10; 11; 12] /\
  expand_gen true false ex_schema 20 (qroles q) = Some (spec_roles ex_schema 20 (qroles q)) /\
  sat_query ex_schema 99 q = true /\ sat_query ex_schema 99 (mkQ 20 acl_op_select 14 [1; 5] [13; 10; 11; 12] ODeny) = false /\
  sat_query ex_schema 99 (mkQ 20 acl_op_select 14 [7] [13] (OErr 1)) = true /\
  sat_query ex_schema 99 (mkQ 20 acl_op_select 14 [7] [13] ODeny) = false.
Proof. vm_compute. repeat split. Qed.

Print Assumptions model_answer_satisfies_oracle.
Print Assumptions fields_fold_is_last_rule_wins.
Print Assumptions fold_result_with_fields.
Print Assumptions fold_result_without_fields.
Print Assumptions decision_refuted_without_field_check.
Print Assumptions decision_is_declared_semantics.
Print Assumptions default_deny.
Print Assumptions system_role_allows.
Print Assumptions requested_fields_subset.
Print Assumptions unrelated_rules_irrelevant.
Print Assumptions same_matching_rules_same_decision.
Print Assumptions role_order_irrelevant.
Print Assumptions expansion_refuted_when_aliased.
Print Assumptions expansion_partial_full_slice.
Print Assumptions expansion_complete_if_loop_not_aliased.
Print Assumptions expansion_sound.
Print Assumptions role_ancestors_sound.
Print Assumptions role_ancestors_complete_refuted.
Print Assumptions role_ancestors_diverge_on_cycle.
Print Assumptions role_ancestors_complete_partial.
