(* C07 - the storage cache is transparent.  Statements only. *)
From Coq Require Import List NArith ZArith Lia.
From V Require Import Lib.Lex Lib.SMap Lib.Check Storage.Spec Gen.Params C06_Storage.Model C07_Cache.Model C07_Cache.Proofs.
Import ListNotations.

(* the fills of a found row are guarded like the fills of a missing one (repaired finding F8) *)
Lemma positive_fills_are_guarded : cache_positive_fill_guarded = true /\ cache_batch_fill_guarded = true.
Proof. split; reflexivity. Qed.

(* ---- schedules ----
   One writer performing any program of Put / InsertIfNotExists / CompareAndDelete writes on a key
   (each succeeding) and any number of readers performing Get / TTLGet on it, the key present or
   absent at the start, interleaved in any order at the granularity
   [storage call | cache fill / cache update]:
   a read that starts when c writes have completed returns the content left by some write j >= c
   (or, for c = 0, the initial content), i.e. never something older than a write that had completed
   before the read began - this covers values and "not found" answers (negative cache entries).
   `no_stale` is the oracle the check also evaluates on the observed timelines of the real cache. *)
Lemma negative_fill_of_ttlget_is_guarded : cache_ttlget_negative_fill_guarded = true.
Proof. reflexivity. Qed.

(* a successful CompareAndDelete caches the absence of the row (repaired finding F8b) *)
Lemma delete_leaves_marker : cache_delete_leaves_marker = true.
Proof. reflexivity. Qed.

Theorem no_stale_read_after_completed_write :
  forall (init : option N) (prog : list wop) (readers : list (list rop)) (schedule : list pid) obs,
  sch_run (sch_init init prog readers) schedule = Some obs ->
  no_stale [init] prog false [] schedule obs = true.
Proof.
  exact (fun init prog readers ps obs => no_stale_after_complete_proved ps _ [] obs false (Inv_init init prog readers)).
Qed.

(* The marker is necessary: if a delete only dropped the cache entry (the code before the repair of
   F8b), a reader that fetched the value before the delete completed would re-fill it afterwards and
   every later Get would return the deleted value. *)
Example no_stale_if_delete_drops_entry_refuted :
  exists sched obs, sch_run_gen false (sch_init (Some 7%N) [WDel] [[OpGet]; [OpGet]]) sched = Some obs
                    /\ no_stale [Some 7%N] [WDel] false [] sched obs = false.
Proof.
  exists [PR 0; PR 0; PW; PW; PR 0; PR 1]. eexists. split; [vm_compute; reflexivity|vm_compute; reflexivity].
Qed.

(* the same schedule on the code as it is *)
Example delete_schedule_now_fresh :
  exists obs, sch_run (sch_init (Some 7%N) [WDel] [[OpGet]; [OpGet]]) [PR 0; PR 0; PW; PW; PR 0; PR 1] = Some obs
              /\ In (SGetHit 1 None) obs.
Proof. eexists. split; [vm_compute; reflexivity|cbn; tauto]. Qed.

(* ---- sequential histories ----
   For every history of Put / PutBatch / Get / GetBatch / InsertIfNotExists / CompareAndSwap /
   CompareAndDelete / TTLGet / Read / TTLRead / QueryTTL / clock advances whose (pKey, cCols) pairs have pairwise distinct
   concatenations (K_inj: the cache key pKey++cCols is injective on them - without it: finding F7),
   every output of the cache over the reference storage equals the output of the reference storage
   alone, except where the storage interface leaves the output open (dont_care). *)
Theorem cache_transparent :
  forall (K : bytes * bytes -> Prop),
  (forall k1 k2, K k1 -> K k2 -> make_key (fst k1) (snd k1) = make_key (fst k2) (snd k2) -> k1 = k2) ->
  forall ops, Forall (op_domain K) ops -> transparent_run (mkC ([], 0%Z) [] 0%Z) ops.
Proof. exact (fun K Kinj ops => cache_transparent_proved K Kinj ops _ (CI_init K)). Qed.

(* the injectivity hypothesis is necessary (F7) *)
Example cache_key_collision_refuted :
  exists ops, run_cache spec_step (mkC ([], 0%Z) [] 0%Z) ops <> run_spec ([], 0%Z) ops.
Proof.
  exists [OPut [97%N] [98%N; 99%N] [1%N]; OGet [97%N; 98%N] [99%N]]. vm_compute. discriminate.
Qed.

(* non-vacuity *)
Example no_stale_nonvacuous :
  let sched := [PR 0; PR 0; PW; PW; PR 0; PR 1; PW; PR 1; PW; PR 1; PR 2; PR 2] in
  exists obs, sch_run (sch_init None [WIns 1%N; WPut 2%N] [[OpTTLGet]; [OpGet; OpGet; OpGet]; [OpTTLGet; OpGet]]) sched = Some obs
              /\ In (SGetHit 1 (Some 1%N)) obs /\ In (SGetDone None) obs.
Proof. eexists. split; [vm_compute; reflexivity|]. split; cbn; tauto. Qed.

Example cache_transparent_nonvacuous :
  let K := fun k : bytes * bytes => fst k = [97%N; 97%N] in
  let ops := [OGet [97%N; 97%N] [1%N]; OIns [97%N; 97%N] [1%N] [7%N] 1%Z; OTTLGet [97%N; 97%N] [1%N];
              OAdvance 1000%Z; OTTLGet [97%N; 97%N] [1%N]; OCad [97%N; 97%N] [] []; OPut [97%N; 97%N] [] []; OGet [97%N; 97%N] [];
              OGetBatch [97%N; 97%N] [[]; [2%N]]; OPutBatch [([97%N; 97%N], [2%N], [9%N])]; OGetBatch [97%N; 97%N] [[]; [2%N]]] in
  Forall (op_domain K) ops /\
  (forall k1 k2, K k1 -> K k2 -> make_key (fst k1) (snd k1) = make_key (fst k2) (snd k2) -> k1 = k2) /\
  run_cache spec_step (mkC ([], 0%Z) [] 0%Z) ops = run_spec ([], 0%Z) ops.
Proof.
  cbn zeta. split; [|split].
  - repeat constructor; cbn; try reflexivity; try lia.
  - intros [p1 c1] [p2 c2] H1 H2 E. cbn in *. subst. unfold make_key in E. apply app_inv_head in E. congruence.
  - vm_compute. reflexivity.
Qed.

Print Assumptions no_stale_read_after_completed_write.
Print Assumptions cache_transparent.
