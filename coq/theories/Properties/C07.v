(* C07 - the storage cache is transparent.  Statements only. *)
From Coq Require Import List NArith ZArith Lia Bool.
From V Require Import Lib.Lex Lib.SMap Lib.Check Storage.Spec Gen.Params C06_Storage.Model C07_Cache.Model C07_Cache.Proofs.
Import ListNotations.

(* the fills of a found row are guarded like the fills of a missing one (repaired finding F8) *)
Lemma positive_fills_are_guarded : cache_positive_fill_guarded = true /\ cache_batch_fill_guarded = true.
Proof. split; reflexivity. Qed.

(* a row whose entry is too big for fastcache is marked at every store of a found row, and the three
   read paths send a marked row to the storage (repaired finding F26) *)
Lemma big_values_are_marked : cache_big_values_marked = true.
Proof. reflexivity. Qed.

(* what setCached does not mark, fastcache stores: maxCachedEntrySize + 4 <= chunkSize, and the entry's
   length fits the 16-bit length field *)
Lemma unmarked_entries_fit_fastcache :
  ((cache_max_entry_size + 4 <=? fastcache_chunk_size) && (cache_max_entry_size <=? 65536))%Z = true.
Proof. reflexivity. Qed.

(* under a key so long that not even the mark fits a fastcache chunk nothing is cached at all, "known
   missing" included: setCached and setAbsent test cacheableKey first (repaired finding F26b) *)
Lemma unfit_keys_are_not_cached : cache_key_guard = true.
Proof. reflexivity. Qed.

(* the guard is exact: a key is cacheable iff the mark fits under it (keys of up to 65530 bytes) *)
Lemma cacheable_is_mark_fits : forall pk cc, cacheable_key pk cc = key_fits pk cc.
Proof. exact cacheable_is_mark_fits_proved. Qed.

(* ---- schedules ----
   One writer performing any program of Put / InsertIfNotExists / CompareAndDelete writes on a key
   (each succeeding; values of any size: WPutBig v, like any value number >= 256, is a value whose
   entry does not fit the cache) and any number of readers performing Get / TTLGet on it, the key
   present or absent at the start, interleaved in any order at the granularity
   [storage call | cache fill / cache update]:
   a read that starts when c writes have completed returns the content left by some write j >= c
   (or, for c = 0, the initial content), i.e. never something older than a write that had completed
   before the read began - this covers values and "not found" answers (negative cache entries).
   `no_stale` is the oracle the check also evaluates on the observed timelines of the real cache. *)
Lemma negative_fill_of_ttlget_is_guarded : cache_ttlget_negative_fill_guarded = true.
Proof. reflexivity. Qed.

(* a successful CompareAndDelete caches the absence of the row (repaired finding F8b) *)
Lemma delete_leaves_marker : cache_delete_leaves_marker = true.
Proof. reflexivity. Qed.

(* a TTLGet that finds an expired entry caches the absence of the row instead of dropping the entry (repaired
   finding C07-EXPDEL) *)
Lemma expired_entry_leaves_marker : cache_expired_leaves_marker = true.
Proof. reflexivity. Qed.

(* every init, writer program (values of any size, InsertIfNotExists / CompareAndSwap with a TTL: WInsT / WCasT),
   reader programs and schedule - clock advances (process PC) between any two steps included: a read that starts
   when c writes have completed returns what the version left by some write j >= c shows: its content, or "not
   found" once it has expired. *)
Theorem no_stale_read_after_completed_write :
  forall (init : option N) (prog : list wop) (readers : list (list rop)) (schedule : list pid) obs,
  sch_run (sch_init init prog readers) schedule = Some obs ->
  no_stale [(init, 0%N)] 0 prog false [] schedule obs = true.
Proof.
  exact (fun init prog readers ps obs => no_stale_after_complete_proved ps _ [] obs false (Inv_init init prog readers)).
Qed.

(* The marker for an expired entry is necessary (C07-EXPDEL, the code before the repair dropped the entry): *)
(* the row holds 0 and is not cached; reader 0 (Get) fetches 0 from the storage; the writer's
   CompareAndSwap to 1 with a TTL completes; the clock advances past the TTL; reader 1 (TTLGet) finds the expired
   entry, answers "not found" and drops it; reader 0 resumes, finds nothing cached and fills 0; reader 2 (Get),
   started after the write completed, gets 0 - older than the completed write - and so does every later read. *)
Example no_stale_if_expired_entry_dropped_refuted :
  exists sched obs, sch_run_gen true true false (sch_init (Some 0%N) [WCasT 1%N] [[OpGet]; [OpTTLGet]; [OpGet]]) sched = Some obs
                    /\ no_stale [(Some 0%N, 0%N)] 0 [WCasT 1%N] false [] sched obs = false.
Proof.
  exists [PR 0; PR 0; PW; PW; PC; PR 1; PR 0; PR 2]. eexists. split; [vm_compute; reflexivity|vm_compute; reflexivity].
Qed.

(* the same schedule on the code as it is: reader 2 is answered "not found", which is what version 1 shows once expired *)
Example expired_entry_schedule_now_fresh :
  sch_run (sch_init (Some 0%N) [WCasT 1%N] [[OpGet]; [OpTTLGet]; [OpGet]])
              [PR 0; PR 0; PW; PW; PC; PR 1; PR 0; PR 2]
  = Some [SGetStart 0; SNone; SNone; SWDone; SClock; SGetHit 1 None; SGetDone (Some 0%N); SGetHit 1 None].
Proof. vm_compute. reflexivity. Qed.

(* The marker is necessary: if a delete only dropped the cache entry (the code before the repair of
   F8b), a reader that fetched the value before the delete completed would re-fill it afterwards and
   every later Get would return the deleted value. *)
Example no_stale_if_delete_drops_entry_refuted :
  exists sched obs, sch_run_gen false true true (sch_init (Some 7%N) [WDel] [[OpGet]; [OpGet]]) sched = Some obs
                    /\ no_stale [(Some 7%N, 0%N)] 0 [WDel] false [] sched obs = false.
Proof.
  exists [PR 0; PR 0; PW; PW; PR 0; PR 1]. eexists. split; [vm_compute; reflexivity|vm_compute; reflexivity].
Qed.

(* the same schedule on the code as it is *)
Example delete_schedule_now_fresh :
  exists obs, sch_run (sch_init (Some 7%N) [WDel] [[OpGet]; [OpGet]]) [PR 0; PR 0; PW; PW; PR 0; PR 1] = Some obs
              /\ In (SGetHit 1 None) obs.
Proof. eexists. split; [vm_compute; reflexivity|cbn; tauto]. Qed.

(* The mark is necessary: if the store of an entry that does not fit were simply ignored (fastcache's
   Set under the code before the repair of F26), the "not found" entry left by an earlier read would
   outlive the completed Put of a big value and every later Get would still answer "not found". *)
Example no_stale_if_big_value_dropped_refuted :
  exists sched obs, sch_run_gen true false true (sch_init None [WPutBig 7%N] [[OpGet]; [OpGet]]) sched = Some obs
                    /\ no_stale [(None, 0%N)] 0 [WPutBig 7%N] false [] sched obs = false.
Proof.
  exists [PR 0; PR 0; PR 0; PW; PW; PR 1]. eexists. split; [vm_compute; reflexivity|vm_compute; reflexivity].
Qed.

(* the same schedule on the code as it is: the second reader is sent to the storage and finds the value *)
Example big_value_schedule_now_fresh :
  exists obs, sch_run (sch_init None [WPutBig 7%N] [[OpGet]; [OpGet]]) [PR 0; PR 0; PR 0; PW; PW; PR 1; PR 1; PR 1] = Some obs
              /\ In (SGetStart 1) obs /\ In (SGetDone (Some 263%N)) obs.
Proof. eexists. split; [vm_compute; reflexivity|cbn; tauto]. Qed.

(* ---- sequential histories ----
   For every history of Put / PutBatch / Get / GetBatch / InsertIfNotExists / CompareAndSwap /
   CompareAndDelete / TTLGet / Read / TTLRead / QueryTTL / clock advances, with values of ANY size and keys
   of ANY length, whose (pKey, cCols) pairs have pairwise distinct concatenations (K_inj: the cache key
   pKey++cCols is injective on them - without it: finding F7),
   every output of the cache over the reference storage equals the output of the reference storage
   alone, except where the storage interface leaves the output open (dont_care).
   The full statement (no hypothesis on the keys) is refuted by cache_key_collision_refuted. *)
Theorem cache_transparent :
  forall (K : bytes * bytes -> Prop),
  (forall k1 k2, K k1 -> K k2 -> make_key (fst k1) (snd k1) = make_key (fst k2) (snd k2) -> k1 = k2) ->
  forall ops, Forall (op_domain K) ops -> transparent_run (mkC ([], 0%Z) [] 0%Z) ops.
Proof. exact (fun K Kinj ops => cache_transparent_proved K Kinj ops _ (CI_init K)). Qed.

(* the injectivity hypothesis is necessary (F7) *)
Example cache_key_collision_refuted :
  exists ops, run_cache spec_step (mkC ([], 0%Z) [] 0%Z) ops <> run_spec ([], 0%Z) ops.
Proof.
  exists [OPut [97%N] [98%N; 99%N] [1%N]; OGet [97%N; 98%N] [99%N]]. vm_compute. discriminate.
Qed.

(* The key guard is necessary (F26b): without it (the flag false: the code before the repair), with a
   cache key of exactly 65531 bytes "not found" fits a chunk and the mark does not, so the cached "not
   found" outlives the Put *)
Example cache_mark_must_fit_refuted :
  exists ops, list_eqb sout_eqb (run_cache_gen spec_step true false true (mkC ([], 0%Z) [] 0%Z) ops) (run_spec ([], 0%Z) ops) = false.
Proof.
  exists [OGet [112%N; 107%N] (repeat 9%N (N.to_nat 65529)); OPut [112%N; 107%N] (repeat 9%N (N.to_nat 65529)) [1%N];
          OGet [112%N; 107%N] (repeat 9%N (N.to_nat 65529))].
  vm_compute. reflexivity.
Qed.

(* The mark is necessary (F26): with the stores of the code before the repair (the flag false: an entry
   that does not fit is ignored by fastcache, the older entry stays) a cached "not found" outlives the
   Put of a 70000-byte value, and a cached small value outlives it too. *)
Example cache_big_value_dropped_refuted :
  exists ops, list_eqb sout_eqb (run_cache_gen spec_step false false true (mkC ([], 0%Z) [] 0%Z) ops) (run_spec ([], 0%Z) ops) = false.
Proof.
  exists [OGet [97%N; 97%N] [1%N]; OPut [97%N; 97%N] [1%N] (repeat 7%N (N.to_nat 70000)); OGet [97%N; 97%N] [1%N]].
  vm_compute. reflexivity.
Qed.

Example cache_big_value_after_small_dropped_refuted :
  exists ops, list_eqb sout_eqb (run_cache_gen spec_step false false true (mkC ([], 0%Z) [] 0%Z) ops) (run_spec ([], 0%Z) ops) = false.
Proof.
  exists [OPut [97%N; 97%N] [1%N] [5%N]; OPut [97%N; 97%N] [1%N] (repeat 7%N (N.to_nat 70000)); OTTLGet [97%N; 97%N] [1%N]].
  vm_compute. reflexivity.
Qed.

(* ---- failed writes, more than one handle ----
   the caching provider hands out one caching storage per app (repaired finding C07-HANDLES) *)
Lemma one_cache_per_app : cache_provider_one_per_app = true.
Proof. reflexivity. Qed.

(* ... and its mutex is held from the lookup in the per-app map to the store: two overlapping first calls for an
   app get the same storage as well *)
Lemma provider_lock_held_across_create : cache_provider_lock_across_create = true.
Proof. reflexivity. Qed.

(* a write whose storage call returned an error marks its keys: what the storage holds under them is not
   known (repaired finding C07-WRITEERR) *)
Lemma failed_writes_are_marked : cache_write_error_marks = true.
Proof. reflexivity. Qed.

(* For every history whose operations go through either of two handles that one caching provider handed out
   for the app - one call after the other or two overlapping first calls (conc) -, and whose writes may fail after the storage applied nothing, all, or (a batch) the first k
   items of them, every output equals the output of the uncached storage under the same fault plan (except
   dont_care); K_inj as above; no operation bypasses the cache (FRaw: the history starts with the cache, over an
   empty storage - see cold_cache_over_ttl_row_refuted).  Stated about the step function with the flags read
   from the source. *)
Theorem cache_transparent_failed_writes_and_handles :
  forall (K : bytes * bytes -> Prop),
  (forall k1 k2, K k1 -> K k2 -> make_key (fst k1) (snd k1) = make_key (fst k2) (snd k2) -> k1 = k2) ->
  forall conc xs, Forall (fun x => op_domain K (snd x) /\ snd (fst x) <> FRaw) xs ->
  transparent_xrun (provider_memo conc) cache_big_values_marked cache_key_guard cache_expired_leaves_marker
                   cache_write_error_marks
                   (mkX ([], 0%Z) [] [] 0%Z) xs.
Proof. exact (fun K Kinj conc xs => cache_transparent_x_src_proved K Kinj conc xs (mkX ([], 0%Z) [] [] 0%Z) (CI_init K)). Qed.

(* Both repairs are necessary.  One cache per handle (the code before the repair of C07-HANDLES - and what two
   overlapping first calls get from a per-app map whose mutex is released between lookup and store): the first handle caches "not found", the second writes, the
   first still answers "not found" *)
Example second_handle_own_cache_refuted :
  exists xs, list_eqb sout_eqb (xrun spec_step false true true true true (mkX ([], 0%Z) [] [] 0%Z) xs)
                               (under_frun spec_step ([], 0%Z) (map xfop xs)) = false.
Proof.
  exists [(false, FNone, OGet [97%N; 97%N] [1%N]); (true, FNone, OPut [97%N; 97%N] [1%N] [5%N]);
          (false, FNone, OGet [97%N; 97%N] [1%N])].
  vm_compute. reflexivity.
Qed.

(* a failed write leaves the cache as it was (the code before the repair of C07-WRITEERR): a Put that times out after its effect, and a
   batch applied in its first item, leave the old value in the cache *)
Example failed_write_keeps_entry_refuted :
  exists xs, list_eqb sout_eqb (xrun spec_step true true true true false (mkX ([], 0%Z) [] [] 0%Z) xs)
                               (under_frun spec_step ([], 0%Z) (map xfop xs)) = false.
Proof.
  exists [(false, FNone, OPut [97%N; 97%N] [1%N] [0%N]); (false, FErrAfter, OPut [97%N; 97%N] [1%N] [1%N]);
          (false, FNone, OGet [97%N; 97%N] [1%N])].
  vm_compute. reflexivity.
Qed.

Example partial_batch_keeps_entry_refuted :
  exists xs, list_eqb sout_eqb (xrun spec_step true true true true false (mkX ([], 0%Z) [] [] 0%Z) xs)
                               (under_frun spec_step ([], 0%Z) (map xfop xs)) = false.
Proof.
  exists [(false, FNone, OPutBatch [([97%N; 97%N], [1%N], [0%N]); ([97%N; 97%N], [2%N], [0%N])]);
          (false, FPartial 1, OPutBatch [([97%N; 97%N], [1%N], [1%N]); ([97%N; 97%N], [2%N], [1%N])]);
          (false, FNone, OGetBatch [97%N; 97%N] [[1%N]; [2%N]])].
  vm_compute. reflexivity.
Qed.

(* What remains of finding F23 (recorded): a cache that starts cold over a storage already holding a row with a
   TTL (FRaw: written by an earlier run of the process).  A plain Get finds the row and caches it - the interface
   does not tell it the expiry; after the expiry the cache keeps serving it, to Get and to TTLGet. *)
Example cold_cache_over_ttl_row_refuted :
  exists xs, list_eqb sout_eqb
               (xrun spec_step (provider_memo true) cache_big_values_marked cache_key_guard
                     cache_expired_leaves_marker cache_write_error_marks (mkX ([], 0%Z) [] [] 0%Z) xs)
               (under_frun spec_step ([], 0%Z) (map xfop xs)) = false.
Proof.
  exists [(false, FRaw, OIns [97%N; 97%N] [1%N] [7%N] 1%Z); (false, FNone, OGet [97%N; 97%N] [1%N]);
          (false, FNone, OAdvance 2000%Z); (false, FNone, OTTLGet [97%N; 97%N] [1%N])].
  vm_compute. reflexivity.
Qed.

Example failed_writes_and_handles_nonvacuous :
  let K := fun k : bytes * bytes => fst k = [97%N; 97%N] in
  let xs := [(false, FNone, OGet [97%N; 97%N] [1%N]); (true, FNone, OPut [97%N; 97%N] [1%N] [5%N]);
             (false, FNone, OGet [97%N; 97%N] [1%N]);
             (true, FErrAfter, OPut [97%N; 97%N] [1%N] [6%N]); (false, FNone, OGet [97%N; 97%N] [1%N]);
             (false, FErrBefore, OCad [97%N; 97%N] [1%N] [6%N]); (true, FNone, OTTLGet [97%N; 97%N] [1%N]);
             (false, FNone, OPutBatch [([97%N; 97%N], [1%N], [0%N]); ([97%N; 97%N], [2%N], [0%N])]);
             (true, FPartial 1, OPutBatch [([97%N; 97%N], [1%N], [1%N]); ([97%N; 97%N], [2%N], [1%N])]);
             (false, FNone, OGetBatch [97%N; 97%N] [[1%N]; [2%N]]);
             (false, FErrAfter, OIns [97%N; 97%N] [3%N] [7%N] 0%Z); (true, FNone, OGet [97%N; 97%N] [3%N]);
             (false, FErrAfter, OCad [97%N; 97%N] [3%N] [7%N]); (true, FNone, OGet [97%N; 97%N] [3%N])] in
  Forall (fun x => op_domain K (snd x) /\ snd (fst x) <> FRaw) xs /\
  (forall k1 k2, K k1 -> K k2 -> make_key (fst k1) (snd k1) = make_key (fst k2) (snd k2) -> k1 = k2) /\
  xrun spec_step (provider_memo true) cache_big_values_marked cache_key_guard cache_expired_leaves_marker
       cache_write_error_marks
       (mkX ([], 0%Z) [] [] 0%Z) xs = under_frun spec_step ([], 0%Z) (map xfop xs) /\
  under_frun spec_step ([], 0%Z) (map xfop xs) =
    [RGet None; RUnit; RGet (Some [5%N]); RErr; RGet (Some [6%N]); RErr; RGet (Some [6%N]); RUnit; RErr;
     RBatch [Some [1%N]; Some [0%N]]; RErr; RGet (Some [7%N]); RErr; RGet None].
Proof.
  cbn zeta. split; [|split; [|split]].
  - repeat constructor; cbn; try reflexivity; try lia; try discriminate.
  - intros [p1 c1] [p2 c2] H1 H2 E. cbn in *. subst. unfold make_key in E. apply app_inv_head in E. congruence.
  - vm_compute. reflexivity.
  - vm_compute. reflexivity.
Qed.

(* non-vacuity *)
Example no_stale_nonvacuous :
  let sched := [PR 0; PR 0; PW; PW; PR 0; PR 1; PW; PR 1; PW; PR 1; PR 2; PR 2] in
  exists obs, sch_run (sch_init None [WIns 1%N; WPut 2%N] [[OpTTLGet]; [OpGet; OpGet; OpGet]; [OpTTLGet; OpGet]]) sched = Some obs
              /\ In (SGetHit 1 (Some 1%N)) obs /\ In (SGetDone None) obs.
Proof. eexists. split; [vm_compute; reflexivity|]. split; cbn; tauto. Qed.

(* TTL writes and clock advances: an insert with a TTL, the clock, a TTLGet on the expired entry
   (answered "not found", marker left), a second insert with a TTL, a Get hit, the clock, a plain Get that still
   hits the (expired) entry and a TTLGet that does not *)
Example no_stale_clock_nonvacuous :
  let sched := [PR 0; PR 0; PW; PW; PR 0; PC; PR 1; PW; PW; PR 1; PC; PR 1; PR 2] in
  exists obs, sch_run (sch_init None [WInsT 1%N; WInsT 2%N] [[OpGet]; [OpTTLGet; OpGet; OpGet]; [OpTTLGet]]) sched = Some obs
              /\ no_stale [(None, 0%N)] 0 [WInsT 1%N; WInsT 2%N] false [] sched obs = true
              /\ obs = [SGetStart 0; SNone; SNone; SWDone; SGetDone None; SClock; SGetHit 1 None; SNone; SWDone;
                        SGetHit 2 (Some 2%N); SClock; SGetHit 2 (Some 2%N); SGetHit 2 None].
Proof. eexists. split; [vm_compute; reflexivity|]. split; vm_compute; reflexivity. Qed.

(* a program with a big value between two small ones: the mark is overwritten by the next small value *)
Example no_stale_big_value_nonvacuous :
  let sched := [PR 0; PW; PR 0; PW; PR 1; PR 0; PW; PW; PR 1; PR 1; PR 1; PW; PW; PR 1] in
  exists obs, sch_run (sch_init None [WPut 1%N; WPutBig 2%N; WPut 3%N] [[OpGet]; [OpGet; OpGet; OpGet]]) sched = Some obs
              /\ In (SGetHit 1 (Some 1%N)) obs /\ In (SGetStart 2) obs /\ In (SGetDone (Some 258%N)) obs
              /\ In (SGetHit 3 (Some 3%N)) obs.
Proof. eexists. split; [vm_compute; reflexivity|]. cbn; tauto. Qed.

Example cache_transparent_nonvacuous :
  let K := fun k : bytes * bytes => fst k = [97%N; 97%N] in
  let ops := fun big long : bytes =>
             [OGet [97%N; 97%N] [1%N]; OIns [97%N; 97%N] [1%N] [7%N] 1%Z; OTTLGet [97%N; 97%N] [1%N];
              OAdvance 1000%Z; OTTLGet [97%N; 97%N] [1%N]; OCad [97%N; 97%N] [] []; OPut [97%N; 97%N] [] []; OGet [97%N; 97%N] [];
              OGetBatch [97%N; 97%N] [[]; [2%N]]; OPutBatch [([97%N; 97%N], [2%N], [9%N])]; OGetBatch [97%N; 97%N] [[]; [2%N]];
              OPut [97%N; 97%N] [2%N] big; OGet [97%N; 97%N] [2%N]; OTTLGet [97%N; 97%N] [2%N]; OGetBatch [97%N; 97%N] [[]; [2%N]];
              OCas [97%N; 97%N] [2%N] big [4%N] 0%Z; OGet [97%N; 97%N] [2%N];
              OPutBatch [([97%N; 97%N], [2%N], big); ([97%N; 97%N], [3%N], [1%N])]; OGetBatch [97%N; 97%N] [[3%N]; [2%N]];
              OCad [97%N; 97%N] [2%N] big; OGet [97%N; 97%N] [2%N];
              OGet [97%N; 97%N] long; OPut [97%N; 97%N] long [5%N]; OGet [97%N; 97%N] long; OCad [97%N; 97%N] long [5%N];
              OTTLGet [97%N; 97%N] long; OGetBatch [97%N; 97%N] [long; [3%N]]] in
  (forall big long, Forall (op_domain K) (ops big long)) /\
  (forall k1 k2, K k1 -> K k2 -> make_key (fst k1) (snd k1) = make_key (fst k2) (snd k2) -> k1 = k2) /\
  (* with a 70000-byte value and a 65531-byte cache key: the outputs coincide, the value is read back whole
     through the mark, and the row under the long key is read from the storage *)
  let ops1 := ops (repeat 7%N (N.to_nat 70000)) (repeat 9%N (N.to_nat 65529)) in
  list_eqb sout_eqb (run_cache spec_step (mkC ([], 0%Z) [] 0%Z) ops1) (run_spec ([], 0%Z) ops1) = true /\
  sout_eqb (nth 12 (run_cache spec_step (mkC ([], 0%Z) [] 0%Z) ops1) RUnit) (RGet (Some (repeat 7%N (N.to_nat 70000)))) = true /\
  sout_eqb (nth 23 (run_cache spec_step (mkC ([], 0%Z) [] 0%Z) ops1) RUnit) (RGet (Some [5%N])) = true.
Proof.
  cbn zeta. split; [|split; [|split; [|split]]].
  - intros big long. repeat constructor; cbn; try reflexivity; try lia.
  - intros [p1 c1] [p2 c2] H1 H2 E. cbn in *. subst. unfold make_key in E. apply app_inv_head in E. congruence.
  - vm_compute. reflexivity.
  - vm_compute. reflexivity.
  - vm_compute. reflexivity.
Qed.

Print Assumptions no_stale_read_after_completed_write.
Print Assumptions cache_transparent.
Print Assumptions cache_transparent_failed_writes_and_handles.
Print Assumptions cacheable_is_mark_fits.
