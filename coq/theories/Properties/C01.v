(* C01 - a command is either durably and completely applied or has no lasting effect.
   Statements only; every proof is `exact <lemma>` into C01_Command/Proofs.v.

   Vocabulary (C01_Command/Model.v): `run k ords 1 steps state0` drives the model of the command
   processor through a history `steps` of commands (each with its own fault plan: any set of
   (write target, k-th write, fault kind)) and processor restarts, from the empty storage.
   `k : conf` holds what the model takes from the Go source: the trust level and two flags read by
   the translator - does cmdProc.putPLog hand PutPlog's error to the pipeline
   (c01_putplog_returns_err), does the flush loop of the sync actualizer stop at the first failing
   projector (c01_sync_flush_stops_at_error). `code_conf tl` = the flags the source has now.
   `ords stamp` is the order in which the sync actualizer serving a command flushes the np sync
   projectors (a Go map order): any function listing exactly the projectors 0..np-1 with their
   kinds (`ords_ok np dk`; dk j = false: projector j is subscribed ON EXECUTE of the command, it
   is run for every event; dk j = true: AFTER DEACTIVATE of the document only, it is run for the
   events with a deactivation row).  A third flag read from the source: does an event decoded from
   the PLog still tell that a row deactivates its record (c01_decode_restores_active_modified;
   it does since 35e511a40; before, the re-apply did not trigger AFTER DEACTIVATE projectors:
   finding C01-F3, repaired).
   All theorems hold for every trust level (also values the code does not know), every number of
   sync projectors, every flush order, every history and every fault plan.

   Modelling assumption, part of every statement below: a sync projector is a function of the
   event alone - it writes the row (ws, WLogOffset) -> stamp of its view blindly (`w_proj1`), so
   running it again for the same event changes nothing. The real processor invokes the sync
   projectors of an event again whenever the event is re-applied (after any failure of the fork, and
   for the last event after every restart): at-least-once. A read-modify-write projector (a
   counter) would count such an event twice; that is outside the model and outside the claim. *)
From Coq Require Import List NArith Bool Lia.
From V Require Import Gen.Params C01_Command.Model C01_Command.MapLemmas C01_Command.Ideal C01_Command.Proofs C01_Command.Oracle.
Import ListNotations.
Local Open Scope N_scope.

(* side conditions on what the translator took from the Go source (editing the code re-opens them) *)

(* pkg/processors/command/impl.go, cmdProc.putPLog: `return err` (finding F11, repaired in ee5a67b65) *)
Lemma putplog_returns_error : c01_putplog_returns_err = true.
Proof. reflexivity. Qed.

(* pkg/processors/actualizers/impl.go, syncActualizerFactory, step "IntentsApplier": the loop over
   the projector states returns at the first failing ApplyIntents *)
Lemma flush_stops_at_first_error : c01_sync_flush_stops_at_error = true.
Proof. reflexivity. Qed.

(* pkg/istructsmem types-dynobuf.go: storeRowSysFields writes the mask bit sfm_IsActiveModified,
   loadRowSysFields restores rowType.isActiveModified from it (finding C01-F3 / C02-F3, repaired in
   35e511a40): a re-applied event triggers the projectors the command triggered *)
Lemma decode_restores_activation_change : c01_decode_restores_active_modified = true.
Proof. reflexivity. Qed.

(* istructsmem/impl.go: the re-apply path of recovery (IEventReapplier) overwrites, it never uses
   a conditional insert *)
Lemma reapply_is_unconditional : reapply_unconditional.
Proof.
  split; [reflexivity|]. intros tl. unfold tl_flag, c05_rec_reapply_ops.
  destruct (N.to_nat tl) as [|[|[|[|n]]]]; reflexivity.
Qed.

(* 1. After any history with any faults, one recovery without faults succeeds, leaves the
   partition log as it is, and then the partition log, the workspace logs, the records and every
   synchronous projection describe the same events: PLog offsets 1..n without a gap, per
   workspace WLog offsets 1..m without a gap holding exactly that workspace's PLog events in
   order, records = fold of the PLog, one row per event in the view of every one of the np sync
   projectors (`consistent np`). *)
Theorem recovery_restores_consistency :
  forall tl np dk ords steps st outs,
  ords_ok np dk ords ->
  run (code_conf tl) ords 1 steps state0 = (st, outs) ->
  forall ord, ord_ok np dk ord ->
  exists s' l' p, recover (code_conf tl) ord [] (sto st) [] = (s', l', Some p)
    /\ plog s' = plog (sto st) /\ consistent np dk all_projectors s'.
Proof.
  exact (fun tl np dk ords steps st outs Ho =>
    recovery_restores_consistency_all_proved (code_conf tl) ords np dk steps st outs
      flush_stops_at_first_error decode_restores_activation_change Ho reapply_is_unconditional).
Qed.

(* Whatever the decoder does (flag `sees`), the statement holds for the projectors the re-apply
   triggers as the command did (`good sees dk`: all of them if sees, otherwise those not subscribed
   AFTER DEACTIVATE only) ... *)
Theorem recovery_restores_consistency_partial :
  forall sees tl np dk ords steps st outs,
  let k := mkConf c01_putplog_returns_err c01_sync_flush_stops_at_error sees tl in
  ords_ok np dk ords ->
  run k ords 1 steps state0 = (st, outs) ->
  forall ord, ord_ok np dk ord ->
  exists s' l' p, recover k ord [] (sto st) [] = (s', l', Some p)
    /\ plog s' = plog (sto st) /\ consistent np dk (good sees dk) s'.
Proof.
  exact (fun sees tl np dk ords steps st outs Ho =>
    recovery_restores_consistency_proved (mkConf c01_putplog_returns_err c01_sync_flush_stops_at_error sees tl)
      ords np dk steps st outs flush_stops_at_first_error Ho reapply_is_unconditional).
Qed.

(* ... and for a decoder that does not restore the flag (the code before 35e511a40, finding C01-F3)
   the full statement is REFUTED for an AFTER DEACTIVATE projector: a deactivation whose view write
   fails before its effect is answered 5xx; the recovery re-applies the event from the PLog, where
   IsDeactivated() is no longer true, does not trigger the projector and succeeds: the command is
   in PLog, WLog and records and for ever missing from the projection. *)
Theorem recovery_restores_consistency_refuted :
  exists steps st outs,
  let k := mkConf true true false 0 in
  let dk := fun _ : N => true in
  run k (fun _ => [(0, true)]) 1 steps state0 = (st, outs)
  /\ map o_reply outs = [ROk 1 [200001]; RServer; ROk 1 [200001]]
  /\ mem st <> None
  /\ ~ consistent 1 dk all_projectors (sto st)
  /\ forall s' l' p, recover k [(0, true)] [] (sto st) [] = (s', l', p) -> ~ consistent 1 dk all_projectors s'.
Proof.
  exists [SCmd (mkCmd 1 false [Ins 1 5]) []; SCmd (mkCmd 1 false [Deact 200001]) [(TView, 1, FBefore)];
          SCmd (mkCmd 2 false [Ins 1 6]) []].
  eexists. eexists. cbn zeta. split; [vm_compute; reflexivity|]. split; [reflexivity|]. split; [discriminate|]. split.
  - intros (_ & _ & _ & _ & H). specialize (H 0 eq_refl I 1 2). vm_compute in H. discriminate.
  - intros s' l' p E. vm_compute in E. inversion E; subst. clear E.
    intros (_ & _ & _ & _ & H). specialize (H 0 eq_refl I 1 2). vm_compute in H. discriminate.
Qed.

(* 1'. Whenever the processor holds partition state (that is: unless the last command failed at a
   write step and the partition awaits recovery) the stores are consistent already. *)
Theorem serving_state_consistent :
  forall tl np dk ords steps st outs,
  ords_ok np dk ords ->
  run (code_conf tl) ords 1 steps state0 = (st, outs) -> mem st <> None -> consistent np dk all_projectors (sto st).
Proof.
  exact (fun tl np dk ords steps st outs =>
    serving_state_consistent_all_proved (code_conf tl) ords np dk steps st outs
      flush_stops_at_first_error decode_restores_activation_change).
Qed.

(* 1''. Full statement for a sync actualizer that flushes every projector and reports only the
   last one's error (flag false; the shape of seeded mutation c01-3): REFUTED - two projectors, a
   fault before effect at the first view write of a command: the command is answered with
   success, the partition keeps its state, and the first projection misses the event for ever
   (a later recovery re-applies only the last PLog event). *)
Theorem consistency_refuted_without_early_return :
  exists steps st outs,
  run (mkConf true false true 0) (fun _ => [(0, false); (1, false)]) 1 steps state0 = (st, outs)
  /\ Forall (fun o => exists w ids, o_reply o = ROk w ids) outs
  /\ mem st <> None
  /\ ~ consistent 2 (fun _ => false) all_projectors (sto st)
  /\ forall s' l' p, recover (mkConf true false true 0) [(0, false); (1, false)] [] (sto st) [] = (s', l', p) ->
     ~ consistent 2 (fun _ => false) all_projectors s'.
Proof.
  exists [SCmd (mkCmd 1 false [Ins 1 5]) [(TView, 1, FBefore)]; SCmd (mkCmd 1 false [Ins 1 6]) []].
  eexists. eexists. split; [vm_compute; reflexivity|]. split; [|split; [|split]].
  - repeat constructor; eexists; eexists; reflexivity.
  - discriminate.
  - intros (_ & _ & _ & _ & H). specialize (H 0 eq_refl I 1 1). vm_compute in H. discriminate.
  - intros s' l' p E. vm_compute in E. inversion E; subst. clear E.
    intros (_ & _ & _ & _ & H). specialize (H 0 eq_refl I 1 1). vm_compute in H. discriminate.
Qed.

(* 2. The partition log holds exactly the commands whose PLog write took effect, in the order
   they were sent, each exactly once, each with the rows of its command and IDs / offset named in
   its reply; a command answered with success is among them, a command answered 4xx is not
   (reply_fits), and so is no command whose PLog write had no effect (o_written = false: it is
   not in `written_cmds`).  With theorem 1: commands in the list are in all stores after
   recovery (also those that failed after the PLog write: completed, not half-applied), the
   others in none. *)
Theorem log_is_the_written_commands :
  forall tl np dk ords steps st outs,
  ords_ok np dk ords ->
  run (code_conf tl) ords 1 steps state0 = (st, outs) ->
  Forall2 log_fits (events st) (written_cmds 1 steps outs)
  /\ Forall (fun o => forall w ids, o_reply o = ROk w ids -> o_written o = true) outs.
Proof.
  exact (fun tl np dk ords steps st outs =>
    log_is_the_written_commands_proved (code_conf tl) ords np dk steps st outs flush_stops_at_first_error).
Qed.

(* 2a. Per command: it is in the log - and then, by theorems 1 and 2, completely in every store -
   exactly when its PLog write took effect, whatever it was answered. *)
Theorem command_in_log_iff_written :
  forall tl np dk ords steps st outs,
  ords_ok np dk ords ->
  run (code_conf tl) ords 1 steps state0 = (st, outs) ->
  forall t c o, In (t, c, o) (stamped 1 steps outs) ->
  (o_written o = true -> exists e, In e (events st) /\ e_tag e = t /\ event_matches c e = true /\ reply_fits o e)
  /\ (o_written o = false -> forall e, In e (events st) -> e_tag e <> t).
Proof.
  exact (fun tl np dk ords steps st outs =>
    command_in_log_iff_written_proved (code_conf tl) ords np dk steps st outs flush_stops_at_first_error).
Qed.

(* 2b. "A command answered with an error because the partition-log write failed is in none of
   them" - full statement, for every fault kind at the PLog write:

     forall ... (t, c, o) in stamped ..., the plan of c faults its PLog write -> o_reply o = RServer ->
       forall e in events st, e_tag e <> t.

   REFUTED for the kind "error after effect" (known finding C01-F2): the row is stored, the call
   reports an error, the command is answered 5xx - and the next recovery completes it. It holds
   for the kinds without effect: that is the second half of 2a (o_written = false). *)
Theorem plog_error_means_absent_refuted :
  exists tl ords steps st outs t c o,
  run (code_conf tl) ords 1 steps state0 = (st, outs)
  /\ steps = [SCmd c [(TPLog, 1, FAfter)]; SCmd (mkCmd 2 false [Ins 1 1]) []]
  /\ In (t, c, o) (stamped 1 steps outs) /\ o_reply o = RServer
  /\ mem st <> None
  /\ exists e, In e (events st) /\ e_tag e = t /\ get2 (wlog (sto st)) (e_ws e) (e_woff e) = Some e.
Proof.
  exists 0, (fun _ => [(0, false)]), [SCmd (mkCmd 1 false [Ins 1 5]) [(TPLog, 1, FAfter)]; SCmd (mkCmd 2 false [Ins 1 1]) []].
  eexists. eexists. exists 1, (mkCmd 1 false [Ins 1 5]). eexists.
  split; [vm_compute; reflexivity|]. split; [reflexivity|]. split; [left; reflexivity|].
  split; [reflexivity|]. split; [discriminate|].
  eexists. split; [left; reflexivity|]. split; reflexivity.
Qed.

(* 2'. Every update / deactivation row in the log addresses a record created by an earlier event
   of its workspace, and an update of V carries (and so leaves) the sys.IsActive value the record
   has by the earlier events: a command never touches what it did not name. *)
Theorem log_rows_well_formed :
  forall tl np dk ords steps st outs,
  ords_ok np dk ords ->
  run (code_conf tl) ords 1 steps state0 = (st, outs) -> acts_ok [] (events st) = true.
Proof.
  exact (fun tl np dk ords steps st outs =>
    log_rows_well_formed_proved (code_conf tl) ords np dk steps st outs flush_stops_at_first_error).
Qed.

(* 3. Exactly one reply per command, no dead processor: for the code as it is (putPLog returns
   the error), whatever the flush order and the projectors. *)
Theorem every_command_answered :
  forall tl ords steps st outs,
  run (code_conf tl) ords 1 steps state0 = (st, outs) -> Forall (fun o => o_reply o <> RNone) outs.
Proof.
  exact (fun tl ords steps st outs =>
    every_command_answered_proved (code_conf tl) ords putplog_returns_error steps 1 state0 st outs).
Qed.

(* 3'. The same statement for a putPLog that swallows the error (flag false; the code before
   ee5a67b65, finding F11) is false: one command, error before effect at the PLog write ... *)
Theorem every_command_answered_refuted :
  exists tl ords steps st outs,
  run (mkConf false true true tl) ords 1 steps state0 = (st, outs) /\ ~ Forall (fun o => o_reply o <> RNone) outs.
Proof.
  exists 0, (fun _ => [(0, false)]), [SCmd (mkCmd 1 false [Ins 1 5]) [(TPLog, 1, FBefore)]].
  eexists. eexists. split; [vm_compute; reflexivity|].
  intros H. inversion H as [|? ? Hx _]. apply Hx. reflexivity.
Qed.

(* ... while without a fault at a PLog write nobody dies, whatever putPLog does. *)
Theorem every_command_answered_partial :
  forall fx sees tl np dk ords steps st outs,
  ords_ok np dk ords -> no_plog_fault steps ->
  run (mkConf fx true sees tl) ords 1 steps state0 = (st, outs) -> Forall (fun o => o_reply o <> RNone) outs.
Proof.
  exact (fun fx sees tl np dk ords steps st outs =>
    every_command_answered_partial_proved (mkConf fx true sees tl) ords np dk steps st outs eq_refl).
Qed.

(* 4. No offset is reused: what the partition log or a workspace log holds at an offset after a
   history it holds after every continuation of that history. *)
Theorem log_entries_never_change :
  forall tl np dk ords steps1 steps2 st1 outs1 st2 outs2,
  ords_ok np dk ords ->
  run (code_conf tl) ords 1 steps1 state0 = (st1, outs1) ->
  run (code_conf tl) ords 1 (steps1 ++ steps2) state0 = (st2, outs2) ->
  (forall o e, nget (plog (sto st1)) o = Some e -> nget (plog (sto st2)) o = Some e)
  /\ (forall ws w e, get2 (wlog (sto st1)) ws w = Some e -> get2 (wlog (sto st2)) ws w = Some e).
Proof.
  exact (fun tl np dk ords steps1 steps2 st1 outs1 st2 outs2 =>
    log_entries_never_change_proved (code_conf tl) ords np dk steps1 steps2 st1 outs1 st2 outs2
      flush_stops_at_first_error).
Qed.

(* 5. The processor keeps serving: after any history with any faults a well-formed insert
   command sent without faults is answered with success, and the stores are consistent afterwards. *)
Theorem clean_command_succeeds :
  forall tl np dk ords steps c st outs,
  ords_ok np dk ords ->
  insert_only c = true ->
  run (code_conf tl) ords 1 (steps ++ [SCmd c []]) state0 = (st, outs) ->
  (exists w ids, option_map o_reply (last_opt outs) = Some (ROk w ids)) /\ consistent np dk all_projectors (sto st).
Proof.
  exact (fun tl np dk ords steps c st outs Ho =>
    clean_command_succeeds_all_proved (code_conf tl) ords np dk steps c st outs
      flush_stops_at_first_error decode_restores_activation_change Ho reapply_is_unconditional).
Qed.

(* 6. The boolean oracle evaluated on observed traces is sound for `consistent`: a trace the
   check accepts (`satisfies`) read back stores that are consistent in the sense of theorem 1,
   for the number of sync projectors of the test application. *)
Theorem oracle_sound :
  forall t, t_lenient t && t_deact t = false -> satisfies t = true ->
  consistent (t_np t) (fun _ => t_deact t) all_projectors (mkStore (t_plog t) (t_wlog t) (t_recs t) (t_proj t)).
Proof. exact satisfies_consistent. Qed.

(* ---------- non-vacuity: three projectors flushed in the order 2,0,1; a history with faults at
   the records, the views and the PLog, a restart, a failed recovery, an unknown record ---------- *)

Definition ex_ords : N -> list (N * bool) := fun _ => [(2, false); (0, false); (1, false)].

Lemma ex_ords_ok : ords_ok 3 (fun _ => false) ex_ords.
Proof.
  intros t j d. unfold ex_ords. cbn. split.
  - intros [E|[E|[E|[]]]]; inversion E; subst; split; (lia || reflexivity).
  - intros [Hj ->]. assert (H : j = 0 \/ j = 1 \/ j = 2) by lia. destruct H as [->|[->| ->]]; auto.
Qed.

Definition ex_steps : list step :=
  [SCmd (mkCmd 1 false [Ins 1 5; Ins 2 6]) [];
   SCmd (mkCmd 1 false [Ins 1 7; Upd 200001 8; Deact 200002]) [(TRec, 2, FAfter)];  (* half-applied *)
   SRestart;
   SCmd (mkCmd 2 false [Ins 1 9]) [(TView, 2, FBefore)];                            (* recovery fails at the 2nd projector *)
   SCmd (mkCmd 2 false [Upd 200001 3]) [(TPLog, 1, FBefore)];                       (* recovers; unknown record *)
   SCmd (mkCmd 2 false [Ins 1 9]) [(TView, 1, FAfter)]].                            (* first projector written, error *)

Example history_nonvacuous :
  let '(st, outs) := run (mkConf true true false 0) ex_ords 1 ex_steps state0 in
  map o_reply outs = [ROk 1 [200001; 200002]; RServer; RClient; RClient; RServer]
  /\ map o_written outs = [true; true; false; false; true]
  /\ map e_tag (events st) = [1; 2; 5]
  /\ map e_cuds (events st) = [[ENew 200001 5; ENew 200002 6]; [ENew 200003 7; EUpd 200001 8 true; EDeact 200002]; [ENew 200001 9]]
  /\ mem st = None
  /\ get2 (wlog (sto st)) 2 1 = Some (mkEvent 5 2 1 [ENew 200001 9])
  /\ get3 (proj (sto st)) 2 2 1 = Some 5        (* the projector flushed first has the row ... *)
  /\ get3 (proj (sto st)) 0 2 1 = None          (* ... the others not yet *)
  /\ get3 (proj (sto st)) 0 1 2 = Some 2        (* the half-applied event was completed: every view *)
  /\ get3 (proj (sto st)) 1 1 2 = Some 2
  /\ get2 (recs (sto st)) 1 200001 = Some (mkRec 8 true)
  /\ get2 (recs (sto st)) 1 200002 = Some (mkRec 6 false).
Proof. vm_compute. repeat split. Qed.

Example recovery_nonvacuous :
  let '(st, _) := run (code_conf 1) ex_ords 1 ex_steps state0 in
  let '(s', _, p) := recover (code_conf 1) [(1, false); (2, false); (0, false)] [] (sto st) [] in
  p <> None /\ get2 (wlog s') 2 1 = Some (mkEvent 5 2 1 [ENew 200001 9])
  /\ get3 (proj s') 0 2 1 = Some 5 /\ get3 (proj s') 1 2 1 = Some 5 /\ get3 (proj s') 2 2 1 = Some 5
  /\ get2 (recs s') 2 200001 = Some (mkRec 9 true)
  /\ map fst (plog s') = [1; 2; 3].
Proof. vm_compute. repeat split. discriminate. Qed.

Example in_log_iff_written_nonvacuous :
  let '(st, outs) := run (code_conf 0) ex_ords 1 ex_steps state0 in
  map (fun x => (fst (fst x), o_written (snd x))) (stamped 1 ex_steps outs)
    = [(1, true); (2, true); (3, false); (4, false); (5, true)]
  /\ map e_tag (events st) = [1; 2; 5].
Proof. vm_compute. split; reflexivity. Qed.

(* an AFTER DEACTIVATE projector without faults: a row for the deactivation, none for the others;
   and a deactivation whose WLog write fails is completed, its row being there already *)
Example deactivate_projector_nonvacuous :
  let k := code_conf 0 in
  let steps := [SCmd (mkCmd 1 false [Ins 1 5; Ins 2 6]) []; SCmd (mkCmd 1 false [Deact 200001]) [(TWLog, 1, FBefore)];
                SCmd (mkCmd 1 false [Upd 200002 7]) []] in
  let '(st, outs) := run k (fun _ => [(0, true)]) 1 steps state0 in
  map o_reply outs = [ROk 1 [200001; 200002]; RServer; ROk 3 []]
  /\ get3 (proj (sto st)) 0 1 1 = None /\ get3 (proj (sto st)) 0 1 2 = Some 2 /\ get3 (proj (sto st)) 0 1 3 = None
  /\ get2 (wlog (sto st)) 1 2 = Some (mkEvent 2 1 2 [EDeact 200001]).
Proof. vm_compute. repeat split. Qed.

Example answered_nonvacuous :
  let steps := [SCmd (mkCmd 1 false [Ins 1 5]) [(TPLog, 1, FAfter)]; SCmd (mkCmd 1 false [Ins 1 6]) []] in
  map o_reply (snd (run (code_conf 0) ex_ords 1 steps state0)) = [RServer; ROk 2 [200002]]
  /\ map o_reply (snd (run (mkConf false true false 0) ex_ords 1 steps state0)) = [RNone; ROk 2 [200002]].
Proof. vm_compute. split; reflexivity. Qed.

Example no_plog_fault_nonvacuous :
  no_plog_fault (firstn 4 ex_steps)
  /\ map o_reply (snd (run (mkConf false true false 0) ex_ords 1 (firstn 4 ex_steps) state0)) = [ROk 1 [200001; 200002]; RServer; RClient].
Proof.
  split; [|vm_compute; reflexivity].
  intros c plan Hin k. cbn in Hin.
  destruct Hin as [E|[E|[E|[E|[]]]]]; inversion E; subst; reflexivity.
Qed.

Example never_change_nonvacuous :
  let st1 := fst (run (code_conf 0) ex_ords 1 (firstn 2 ex_steps) state0) in
  let st2 := fst (run (code_conf 0) ex_ords 1 ex_steps state0) in
  nget (plog (sto st1)) 2 = Some (mkEvent 2 1 2 [ENew 200003 7; EUpd 200001 8 true; EDeact 200002])
  /\ nget (plog (sto st2)) 2 = nget (plog (sto st1)) 2
  /\ get2 (wlog (sto st1)) 1 2 = None /\ get2 (wlog (sto st2)) 1 2 = nget (plog (sto st2)) 2.
Proof. vm_compute. repeat split. Qed.

Example clean_command_nonvacuous :
  let c := mkCmd 3 false [Ins 1 1; Ins 2 2] in
  insert_only c = true
  /\ option_map o_reply (last_opt (snd (run (code_conf 0) ex_ords 1 (ex_steps ++ [SCmd c []]) state0))) = Some (ROk 1 [200001; 200002]).
Proof. vm_compute. split; reflexivity. Qed.

(* the trace the model (with the flags of the Go source, projectors flushed in the order 0,1,2 as
   `agrees` runs it) produces for ex_steps followed by a clean insert agrees with itself and passes
   the oracle; with the row of one projection removed the oracle rejects it *)
Definition ex_trace (drop : bool) : trace :=
  let steps := ex_steps ++ [SCmd (mkCmd 1 false [Ins 1 99]) []] in
  let '(st, outs) := run (code_conf 0) (fun _ => [(0, false); (1, false); (2, false)]) 1 steps state0 in
  mkTrace 0 3 false false
    (fst (fold_left (fun '(acc, os) s =>
            match s, os with
            | SCmd c plan, o :: r => (acc ++ [OCmd c plan (map (fired_in (o_calls o)) plan) (o_reply o) (o_calls o)], r)
            | SRestart, _ => (acc ++ [ORestart], os)
            | _, _ => (acc, os)
            end) steps ([], outs)))
    (plog (sto st)) (wlog (sto st)) (recs (sto st))
    (if drop then tl (proj (sto st)) else proj (sto st)).

Example oracle_nonvacuous :
  satisfies (ex_trace false) = true /\ agrees (ex_trace false) = true
  /\ satisfies (ex_trace true) = false /\ length (t_plog (ex_trace false)) = 4%nat
  /\ map fst (t_proj (ex_trace false)) = [0; 1; 2].
Proof. vm_compute. repeat split. Qed.

Print Assumptions recovery_restores_consistency.
Print Assumptions recovery_restores_consistency_partial.
Print Assumptions recovery_restores_consistency_refuted.
Print Assumptions serving_state_consistent.
Print Assumptions consistency_refuted_without_early_return.
Print Assumptions log_is_the_written_commands.
Print Assumptions command_in_log_iff_written.
Print Assumptions plog_error_means_absent_refuted.
Print Assumptions log_rows_well_formed.
Print Assumptions every_command_answered.
Print Assumptions every_command_answered_refuted.
Print Assumptions every_command_answered_partial.
Print Assumptions log_entries_never_change.
Print Assumptions clean_command_succeeds.
Print Assumptions oracle_sound.
