(* C01 - a command is either durably and completely applied or has no lasting effect.
   Statements only; every proof is `exact <lemma>` into C01_Command/Proofs.v.

   Vocabulary (C01_Command/Model.v): `run fx tl 1 steps state0` drives the model of the command
   processor through a history `steps` of commands (each with its own fault plan: any set of
   (write target, k-th write, fault kind)) and processor restarts, at trust level tl, from the
   empty storage; fx says whether cmdProc.putPLog hands PutPlog's error to the pipeline (the Go
   source's current answer is Gen.Params.c01_putplog_returns_err).  All theorems hold for every
   trust level (also values the code does not know), every history and every fault plan. *)
From Coq Require Import List NArith Bool Lia.
From V Require Import Gen.Params C01_Command.Model C01_Command.MapLemmas C01_Command.Ideal C01_Command.Proofs C01_Command.Oracle.
Import ListNotations.
Local Open Scope N_scope.

(* side condition on the tables the translator took from istructsmem/impl.go: the re-apply path
   of recovery (IEventReapplier) overwrites, it never uses a conditional insert *)
Lemma reapply_is_unconditional : reapply_unconditional.
Proof.
  split; [reflexivity|]. intros tl. unfold tl_flag, c05_rec_reapply_ops.
  destruct (N.to_nat tl) as [|[|[|[|n]]]]; reflexivity.
Qed.

(* 1. After any history with any faults, one recovery without faults succeeds, leaves the
   partition log as it is, and then the partition log, the workspace logs, the records and the
   synchronous projection describe the same events: PLog offsets 1..n without a gap, per
   workspace WLog offsets 1..m without a gap holding exactly that workspace's PLog events in
   order, records = fold of the PLog, one projection row per event (`consistent`). *)
Theorem recovery_restores_consistency :
  forall fx tl steps st outs,
  run fx tl 1 steps state0 = (st, outs) ->
  exists s' l' p, recover tl [] (sto st) [] = (s', l', Some p)
    /\ plog s' = plog (sto st) /\ consistent s'.
Proof. exact (fun fx tl steps st outs => recovery_restores_consistency_proved fx tl steps st outs reapply_is_unconditional). Qed.

(* 1'. Whenever the processor holds partition state (that is: unless the last command failed at a
   write step and the partition awaits recovery) the stores are consistent already. *)
Theorem serving_state_consistent :
  forall fx tl steps st outs,
  run fx tl 1 steps state0 = (st, outs) -> mem st <> None -> consistent (sto st).
Proof. exact serving_state_consistent_proved. Qed.

(* 2. The partition log holds exactly the commands whose PLog write took effect, in the order
   they were sent, each exactly once, each with the rows of its command and IDs / offset named in
   its reply; a command answered with success is among them, a command answered 4xx is not
   (reply_fits), and so is no command whose PLog write had no effect (o_written = false: it is
   not in `written_cmds`).  With theorem 1: commands in the list are in all four stores after
   recovery (also those that failed after the PLog write: completed, not half-applied), the
   others in none. *)
Theorem log_is_the_written_commands :
  forall fx tl steps st outs,
  run fx tl 1 steps state0 = (st, outs) ->
  Forall2 log_fits (events st) (written_cmds 1 steps outs)
  /\ Forall (fun o => forall w ids, o_reply o = ROk w ids -> o_written o = true) outs.
Proof. exact log_is_the_written_commands_proved. Qed.

(* 2'. Every update / deactivation row in the log addresses a record created by an earlier event
   of its workspace, and an update of V carries (and so leaves) the sys.IsActive value the record
   has by the earlier events: a command never touches what it did not name. *)
Theorem log_rows_well_formed :
  forall fx tl steps st outs,
  run fx tl 1 steps state0 = (st, outs) -> acts_ok [] (events st) = true.
Proof. exact log_rows_well_formed_proved. Qed.

(* 3. Exactly one reply per command, no dead processor - full statement:

     forall fx tl steps st outs, run fx tl 1 steps state0 = (st, outs) ->
       Forall (fun o => o_reply o <> RNone) outs.

   It holds when putPLog returns the error (fx = true), it is refuted when putPLog swallows it
   (fx = false: one command, error before effect at the PLog write; finding F11), and without
   a fault at a PLog write it holds whatever putPLog does. *)
Theorem every_command_answered :
  forall tl steps st outs,
  run true tl 1 steps state0 = (st, outs) -> Forall (fun o => o_reply o <> RNone) outs.
Proof. exact every_command_answered_proved. Qed.

Theorem every_command_answered_refuted :
  exists tl steps st outs,
  run false tl 1 steps state0 = (st, outs) /\ ~ Forall (fun o => o_reply o <> RNone) outs.
Proof.
  exists 0, [SCmd (mkCmd 1 false [Ins 1 5]) [(TPLog, 1, FBefore)]].
  eexists. eexists. split; [vm_compute; reflexivity|].
  intros H. inversion H as [|? ? Hx _]. apply Hx. reflexivity.
Qed.

Theorem every_command_answered_partial :
  forall fx tl steps st outs,
  no_plog_fault steps ->
  run fx tl 1 steps state0 = (st, outs) -> Forall (fun o => o_reply o <> RNone) outs.
Proof. exact every_command_answered_partial_proved. Qed.

(* 4. No offset is reused: what the partition log or a workspace log holds at an offset after a
   history it holds after every continuation of that history. *)
Theorem log_entries_never_change :
  forall fx tl steps1 steps2 st1 outs1 st2 outs2,
  run fx tl 1 steps1 state0 = (st1, outs1) ->
  run fx tl 1 (steps1 ++ steps2) state0 = (st2, outs2) ->
  (forall o e, nget (plog (sto st1)) o = Some e -> nget (plog (sto st2)) o = Some e)
  /\ (forall ws w e, get2 (wlog (sto st1)) ws w = Some e -> get2 (wlog (sto st2)) ws w = Some e).
Proof. exact log_entries_never_change_proved. Qed.

(* 5. The processor keeps serving: after any history with any faults a well-formed insert
   command sent without faults is answered with success (whatever putPLog does), and the stores
   are consistent afterwards. *)
Theorem clean_command_succeeds :
  forall fx tl steps c st outs,
  insert_only c = true ->
  run fx tl 1 (steps ++ [SCmd c []]) state0 = (st, outs) ->
  (exists w ids, option_map o_reply (last_opt outs) = Some (ROk w ids)) /\ consistent (sto st).
Proof. exact (fun fx tl steps c st outs => clean_command_succeeds_proved fx tl steps c st outs reapply_is_unconditional). Qed.

(* 6. The boolean oracle evaluated on observed traces is sound for `consistent`: a trace the
   check accepts (`satisfies`) read back stores that are consistent in the sense of theorem 1. *)
Theorem oracle_sound :
  forall t, satisfies t = true -> consistent (mkStore (t_plog t) (t_wlog t) (t_recs t) (t_proj t)).
Proof. exact satisfies_consistent. Qed.

(* ---------- non-vacuity: a history with faults at the records, the view and the PLog, a
   restart, a failed recovery, an unknown record ---------- *)

Definition ex_steps : list step :=
  [SCmd (mkCmd 1 false [Ins 1 5; Ins 2 6]) [];
   SCmd (mkCmd 1 false [Ins 1 7; Upd 200001 8; Deact 200002]) [(TRec, 2, FAfter)];  (* half-applied *)
   SRestart;
   SCmd (mkCmd 2 false [Ins 1 9]) [(TView, 1, FBefore)];                            (* recovery fails *)
   SCmd (mkCmd 2 false [Upd 200001 3]) [(TPLog, 1, FBefore)];                       (* recovers; unknown record *)
   SCmd (mkCmd 2 false [Ins 1 9]) [(TPLog, 1, FAfter)]].                            (* written, error reported *)

Example history_nonvacuous :
  let '(st, outs) := run true 0 1 ex_steps state0 in
  map o_reply outs = [ROk 1 [200001; 200002]; RServer; RClient; RClient; RServer]
  /\ map o_written outs = [true; true; false; false; true]
  /\ map e_tag (events st) = [1; 2; 5]
  /\ map e_cuds (events st) = [[ENew 200001 5; ENew 200002 6]; [ENew 200003 7; EUpd 200001 8 true; EDeact 200002]; [ENew 200001 9]]
  /\ mem st = None
  /\ get2 (wlog (sto st)) 2 1 = None                       (* the last event is not yet in the WLog *)
  /\ get2 (recs (sto st)) 1 200001 = Some (mkRec 8 true)   (* the half-applied one was completed *)
  /\ get2 (recs (sto st)) 1 200002 = Some (mkRec 6 false).
Proof. vm_compute. repeat split. Qed.

Example recovery_nonvacuous :
  let '(st, _) := run false 1 1 ex_steps state0 in
  let '(s', _, p) := recover 1 [] (sto st) [] in
  p <> None /\ get2 (wlog s') 2 1 = Some (mkEvent 5 2 1 [ENew 200001 9])
  /\ get2 (proj s') 2 1 = Some 5 /\ get2 (recs s') 2 200001 = Some (mkRec 9 true)
  /\ map fst (plog s') = [1; 2; 3].
Proof. vm_compute. repeat split. discriminate. Qed.

Example answered_nonvacuous :
  let '(_, outs) := run false 0 1 ex_steps state0 in
  map o_reply outs = [ROk 1 [200001; 200002]; RServer; RClient; RClient; RNone].
Proof. vm_compute. reflexivity. Qed.

Example no_plog_fault_nonvacuous :
  no_plog_fault (firstn 4 ex_steps)
  /\ map o_reply (snd (run false 0 1 (firstn 4 ex_steps) state0)) = [ROk 1 [200001; 200002]; RServer; RClient].
Proof.
  split; [|vm_compute; reflexivity].
  intros c plan Hin k. cbn in Hin.
  destruct Hin as [E|[E|[E|[E|[]]]]]; inversion E; subst; reflexivity.
Qed.

Example never_change_nonvacuous :
  let st1 := fst (run true 0 1 (firstn 2 ex_steps) state0) in
  let st2 := fst (run true 0 1 ex_steps state0) in
  nget (plog (sto st1)) 2 = Some (mkEvent 2 1 2 [ENew 200003 7; EUpd 200001 8 true; EDeact 200002])
  /\ nget (plog (sto st2)) 2 = nget (plog (sto st1)) 2
  /\ get2 (wlog (sto st1)) 1 2 = None /\ get2 (wlog (sto st2)) 1 2 = nget (plog (sto st2)) 2.
Proof. vm_compute. repeat split. Qed.

Example clean_command_nonvacuous :
  let c := mkCmd 3 false [Ins 1 1; Ins 2 2] in
  insert_only c = true
  /\ option_map o_reply (last_opt (snd (run false 0 1 (ex_steps ++ [SCmd c []]) state0))) = Some (ROk 1 [200001; 200002]).
Proof. vm_compute. split; reflexivity. Qed.

(* the trace the model (with putPLog as the Go source has it) produces for ex_steps followed by a
   clean insert agrees with itself and passes the lenient oracle; the strict oracle accepts it
   exactly when putPLog returns the error (otherwise one command of ex_steps gets no reply) *)
Definition ex_trace (lenient : bool) : trace :=
  let steps := ex_steps ++ [SCmd (mkCmd 1 false [Ins 1 99]) []] in
  let '(st, outs) := run c01_putplog_returns_err 0 1 steps state0 in
  mkTrace 0 lenient
    (fst (fold_left (fun '(acc, os) s =>
            match s, os with
            | SCmd c plan, o :: r => (acc ++ [OCmd c plan (map (fired_in (o_calls o)) plan) (o_reply o) (o_calls o)], r)
            | SRestart, _ => (acc ++ [ORestart], os)
            | _, _ => (acc, os)
            end) steps ([], outs)))
    (plog (sto st)) (wlog (sto st)) (recs (sto st)) (proj (sto st)).

Example oracle_nonvacuous :
  satisfies (ex_trace true) = true /\ agrees (ex_trace true) = true
  /\ satisfies (ex_trace false) = c01_putplog_returns_err /\ length (t_plog (ex_trace true)) = 4%nat.
Proof. vm_compute. repeat split. Qed.

Print Assumptions recovery_restores_consistency.
Print Assumptions serving_state_consistent.
Print Assumptions log_is_the_written_commands.
Print Assumptions log_rows_well_formed.
Print Assumptions every_command_answered.
Print Assumptions every_command_answered_refuted.
Print Assumptions every_command_answered_partial.
Print Assumptions log_entries_never_change.
Print Assumptions clean_command_succeeds.
Print Assumptions oracle_sound.
