(* C10 - persistent name->ID assignments (type names, container names, singletons) never change
   and never collide.  Statements only; every proof is `exact <lemma>` into C10_Registry/Proofs.v.

   Vocabulary (C10_Registry/Model.v, Proofs.v):
     state = (sys, proc)
       sys    persistent: rows + version row of the qnames / containers / singletons views
       proc   volatile, one per process: the three registry objects, their pending-changes
              counters and the cached versions; they survive a failed start and are prepared
              again by an in-process retry
     AStart qn cn sn f   a new process starts the application with the names the schema
              enumerates (in order) and an injected storage failure f (none / rows batch of
              registry r / version row of registry r)
     ARetry qn cn sn f   the same process asks for the application again (after a failed start:
              AppConfigType.prepare runs again on the same objects; after a successful one: no-op)
     ARename o n f       qnames.Rename
     sys_run             any history of such actions
     sys_ok              every registry: rows sorted, live IDs strictly between the reserved range
                         and the limit, no two names share a live ID
     inv b st            sys_ok, and (unless b: a Rename happened since the process began) every
                         registry object is well-formed, compatible with the stored rows, and
                         fully stored unless its changes counter is pending
     hist_ok b l         the one excluded sequencing: an in-process retry after a Rename changed
                         the storage behind the process's back (holds for every history without
                         ARetry: hist_ok_without_retries)
     prepares st a ...   a is a start, or a retry while the process is not yet prepared *)
From Coq Require Import List NArith Lia.
From V Require Import Lib.Lex Lib.SMap Gen.Params C10_Registry.Model C10_Registry.Proofs.
Import ListNotations.
Local Open Scope N_scope.

(* side conditions on the constants and code shapes the translator took from the Go source *)
Lemma qname_range_nonempty : reg_qname_sys_last < reg_qname_max.
Proof. vm_compute. reflexivity. Qed.
Lemma container_range_nonempty : reg_cont_sys_last < reg_cont_max.
Proof. vm_compute. reflexivity. Qed.
Lemma singleton_range_nonempty : 0 < reg_first_singleton /\ reg_first_singleton < reg_max_singleton.
Proof. vm_compute. split; reflexivity. Qed.
(* load() reads the stored rows whether or not the version row exists (the repair of F20) *)
Lemma rows_are_read_without_version_row :
  reg_qname_needs_version = false /\ reg_cont_needs_version = false /\ reg_single_needs_version = false.
Proof. repeat split; reflexivity. Qed.
(* the pending-changes counter is cleared by store() after both writes went through, never by
   Prepare before the store: a failed store stays pending for the in-process retry *)
Lemma changes_cleared_only_by_successful_store :
  reg_qname_changes_cleared_by_store = true /\ reg_cont_changes_cleared_by_store = true /\
  reg_single_changes_cleared_by_store = true.
Proof. repeat split; reflexivity. Qed.

(* load01 skips a row carrying the deleted mark (name -> Null ID) before any other check *)
Lemma deleted_mark_rows_are_skipped : reg_qname_skips_deleted = true /\ reg_cont_skips_deleted = true.
Proof. split; reflexivity. Qed.

(* Rename writes its rows (new name := old ID, old name := 0) with ONE storage call, the PutBatch
   of store(); each store() issues exactly one PutBatch (anchored by the translator) *)
Lemma rename_writes_rows_with_one_storage_call : reg_rename_atomic = true.
Proof. reflexivity. Qed.

(* ---- no collision, system range untouched, never at or above the limit: an invariant of every
   history, on any well-formed storage (starts with arbitrary schemas and enumeration orders,
   failures of the rows batch or of the version row in any registry - i.e. also the interruption
   between the rows and the version row -, in-process retries, renames) ---- *)
Theorem registries_stay_well_formed :
  forall b st l, inv b st -> hist_ok b l -> sys_ok (fst (sys_run st l)).
Proof. exact sys_run_ok. Qed.

Theorem any_well_formed_storage_any_new_process :
  forall s b, sys_ok s -> inv b (s, proc0).
Proof. exact inv_fresh. Qed.

Theorem hist_ok_without_retries :
  forall l b, forallb (fun a => negb (is_retry a)) l = true -> hist_ok b l.
Proof. exact hist_ok_no_retry. Qed.

(* ... and what the application gets from a successful start or retry after any such history:
   every name of the schema has an ID; no two names share one; each ID lies strictly between the
   reserved range and the limit, maps back to its name (ID->name), IS STORED (so the next process
   finds it), and every stored live ID is returned *)
Theorem successful_start_is_injective :
  forall b st l a qn cn sn st' mq mc ms,
  inv b st -> hist_ok b (l ++ [a]) -> prepares (sys_run st l) a qn cn sn ->
  sys_step (sys_run st l) a = (st', SOk mq mc ms) ->
  lookup_ok cfg_q mq qn (s_q (fst st')) /\ lookup_ok cfg_c mc cn (s_c (fst st')) /\
  lookup_ok cfg_s ms sn (s_s (fst st')).
Proof. exact start_lookup_after. Qed.

(* ---- stable: stored IDs survive every history, in all three registries
   (r = 0 qnames, 1 containers, 2 singletons) ---- *)
Theorem stored_ids_stable :
  forall r l b st n id,
  inv b st -> hist_ok b l ->
  sm_get n (p_rows (sel r (fst st))) = Some id -> skip (cfg_of r) id = false ->
  (r = 0 -> never_renamed n l) ->
  sm_get n (p_rows (sel r (fst (sys_run st l)))) = Some id.
Proof. exact sys_run_stable. Qed.

(* the same as the application observes it: an ID returned by one successful start or retry is
   returned by every later successful start or retry *)
Theorem ids_same_on_every_later_start :
  forall r b st a1 qn cn sn st1 mq mc ms n id l a2 qn' cn' sn' st2 mq' mc' ms',
  inv b st -> hist_ok b (a1 :: l ++ [a2]) ->
  prepares st a1 qn cn sn -> sys_step st a1 = (st1, SOk mq mc ms) ->
  sm_get n (m_names (mem_of r mq mc ms)) = Some id ->
  (r = 0 -> never_renamed n l) ->
  prepares (sys_run st1 l) a2 qn' cn' sn' ->
  sys_step (sys_run st1 l) a2 = (st2, SOk mq' mc' ms') ->
  sm_get n (m_names (mem_of r mq' mc' ms')) = Some id.
Proof. exact start_ids_stable. Qed.

(* Rename moves the ID to the new name and leaves a tombstone; every other name keeps its ID
   (part of stored_ids_stable) *)
Theorem rename_moves_the_id :
  forall p old new f,
  rows_ok cfg_q (p_rows p) -> snd (rename cfg_q p old new f) = 0 ->
  exists id, sm_get old (p_rows p) = Some id /\ skip cfg_q id = false /\
             sm_get new (p_rows (fst (rename cfg_q p old new f))) = Some id /\
             sm_get old (p_rows (fst (rename cfg_q p old new f))) = Some 0.
Proof. exact (rename_moves_id cfg_q cfg_q_wf cfg_q_skipdel cfg_q_read eq_refl cfg_q_atomic). Qed.

(* Rename is all or nothing: whichever of its storage calls fails (the rows batch, the version row,
   the k-th write call) or after whichever the process stops, the stored rows are untouched or
   completely renamed - so, by the theorems above, every later history of starts sees either the
   old assignment or the new one, never both names with the ID and never neither *)
Theorem rename_all_or_nothing :
  forall p old new f,
  rows_ok cfg_q (p_rows p) ->
  p_rows (fst (rename cfg_q p old new f)) = p_rows p \/
  (exists id, sm_get old (p_rows p) = Some id /\ skip cfg_q id = false /\
     forall n, sm_get n (p_rows (fst (rename cfg_q p old new f))) =
               if bytes_eq_dec n new then Some id else if bytes_eq_dec n old then Some 0 else sm_get n (p_rows p)).
Proof. exact (Proofs.rename_all_or_nothing cfg_q cfg_q_wf cfg_q_skipdel cfg_q_read eq_refl cfg_q_atomic). Qed.

(* ... and the side condition rename_writes_rows_with_one_storage_call is necessary: a Rename that
   writes the two rows with two storage calls (both always attempted) leaves, when exactly one of
   them fails, both names with the ID (A) or the ID with no name (B); a process stopping between
   them gives (A) *)
Definition cfg_two_puts : rcfg := mkCfg 255 65535 true false true true false.
Theorem half_rename_if_two_storage_calls :
  let p := mkPers [([97], 256); ([98], 257)] 0 in
  p_rows (fst (rename cfg_two_puts p [98] [100] (RnWrite 2))) = [([97], 256); ([98], 257); ([100], 257)] /\
  p_rows (fst (rename cfg_two_puts p [98] [100] (RnStop 1))) = [([97], 256); ([98], 257); ([100], 257)] /\
  p_rows (fst (rename cfg_two_puts p [98] [100] (RnWrite 1))) = [([97], 256); ([98], 0)] /\
  ~ rows_ok cfg_two_puts (p_rows (fst (rename cfg_two_puts p [98] [100] (RnWrite 2)))).
Proof.
  vm_compute. repeat split. intros (_ & _ & Hinj). specialize (Hinj [98] [100] 257).
  assert (H : [98] = [100]) by (apply Hinj; reflexivity). discriminate.
Qed.

(* ---- data written under an ID is decoded with the name it was written under ---- *)
Theorem data_decoded_with_its_name :
  forall b st a1 qn cn sn st1 mq mc ms n id l a2 qn' cn' sn' st2 mq' mc' ms',
  inv b st -> hist_ok b (a1 :: l ++ [a2]) ->
  prepares st a1 qn cn sn -> sys_step st a1 = (st1, SOk mq mc ms) ->
  sm_get n (m_names mq) = Some id ->
  never_renamed n l ->
  prepares (sys_run st1 l) a2 qn' cn' sn' ->
  sys_step (sys_run st1 l) a2 = (st2, SOk mq' mc' ms') ->
  In n qn' -> decode mq' qn' id = Some n.
Proof. exact decode_stable. Qed.

(* ---- the limit is an error, not a wrap-around: nothing is stored, and it happens only when the
   IDs really run out (allocated IDs stay below the limit by successful_start_is_injective) ---- *)
Theorem limit_is_error_stores_nothing :
  forall c p v names f p' v',
  c_sys_last c < c_max c -> c_skipdel c = true -> c_needver c = false -> c_late c = true ->
  rows_ok c (p_rows p) -> vol_ok c p v ->
  prepare c p v names f = (p', v', RErr 2) -> p' = p.
Proof. exact (fun c p v names f p' v' Hwf Hs Hr Hl => prepare_limit_keeps c Hwf Hs Hr Hl p v names f p' v'). Qed.

Theorem no_limit_error_while_room :
  forall c p v names f m1,
  c_sys_last c < c_max c -> c_skipdel c = true -> c_needver c = false ->
  rows_ok c (p_rows p) -> vol_ok c p v ->
  load_rows c (p_rows p) (v_mem v) = (m1, true) ->
  m_last m1 + N.of_nat (length names) < c_max c ->
  forall p' v', prepare c p v names f <> (p', v', RErr 2).
Proof. exact (fun c p v names f m1 Hwf Hs Hr => prepare_room c Hwf Hs Hr p v names f m1). Qed.

(* ---- what the in-process retry relies on: a Prepare that failed in store() leaves its changes
   pending, so the retry stores again instead of starting the application on unstored IDs ---- *)
Theorem failed_store_stays_pending :
  forall c p v names f p' v',
  c_sys_last c < c_max c -> c_skipdel c = true -> c_needver c = false -> c_late c = true ->
  rows_ok c (p_rows p) -> vol_ok c p v ->
  prepare c p v names f = (p', v', RErr 1) -> v_changed v' = true.
Proof. exact (fun c p v names f p' v' Hwf Hs Hr Hl => failed_store_keeps_changes c Hwf Hs Hr Hl p v names f p' v'). Qed.

(* ... and the hypothesis c_late = true is necessary: a registry that clears the counter before
   calling store() starts the application, after a failed rows batch and an in-process retry, on
   an ID that is not stored *)
Definition cfg_early : rcfg := mkCfg 255 65535 true false false true true.
Theorem unstored_ids_if_counter_cleared_before_store :
  exists p1 v1 p2 v2 m n id,
    prepare cfg_early (mkPers [] 0) (vol0 cfg_early) [n] RFailBatch = (p1, v1, RErr 1) /\
    prepare cfg_early p1 v1 [n] RNoFault = (p2, v2, ROk m) /\
    sm_get n (m_names m) = Some id /\ sm_get n (p_rows p2) = None.
Proof. do 4 eexists. exists (mkMem [([98], 256)] [(256, [98])] 256), [98], 256. vm_compute. repeat split. Qed.

(* ---- deleted marks: a re-added name never inherits the Null ID.  The side condition
   deleted_mark_rows_are_skipped is necessary: a registry whose load takes a deleted-mark row into
   the name map hands the re-added name the Null ID (it counts as known, nothing is allocated) ---- *)
Definition cfg_keeps_deleted : rcfg := mkCfg 63 65535 true false true false true.
Theorem readded_name_gets_null_id_if_deleted_mark_is_loaded :
  exists p' v' m,
    prepare cfg_keeps_deleted (mkPers [([1], 0); ([2], 64)] 1) (vol0 cfg_keeps_deleted) [[1]; [2]] RNoFault = (p', v', ROk m) /\
    sm_get [1] (m_names m) = Some 0.
Proof. do 3 eexists. vm_compute. split; reflexivity. Qed.

(* ---- Rename and singletons (finding C10-F2).
   Full statement (what the property asks for): a Rename moves every ID of the old name to the new
   name, i.e. also the singleton ID:
     forall history with a successful Rename old -> new, a later start with new as a singleton
     returns for new the singleton ID old had.
   It is false for the code as it is: qrename.Rename renames in the QNames view only (anchored by
   the translator), the Singletons view keeps the old name, and the renamed type is handed a new
   singleton ID - the singleton record stored under the old ID is no longer reachable under it.
   What does hold is per name: stored_ids_stable / ids_same_on_every_later_start (every singleton
   name keeps its ID; the QNameID does move: rename_moves_the_id). ---- *)
Theorem rename_moves_the_singleton_id_refuted :
  exists l old new qn sn st' mq mc ms sid,
    hist_ok false l /\ In (ARename old new NoFault) l /\
    sm_get old (p_rows (s_s (fst (sys_run (fresh, proc0) l)))) = Some sid /\
    sys_step (sys_run (fresh, proc0) l) (AStart qn [] sn NoFault) = (st', SOk mq mc ms) /\
    In new sn /\ ~ In old qn /\
    sm_get new (m_names mq) = Some 256 /\                  (* the QNameID moved: old had 256 *)
    sm_get new (m_names ms) <> Some sid.                   (* the singleton ID did not *)
Proof.
  exists [AStart [[97]; [98]] [] [[97]; [98]] NoFault; ARename [97] [100] NoFault], [97], [100], [[98]; [100]], [[98]; [100]].
  do 4 eexists. exists 65536. vm_compute.
  repeat split; try reflexivity; try tauto; try (right; left; reflexivity); try discriminate.
  intros [H|[H|[]]]; discriminate.
Qed.

(* ---------------- non-vacuity ---------------- *)

Definition nA := [97]. Definition nB := [98]. Definition nC := [99]. Definition nD := [100].
Definition k1 := [1]. Definition k2 := [2].

(* a history with a failed rows batch, an in-process retry that fails at the containers' version
   row, a second retry that succeeds, a rename, and a new process with a grown, reordered schema *)
Definition hist1 : list action :=
  [AStart [nB; nC] [k2] [nC] (FailBatch 0);
   ARetry [nB; nC] [k2] [nC] (FailVer 1);
   ARetry [nB; nC] [k2] [nC] NoFault;
   ARename nB nD NoFault;
   AStart [nA; nB; nD] [k1; k2] [nA; nD] NoFault].

Example hist1_ok : hist_ok false hist1 /\ inv false (fresh, proc0).
Proof. split; [cbn; tauto|apply inv_fresh; apply fresh_ok]. Qed.

Example stable_nonvacuous :
  (* the failed start stores nothing; the first retry stores qnames and the container rows but not
     the containers' version row, which then stays absent (the cached version says it is written) *)
  fst (sys_run (fresh, proc0) (firstn 1 hist1)) = fresh /\
  fst (sys_run (fresh, proc0) (firstn 3 hist1)) =
    mkSys (mkPers [(nB, 256); (nC, 257)] 1) (mkPers [(k2, 64)] 0) (mkPers [(nC, 65536)] 1) /\
  (* nB's ID went to nD, the re-added nB got a new one, nC and k2 kept theirs although nA and k1
     are enumerated before them now *)
  fst (sys_run (fresh, proc0) hist1) =
    mkSys (mkPers [(nA, 258); (nB, 259); (nC, 257); (nD, 256)] 1) (mkPers [(k1, 65); (k2, 64)] 1)
          (mkPers [(nA, 65537); (nC, 65536); (nD, 65538)] 1) /\
  (exists st' mq mc ms,
     sys_step (sys_run (fresh, proc0) hist1) (AStart [nC; nD] [k2] [nC] NoFault) = (st', SOk mq mc ms) /\
     sm_get nC (m_names mq) = Some 257 /\ sm_get nD (m_names mq) = Some 256 /\
     decode mq [nC; nD] 256 = Some nD /\ decode mq [nC; nD] 258 = None /\
     sm_get k2 (m_names mc) = Some 64 /\ sm_get nC (m_names ms) = Some 65536).
Proof. vm_compute. repeat split. do 4 eexists. repeat split. Qed.

Example prepares_nonvacuous :
  prepares (sys_run (fresh, proc0) (firstn 1 hist1)) (ARetry [nB; nC] [k2] [nC] (FailVer 1)) [nB; nC] [k2] [nC].
Proof. constructor. vm_compute. reflexivity. Qed.

Example rename_nonvacuous :
  let p := s_q (fst (sys_run (fresh, proc0) [AStart [nA; nB] [] [] NoFault])) in
  snd (rename cfg_q p nB nD RnNone) = 0 /\
  p_rows (fst (rename cfg_q p nB nD RnNone)) = [(nA, 256); (nB, 0); (nD, 257)] /\
  snd (rename cfg_q p nC nD RnNone) = 5 /\ snd (rename cfg_q p nA nB RnNone) = 5.
Proof. vm_compute. repeat split. Qed.

(* a Rename on rows without a version row issues two storage calls (rows batch, version row):
   failing the first leaves everything, failing the second or stopping after the first leaves the
   rows completely renamed (reported as a failure), stopping before the first leaves everything *)
Example rename_all_or_nothing_nonvacuous :
  let p := mkPers [(nA, 256); (nB, 257)] 0 in
  rename cfg_q p nB nD (RnWrite 1) = (p, 1) /\
  rename cfg_q p nB nD (RnWrite 2) = (mkPers [(nA, 256); (nB, 0); (nD, 257)] 0, 1) /\
  rename cfg_q p nB nD (RnStop 1) = (mkPers [(nA, 256); (nB, 0); (nD, 257)] 0, 1) /\
  rename cfg_q p nB nD (RnStop 0) = (p, 1) /\
  rename cfg_q p nB nD RnNone = (mkPers [(nA, 256); (nB, 0); (nD, 257)] 1, 0).
Proof. vm_compute. repeat split. Qed.

(* a deleted mark in the containers view: the name that comes back gets a fresh ID, never the Null ID *)
Example deleted_mark_nonvacuous :
  p_rows (fst (fst (prepare cfg_c (mkPers [(k1, 0); (k2, 64)] 1) (vol0 cfg_c) [k1; k2] RNoFault))) = [(k1, 65); (k2, 64)].
Proof. vm_compute. reflexivity. Qed.

(* the interruption between the rows and the version row of the first store, retried in the same
   process and followed by a new process with a grown schema *)
Example interrupted_first_store_nonvacuous :
  let l := [AStart [nB; nC] [] [] (FailVer 0); ARetry [nB; nC] [] [] NoFault; AStart [nA; nB; nC] [] [] NoFault] in
  hist_ok false l /\
  s_q (fst (sys_run (fresh, proc0) (firstn 2 l))) = mkPers [(nB, 256); (nC, 257)] 0 /\
  s_q (fst (sys_run (fresh, proc0) l)) = mkPers [(nA, 258); (nB, 256); (nC, 257)] 1.
Proof. split; [cbn; tauto|]. vm_compute. split; reflexivity. Qed.

(* the limit: one free singleton ID left, two new singletons wanted -> error 2, nothing stored;
   one wanted -> gets the last ID below the limit *)
Example limit_nonvacuous :
  let p := mkPers [(nA, reg_max_singleton - 2)] 1 in
  fst (fst (prepare cfg_s p (vol0 cfg_s) [nA; nB; nC] RNoFault)) = p /\
  snd (prepare cfg_s p (vol0 cfg_s) [nA; nB; nC] RNoFault) = RErr 2 /\
  p_rows (fst (fst (prepare cfg_s p (vol0 cfg_s) [nA; nB] RNoFault))) = [(nA, reg_max_singleton - 2); (nB, reg_max_singleton - 1)] /\
  rows_ok cfg_s (p_rows p) /\ vol_ok cfg_s p (vol0 cfg_s).
Proof.
  intros p. split; [vm_compute; reflexivity|split; [vm_compute; reflexivity|split; [vm_compute; reflexivity|]]].
  split; [|apply vol0_ok; exact cfg_s_wf].
  split; [constructor|split].
  - intros n id H _. cbn in H. destruct (lex_cmp n nA); inversion H; subst. vm_compute. split; reflexivity.
  - intros n1 n2 id H1 H2 _. cbn in H1, H2.
    destruct (lex_cmp n1 nA) eqn:E1; try discriminate. destruct (lex_cmp n2 nA) eqn:E2; try discriminate.
    apply lex_cmp_eq in E1, E2. congruence.
Qed.

Print Assumptions registries_stay_well_formed.
Print Assumptions any_well_formed_storage_any_new_process.
Print Assumptions hist_ok_without_retries.
Print Assumptions successful_start_is_injective.
Print Assumptions stored_ids_stable.
Print Assumptions ids_same_on_every_later_start.
Print Assumptions rename_moves_the_id.
Print Assumptions rename_all_or_nothing.
Print Assumptions half_rename_if_two_storage_calls.
Print Assumptions data_decoded_with_its_name.
Print Assumptions limit_is_error_stores_nothing.
Print Assumptions no_limit_error_while_room.
Print Assumptions failed_store_stays_pending.
Print Assumptions unstored_ids_if_counter_cleared_before_store.
Print Assumptions readded_name_gets_null_id_if_deleted_mark_is_loaded.
Print Assumptions rename_moves_the_singleton_id_refuted.
