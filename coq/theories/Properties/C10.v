(* C10 - persistent name->ID assignments (type names, container names, singletons) never change
   and never collide.  Statements only; every proof is `exact <lemma>` into C10_Registry/Proofs.v.

   Vocabulary (C10_Registry/Model.v, Proofs.v):
     sys            persistent state: rows + version row of the qnames / containers / singletons views
     AStart qn cn sn f   one application start with the names the schema enumerates (in order) and an
                    injected storage failure f (none / rows batch of registry r / version row of registry r)
     ARename o n f  qnames.Rename
     sys_run        any history of such actions
     sys_ok         every registry: rows sorted, live IDs strictly between the reserved range and
                    the limit, no two names share a live ID
     sys_covered    at every Prepare of the history, the registry's stored rows are either read
                    (version row set) or all their names are in the schema being prepared.
                    It holds for every history without a failure of a version-row write
                    (uninterrupted_histories_covered) and for an interrupted first start retried
                    with a schema that still contains the interrupted one's names
                    (interrupted_first_store_partial); without it the statement is false for the
                    code as it is (no_collision_refuted: finding F20). *)
From Coq Require Import List NArith Lia.
From V Require Import Lib.Lex Lib.SMap Gen.Params C10_Registry.Model C10_Registry.Proofs.
Import ListNotations.
Local Open Scope N_scope.

(* side conditions on the constants the translator took from the Go source *)
Lemma qname_range_nonempty : reg_qname_sys_last < reg_qname_max.
Proof. vm_compute. reflexivity. Qed.
Lemma container_range_nonempty : reg_cont_sys_last < reg_cont_max.
Proof. vm_compute. reflexivity. Qed.
Lemma singleton_range_nonempty : 0 < reg_first_singleton /\ reg_first_singleton < reg_max_singleton.
Proof. vm_compute. split; reflexivity. Qed.
(* the three load() functions treat an absent version row alike (all skip the stored rows - the
   root of F20 - or, after the proposed repair, all read them) *)
Lemma registries_treat_absent_version_alike :
  reg_qname_needs_version = reg_cont_needs_version /\ reg_cont_needs_version = reg_single_needs_version.
Proof. split; reflexivity. Qed.

(* ---- no collision, system range untouched, never at or above the limit: an invariant of every history ---- *)
Theorem registries_stay_well_formed :
  forall s l, sys_ok s -> sys_covered s l -> sys_ok (sys_run s l).
Proof. exact (fun s l => sys_run_ok l s). Qed.

(* ... and what the application gets from a successful start after any such history: every name of
   the schema has an ID; no two names share one; each ID lies strictly between the reserved range
   and the limit, maps back to its name (ID->name), and is the one stored *)
Theorem successful_start_is_injective :
  forall s l qn cn sn f s' mq mc ms,
  sys_ok s -> sys_covered s l -> sys_covers (sys_run s l) (AStart qn cn sn f) ->
  sys_step (sys_run s l) (AStart qn cn sn f) = (s', SOk mq mc ms) ->
  lookup_ok cfg_q mq qn (s_q s') /\ lookup_ok cfg_c mc cn (s_c s') /\ lookup_ok cfg_s ms sn (s_s s').
Proof.
  exact (fun s l qn cn sn f s' mq mc ms Hok Hcov Hc E =>
           start_lookup_ok (sys_run s l) qn cn sn f s' mq mc ms (sys_run_ok l s Hok Hcov) Hc E).
Qed.

(* ---- stable: stored IDs survive every history (add / drop / re-add / rename of other names,
   failures at any point), in all three registries (r = 0 qnames, 1 containers, 2 singletons) ---- *)
Theorem stored_ids_stable :
  forall r l s n id,
  sys_ok s -> sys_covered s l ->
  reads_rows (cfg_of r) (sel r s) = true ->
  sm_get n (p_rows (sel r s)) = Some id -> skip (cfg_of r) id = false ->
  (r = 0 -> never_renamed n l) ->
  sm_get n (p_rows (sel r (sys_run s l))) = Some id.
Proof. exact (fun r l s n id H1 H2 H3 H4 H5 H6 => proj1 (sys_run_stable r l s n id H1 H2 H3 H4 H5 H6)). Qed.

(* the same as the application observes it: an ID returned by one successful start is returned by
   every later successful start *)
Theorem ids_same_on_every_later_start :
  forall r s qn cn sn f s1 mq mc ms n id l qn' cn' sn' f' s2 mq' mc' ms',
  sys_ok s -> sys_covers s (AStart qn cn sn f) ->
  sys_step s (AStart qn cn sn f) = (s1, SOk mq mc ms) ->
  sm_get n (m_names (mem_of r mq mc ms)) = Some id ->
  sys_covered s1 l -> (r = 0 -> never_renamed n l) ->
  sys_covers (sys_run s1 l) (AStart qn' cn' sn' f') ->
  sys_step (sys_run s1 l) (AStart qn' cn' sn' f') = (s2, SOk mq' mc' ms') ->
  sm_get n (m_names (mem_of r mq' mc' ms')) = Some id.
Proof. exact start_ids_stable. Qed.

(* Rename moves the ID to the new name and leaves a tombstone; every other name keeps its ID
   (part of stored_ids_stable) *)
Theorem rename_moves_the_id :
  forall p old new f,
  rows_ok cfg_q (p_rows p) -> snd (rename cfg_q p old new f) = 0 ->
  exists id, sm_get old (p_rows p) = Some id /\ skip cfg_q id = false /\
             sm_get new (p_rows (fst (rename cfg_q p old new f))) = Some id /\
             sm_get old (p_rows (fst (rename cfg_q p old new f))) = Some 0.
Proof. exact (rename_moves_id cfg_q cfg_q_wf eq_refl). Qed.

(* ---- data written under an ID is decoded with the name it was written under ---- *)
Theorem data_decoded_with_its_name :
  forall s qn cn sn f s1 mq mc ms n id l qn' cn' sn' f' s2 mq' mc' ms',
  sys_ok s -> sys_covers s (AStart qn cn sn f) ->
  sys_step s (AStart qn cn sn f) = (s1, SOk mq mc ms) ->
  sm_get n (m_names mq) = Some id ->
  sys_covered s1 l -> never_renamed n l ->
  sys_covers (sys_run s1 l) (AStart qn' cn' sn' f') ->
  sys_step (sys_run s1 l) (AStart qn' cn' sn' f') = (s2, SOk mq' mc' ms') ->
  In n qn' -> decode mq' qn' id = Some n.
Proof. exact decode_stable. Qed.

(* ---- the limit is an error, not a wrap-around: nothing is stored, and it happens only when the
   IDs really run out (allocated IDs stay below the limit by successful_start_is_injective) ---- *)
Theorem limit_is_error_stores_nothing :
  forall c p names f p', prepare c p names f = (p', RErr 2) -> p' = p.
Proof. exact prepare_limit_keeps. Qed.

Theorem no_limit_error_while_room :
  forall c p names f m0,
  c_sys_last c < c_max c -> rows_ok c (p_rows p) -> load c p = LOk m0 ->
  m_last m0 + N.of_nat (length names) < c_max c ->
  forall p', prepare c p names f <> (p', RErr 2).
Proof. exact (fun c p names f m0 Hwf => prepare_room c Hwf p names f m0). Qed.

(* ---- when does sys_covered hold ---- *)

(* every history on a fresh storage in which no version-row write fails (batch failures and any
   number of failed starts are allowed) *)
Theorem uninterrupted_histories_covered :
  forall l, Forall no_ver_failure l -> sys_covered fresh l.
Proof. exact (fun l => clean_history_covered l fresh fresh_clean). Qed.

(* The interruption between the rows and the version row of the first store.
   Full statement (what the property asks for):
     forall l, sys_covered fresh l    -- hence sys_ok (sys_run fresh l) for every history, FailVer included
   It is false for the code as it is (load() skips the rows while the version row is absent;
   the translator reports that shape as reg_*_needs_version = true): *)
Theorem no_collision_refuted :
  reg_qname_needs_version = true -> exists l, ~ sys_ok (sys_run fresh l).
Proof.
  intros Hshape.
  first [ vm_compute in Hshape; discriminate Hshape
        | exists [AStart [[1]; [3]] [] [] (FailVer 0); AStart [[2]; [3]] [] [] NoFault];
          intros ((_ & _ & Hinj) & _); specialize (Hinj [1] [2] 256); vm_compute in Hinj;
          assert (H : [1] = [2]) by (apply Hinj; reflexivity); discriminate H ].
Qed.

(* ... and the application sees it: two names of the running schema with one ID, and a row
   written under the first decoded with the name of the second *)
Theorem no_collision_refuted_observably :
  reg_qname_needs_version = true ->
  exists l qn s' mq mc ms n1 n2 id,
    sys_step (sys_run fresh l) (AStart qn [] [] NoFault) = (s', SOk mq mc ms) /\
    In n1 qn /\ In n2 qn /\ n1 <> n2 /\
    sm_get n1 (m_names mq) = Some id /\ sm_get n2 (m_names mq) = Some id /\
    decode mq qn id = Some n2.
Proof.
  intros Hshape.
  first [ vm_compute in Hshape; discriminate Hshape
        | exists [AStart [[1]; [3]] [] [] (FailVer 0); AStart [[2]; [3]] [] [] NoFault], [[1]; [2]; [3]];
          eexists _, _, _, _, [1], [2], 256; vm_compute;
          repeat split; try reflexivity; try (left; reflexivity); try (right; left; reflexivity); discriminate ].
Qed.

(* ... and true as soon as load() reads the rows whether or not the version row exists (the
   repair proposed in findings/C10/F20.md; vacuous for the code as pinned) *)
Theorem all_histories_covered_once_rows_are_always_read :
  reg_qname_needs_version = false -> reg_cont_needs_version = false -> reg_single_needs_version = false ->
  forall l, sys_covered fresh l.
Proof.
  exact (fun Nq Nc Ns l => always_read_histories_covered l fresh Nq Nc Ns
           (conj (N.le_0_l 1) (conj (N.le_0_l 1) (N.le_0_l 1)))).
Qed.

(* partial: the interrupted first start (any failure point, any registry) is harmless when the
   retry's schema still contains every name of the interrupted one -- exactly what the witness
   above violates (name [1] is missing from the retry) *)
Theorem interrupted_first_store_partial :
  forall s qn1 cn1 sn1 f1 qn2 cn2 sn2 f2,
  sys_empty s -> incl qn1 qn2 -> incl cn1 cn2 -> incl sn1 sn2 ->
  sys_covered s [AStart qn1 cn1 sn1 f1; AStart qn2 cn2 sn2 f2].
Proof. exact interrupted_first_store_covered. Qed.

(* ---------------- non-vacuity ---------------- *)

Definition nA := [97]. Definition nB := [98]. Definition nC := [99]. Definition nD := [100].
Definition k1 := [1]. Definition k2 := [2].

(* a history with drop, re-add, a failed rows batch, a rename, a schema change after the rename:
   it is covered, the invariant is inhabited, the final start computes concrete IDs; nA keeps
   256 although it was dropped and re-added, nB's ID 257 went to nD, the re-added nB got a new one *)
Definition hist1 : list action :=
  [AStart [nA; nB] [k1] [nA] NoFault;
   AStart [nB; nC] [k2] [nC] (FailBatch 0);
   AStart [nB; nC] [k2] [nC] NoFault;
   ARename nB nD NoFault;
   AStart [nA; nB; nD] [k1; k2] [nA; nD] (FailBatch 1)].

Example hist1_covered : sys_covered fresh hist1.
Proof. apply uninterrupted_histories_covered. repeat constructor. Qed.

Example stable_nonvacuous :
  let s := sys_run fresh hist1 in
  p_rows (s_q s) = [(nA, 256); (nB, 259); (nC, 258); (nD, 257)] /\
  p_rows (s_c s) = [(k1, 64); (k2, 65)] /\
  p_rows (s_s s) = [(nA, 65536); (nC, 65537); (nD, 65538)] /\
  (exists s' mc ms mq,
     sys_step s (AStart [nA; nD] [k1] [nD] NoFault) = (s', SOk mq mc ms) /\
     sm_get nA (m_names mq) = Some 256 /\ sm_get nD (m_names mq) = Some 257 /\
     decode mq [nA; nD] 257 = Some nD /\ decode mq [nA; nD] 258 = None /\
     sm_get nD (m_names ms) = Some 65538).
Proof. vm_compute. repeat split. do 4 eexists. repeat split. Qed.

Example rename_nonvacuous :
  let p := s_q (sys_run fresh [AStart [nA; nB] [] [] NoFault]) in
  snd (rename cfg_q p nB nD RNoFault) = 0 /\
  p_rows (fst (rename cfg_q p nB nD RNoFault)) = [(nA, 256); (nB, 0); (nD, 257)] /\
  snd (rename cfg_q p nC nD RNoFault) = 5 /\ snd (rename cfg_q p nA nB RNoFault) = 5.
Proof. vm_compute. repeat split. Qed.

(* interrupted first store (version row of qnames fails), retried with a superset schema: covered,
   and the later re-add of everything is collision-free *)
Example interrupted_partial_nonvacuous :
  let l := [AStart [nA; nC] [] [] (FailVer 0); AStart [nA; nC; nD] [] [] NoFault] in
  sys_covered fresh l /\
  p_rows (s_q (sys_run fresh [AStart [nA; nC] [] [] (FailVer 0)])) = [(nA, 256); (nC, 257)] /\
  p_ver (s_q (sys_run fresh [AStart [nA; nC] [] [] (FailVer 0)])) = 0 /\
  p_rows (s_q (sys_run fresh l)) = [(nA, 256); (nC, 257); (nD, 258)] /\ p_ver (s_q (sys_run fresh l)) = 1.
Proof.
  split; [apply interrupted_first_store_partial; [repeat split | | |]; intros x Hx; cbn in *; tauto|].
  vm_compute. repeat split.
Qed.

(* the limit: one free singleton ID left, two new singletons wanted -> error 2, nothing stored;
   one wanted -> gets the last ID below the limit *)
Example limit_nonvacuous :
  let p := mkPers [(nA, reg_max_singleton - 2)] 1 in
  prepare cfg_s p [nA; nB; nC] RNoFault = (p, RErr 2) /\
  p_rows (fst (prepare cfg_s p [nA; nB] RNoFault)) = [(nA, reg_max_singleton - 2); (nB, reg_max_singleton - 1)] /\
  rows_ok cfg_s (p_rows p).
Proof.
  intros p. split; [vm_compute; reflexivity|split; [vm_compute; reflexivity|]].
  split; [constructor|split].
  - intros n id H _. cbn in H. destruct (lex_cmp n nA); inversion H; subst. vm_compute. split; reflexivity.
  - intros n1 n2 id H1 H2 _. cbn in H1, H2.
    destruct (lex_cmp n1 nA) eqn:E1; try discriminate. destruct (lex_cmp n2 nA) eqn:E2; try discriminate.
    apply lex_cmp_eq in E1, E2. congruence.
Qed.

Print Assumptions registries_stay_well_formed.
Print Assumptions successful_start_is_injective.
Print Assumptions stored_ids_stable.
Print Assumptions ids_same_on_every_later_start.
Print Assumptions rename_moves_the_id.
Print Assumptions data_decoded_with_its_name.
Print Assumptions limit_is_error_stores_nothing.
Print Assumptions no_limit_error_while_room.
Print Assumptions uninterrupted_histories_covered.
Print Assumptions no_collision_refuted.
Print Assumptions no_collision_refuted_observably.
Print Assumptions all_histories_covered_once_rows_are_always_read.
Print Assumptions interrupted_first_store_partial.
