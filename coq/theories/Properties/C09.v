(* C09 - async projections see every event in order, at least once, across restarts.
   Statements only.  The quantifier "for all event streams x all timings of command-side
   notifications relative to the projector's reads x projector errors at arbitrary events x
   stop/restart of the actualizer at arbitrary points between invocation, intent buffering,
   position save and flush" is the list of actions `l` of a run: Append / Notify (event stream and
   notification timing), Tick (flush timer, position interval, retry back-off), Start / Stop,
   every step of the reader and of the projector operator between two storage / projector calls
   with its outcome (PInvoke _ false, RInitErr, RReadEndErr, RReadOneErr, verdicts VBefore = the call
   fails without effect, VAfter = the call takes effect and fails: a crash right after it), and the
   hidden steps (H...) at any time, for every bundle limit, position interval, read batch size and
   channel capacity `c`.  `runG false` restricts runs to the property's domain: a notification never
   runs ahead of the log.  `runG true` additionally demands that a flush sends its mails before it
   writes the position (what FlushBundles does not guarantee - finding F21). *)
From Coq Require Import List NArith Lia Bool.
From V Require Import Gen.Params C09_Actualizer.Model C09_Actualizer.Inv C09_Actualizer.Proofs C09_Actualizer.Link.
Import ListNotations.
Local Open Scope N_scope.

(* side conditions on what the translator read from the Go sources *)
Lemma read_batches_are_not_empty : 0 < c09_plog_read_batch_size.
Proof. reflexivity. Qed.
Lemma position_row_is_written_after_the_workspace_rows : c09_null_wsid_last = true.
Proof. reflexivity. Qed.
Lemma pipeline_input_has_room : 0 < c09_pipeline_stdin_cap.
Proof. reflexivity. Qed.

(* the configuration of every checked trace meets the hypotheses of the theorems below *)
Lemma checked_configurations_ok : forall t, 0 < c_batch (cfg_of t) /\ c_nulllast (cfg_of t) = true.
Proof. intros t. split; reflexivity. Qed.

(* Between two (re)initialisations the projector is invoked for exactly the triggering events that
   follow the position the initialisation read, in log order, each once, none skipped:
   `tracked l` = (position read by the last init, offsets invoked since). *)
Theorem invoked_in_order : forall c l s,
  0 < c_batch c -> c_nulllast c = true -> runG false c init l = Some s ->
  exists k, snd (tracked l) = filter (trig (lg (sp s))) (seqN (fst (tracked l) + 1) k)
            /\ fst (tracked l) + N.of_nat k <= len (lg (sp s)).
Proof. exact (fun c l s Hb Hn => invoked_in_order_proved c l s (Build_cfg_ok c Hb Hn)). Qed.

(* The persisted resume position is never ahead of the persisted view rows: at every instant of
   every run - in particular right after each storage call, whatever fails or stops next - every
   triggering event up to the stored position has its row stored. *)
Theorem position_le_effects : forall c l s,
  0 < c_batch c -> c_nulllast c = true -> runG false c init l = Some s ->
  forall o, o <= pos (sp s) -> trig (lg (sp s)) o = true -> In o (eff (sp s)).
Proof. exact (fun c l s Hb Hn => position_le_effects_proved c l s (Build_cfg_ok c Hb Hn)). Qed.

(* Full statement for the effects in a second storage (mails sent through sys.SendMail):

     forall c l s, 0 < c_batch c -> c_nulllast c = true -> runG false c init l = Some s ->
     forall o, o <= pos (sp s) -> trig (lg (sp s)) o = true -> mailev c (lg (sp s)) o = true -> In o (mails (sp s)).

   The faithful model refutes it (F21: FlushBundles applies the storages in Go map order, so the
   view storage - and with it the position - can be written before the mail is sent; when the
   mail then fails, the restart resumes behind the event and the mail is never sent). *)
Theorem position_le_all_effects_refuted : exists c l s o,
  0 < c_batch c /\ c_nulllast c = true /\ c_viewlast c = false /\ runG false c init l = Some s /\
  o <= pos (sp s) /\ trig (lg (sp s)) o = true /\ mailev c (lg (sp s)) o = true /\ ~ In o (mails (sp s)).
Proof.
  exists (mkCfg 100 true 3 50 1 true false).
  exists [Append (mkEv true 1001 true); Start; RInitOk 0; RReadEnd [1]; HSend; HTake; PInvoke 1 true;
          PPutWS 1001 [1] VOk; PPutPos 1 VOk; PMail 1 false; HNotice; HClose; HClosed; Tick; RInitOk 1; RReadEnd []].
  eexists. exists 1. split; [reflexivity|]. split; [reflexivity|]. split; [reflexivity|].
  split; [vm_compute; reflexivity|]. cbn. split; [discriminate|]. split; [reflexivity|]. split; [reflexivity|]. intros [].
Qed.

(* ... it holds in every run in which each flush sends its mails before it writes the position
   (the extra hypothesis is exactly what excludes the witness above) ... *)
Theorem position_le_all_effects_partial : forall c l s,
  0 < c_batch c -> c_nulllast c = true -> runG true c init l = Some s ->
  forall o, o <= pos (sp s) -> trig (lg (sp s)) o = true -> mailev c (lg (sp s)) o = true -> In o (mails (sp s)).
Proof. exact (fun c l s Hb Hn => position_le_mails_partial_proved c l s (Build_cfg_ok c Hb Hn)). Qed.

(* ... and in every run of an implementation that flushes the view storage last (the proposed
   repair; the translator sets c09_flush_view_last when the source has that shape). *)
Theorem position_le_all_effects_when_view_flushed_last : forall c l s,
  0 < c_batch c -> c_nulllast c = true -> c_viewlast c = true -> runG false c init l = Some s ->
  forall o, o <= pos (sp s) -> trig (lg (sp s)) o = true -> mailev c (lg (sp s)) o = true -> In o (mails (sp s)).
Proof. exact (fun c l s Hb Hn => position_le_mails_viewlast_proved c l s (Build_cfg_ok c Hb Hn)). Qed.

(* After any stop, error or restart the actualizer resumes from the stored position, which is no
   later than the first event whose effects are not stored. *)
Theorem resume_not_past_unpersisted : forall c l s p s',
  0 < c_batch c -> c_nulllast c = true -> runG false c init l = Some s -> step c s (RInitOk p) = Some s' ->
  rd (sr s') = pos (sp s') /\
  forall o, trig (lg (sp s')) o = true -> ~ In o (eff (sp s')) -> rd (sr s') < o.
Proof. exact (fun c l s p s' Hb Hn => resume_not_past_unpersisted_proved c l s p s' (Build_cfg_ok c Hb Hn)). Qed.

(* At least once: whenever the actualizer is quiescent - the log is completely notified and read,
   the operator idle, no flush timer pending - every triggering event's row is stored (and, in the
   runs of position_le_all_effects_partial, its mail sent). *)
Theorem quiescent_all_effects : forall g c l s,
  0 < c_batch c -> c_nulllast c = true -> runG g c init l = Some s -> quiescentb s = true ->
  forall o, trig (lg (sp s)) o = true ->
  In o (eff (sp s)) /\ (g = true -> mailev c (lg (sp s)) o = true -> In o (mails (sp s))).
Proof. exact (fun g c l s Hb Hn => quiescent_all_effects_proved g c l s (Build_cfg_ok c Hb Hn)). Qed.

(* Link: an observed trace the model accepts (`agrees`: every observed action enabled with the
   observed values, the canonical hidden steps in between) is a run of the transition system, inside
   the property's domain when no observed notification ran ahead of the log - so the theorems above
   hold of every state the implementation went through on it. *)
Theorem accepted_traces_are_runs : forall c l l' s,
  elaborate c init l = Some (l', s) -> dom_ok 0 l = true -> runG false c init l' = Some s.
Proof. exact (fun c l l' s H => elaborate_runG_proved c l init l' s H). Qed.

(* ---- non-vacuity ---- *)
Definition ex_cfg : cfg := mkCfg 2 false 3 50 1 true false.
(* three events (the second does not trigger), both triggering ones buffered, flushed by the bundle
   limit, a failed position write (crash between rows and position), restart from 0, re-invocation,
   timer flush, one more event read after a notification, stop in the middle of its flush *)
Definition ex_run : list act :=
  [Append (mkEv true 1001 false); Append (mkEv false 1002 false); Append (mkEv true 1002 false); Start; RInitOk 0;
   RReadEnd [1; 2; 3]; HSend; HTake; PInvoke 1 true; HSend; HSkip; HSend; HTake; PInvoke 3 true;
   PPutWS 1002 [3] VOk; PPutWS 1001 [1] VOk; PPutPos 3 VBefore; HNotice; HClose; HClosed; Tick; RInitOk 0;
   RReadEnd [1; 2; 3]; HSend; HTake; PInvoke 1 true; HSend; HSkip; HSend; HTake; PInvoke 3 true;
   PPutWS 1001 [1] VOk; PPutWS 1002 [3] VOk; PPutPos 3 VOk; HFlushDone; RReadEnd []; Append (mkEv true 1001 false); Notify 4;
   HDeliver; RReadOne 4 true; HLoopExit; HSend; HTake; HNextRound; HLoopExit; PInvoke 4 true; Tick; HTimer; PFlushStart;
   PPutWS 1001 [4] VOk; Stop; PPutPos 4 VOk; HFlushDone; HNotice; HClose; HClosed].

Example run_nonvacuous : exists s,
  runG false ex_cfg init ex_run = Some s /\ pos (sp s) = 4 /\ eff (sp s) = [3; 1; 1; 3; 4] /\ tracked ex_run = (0, [1; 3; 4]) /\
  r (sr s) = ROff.
Proof. eexists. split; [vm_compute; reflexivity|]. repeat split; reflexivity. Qed.

Example resume_nonvacuous : exists s s',
  runG false ex_cfg init (ex_run ++ [Start]) = Some s /\ step ex_cfg s (RInitOk 4) = Some s' /\ rd (sr s') = 4.
Proof. eexists. eexists. split; [vm_compute; reflexivity|]. split; [vm_compute; reflexivity | reflexivity]. Qed.

Example quiescent_nonvacuous : exists s,
  runG true ex_cfg init (ex_run ++ [Start; RInitOk 4; RReadEnd []; HDeliver]) = Some s /\ quiescentb s = true /\
  trig (lg (sp s)) 4 = true.
Proof. eexists. split; [vm_compute; reflexivity|]. split; reflexivity. Qed.

Example accepted_trace_nonvacuous :
  agrees (mkTrace 2 false 3 true
    [Append (mkEv true 1001 false); Start; RInitOk 0; RReadEnd [1]; PInvoke 1 true; RReadEnd []; Notify 1; Tick; PFlushStart;
     PPutWS 1001 [1] VOk; PPutPos 1 VOk; Check 1 [1] []]) = true.
Proof. vm_compute. reflexivity. Qed.

Print Assumptions invoked_in_order.
Print Assumptions position_le_effects.
Print Assumptions position_le_all_effects_refuted.
Print Assumptions position_le_all_effects_partial.
Print Assumptions position_le_all_effects_when_view_flushed_last.
Print Assumptions resume_not_past_unpersisted.
Print Assumptions quiescent_all_effects.
Print Assumptions accepted_traces_are_runs.
