(* C09 - async projections see every event in order, at least once, across restarts.
   Statements only.  The quantifier "for all event streams x all timings of command-side
   notifications relative to the projector's reads x projector errors at arbitrary events x
   stop/restart of the actualizer at arbitrary points between invocation, intent buffering,
   position save and flush" is the list of actions `l` of a run: Append / Notify (event stream and
   notification timing), Tick (flush timer, position interval, retry back-off), Start / Stop,
   every step of the reader and of the projector operator between two storage / projector calls
   with its outcome (PInvoke _ false, RInitErr, RReadEndErr, RReadOneErr, verdicts VBefore = the call
   fails without effect, VAfter = the call takes effect and fails: a crash right after it), and the
   hidden steps (H...) at any time, for every bundle limit, position interval, read batch size and
   channel capacity `c`.  `runG false` restricts runs to the property's domain: a notification never
   runs ahead of the log.  `runG true` additionally demands that a flush sends its mails before it
   writes the position.  `code_cfg` are the configurations of the code as it is: read batch size, channel
   capacity and the two orders (position batch last inside the view storage; view storage last in
   FlushBundles - the repair of finding F21, /repo 2745d7601) are what the translator read from the source. *)
From Coq Require Import List NArith Lia Bool.
From V Require Import Gen.Params C09_Actualizer.Model C09_Actualizer.Inv C09_Actualizer.Proofs C09_Actualizer.Link C09_Actualizer.Oracle.
Import ListNotations.
Local Open Scope N_scope.

(* side conditions on what the translator read from the Go sources: a regression of one of them flips
   the constant, the lemma fails and with it every theorem below that is stated for `code_cfg` *)
Lemma read_batches_are_not_empty : 0 < c09_plog_read_batch_size.
Proof. reflexivity. Qed.
Lemma position_row_is_written_after_the_workspace_rows : c09_null_wsid_last = true.
Proof. reflexivity. Qed.
Lemma view_storage_is_flushed_last : c09_flush_view_last = true.
Proof. reflexivity. Qed.
(* an event whose workspace descriptor cannot be read yet fails the pipeline (and comes back after the
   restart); it is not passed over as "projector not defined in that workspace" *)
Lemma missing_descriptor_is_an_error : c09_descriptor_must_exist = true.
Proof. reflexivity. Qed.
(* an event is kept until the flush that stores the intents the projector derived from it (repair of
   finding C09-F2, /repo dcac0bf9f): DoAsync no longer releases it while its intents are buffered *)
Lemma events_are_held_until_their_flush : c09_event_released_before_flush = false.
Proof. reflexivity. Qed.
Lemma pipeline_input_has_room : 0 < c09_pipeline_stdin_cap.
Proof. reflexivity. Qed.

(* the code's configurations: any bundle limit, buffered or not (second storage), any position interval *)
Definition code_cfg (limit : N) (nonbuf : bool) (posticks : N) : cfg :=
  mkCfg limit nonbuf posticks c09_plog_read_batch_size c09_pipeline_stdin_cap c09_null_wsid_last c09_flush_view_last
        c09_descriptor_must_exist c09_event_released_before_flush.

Lemma code_cfg_ok : forall lim nb pt, cfg_ok (code_cfg lim nb pt).
Proof.
  intros. constructor; [exact read_batches_are_not_empty | exact position_row_is_written_after_the_workspace_rows
                       | exact missing_descriptor_is_an_error].
Qed.

(* every checked trace is evaluated in such a configuration *)
Lemma checked_configurations : forall t, cfg_of t = code_cfg (t_limit t) (t_nonbuf t) (t_posticks t).
Proof. reflexivity. Qed.

(* Between two (re)initialisations the projector is invoked for exactly the triggering events that
   follow the position the initialisation read, in log order, each once, none skipped:
   `tracked l` = (position read by the last init, offsets invoked since). *)
Theorem invoked_in_order : forall c l s,
  0 < c_batch c -> c_nulllast c = true -> c_descmust c = true -> runG false c init l = Some s ->
  exists k, snd (tracked l) = filter (trig (lg (sp s))) (seqN (fst (tracked l) + 1) k)
            /\ fst (tracked l) + N.of_nat k <= len (lg (sp s)).
Proof. exact (fun c l s Hb Hn Hd => invoked_in_order_proved c l s (Build_cfg_ok c Hb Hn Hd)). Qed.

(* The persisted resume position is never ahead of the persisted effects: at every instant of every
   run of the code's configurations - in particular right after each storage call, whatever fails or
   stops next - every triggering event up to the stored position has its view row stored and its
   mail (the effect in a second storage, sys.SendMail) sent. *)
Theorem position_le_all_effects : forall lim nb pt l s,
  runG false (code_cfg lim nb pt) init l = Some s ->
  forall o, o <= pos (sp s) -> trig (lg (sp s)) o = true ->
  In o (eff (sp s)) /\ (mailev (code_cfg lim nb pt) (lg (sp s)) o = true -> In o (mails (sp s))).
Proof.
  intros lim nb pt l s H o Ho Ht. split.
  - exact (position_le_effects_proved _ l s (code_cfg_ok lim nb pt) H o Ho Ht).
  - exact (position_le_mails_viewlast_proved _ l s (code_cfg_ok lim nb pt) view_storage_is_flushed_last H o Ho Ht).
Qed.

(* The view rows alone do not depend on the order of the storages: any configuration that writes the
   position batch last inside the view storage. *)
Theorem position_le_effects : forall c l s,
  0 < c_batch c -> c_nulllast c = true -> c_descmust c = true -> runG false c init l = Some s ->
  forall o, o <= pos (sp s) -> trig (lg (sp s)) o = true -> In o (eff (sp s)).
Proof. exact (fun c l s Hb Hn Hd => position_le_effects_proved c l s (Build_cfg_ok c Hb Hn Hd)). Qed.

(* The variant of the model in which FlushBundles applies the storages in Go map order (c_viewlast =
   false: the code before the repair of F21) refutes the statement for mails: the view storage - and
   with it the position - is written before the mail is sent; the mail then fails, the restart resumes
   behind the event and the mail is never sent. *)
Theorem position_le_all_effects_refuted : exists c l s o,
  0 < c_batch c /\ c_nulllast c = true /\ c_descmust c = true /\ c_viewlast c = false /\ runG false c init l = Some s /\
  o <= pos (sp s) /\ trig (lg (sp s)) o = true /\ mailev c (lg (sp s)) o = true /\ ~ In o (mails (sp s)).
Proof.
  exists (mkCfg 100 true 3 50 1 true false true false).
  exists [Append (mkEv true 1001 true); Start; RInitOk 0; RReadEnd [1]; HSend; HTake; PLookup 1 true; PInvoke 1 true;
          PPutWS 1001 [1] VOk; PPutPos 1 VOk; PMail 1 false; HNotice; HClose; HClosed; Tick; RInitOk 1; RReadEnd []].
  eexists. exists 1. split; [reflexivity|]. split; [reflexivity|]. split; [reflexivity|]. split; [reflexivity|].
  split; [vm_compute; reflexivity|]. cbn. split; [discriminate|]. split; [reflexivity|]. split; [reflexivity|]. intros [].
Qed.

(* ... in that variant it holds for exactly the runs in which each flush sends its mails before it
   writes the position (the hypothesis that excludes the witness above). *)
Theorem position_le_all_effects_partial : forall c l s,
  0 < c_batch c -> c_nulllast c = true -> c_descmust c = true -> runG true c init l = Some s ->
  forall o, o <= pos (sp s) -> trig (lg (sp s)) o = true -> mailev c (lg (sp s)) o = true -> In o (mails (sp s)).
Proof. exact (fun c l s Hb Hn Hd => position_le_mails_partial_proved c l s (Build_cfg_ok c Hb Hn Hd)). Qed.

(* The side condition `missing_descriptor_is_an_error` is needed: in the variant of the model that passes
   over an event whose workspace descriptor cannot be read yet (CanExist instead of MustExist in
   isProjectorDefined) the position moves past a triggering event the projector never saw. *)
Theorem position_le_effects_refuted_without_descriptor_error : exists c l s o,
  0 < c_batch c /\ c_nulllast c = true /\ c_descmust c = false /\ runG false c init l = Some s /\
  o <= pos (sp s) /\ trig (lg (sp s)) o = true /\ ~ In o (eff (sp s)).
Proof.
  exists (mkCfg 100 false 0 50 1 true true false false).
  exists [Append (mkEv true 1001 false); Start; RInitOk 0; RReadEnd [1]; HSend; HTake; PLookup 1 false;
          Tick; HTimer; PFlushStart; PPutPos 1 VOk].
  eexists. exists 1. split; [reflexivity|]. split; [reflexivity|]. split; [reflexivity|].
  split; [vm_compute; reflexivity|]. cbn. split; [discriminate|]. split; [reflexivity|]. intros [].
Qed.

(* After any stop, error or restart the actualizer resumes from the stored position, which is before
   the first triggering event that misses an effect (view row or mail). *)
Theorem resume_not_past_unpersisted : forall lim nb pt l s p s',
  runG false (code_cfg lim nb pt) init l = Some s -> step (code_cfg lim nb pt) s (RInitOk p) = Some s' ->
  rd (sr s') = pos (sp s') /\
  forall o, trig (lg (sp s')) o = true ->
            (~ In o (eff (sp s')) \/ (mailev (code_cfg lim nb pt) (lg (sp s')) o = true /\ ~ In o (mails (sp s')))) ->
            rd (sr s') < o.
Proof.
  exact (fun lim nb pt l s p s' => resume_all_effects_proved _ l s p s' (code_cfg_ok lim nb pt) view_storage_is_flushed_last).
Qed.

(* At least once: whenever the actualizer is quiescent - the log is completely notified and read,
   the operator idle, no flush timer pending - every triggering event's row is stored and its mail sent. *)
Theorem quiescent_all_effects : forall lim nb pt l s,
  runG false (code_cfg lim nb pt) init l = Some s -> quiescentb s = true ->
  forall o, trig (lg (sp s)) o = true ->
  In o (eff (sp s)) /\ (mailev (code_cfg lim nb pt) (lg (sp s)) o = true -> In o (mails (sp s))).
Proof.
  exact (fun lim nb pt l s => quiescent_all_effects_viewlast_proved _ l s (code_cfg_ok lim nb pt) view_storage_is_flushed_last).
Qed.

(* Link: an observed trace the model accepts (`agrees`: every observed action enabled with the
   observed values, the canonical hidden steps in between) is a run of the transition system, inside
   the property's domain when no observed notification ran ahead of the log - so the theorems above
   hold of every state the implementation went through on it. *)
Theorem accepted_traces_are_runs : forall c l l' s,
  elaborate c init l = Some (l', s) -> dom_ok 0 l = true -> runG false c init l' = Some s.
Proof. exact (fun c l l' s H => elaborate_runG_proved c l init l' s H). Qed.

(* What is stored for an event is that event's own effect: the content of the rows is not part of the
   model's state, the harness looks at it (`Check p rows mails bad`, bad = stored rows whose content is
   not their event's), and in the code's configurations no run contains a look that found such a row. *)
Theorem stored_rows_have_their_events_content : forall lim nb pt l s,
  runG false (code_cfg lim nb pt) init l = Some s ->
  forall p effs ms bad, In (Check p effs ms bad) l -> bad = [].
Proof.
  exact (fun lim nb pt l s => stored_content_is_own_proved false (code_cfg lim nb pt) l s events_are_held_until_their_flush).
Qed.

(* The variant of the model in which DoAsync releases the event although its intents stay in the bundle
   (c_earlyrel = true: the code before dcac0bf9f, finding C09-F2) admits a look at the store that finds rows
   1 and 2 with the content of a later event: buffered intents point into the released events' pooled
   buffers, the next single reads fill those buffers again, the flush stores what is there. *)
Theorem stored_rows_content_refuted : exists c l s p effs ms bad,
  0 < c_batch c /\ c_nulllast c = true /\ c_descmust c = true /\ c_earlyrel c = true /\
  runG false c init l = Some s /\ In (Check p effs ms bad) l /\ bad <> [].
Proof.
  exists (mkCfg 100 false 3 50 1 true true true true).
  exists [Start; RInitOk 0; RReadEnd []; Append (mkEv true 1001 false); Notify 1; HDeliver; RReadOne 1 true; HLoopExit; HSend;
          HTake; HNextRound; HLoopExit; PLookup 1 true; PInvoke 1 true;
          Append (mkEv true 1001 false); Notify 2; HDeliver; RReadOne 2 true; HLoopExit; HSend;
          HTake; HNextRound; HLoopExit; PLookup 2 true; PInvoke 2 true;
          Append (mkEv true 1001 false); Notify 3; HDeliver; RReadOne 3 true; HLoopExit; HSend;
          HTake; HNextRound; HLoopExit; PLookup 3 true; PInvoke 3 true;
          Tick; HTimer; PFlushStart; PPutWS 1001 [1; 2; 3] VOk; PPutPos 3 VOk; HFlushDone; Check 3 [1; 2; 3] [] [1; 2]].
  eexists. exists 3, [1; 2; 3], [], [1; 2].
  split; [reflexivity|]. split; [reflexivity|]. split; [reflexivity|]. split; [reflexivity|].
  split; [vm_compute; reflexivity|]. split; [|discriminate].
  cbn. repeat match goal with |- _ \/ _ => first [left; reflexivity | right] end.
Qed.

(* ... and the oracle the check evaluates on observed values alone (`satisfies`) passes on every such
   trace: what `satisfies` demands is implied by the theorems, so an oracle failure never comes from
   a trace on which code and model agree. *)
Theorem agrees_implies_satisfies : forall t,
  (t_quiet t = true -> exists l0 p effs ms bad, t_acts t = l0 ++ [Check p effs ms bad]) ->
  agrees t = true -> dom_ok 0 (t_acts t) = true -> satisfies t = true.
Proof.
  intros t Hend. apply (agrees_implies_satisfies_proved t (code_cfg_ok _ _ _) (fun _ => view_storage_is_flushed_last) Hend).
  intros X. cbn in X. rewrite events_are_held_until_their_flush in X. discriminate X.
Qed.

(* ---- non-vacuity ---- *)
Definition ex_cfg : cfg := code_cfg 2 false 3.
(* three events (the second does not trigger), both triggering ones buffered, flushed by the bundle
   limit, a failed position write (crash between rows and position), restart from 0, re-invocation,
   timer flush, one more event read after a notification, stop in the middle of its flush *)
Definition ex_run : list act :=
  [Append (mkEv true 1001 false); Append (mkEv false 1002 false); Append (mkEv true 1002 false); Start; RInitOk 0;
   RReadEnd [1; 2; 3]; HSend; HTake; PLookup 1 true; PInvoke 1 true; HSend; HSkip; HSend; HTake; PLookup 3 true; PInvoke 3 true;
   PPutWS 1002 [3] VOk; PPutWS 1001 [1] VOk; PPutPos 3 VBefore; HNotice; HClose; HClosed; Tick; RInitOk 0;
   RReadEnd [1; 2; 3]; HSend; HTake; PLookup 1 true; PInvoke 1 true; HSend; HSkip; HSend; HTake; PLookup 3 true; PInvoke 3 true;
   PPutWS 1001 [1] VOk; PPutWS 1002 [3] VOk; PPutPos 3 VOk; HFlushDone; RReadEnd []; Append (mkEv true 1001 false); Notify 4;
   HDeliver; RReadOne 4 true; HLoopExit; HSend; HTake; HNextRound; HLoopExit; PLookup 4 true; PInvoke 4 true; Tick; HTimer; PFlushStart;
   PPutWS 1001 [4] VOk; Stop; PPutPos 4 VOk; HFlushDone; HNotice; HClose; HClosed].

Example run_nonvacuous : exists s,
  runG false ex_cfg init ex_run = Some s /\ pos (sp s) = 4 /\ eff (sp s) = [3; 1; 1; 3; 4] /\ tracked ex_run = (0, [1; 3; 4]) /\
  r (sr s) = ROff.
Proof. eexists. split; [vm_compute; reflexivity|]. repeat split; reflexivity. Qed.

Example resume_nonvacuous : exists s s',
  runG false ex_cfg init (ex_run ++ [Start]) = Some s /\ step ex_cfg s (RInitOk 4) = Some s' /\ rd (sr s') = 4.
Proof. eexists. eexists. split; [vm_compute; reflexivity|]. split; [vm_compute; reflexivity | reflexivity]. Qed.

Example quiescent_nonvacuous : exists s,
  runG true ex_cfg init (ex_run ++ [Start; RInitOk 4; RReadEnd []; HDeliver]) = Some s /\ quiescentb s = true /\
  trig (lg (sp s)) 4 = true.
Proof. eexists. split; [vm_compute; reflexivity|]. split; reflexivity. Qed.

(* second storage: a mail is sent before the rows and the position of its flush; a failing mail leaves
   nothing behind and the event is projected again *)
Example all_effects_nonvacuous : exists s,
  runG false (code_cfg 100 true 3) init
    [Append (mkEv true 1001 true); Start; RInitOk 0; RReadEnd [1]; HSend; HTake; PLookup 1 true; PInvoke 1 true; PMail 1 false;
     HNotice; HClose; HClosed; Tick; RInitOk 0; RReadEnd [1]; HSend; HTake; PLookup 1 true; PInvoke 1 true; PMail 1 true;
     PPutWS 1001 [1] VOk; PPutPos 1 VOk; HFlushDone] = Some s /\
  pos (sp s) = 1 /\ mails (sp s) = [1] /\ mailev (code_cfg 100 true 3) (lg (sp s)) 1 = true.
Proof. eexists. split; [vm_compute; reflexivity|]. repeat split; reflexivity. Qed.

(* the workspace descriptor of the event is not readable yet when the catching-up actualizer reaches it:
   the pipeline fails, nothing is stored, the restart comes back to the event *)
Example descriptor_absent_nonvacuous : exists s,
  runG false (code_cfg 1 false 3) init
    [Append (mkEv true 1001 false); Start; RInitOk 0; RReadEnd [1]; HSend; HTake; PLookup 1 false;
     HNotice; HClose; HClosed; Tick; RInitOk 0; RReadEnd [1]; HSend; HTake; PLookup 1 true; PInvoke 1 true;
     PPutWS 1001 [1] VOk; PPutPos 1 VOk; HFlushDone] = Some s /\
  pos (sp s) = 1 /\ eff (sp s) = [1] /\ tracked
    [Append (mkEv true 1001 false); Start; RInitOk 0; RReadEnd [1]; HSend; HTake; PLookup 1 false;
     HNotice; HClose; HClosed; Tick; RInitOk 0; RReadEnd [1]; HSend; HTake; PLookup 1 true; PInvoke 1 true] = (0, [1]).
Proof. eexists. split; [vm_compute; reflexivity|]. repeat split; reflexivity. Qed.

Example accepted_trace_nonvacuous :
  agrees (mkTrace 2 false 3 true
    [Append (mkEv true 1001 false); Start; RInitOk 0; RReadEnd [1]; PLookup 1 true; PInvoke 1 true; RReadEnd []; Notify 1; Tick; PFlushStart;
     PPutWS 1001 [1] VOk; PPutPos 1 VOk; Check 1 [1] [] []]) = true.
Proof. vm_compute. reflexivity. Qed.

Print Assumptions invoked_in_order.
Print Assumptions position_le_all_effects.
Print Assumptions position_le_effects.
Print Assumptions position_le_all_effects_refuted.
Print Assumptions position_le_all_effects_partial.
Print Assumptions position_le_effects_refuted_without_descriptor_error.
Print Assumptions resume_not_past_unpersisted.
Print Assumptions quiescent_all_effects.
Print Assumptions accepted_traces_are_runs.
Print Assumptions stored_rows_have_their_events_content.
Print Assumptions stored_rows_content_refuted.
Print Assumptions agrees_implies_satisfies.
