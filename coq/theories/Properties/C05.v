(* C05 - log entries and newly created records are never silently overwritten.
   Statements only; every proof is `exact <lemma>` into C05_SeqTrust/Proofs.v.
   The writers (run_log = PutPlog / PutWlog / reapplier.PutWLog, run_recs = Records.Apply /
   reapplier.ApplyRecords) select their storage operation through the tables the translator
   extracted from the switch arms of pkg/istructsmem/impl.go (Gen/Params.v). *)
From Coq Require Import List NArith ZArith Bool Lia.
From V Require Import Lib.Lex Lib.SMap Lib.Check Storage.Spec Gen.Params C05_SeqTrust.Model C05_SeqTrust.Proofs.
Import ListNotations.
Local Open Scope N_scope.

(* side conditions on the tables the code has now (0 = Put / PutBatch, 1 = conditional insert
   answered with ErrSequencesViolation); editing a switch arm in Go re-opens exactly these *)
Lemma trust_levels_are_0_1_2 : c05_trust_levels = [0; 1; 2].
Proof. reflexivity. Qed.
Lemma plog_guarded_at_levels_0_1 : c05_plog_ops = [1; 1; 0].
Proof. reflexivity. Qed.
Lemma wlog_guarded_at_levels_0_1 : c05_wlog_ops = [1; 1; 0].
Proof. reflexivity. Qed.
Lemma new_records_guarded_at_level_0 : c05_rec_ops = [1; 0; 0].
Proof. reflexivity. Qed.
Lemma reapply_records_overwrites : c05_rec_reapply_ops = [0; 0; 0].
Proof. reflexivity. Qed.
Lemma reapply_wlog_overwrites : c05_reapply_wlog_op = 0.
Proof. reflexivity. Qed.
Lemma corrupted_plog_events_use_put : c05_plog_corrupted_ops = [0; 0; 0].
Proof. reflexivity. Qed.
Lemma corrupted_wlog_events_use_put : c05_wlog_corrupted_ops = [0; 0; 0].
Proof. reflexivity. Qed.
Lemma inserted_rows_never_expire : c05_insert_ttl = 0%Z.
Proof. reflexivity. Qed.
(* apply2's `store` closure builds every batch row from rec.isNew alone: no record kind (singleton
   or not, CDoc / WDoc / CRecord / WRecord) has its create handed on as an update *)
Lemma batch_flag_is_cud_is_new_for_every_kind : c05_store_put_kinds = [].
Proof. reflexivity. Qed.

(* newUpdateRec resets the isNew flag it copied from the record object it was given (repair afe41998e of finding F-A) *)
(* PutPlog leaves an event it refused (conditional insert answered "exists") unmarked: isStored, the only thing
   GetEventReapplier looks at, is set on the normal exit only and a refusal returns early *)
Lemma refused_plog_event_is_not_marked_stored : c05_refused_plog_marks_stored = false.
Proof. reflexivity. Qed.
(* ... and an event whose storage write FAILED: isStored is set inside `if err == nil` (repo 38f5a4a3d, finding P-D) *)
Lemma failed_plog_event_is_not_marked_stored : c05_failed_plog_marks_stored = false.
Proof. reflexivity. Qed.
(* the re-applier writes its WLog entry with a direct storage.Put: the trust level - a field of the app structs that
   all partitions of the application share - is assigned at construction only *)
Lemma reapplier_wlog_is_a_direct_put : c05_reapply_wlog_raises_level = false.
Proof. reflexivity. Qed.
Lemma update_rows_are_never_new : c05_update_inherits_isnew = false.
Proof. reflexivity. Qed.

Section C05.
Context {V : Type}.
Notation store := (store V).
Notation item := (item V).

(* Trust levels 0 and 1, PLog and WLog, every store, clock position, key and value: an append
   at an offset that holds a live entry (identical bytes or not - `old` is arbitrary) answers
   SequencesViolation, issues exactly one refused InsertIfNotExists and leaves the WHOLE store
   as it was.  Domain: ordinary events.  The statement without `corrupted = false` is refuted
   below (log_append_refused_full_refuted): sys.Corrupted events are written with Put by design. *)
Theorem log_append_refused_partial :
  forall k trust now (st : store) (it : item) old,
  k = KPlog \/ k = KWlog -> trust < 2 ->
  get now st (it_pk it) (it_cc it) = Some old ->
  run_log (log_code k trust false) now st it = (st, RViolation) /\
  run_log_calls (log_code k trust false) now st it = [CIns (it_pk it) (it_cc it) (it_val it) 0%Z false].
Proof. exact (log_append_refused_proved inserted_rows_never_expire plog_guarded_at_levels_0_1 wlog_guarded_at_levels_0_1 reapply_wlog_overwrites). Qed.

(* Every level: an append at an empty offset is stored (and then reads back, Storage.SpecLaws.get_put_same) *)
Theorem log_append_empty_written :
  forall k trust now (st : store) (it : item),
  k = KPlog \/ k = KWlog -> trust <= 2 ->
  get now st (it_pk it) (it_cc it) = None ->
  run_log (log_code k trust false) now st it = (put st (it_pk it) (it_cc it) (it_val it), ROk).
Proof. exact (log_append_empty_proved inserted_rows_never_expire plog_guarded_at_levels_0_1 wlog_guarded_at_levels_0_1 reapply_wlog_overwrites). Qed.

(* Only these may overwrite a log entry: level 2, the re-applier's PutWLog, sys.Corrupted events *)
Theorem log_overwrite_only_when_trusted_or_reapply :
  forall k trust corrupted now (st : store) (it : item),
  trust <= 2 ->
  ((k = KPlog \/ k = KWlog) /\ (trust = 2 \/ corrupted = true)) \/ k = KReapplyWlog ->
  run_log (log_code k trust corrupted) now st it = (put st (it_pk it) (it_cc it) (it_val it), ROk).
Proof. exact (log_overwrite_proved plog_guarded_at_levels_0_1 wlog_guarded_at_levels_0_1 reapply_wlog_overwrites corrupted_plog_events_use_put corrupted_wlog_events_use_put). Qed.

(* Level 0, every batch of rows (any length, any mix of creates and updates), EVERY KIND OF RECORD
   (`it_kind it` - CDoc, singleton CDoc, WDoc, singleton WDoc, CRecord, WRecord - is a field of the
   row and unconstrained here; the model's insert-vs-put decision consults it through the table
   c05_store_put_kinds extracted from apply2's `store` closure, pinned by
   batch_flag_is_cud_is_new_for_every_kind): if the event creates a record whose id holds a live
   row, Apply answers SequencesViolation ... *)
Theorem create_existing_refused :
  forall now (st : store) (items : list item) (it : item) old,
  loads_ok now st items = true ->
  In it items -> it_new it = true -> get now st (it_pk it) (it_cc it) = Some old ->
  snd (run_recs (rec_code KApply 0) now st items) = RViolation.
Proof. exact (create_existing_refused_proved inserted_rows_never_expire batch_flag_is_cud_is_new_for_every_kind new_records_guarded_at_level_0). Qed.

(* ... and that row (value and expiry) is exactly what it was, whatever else the event wrote
   before the refusal, unless the same event also updates this very record (again for every kind). *)
Theorem existing_entry_intact :
  forall now (st : store) (items : list item) pk cc,
  get now st pk cc <> None ->
  (forall it, In it items -> key it = (pk, cc) -> it_new it = true) ->
  raw_lookup (fst (run_recs (rec_code KApply 0) now st items)) pk cc = raw_lookup st pk cc.
Proof. exact (existing_entry_intact_proved inserted_rows_never_expire batch_flag_is_cud_is_new_for_every_kind new_records_guarded_at_level_0). Qed.

(* Every level, Apply and re-apply: when no guarded row aims at an existing record - in
   particular an event that only updates records - the call succeeds and every record reads
   back as written. *)
Theorem updates_and_fresh_creates_succeed :
  forall k trust now (st : store) (items : list item),
  k = KApply \/ k = KReapplyRecs -> trust <= 2 ->
  loads_ok now st items = true -> NoDup (map key items) ->
  (forall it, In it items -> stale_new it = false) ->
  (forall it, In it items -> protected trust k (it_new it) = true -> found now st it = false) ->
  snd (run_recs (rec_code k trust) now st items) = ROk /\
  forall it, In it items -> get now (fst (run_recs (rec_code k trust) now st items)) (it_pk it) (it_cc it) = Some (it_val it).
Proof. exact (apply_succeeds_proved inserted_rows_never_expire batch_flag_is_cud_is_new_for_every_kind new_records_guarded_at_level_0 reapply_records_overwrites reapply_wlog_overwrites). Qed.

(* "Updates of existing records still succeed", every level, Apply and re-apply.
   Full statement (no restriction on how the update was built):
     forall k trust now st items, (k = KApply \/ k = KReapplyRecs) -> trust <= 2 ->
       loads_ok now st items = true -> NoDup (map key items) ->
       (forall it, In it items -> it_new it = false) ->  snd (run_recs (rec_code k trust) now st items) = ROk /\ ...
   It is refuted for the code as found (updates_succeed_full_refuted, finding F-A): ICUD.Update copies the
   isNew flag of the record object it is given, so an update built from the object handed out for a
   created row (Apply2 callback) is stored through the insert path and answered SequencesViolation at
   level 0.  Proved: the statement for rows that do not inherit a set flag (`stale_new it = false`:
   updates built from Records().Get, or any update once newUpdateRec resets the flag) ... *)
Theorem updates_always_succeed_partial :
  forall k trust now (st : store) (items : list item),
  k = KApply \/ k = KReapplyRecs -> trust <= 2 ->
  loads_ok now st items = true -> NoDup (map key items) ->
  (forall it, In it items -> stale_new it = false) ->
  (forall it, In it items -> it_new it = false) ->
  snd (run_recs (rec_code k trust) now st items) = ROk /\
  forall it, In it items -> get now (fst (run_recs (rec_code k trust) now st items)) (it_pk it) (it_cc it) = Some (it_val it).
Proof. exact (updates_always_succeed_proved inserted_rows_never_expire batch_flag_is_cud_is_new_for_every_kind new_records_guarded_at_level_0 reapply_records_overwrites reapply_wlog_overwrites). Qed.

(* ... and the full statement as soon as the translator finds the flag reset in newUpdateRec
   (c05_update_inherits_isnew = false, the repair findings/C05/F-A.diff) *)
Theorem updates_always_succeed_when_flag_reset :
  c05_update_inherits_isnew = false ->
  forall k trust now (st : store) (items : list item),
  k = KApply \/ k = KReapplyRecs -> trust <= 2 ->
  loads_ok now st items = true -> NoDup (map key items) ->
  (forall it, In it items -> it_new it = false) ->
  snd (run_recs (rec_code k trust) now st items) = ROk /\
  forall it, In it items -> get now (fst (run_recs (rec_code k trust) now st items)) (it_pk it) (it_cc it) = Some (it_val it).
Proof.
  exact (fun E k trust now st items =>
    updates_always_succeed_full_proved inserted_rows_never_expire batch_flag_is_cud_is_new_for_every_kind new_records_guarded_at_level_0
      reapply_records_overwrites reapply_wlog_overwrites k trust now st items E).
Qed.

(* ... which the code now does (side condition update_rows_are_never_new): the update clause of the statement, in full *)
Theorem updates_always_succeed :
  forall k trust now (st : store) (items : list item),
  k = KApply \/ k = KReapplyRecs -> trust <= 2 ->
  loads_ok now st items = true -> NoDup (map key items) ->
  (forall it, In it items -> it_new it = false) ->
  snd (run_recs (rec_code k trust) now st items) = ROk /\
  forall it, In it items -> get now (fst (run_recs (rec_code k trust) now st items)) (it_pk it) (it_cc it) = Some (it_val it).
Proof. exact (updates_always_succeed_when_flag_reset update_rows_are_never_new). Qed.

(* Levels 1 and 2 and re-apply at every level write the batch with one PutBatch: existing
   records ARE overwritten (the reading of the statement taken from isequencer/consts.go:
   "1: no trust to log writes, trust to records"). *)
Theorem apply_unguarded_overwrites :
  forall k trust now (st : store) (items : list item),
  trust <= 2 -> (k = KApply /\ 1 <= trust) \/ k = KReapplyRecs ->
  loads_ok now st items = true ->
  run_recs (rec_code k trust) now st items = (put_batch st (rows items), ROk).
Proof. exact (apply_unguarded_overwrites_proved new_records_guarded_at_level_0 reapply_records_overwrites reapply_wlog_overwrites). Qed.

(* Records the event does not mention are never touched, at any level, whatever the outcome *)
Theorem apply_frame :
  forall code now (st : store) (items : list item) pk cc,
  (forall it, In it items -> key it <> (pk, cc)) ->
  raw_lookup (fst (run_recs code now st items)) pk cc = raw_lookup st pk cc.
Proof. exact (apply_frame_proved inserted_rows_never_expire). Qed.

(* The link used by the run-time check: every observed trace that the model reproduces
   (storage calls, results, raw and API reads before and after every step) is accepted by the
   property oracle, which looks at the observations only. *)
Theorem agrees_implies_satisfies :
  forall (stamp : V -> N) (veqb : V -> V -> bool), (forall a b, veqb a b = true <-> a = b) ->
  forall t : gtrace V,
  (c05_update_inherits_isnew = false /\ c05_refused_plog_marks_stored = false /\ c05_failed_plog_marks_stored = false
   /\ c05_reapply_wlog_raises_level = false)
  \/ gclean t = true ->
  gagrees stamp veqb t = true -> gsatisfies stamp veqb t = true.
Proof.
  exact (fun stamp veqb veqb_eq =>
    link_full_proved inserted_rows_never_expire batch_flag_is_cud_is_new_for_every_kind stamp veqb veqb_eq plog_guarded_at_levels_0_1 wlog_guarded_at_levels_0_1
      new_records_guarded_at_level_0 reapply_records_overwrites reapply_wlog_overwrites).
Qed.

(* For the code as it is (side conditions update_rows_are_never_new, refused_plog_event_is_not_marked_stored,
   failed_plog_event_is_not_marked_stored, reapplier_wlog_is_a_direct_put) the link holds for every trace. *)
Theorem agrees_implies_satisfies_full :
  forall (stamp : V -> N) (veqb : V -> V -> bool), (forall a b, veqb a b = true <-> a = b) ->
  forall t : gtrace V,
  gagrees stamp veqb t = true -> gsatisfies stamp veqb t = true.
Proof.
  exact (fun stamp veqb veqb_eq t =>
    agrees_implies_satisfies stamp veqb veqb_eq t
      (or_introl (conj update_rows_are_never_new (conj refused_plog_event_is_not_marked_stored
        (conj failed_plog_event_is_not_marked_stored reapplier_wlog_is_a_direct_put))))).
Qed.

(* A step issued while a re-applier's WLog write is in flight (s_mode 4), or after two such writes overlapped
   (s_mode 5), runs at the configured trust level like any other: re-apply does not open a window for the other
   partitions of the application (seed c05-8: PutWlog under a raised shared level). *)
Theorem reapply_opens_no_window :
  forall trust m, eff_trust trust m = trust.
Proof. exact (eff_trust_id reapplier_wlog_is_a_direct_put). Qed.

(* "Only ... explicit re-apply during recovery may overwrite": an event object whose PutPlog was refused with
   SequencesViolation is not in the log and is not accepted by GetEventReapplier - the step answers with the
   panic and the store is untouched, at every level, for both re-applier operations.  (s_mode 1) *)
Theorem refused_event_is_not_reappliable :
  forall trust now (st : store) (s : step V),
  s_mode s = 1 -> is_reapply (s_kind s) = true ->
  run_step trust now st s = Some (st, RPanic, []).
Proof. exact (refused_event_not_reappliable_proved refused_plog_event_is_not_marked_stored). Qed.

(* the same for an event whose PutPlog failed with a storage error (s_mode 2): it is not in the log either
   (was finding P-D; failed_event_reappliable_refuted below keeps the witness over the old shape) *)
Theorem failed_event_is_not_reappliable :
  forall trust now (st : store) (s : step V),
  s_mode s = 2 -> is_reapply (s_kind s) = true ->
  run_step trust now st s = Some (st, RPanic, []).
Proof. exact (failed_event_not_reappliable_proved failed_plog_event_is_not_marked_stored). Qed.

End C05.

(* The statement without the restriction to ordinary events is false for the code as it is:
     forall k trust corrupted now st it old, (k = KPlog \/ k = KWlog) -> trust < 2 ->
       get now st (it_pk it) (it_cc it) = Some old ->
       run_log (log_code k trust corrupted) now st it = (st, RViolation)
   A sys.Corrupted event (QNameForCorruptedData) at an occupied offset overwrites at level 0. *)
Example log_append_refused_full_refuted :
  exists k trust corrupted now (st : store N) (it : item N) old,
    (k = KPlog \/ k = KWlog) /\ trust < 2 /\ get now st (it_pk it) (it_cc it) = Some old /\
    run_log (log_code k trust corrupted) now st it <> (st, RViolation).
Proof.
  exists KPlog, 0, true, 0%Z, (put [] [1] [2] 7), (mkItem [1] [2] 0 true false false 8), 7.
  repeat split; try (left; reflexivity); try reflexivity. vm_compute. discriminate.
Qed.

(* finding F-A: the update clause without the restriction, refuted while the flag is inherited *)
Example updates_succeed_full_refuted :
  c05_update_inherits_isnew = true ->
  exists (now : Z) (st : store N) (items : list (item N)),
    loads_ok now st items = true /\ NoDup (map key items) /\
    (forall it, In it items -> it_new it = false /\ found now st it = true) /\
    snd (run_recs (rec_code KApply 0) now st items) = RViolation.
Proof. exact updates_succeed_full_refuted_proved. Qed.

(* finding P-D (repaired): had PutPlog marked an event stored although its storage write failed - the shape before
   38f5a4a3d - the event would be accepted for re-apply and overwrite an existing record at level 0 *)
Example failed_event_reappliable_refuted :
  c05_failed_plog_marks_stored = true ->
  exists (st st' : store N) (s : step N) cs,
    s_mode s = 2 /\ s_kind s = KReapplyRecs /\
    run_step 0 0%Z st s = Some (st', ROk, cs) /\
    get 0%Z st [1] [2] = Some 7 /\ get 0%Z st' [1] [2] = Some 8.
Proof. exact failed_event_reappliable_refuted_proved. Qed.

(* seed c05-8 as a witness over the raised-level shape *)
Example window_raises_level_refuted :
  c05_reapply_wlog_raises_level = true ->
  exists (st st' : store N) (s : step N) cs,
    s_mode s = 4 /\ s_kind s = KPlog /\
    run_step 0 0%Z st s = Some (st', ROk, cs) /\
    get 0%Z st [1] [2] = Some 7 /\ get 0%Z st' [1] [2] = Some 8.
Proof. exact window_raises_level_refuted_proved. Qed.

(* ---- non-vacuity ---- *)
Definition ex_store : store N := put (put [] [0; 3] [0; 10] 70) [0; 4; 9] [0; 1] 50.

Example log_append_refused_nonvacuous :
  let it := mkItem [0; 3] [0; 10] 0 true false false 71 in
  get 5%Z ex_store (it_pk it) (it_cc it) = Some 70
  /\ run_log (log_code KPlog 1 false) 5%Z ex_store it = (ex_store, RViolation)
  /\ run_log (log_code KWlog 0 false) 5%Z ex_store it = (ex_store, RViolation)
  /\ fst (run_log (log_code KPlog 2 false) 5%Z ex_store it) <> ex_store.
Proof. vm_compute. repeat split; discriminate. Qed.

Example log_append_empty_nonvacuous :
  let it := mkItem [0; 3] [0; 11] 0 true false false 71 in
  get 5%Z ex_store (it_pk it) (it_cc it) = None
  /\ get 5%Z (fst (run_log (log_code KPlog 0 false) 5%Z ex_store it)) [0; 3] [0; 11] = Some 71
  /\ get 5%Z (fst (run_log (log_code KPlog 0 false) 5%Z ex_store it)) [0; 3] [0; 10] = Some 70.
Proof. vm_compute. repeat split. Qed.

(* a three-row event at level 0: a fresh create is written, then a create of an existing id is
   refused; the existing record is intact, the update behind it is never reached *)
Example create_existing_refused_nonvacuous :
  let items := [mkItem [0; 4; 9] [0; 2] 5 true false false 51; mkItem [0; 4; 9] [0; 1] 2 true false false 52;
                mkItem [0; 3] [0; 10] 3 false false false 72] in
  let r := run_recs (rec_code KApply 0) 5%Z ex_store items in
  loads_ok 5%Z ex_store items = true
  /\ snd r = RViolation
  /\ get 5%Z (fst r) [0; 4; 9] [0; 1] = Some 50
  /\ get 5%Z (fst r) [0; 4; 9] [0; 2] = Some 51
  /\ get 5%Z (fst r) [0; 3] [0; 10] = Some 70
  /\ run_recs (rec_code KApply 1) 5%Z ex_store items = (put_batch ex_store (rows items), ROk)
  /\ get 5%Z (fst (run_recs (rec_code KApply 1) 5%Z ex_store items)) [0; 4; 9] [0; 1] = Some 52.
Proof. vm_compute. repeat split. Qed.

Example updates_succeed_nonvacuous :
  let items := [mkItem [0; 4; 9] [0; 1] 4 false false true 53; mkItem [0; 3] [0; 10] 1 false false false 73] in
  loads_ok 5%Z ex_store items = true /\ NoDup (map key items)
  /\ run_recs (rec_code KApply 0) 5%Z ex_store items = (put_batch ex_store (rows items), ROk)
  /\ get 5%Z (fst (run_recs (rec_code KReapplyRecs 0) 5%Z ex_store items)) [0; 4; 9] [0; 1] = Some 53.
Proof.
  vm_compute. repeat split. repeat constructor; cbn; intuition discriminate.
Qed.

(* a two-step observed trace (level 0, PLog: first append stored, second refused) passes both checks *)
Example link_nonvacuous :
  let it1 := mkItem [0; 3] [0; 10] 0 true false false (1, 100) in
  let it2 := mkItem [0; 3] [0; 10] 0 true false false (2, 101) in
  let o := mkObs (Some (1, 100)) (Some (1, 100)) (Some 100) in
  let t := mkTrace 0 0
    [mkStep KPlog 0 false [mkSlot it1 false (mkObs None None None) o] ROk [CIns [0; 3] [0; 10] (1, 100) 0%Z true];
     mkStep KPlog 0 false [mkSlot it2 false o o] RViolation [CIns [0; 3] [0; 10] (2, 101) 0%Z false]] in
  agrees t = true /\ satisfies t = true
  /\ satisfies (mkTrace 0 0 [mkStep KPlog 0 false [mkSlot it2 false o (written (@snd N N) it2)] ROk []]) = false.
Proof. vm_compute. repeat split. Qed.

(* another writer filled the slot underneath the node's cache (the node still sees it empty: top and API
   views None, raw bytes present): the append must still be refused; an append that answers ok and replaces
   the raw bytes is rejected by the oracle, which judges the shared storage *)
Example foreign_writer_nonvacuous :
  let itB := mkItem [0; 3] [0; 10] 0 true false false (1, 100) in
  let itA := mkItem [0; 3] [0; 10] 0 true false false (2, 101) in
  let e := mkObs None None None in
  let f := mkObs None (Some (1, 100)) None in
  let t := mkTrace 2 0
    [mkStep KForeign 0 false [mkSlot itB true e f] ROk [];
     mkStep KPlog 0 false [mkSlot itA true f f] RViolation [CIns [0; 3] [0; 10] (2, 101) 0%Z false]] in
  agrees t = true /\ satisfies t = true
  /\ satisfies (mkTrace 2 0 [mkStep KPlog 0 false [mkSlot itA true f (mkObs (Some (2, 101)) (Some (2, 101)) (Some 101))] ROk []]) = false.
Proof. vm_compute. repeat split. Qed.

Print Assumptions log_append_refused_partial.
Print Assumptions log_append_empty_written.
Print Assumptions log_overwrite_only_when_trusted_or_reapply.
Print Assumptions create_existing_refused.
Print Assumptions existing_entry_intact.
Print Assumptions updates_and_fresh_creates_succeed.
Print Assumptions updates_always_succeed_partial.
Print Assumptions updates_always_succeed_when_flag_reset.
Print Assumptions updates_always_succeed.
Print Assumptions agrees_implies_satisfies_full.
Print Assumptions refused_event_is_not_reappliable.
Print Assumptions reapply_opens_no_window.
Print Assumptions window_raises_level_refuted.
Print Assumptions failed_event_is_not_reappliable.
Print Assumptions failed_event_reappliable_refuted.
Print Assumptions updates_succeed_full_refuted.
Print Assumptions apply_unguarded_overwrites.
Print Assumptions apply_frame.
Print Assumptions agrees_implies_satisfies.
Print Assumptions log_append_refused_full_refuted.
