(* C15 - a stored BLOB reads back byte-for-byte whatever its size or input chunking.
   Statements only; every proof is `exact <lemma>` into C15_Blob/Proofs.v. *)
From Coq Require Import List NArith ZArith Lia.
From V Require Import Lib.Lex Lib.SMap Storage.Spec Gen.Params C15_Blob.Model C15_Blob.Proofs C15_Blob.Quota C15_Blob.Crash.
Import ListNotations.
Local Open Scope N_scope.

(* side conditions on the constants the translator took from the Go source *)
Lemma chunk_numbers_sort_in_write_order : blob_chunk_endian = BE.
Proof. reflexivity. Qed.
Lemma bucket_size_positive : 1 <= blob_bucket_size.
Proof. vm_compute. discriminate. Qed.

Section C15.
Context {A : Type} (aeqb : A -> A -> bool) (aeqb_refl : forall a, aeqb a a = true).

(* For every list of Read() results (each 1..chunkSize bytes, any number below 2^64, any payload),
   every key not yet used in the store, whatever else the store holds, persistent or temporary
   (read before expiry), and a quota that admits the total: the write succeeds with the total
   size and the read returns exactly the written chunks in order with the recorded size,
   descriptor and Completed status. *)
Theorem read_write_id :
  forall (st : bstore A) k now now' descr dur quota (reads : list (chunk A)),
  fresh_key st k ->
  Forall (fun c => 1 <= clen c <= blob_chunk_size) reads ->
  N.of_nat (length reads) + 3 < 2 ^ 64 ->
  quota_ok quota (total_len reads) ->
  alive now' (ins_exp k now dur) = true ->
  exists st',
    write_blob aeqb now st k descr dur quota reads EndEOF = (st', WOk (total_len reads)) /\
    read_blob now' st' k = ROk (mkState descr (total_len reads) StCompleted false dur) reads.
Proof. exact (read_write_id_proved aeqb aeqb_refl chunk_numbers_sort_in_write_order bucket_size_positive). Qed.

(* A write refused by the quota, interrupted by a reader error or a cancelled context, or
   refused at a chunk row is never readable as a complete BLOB, at any later time, from any
   starting store. *)
Theorem interrupted_not_complete :
  forall (st st' : bstore A) k now now' descr dur quota reads e r,
  N.of_nat (length reads) + 1 < 2 ^ 64 ->
  write_blob aeqb now st k descr dur quota reads e = (st', r) ->
  failed_midway r ->
  exists err, read_blob now' st' k = RFail err.
Proof. exact (interrupted_not_complete_proved aeqb aeqb_refl). Qed.

(* A write that reports success stored exactly the bytes the reader delivered, the reader ended
   normally, and their number is within the quota: the quota is enforced on the whole stream, however
   it is cut into Read() results. *)
Theorem ok_write_is_within_quota :
  forall (st st' : bstore A) k now descr dur quota reads e sz,
  write_blob aeqb now st k descr dur quota reads e = (st', WOk sz) ->
  sz = total_len reads /\ within quota sz /\ e = EndEOF.
Proof. exact (ok_write_is_within_quota_proved aeqb). Qed.

(* ReadBLOB refuses a BLOB whose state does not say Completed (repaired finding C15-F3; read from the source) *)
Lemma read_requires_completed : blob_read_requires_completed = true.
Proof. reflexivity. Qed.

(* A write to a key that has no state row yet, whose process dies (or whose storage stops taking
   effect) after ANY number n >= 1 of its storage calls - the state row alone, or the state row and
   any number of chunk rows - is never readable as a BLOB, at any later time. *)
Theorem crashed_write_not_complete :
  forall (st : bstore A) k now now' descr dur quota (reads : list (chunk A)) n,
  raw_lookup st (pkey k 0) ccol_state = None ->
  N.of_nat (length reads) + 1 < 2 ^ 64 ->
  (1 <= n)%nat ->
  exists err, read_blob now' (write_crashed now st k descr dur quota reads n) k = RFail err.
Proof. exact (crashed_write_not_complete_proved read_requires_completed). Qed.

(* A write touches only partitions of its own key ... *)
Theorem write_frame :
  forall (st st' : bstore A) k now descr dur quota reads e r pk,
  write_blob aeqb now st k descr dur quota reads e = (st', r) ->
  (forall b, b <= N.of_nat (length reads) + 1 -> pk <> pkey k b) ->
  part st' pk = part st pk.
Proof. exact (write_frame_proved aeqb). Qed.

(* ... and partitions of different keys are different: BLOBs never see each other's data. *)
Theorem key_isolation :
  forall (st st' : bstore A) k k' now descr dur quota reads e r b',
  wf_key k -> wf_key k' -> k <> k' -> b' < 2 ^ 64 -> N.of_nat (length reads) + 1 < 2 ^ 64 ->
  write_blob aeqb now st k descr dur quota reads e = (st', r) ->
  part st' (pkey k' b') = part st (pkey k' b').
Proof. exact (key_isolation_proved aeqb). Qed.

End C15.

Theorem pkey_injective : forall k k' b b', wf_key k -> wf_key k' -> b < 2 ^ 64 -> b' < 2 ^ 64 ->
  pkey k b = pkey k' b' -> k = k' /\ b = b'.
Proof. exact pkey_inj. Qed.

(* non-vacuity: a concrete multi-chunk write on a non-empty store meets the hypotheses and computes *)
Example read_write_id_nonvacuous :
  let k := KTemp 1 2 [97; 98] in
  let other := KPersistent 1 2 7 in
  let reads := [mkChunk 3 11; mkChunk 1 12; mkChunk 102400 13] in
  let st0 := fst (write_blob N.eqb 0 [] other 5 0 None [mkChunk 2 1] EndEOF) in
  let st1 := fst (write_blob N.eqb 1000 st0 k 9 1 (Some 102404) reads EndEOF) in
  read_blob 86400999%Z st1 k = ROk (mkState 9 102404 StCompleted false 1) reads
  /\ read_blob 86401000%Z st1 k = RFail RNotFound
  /\ read_blob 86401000%Z st1 other = ROk (mkState 5 2 StCompleted false 0) [mkChunk 2 1].
Proof. vm_compute. repeat split. Qed.

Example interrupted_nonvacuous :
  let k := KPersistent 1 2 7 in
  let '(st1, r) := write_blob N.eqb 0 [] k 5 0 (Some 3) [mkChunk 2 1; mkChunk 2 2] EndEOF in
  r = WFail 4 WQuota /\ read_blob 0%Z st1 k = RFail RCorrupted.
Proof. vm_compute. split; reflexivity. Qed.

Example over_quota_by_small_chunks_refused :
  let k := KPersistent 1 2 7 in
  snd (write_blob N.eqb 0 [] k 5 0 (Some 5) [mkChunk 3 1; mkChunk 3 2] EndEOF) = WFail 6 WQuota.
Proof. vm_compute. reflexivity. Qed.

(* before the repair a write that died right after its state row read back as a complete empty BLOB:
   the size check 0 = 0 passed (the model without the status test is the code before C15-F3) *)
Example crashed_after_state_row_nonvacuous :
  let k := KPersistent 1 2 7 in
  read_blob 5%Z (write_crashed (A:=N) 0 [] k 5 0 None [mkChunk 3 1] 1) k = RFail RCorrupted
  /\ read_blob 5%Z (write_crashed (A:=N) 0 [] k 5 0 None [mkChunk 3 1; mkChunk 2 2] 3) k = RFail RCorrupted.
Proof. vm_compute. split; reflexivity. Qed.

Example crashed_after_state_row_read_back_as_empty_blob_refuted :
  let k := KPersistent 1 2 7 in
  exists s, read_blob_gen false 5%Z (write_crashed (A:=N) 0 [] k 5 0 None [mkChunk 3 1] 1) k = ROk s [].
Proof. eexists. vm_compute. reflexivity. Qed.

Print Assumptions read_write_id.
Print Assumptions interrupted_not_complete.
Print Assumptions ok_write_is_within_quota.
Print Assumptions crashed_write_not_complete.
Print Assumptions write_frame.
Print Assumptions key_isolation.
Print Assumptions pkey_injective.
