(* C15 - a stored BLOB reads back byte-for-byte.  Statements only. *)
From Coq Require Import List NArith ZArith.
From V Require Import Lib.Lex C15_Blob.Model.
Import ListNotations.

Example c15_placeholder : le_bytes 8 1 = [1;0;0;0;0;0;0;0]%N.
Proof. reflexivity. Qed.
Print Assumptions c15_placeholder.
