(* C06 - every key-value backend behaves like the one reference storage semantics.
   Statements only; proofs are `exact` into Storage/SpecLaws.v and C06_Storage/Proofs.v. *)
From Coq Require Import List NArith ZArith Lia.
From V Require Import Lib.Lex Lib.SMap Lib.Check Storage.Spec Storage.SpecLaws Gen.Params C06_Storage.Model C06_Storage.Proofs C06_Storage.Scan C06_Storage.Link C06_Storage.Conc.
Import ListNotations.
Local Open Scope Z_scope.

(* ===== the reference semantics has the properties the statement lists ===== *)
Section Reference.
Context {V : Type} (veqb : V -> V -> bool).

(* point reads see the latest write; writes under any other key are invisible *)
Theorem point_read_latest_write : forall now (st : store V) pk cc v, get now (put st pk cc v) pk cc = Some v.
Proof. exact get_put_same. Qed.
Theorem point_read_frame : forall now (st : store V) pk cc v pk' cc',
  (pk', cc') <> (pk, cc) -> get now (put st pk cc v) pk' cc' = get now st pk' cc'.
Proof. exact get_put_other. Qed.

(* batch reads agree with point reads *)
Theorem batch_read_pointwise : forall now (st : store V) pk ccs i cc,
  nth_error ccs i = Some cc -> nth_error (get_batch now st pk ccs) i = Some (get now st pk cc).
Proof. exact get_batch_pointwise. Qed.

(* range reads: exactly the live rows with start <= key < finish (empty finish = unbounded), ... *)
Theorem range_read_exact : forall now (st : store V) pk start finish k v, parts_sorted st ->
  (In (k, v) (read now st pk start finish) <->
   live_in now st pk k v /\ lex_le start k = true /\ (finish = [] \/ lex_lt k finish = true)).
Proof. exact read_exact. Qed.
(* ... in strictly ascending byte order, hence each once *)
Theorem range_read_ascending : forall now (st : store V) pk start finish, parts_sorted st ->
  ascending (map fst (read now st pk start finish)).
Proof. exact read_ascending. Qed.
Theorem ascending_no_duplicates : forall ks, ascending ks -> NoDup ks.
Proof. exact ascending_NoDup. Qed.

(* conditional operations act on the current non-expired value and are the only ones that refuse *)
Theorem insert_if_not_exists_decides : forall now (st : store V) pk cc v ttl,
  match get now st pk cc with
  | Some _ => insert_if_not_exists now st pk cc v ttl = (st, false)
  | None => exists st', insert_if_not_exists now st pk cc v ttl = (st', true)
            /\ raw_lookup st' pk cc = Some (mkRow v (exp_of now ttl))
            /\ forall pk' cc', (pk', cc') <> (pk, cc) -> raw_lookup st' pk' cc' = raw_lookup st pk' cc'
  end.
Proof. exact insert_if_not_exists_spec. Qed.
Theorem compare_and_swap_decides : forall now (st : store V) pk cc old new ttl,
  match get now st pk cc with
  | Some cur =>
      if veqb cur old
      then exists st', compare_and_swap veqb now st pk cc old new ttl = (st', true)
             /\ raw_lookup st' pk cc = Some (mkRow new (exp_of now ttl))
             /\ forall pk' cc', (pk', cc') <> (pk, cc) -> raw_lookup st' pk' cc' = raw_lookup st pk' cc'
      else compare_and_swap veqb now st pk cc old new ttl = (st, false)
  | None => compare_and_swap veqb now st pk cc old new ttl = (st, false)
  end.
Proof. exact (compare_and_swap_spec veqb). Qed.
Theorem compare_and_delete_decides : forall now (st : store V) pk cc expected, parts_sorted st ->
  match get now st pk cc with
  | Some cur =>
      if veqb cur expected
      then exists st', compare_and_delete veqb now st pk cc expected = (st', true)
             /\ raw_lookup st' pk cc = None
             /\ forall pk' cc', (pk', cc') <> (pk, cc) -> raw_lookup st' pk' cc' = raw_lookup st pk' cc'
      else compare_and_delete veqb now st pk cc expected = (st, false)
  | None => compare_and_delete veqb now st pk cc expected = (st, false)
  end.
Proof. exact (compare_and_delete_spec veqb). Qed.

(* a row written with a TTL is visible until, and not after, the expiry of that write *)
Theorem ttl_visible_until_expiry : forall (st : store V) pk cc v now ttl now',
  0 < ttl -> 0 <= now -> now <= now' ->
  raw_lookup st pk cc = Some (mkRow v (exp_of now ttl)) ->
  (get now' st pk cc = Some v <-> now' < now + ttl * 1000) /\
  (get now' st pk cc = None <-> now + ttl * 1000 <= now').
Proof. exact ttl_visibility. Qed.
End Reference.

(* ===== bbolt refines the reference ===== *)

(* Every history of operations - point operations, batches, range reads (Read / TTLRead through the
   cursor scan with its safeKey/unSafeKey translation of keys and bounds), conditional operations,
   clock advances and cleaner runs (the cleaner fires inside Advance whenever its hourly timer is
   due) - over clustering columns and bounds other than the reserved key {0x00}: each output equals
   the reference's output unless the interface leaves it open (dont_care: plain Get/GetBatch/Read
   touching a row written with a TTL; QueryTTL with under a second left). *)
Theorem bbolt_refines_reference : forall ops,
  Forall cc_ok_op ops -> refines_run ([], 0) bb_init ops.
Proof. exact (fun ops => bbolt_refines_proved ops ([], 0) bb_init R_init). Qed.

(* the same for point operations only, kept as the statement the live-view corollary uses *)
Theorem bbolt_refines_reference_partial : forall ops,
  Forall cc_ok_op ops -> Forall point_op ops -> refines_run ([], 0) bb_init ops.
Proof. exact (fun ops => bbolt_refines_point_proved ops ([], 0) bb_init R_init). Qed.

(* After any such history the TTL-aware view of every key is the reference's: in particular the
   background cleaner never removes a row before the expiry of its most recent successful write
   (finding F5, repaired), and never keeps one visible after it. *)
Theorem bbolt_live_view : forall ops,
  Forall cc_ok_op ops -> Forall point_op ops ->
  let s' := fold_left (fun s o => fst (spec_step s o)) ops ([], 0) in
  let b' := fold_left (fun b o => fst (bb_step b o)) ops bb_init in
  forall pk cc, okcc cc -> bb_live b' pk cc = lookup (snd s') (fst s') pk cc.
Proof. exact (fun ops => bbolt_live_view_proved ops ([], 0) bb_init R_init). Qed.

(* Link: on every observed history (over clustering columns other than {0x00}) on which a backend
   agrees with its model, the observed outputs pass the oracle `satisfies`, i.e. equal the reference
   wherever the interface does not leave them open. *)
Theorem agrees_implies_satisfies : forall t, Forall cc_ok_op (t_ops t) -> agrees t = true -> satisfies t = true.
Proof. exact agrees_implies_satisfies_proved. Qed.

(* ===== batch reads agree with point reads, on every backend model, TTL rows included ===== *)

(* At every state of the reference storage and at every state of the bbolt model, item i of a
   GetBatch is exactly what a Get of the i-th key answers at that state (found flag and value).  For
   a row written with a TTL the two models answer differently from each other once it has expired
   (the reference and mem hide it, bbolt shows it until its cleaner has run; the interface leaves
   that open) - but each of them answers alike through GetBatch and through Get. *)
Definition batch_item (out : sout) (i : nat) : option sout :=
  match out with RBatch vs => option_map RGet (nth_error vs i) | _ => None end.

Theorem batch_reads_agree_with_point_reads :
  (forall (s : sstate) pk ccs i cc, nth_error ccs i = Some cc ->
     batch_item (snd (spec_step s (OGetBatch pk ccs))) i = Some (snd (spec_step s (OGet pk cc)))) /\
  (forall (b : bb) pk ccs i cc, nth_error ccs i = Some cc ->
     batch_item (snd (bb_step b (OGetBatch pk ccs))) i = Some (snd (bb_step b (OGet pk cc)))).
Proof.
  split; intros s pk ccs i cc H.
  - rewrite spec_batch_point, spec_get_point. cbn. rewrite nth_error_map, H. reflexivity.
  - rewrite bb_batch_point, bb_get_point. cbn. rewrite nth_error_map, H. reflexivity.
Qed.

(* no read operation (Get, GetBatch, Read, TTLGet, TTLRead, QueryTTL) changes the state of either model *)
Theorem reads_change_nothing :
  (forall (s : sstate) o, is_read o = true -> fst (spec_step s o) = s) /\
  (forall (b : bb) o, is_read o = true -> fst (bb_step b o) = b).
Proof. split; [exact spec_read_keeps_state|exact bb_read_keeps_state]. Qed.

(* hence the oracle clause `batch_point` (a Get and a GetBatch item for the same key with only read
   operations between them carry the same answer) holds of every history of either model, from
   every state *)
Theorem batch_point_clause_holds_of_both_models : forall ops,
  (forall s, batch_point ops (run_spec s ops) = true) /\ (forall b, batch_point ops (run_bb b ops) = true).
Proof. intros ops. split; intros x; [apply spec_batch_point_proved|apply bb_batch_point_proved]. Qed.

(* non-vacuity: a row with a 1 s TTL, read 2 s later (expired, cleaner not yet run) through GetBatch
   and Get: the reference hides it from both, the bbolt model shows it to both; a mem history in which
   GetBatch still shows the row while Get hides it is accepted by the reference clause alone (both
   outputs are left open) and rejected by `satisfies`; one write in between lifts the obligation *)
Example batch_point_nonvacuous :
  let pk := [97%N] in let cc := [1%N] in let v := [7%N] in
  let ops := [OIns pk cc v 1; OAdvance 2000; OGetBatch pk [[2%N]; cc]; OTTLRead pk [] []; OGet pk cc] in
  run_spec ([], 0) ops = [RBool true; RUnit; RBatch [None; None]; RRows []; RGet None] /\
  run_bb bb_init ops = [RBool true; RUnit; RBatch [None; Some v]; RRows []; RGet (Some v)] /\
  satisfies (mkTrace Mem ops (run_spec ([], 0) ops)) = true /\
  satisfies (mkTrace Bbolt ops (run_bb bb_init ops)) = true /\
  (let bad := [RBool true; RUnit; RBatch [None; Some v]; RRows []; RGet None] in
   satisfies_from ([], 0) ops bad = true /\ satisfies (mkTrace Mem ops bad) = false /\
   violations_at (mkTrace Mem ops bad) = [4%N]) /\
  (let ops' := [OIns pk cc v 1; OAdvance 2000; OGet pk cc; OPut pk [2%N] v; OGetBatch pk [cc]] in
   satisfies (mkTrace Mem ops' [RBool true; RUnit; RGet None; RUnit; RBatch [Some v]]) = true /\
   satisfies (mkTrace Mem [OIns pk cc v 1; OAdvance 2000; OGet pk cc; OQueryTTL pk cc; OGetBatch pk [cc]]
                [RBool true; RUnit; RGet None; RTTL None; RBatch [Some v]]) = false).
Proof. cbn zeta. repeat split; vm_compute; reflexivity. Qed.

(* the restriction to clustering columns other than {0x00} is necessary: known finding F2 *)
Example bbolt_null_key_refuted :
  exists ops, run_bb bb_init ops <> run_spec ([], 0) ops /\ Forall point_op ops.
Proof.
  exists [OPut [97%N] [] [1%N]; OPut [97%N] [0%N] [2%N]; OGet [97%N] []].
  split; [vm_compute; discriminate|repeat constructor].
Qed.

(* non-vacuity: a history with TTL renewal across a cleaner run meets the hypotheses and computes *)
Example bbolt_refines_nonvacuous :
  let ops := [OIns [97%N] [1%N] [7%N] 10; OAdvance 5000; OCas [97%N] [1%N] [7%N] [7%N] 7200;
              OAdvance 3600000; OTTLGet [97%N] [1%N]; OQueryTTL [97%N] [1%N]; OCad [97%N] [] []; OPutBatch [([97%N], [], [])];
              OTTLRead [97%N] [] [1%N]; ORead [97%N] [] []] in
  Forall cc_ok_op ops /\ True /\
  run_bb bb_init ops = run_spec ([], 0) ops /\
  nth 4 (run_bb bb_init ops) RErr = RGet (Some [7%N]).
Proof.
  cbn zeta. split; [|split; [|split]].
  - repeat constructor; unfold okcc, null_key; try discriminate; try lia.
  - exact I.
  - vm_compute. reflexivity.
  - vm_compute. reflexivity.
Qed.

(* ---- conditional operations act atomically ----
   bbolt checks and writes in one transaction (repaired finding F6; the flag is read from the source) *)
Lemma conditional_ops_are_one_transaction : bbolt_cond_ops_single_tx = true.
Proof. reflexivity. Qed.

(* Any number of callers performing a conditional insert on the same absent row, interleaved in any
   order at the granularity of the backend's transactions: never two of them are told ok, and as soon
   as one of them has returned exactly one has been told ok. *)
Theorem concurrent_conditional_inserts_have_one_winner : forall n sched s,
  crun bbolt_cond_ops_single_tx (cinit n) sched = Some s ->
  (winners s <= 1)%nat /\ (existsb is_done (c_pcs s) = true -> winners s = 1%nat).
Proof. rewrite conditional_ops_are_one_transaction. exact one_winner_proved. Qed.

(* the one transaction is necessary: with the check in one transaction and the write in the next
   (the code before the repair) two callers both win *)
Example two_transactions_two_winners_refuted :
  exists sched s, crun false (cinit 2) sched = Some s /\ winners s = 2%nat.
Proof. exists [0; 1; 0; 1]%nat. eexists. split; [vm_compute; reflexivity|reflexivity]. Qed.

Example one_winner_nonvacuous :
  exists s, crun true (cinit 3) [2; 0; 1]%nat = Some s /\ winners s = 1%nat /\ c_row s = Some 2%nat.
Proof. eexists. split; [vm_compute; reflexivity|split; reflexivity]. Qed.

Print Assumptions point_read_latest_write.
Print Assumptions point_read_frame.
Print Assumptions batch_read_pointwise.
Print Assumptions range_read_exact.
Print Assumptions range_read_ascending.
Print Assumptions ascending_no_duplicates.
Print Assumptions insert_if_not_exists_decides.
Print Assumptions compare_and_swap_decides.
Print Assumptions compare_and_delete_decides.
Print Assumptions ttl_visible_until_expiry.
Print Assumptions bbolt_refines_reference.
Print Assumptions bbolt_refines_reference_partial.
Print Assumptions concurrent_conditional_inserts_have_one_winner.
Print Assumptions bbolt_live_view.
Print Assumptions agrees_implies_satisfies.
Print Assumptions batch_reads_agree_with_point_reads.
Print Assumptions reads_change_nothing.
Print Assumptions batch_point_clause_holds_of_both_models.
