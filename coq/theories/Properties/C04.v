(* C04 - record IDs are unique per workspace; raw IDs are substituted consistently.
   Statements only; every proof is `exact <lemma>` into C04_RecordIDs/{Proofs,Link}.v (witnesses by vm_compute).

   Vocabulary (C04_RecordIDs/Model.v): a history is a list of `IEvent ws ev` (an event offered to workspace ws:
   built, validated, and - if valid - regenerated and logged) and `IRestart` (every workspace's generator is
   rebuilt from its log, as the command processor's recovery does).  `run st_init h` is the state after h;
   `step_event w ev = (w', Accepted ev' rep)` says that ev was accepted in workspace state w, stored as ev',
   and that `rep` are the (raw, storage) pairs handed out by NextID = the NewIDs reported to the client.
   `w_log w` are the IDs recorded in the workspace's log (new CUD rows and argument-tree rows).

   The theorems are about the code after the repairs of F12 (adba86208), F41 (2dce4071c), F42 (cf81abbbf), F43
   (d9932b09c), F44 (ed8e8ed01), F46 (f867c6b2a) and F47 (7734f4cc9); the last section keeps, as lemmas about the model variants selected by explicit
   flags, why each repair was needed.

   Hypotheses:
     few_rows h      MaxRecordID + 1 + (number of rows in h) < 2^64, i.e. fewer than 2^63 rows were ever offered.
                     This is all that is left of "no uint64 overflow": validation refuses explicit IDs above
                     MaxRecordID = MaxInt64 (F44), refused events leave every state untouched (`run_valid_only`), so
                     `bounded` - (every ID named in h) + 1 + rows < 2^64 - follows for the valid events
                     (`bounded_valid_only`, Link.v).  The counter is a uint64: some such bound is unavoidable.
                     `log_ids_distinct`, `model_traces_satisfy_the_oracle` and the single-event statement
                     (`room 0 g rows`) still take `bounded` directly: their hypotheses (`hist_fresh`) or conclusions
                     (the model trace) mention the refused events too.
     singles_ok h    singleton IDs supplied by the registry lie in the singleton range (C10's subject)
   and, for `stored_ids_distinct` / `log_ids_distinct`, `explicit_above_singletons` (`explicit_apart`) and `hist_fresh`
   (see there; F45 triaged in findings/C04/F45.md) *)
From Coq Require Import List NArith Lia.
From V Require Import Lib.Check Gen.Params C04_RecordIDs.Model C04_RecordIDs.Proofs C04_RecordIDs.Link.
Import ListNotations.
Local Open Scope N_scope.

(* ---- side conditions on what the translator took from the Go source ---- *)
Lemma raw_ids_are_below_user_ids : 0 < c04_min_raw_id /\ c04_max_raw_id < c04_first_user_id.
Proof. exact (conj layout_raw_positive layout_raw_below_user). Qed.
Lemma reserved_ids_are_below_user_ids : c04_max_reserved_id < c04_first_user_id.
Proof. exact layout_reserved_below_user. Qed.
Lemma singleton_ids_are_reserved : c04_max_raw_id < c04_max_singleton_id /\ c04_max_singleton_id < c04_first_user_id.
Proof. exact layout_singletons_reserved. Qed.
(* the repairs are in the source: UpdateOnSync ignores a syncID whose successor does not fit (F42), the argument
   pass calls UpdateOnSync for explicit IDs (F41), the CUD pass starts from the argument's plan (F12).
   Reverting one of them flips a flag and re-opens the theorem that depends on it. *)
Lemma arg_pass_syncs : c04_arg_updates_on_sync = true.
Proof. reflexivity. Qed.
Lemma plans_shared : c04_plans_shared = true.
Proof. reflexivity. Qed.
Lemma sync_prepass : c04_sync_prepass = true.
Proof. reflexivity. Qed.
(* validation refuses explicit IDs above MaxRecordID = MaxInt64 (F44, ed8e8ed01); the bound is inclusive: an explicit
   ID of MaxInt64 is accepted and the next generated ID is 2^63 - still unique and a user ID, `few_rows` accounts for it *)
Lemma explicit_ids_bounded_by_validation : c04_max_record_id = 9223372036854775807.
Proof. reflexivity. Qed.
(* validateObjectIDs checks every RecordID field of a document argument, the plain (AddField) ones too (F46, f867c6b2a) *)
Lemma argument_recordid_fields_checked : c04_arg_plain_checked = true.
Proof. reflexivity. Qed.
(* sendResponse re-encodes the reply of the APIv2 paths with numbers kept digit for digit (F47, 7734f4cc9) *)
Lemma apiv2_reply_exact : c04_apiv2_reply_exact = true.
Proof. reflexivity. Qed.
(* appRecordsType.validEvent refuses a singleton create whenever a record - active or not - sits at the singleton's ID *)
Lemma singleton_slot_guarded : c04_singleton_slot_guard = true.
Proof. reflexivity. Qed.
(* UpdateOnSync ignores MaxUint64 only (F42): every other ID - in particular every ID the generator can have handed
   out - moves the generator, live and on recovery *)
Lemma update_on_sync_guarded : c04_update_on_sync_limit = 18446744073709551614.
Proof. reflexivity. Qed.

(* ================= 1. generated IDs are user IDs, handed out in increasing order ================= *)
(* for every history h (restarts anywhere) and every event accepted after it, every generated ID is
   >= FirstUserRecordID, so never null, raw or reserved *)
Theorem generated_ids_are_user_ids :
  forall h ws ev w' ev' rep,
  few_rows (h ++ [IEvent ws ev]) -> singles_ok (h ++ [IEvent ws ev]) ->
  step_event (run st_init h ws) ev = (w', Accepted ev' rep) ->
  forall x, In x (map snd rep) ->
    c04_first_user_id <= x /\ x < w_next w' /\ is_raw x = false /\ is_reserved x = false /\ x <> 0.
Proof.
  intros h ws ev w' ev' rep HB HS E x I.
  destruct (generated_ids_few_proved _ _ h ws ev w' ev' rep HB HS E) as (CH & G & _).
  destruct (chain_bounds _ _ _ CH x I) as [L U].
  assert (F : c04_first_user_id <= x) by lia.
  exact (conj F (conj U (conj (user_not_raw x F) (conj (user_not_reserved x F) (user_not_null x F))))).
Qed.

(* the old shape (before F44): while explicit IDs could be as large as MaxUint64-1, NextID itself wrapped, and a
   generated ID that looked raw was even rewritten through the plan; `bounded` was then a hypothesis about the
   client's IDs.  (With validation's bound in the source the premise of this lemma is absurd.) *)
Theorem generated_ids_are_user_ids_unbounded_refuted :
  c04_max_record_id = 18446744073709551615 ->   (* validation puts no upper bound on explicit IDs: finding F44 *)
  exists h ws ev w' ev' rep, singles_ok (h ++ [IEvent ws ev])
    /\ step_event (run st_init h ws) ev = (w', Accepted ev' rep)
    /\ exists x, In x (map snd rep) /\ x = 0.
Proof.
  (* one script for both worlds: with MaxRecordID checked by validation the premise is absurd *)
  intros H. first
  [ exfalso; vm_compute in H; discriminate H
  | exists [IEvent 1 (mkEv true [] [mkRow 18446744073709551614 0 [0; 0] 0] [])], 1,
           (mkEv false [] [mkRow 7 0 [0; 0] 0; mkRow 1 0 [7; 0] 0] []);
    eexists; eexists; eexists; split; [apply singles_okb_sound; reflexivity|];
    split; [vm_compute; reflexivity|]; exists 0; split; [right; left; reflexivity|reflexivity] ].
Qed.

(* the IDs of one event are handed out in strictly increasing order, starting at the generator's value *)
Theorem ids_strictly_increasing :
  forall h ws ev w' ev' rep,
  few_rows (h ++ [IEvent ws ev]) -> singles_ok (h ++ [IEvent ws ev]) ->
  step_event (run st_init h ws) ev = (w', Accepted ev' rep) ->
  chain (w_next (run st_init h ws)) (map snd rep) (w_next w').
Proof. intros h ws ev w' ev' rep HB HS E. exact (proj1 (generated_ids_few_proved _ _ h ws ev w' ev' rep HB HS E)). Qed.

(* ================= 2. unique per workspace, including after recovery ================= *)
(* for every history h (events of any workspaces - new or synced, explicit IDs anywhere - and restarts at any
   position) and every event accepted after it: the generated IDs are pairwise distinct and differ from every ID
   recorded in that workspace's log; and the log grows by exactly the stored IDs of the event *)
Theorem unique_per_ws :
  forall h ws ev w' ev' rep,
  few_rows (h ++ [IEvent ws ev]) -> singles_ok (h ++ [IEvent ws ev]) ->
  step_event (run st_init h ws) ev = (w', Accepted ev' rep) ->
  NoDup (map snd rep)
  /\ (forall x, In x (map snd rep) -> ~ In x (w_log (run st_init h ws)))
  /\ w_log w' = w_log (run st_init h ws) ++ event_ids ev'.
Proof. intros h ws ev w' ev' rep HB HS. exact (unique_few_proved _ _ h ws ev w' ev' rep HB HS arg_pass_syncs). Qed.

(* the rows written by ONE accepted event carry pairwise distinct storage IDs - generated, explicit and singleton
   IDs together (`event_ids ev'` = IDs of the stored creates and argument rows), in whatever order raw and explicit
   rows come (eventType.regenerateIDs feeds every explicit ID to UpdateOnSync before the first NextID, F43).
   `explicit_above_singletons`: a sync client does not pick IDs from the singleton band. *)
Theorem stored_ids_distinct :
  forall h ws ev w' ev' rep,
  few_rows (h ++ [IEvent ws ev]) -> singles_ok (h ++ [IEvent ws ev]) -> explicit_above_singletons ev ->
  step_event (run st_init h ws) ev = (w', Accepted ev' rep) ->
  NoDup (event_ids ev').
Proof. intros h ws ev w' ev' rep HB HS HX. exact (stored_ids_distinct_few_proved _ _ h ws ev w' ev' rep HB HS HX sync_prepass). Qed.

(* the same for the code with or without that pre-pass: without it the event's explicit IDs must lie below the generator *)
Theorem stored_ids_distinct_with_or_without_prepass :
  forall h ws ev w' ev' rep,
  bounded (h ++ [IEvent ws ev]) -> singles_ok (h ++ [IEvent ws ev]) ->
  explicit_above_singletons ev ->
  c04_sync_prepass = true \/ explicit_below (w_next (run st_init h ws)) ev ->
  step_event (run st_init h ws) ev = (w', Accepted ev' rep) ->
  NoDup (event_ids ev').
Proof. exact (stored_ids_distinct_hist_proved _ _). Qed.

(* F43: without the pre-pass the hypothesis `explicit_below` cannot be dropped - a synced event that creates a raw
   row and then a row with the explicit ID the generator is about to hand out stores both under that ID *)
Theorem stored_ids_distinct_without_prepass_refuted :
  c04_sync_prepass = false ->
  exists h ws ev w' ev' rep, bounded (h ++ [IEvent ws ev]) /\ singles_ok (h ++ [IEvent ws ev])
    /\ explicit_above_singletons ev
    /\ step_event (run st_init h ws) ev = (w', Accepted ev' rep) /\ ~ NoDup (event_ids ev').
Proof.
  (* one script for both values of the flag: with the pre-pass in the source the premise is absurd *)
  intros H. first
  [ exfalso; vm_compute in H; discriminate H
  | exists [], 1, (mkEv true [] [mkRow 1 0 [0; 0] 0; mkRow 200001 0 [1; 0] 0] []);
    eexists; eexists; eexists;
    split; [apply boundedb_sound; reflexivity|];
    split; [apply singles_okb_sound; reflexivity|];
    split; [apply explicit_above_singletonsb_sound; reflexivity|];
    split; [vm_compute; reflexivity|];
    intros ND; vm_compute in ND; inversion ND as [|? ? NI _]; apply NI; left; reflexivity ].
Qed.

(* no two rows in a workspace's log share a storage ID - whatever mixture of new and synced events, workspaces and
   restarts.  Two things an arriving event can bring that the generator cannot repair are assumed away by
   `hist_fresh` (Link.v): an explicit ID of a synced event that the workspace already stored (the system does not
   check explicit IDs against its log before writing it - see findings/C04/F45.md; IRecords.Apply notices it only
   under trust level 0), and a second create of a singleton whose record exists (the command processor refuses it).
   `explicit_apart`: explicit IDs are not taken from the singleton band.  Both hypotheses are needed: *)
Theorem log_ids_distinct :
  forall h, bounded h -> singles_ok h -> explicit_apart h -> hist_fresh c04_arg_updates_on_sync c04_plans_shared st_init h ->
  forall ws, NoDup (w_log (run st_init h ws)).
Proof. intros h HB HS HX HF. exact (log_ids_distinct_proved _ _ h HB HS arg_pass_syncs sync_prepass HX HF). Qed.

(* a synced create that reuses an ID the workspace issued before is accepted and logged (F45) *)
Theorem log_ids_distinct_refuted_reused_explicit_id :
  exists h ws, bounded h /\ singles_ok h /\ explicit_apart h /\ ~ NoDup (w_log (run st_init h ws)).
Proof.
  exists [IEvent 1 (mkEv false [] [mkRow 1 0 [0; 0] 0] []); IEvent 1 (mkEv true [] [mkRow 200001 0 [0; 0] 0] [])], 1.
  split; [apply boundedb_sound; reflexivity|]. split; [apply singles_okb_sound; reflexivity|].
  split; [apply explicit_apartb_sound; reflexivity|].
  intros ND. vm_compute in ND. inversion ND as [|? ? NI _]. apply NI. left. reflexivity.
Qed.

(* an explicit ID from the singleton band lands on the singleton's record: excluded by `explicit_apart` alone
   (this history is `hist_fresh` up to its last event and the singleton is created once) *)
Theorem log_ids_distinct_refuted_explicit_singleton_id :
  exists h ws, bounded h /\ singles_ok h /\ ~ NoDup (w_log (run st_init h ws)).
Proof.
  exists [IEvent 1 (mkEv false [] [mkRow 1 0 [0; 0] 65538] []); IEvent 1 (mkEv true [] [mkRow 65538 0 [0; 0] 0] [])], 1.
  split; [apply boundedb_sound; reflexivity|]. split; [apply singles_okb_sound; reflexivity|].
  intros ND. vm_compute in ND. inversion ND as [|? ? NI _]. apply NI. left. reflexivity.
Qed.

(* singleton IDs are predefined, not generated: what keeps them unique is the slot guard - an accepted event never
   creates a singleton whose registry ID is already the ID of a created record of the workspace (deactivated or not);
   so a singleton ID is given to at most one create row per workspace *)
Theorem singleton_created_once :
  forall h ws ev w' ev' rep,
  step_event (run st_init h ws) ev = (w', Accepted ev' rep) ->
  forall r, In r (e_creates ev) -> r_single r <> 0 -> ~ In (r_single r) (w_recs (run st_init h ws)).
Proof. intros h ws ev w' ev' rep. exact (singleton_slot_proved _ _ _ ev w' ev' rep singleton_slot_guarded). Qed.

(* recovery: the rebuilt generator is above every ID in the log of its workspace, never below FirstUserRecordID *)
Theorem recovery_dominates_log :
  forall h ws, few_rows h -> singles_ok h ->
  let w := run st_init (h ++ [IRestart]) ws in
  Forall (fun x => x < w_next w) (w_log w) /\ c04_first_user_id <= w_next w.
Proof. exact (recovery_dominates_few_proved _ _). Qed.

(* ================= 3. raw IDs are substituted consistently ================= *)
(* for every valid event and generator state, regeneration yields a stored event and a reported mapping that are a
   `consistent_substitution` (Proofs.v): one map m, the identity on storage IDs, sends every declared raw ID to a
   storage ID; every ID, parent and reference field of the argument rows, creates and updates is rewritten by m;
   the reported pairs are exactly (raw, m raw) for the declared non-singleton rows; no raw ID remains.
   The argument rows of the model are the rows of a DOCUMENT argument (ODoc tree, flattened): only documents are
   regenerated, and for them validation now checks every RecordID field - reference fields and plain (AddField)
   ones (F46) - so nothing is asked about the argument's fields.  An argument that is a plain Object has no IDs, is
   never regenerated and is not part of the model (e_arg = []): its RecordID fields are stored exactly as sent,
   raw values included - they are opaque parameters of the command, not references of the event. *)
Theorem substitution_consistent :
  forall g ev g' ev' rep,
  valid ev = true -> Forall single_ok (e_creates ev) -> c04_first_user_id <= g ->
  room 0 g (e_arg ev ++ e_creates ev) ->
  regenerate g ev = (g', ev', rep) ->
  consistent_substitution ev ev' rep.
Proof.
  intros g ev g' ev' rep Hv Hs Hg Hr.
  exact (substitution_proved _ _ g ev g' ev' rep Hv Hs Hg Hr (or_introl plans_shared) (or_introl argument_recordid_fields_checked)).
Qed.

(* the old shape (before F46): while validation looked at the argument's reference fields only, a plain RecordID field
   of an argument row that held a raw ID declared by a CUD row of the same event (or by nobody) was silently
   overwritten with 0 - the reference was lost, not substituted.  (With the check in the source the premise is absurd.) *)
Theorem substitution_refuted_for_plain_argument_fields :
  c04_arg_plain_checked = false ->
  exists g ev g' ev' rep, valid ev = true /\ c04_first_user_id <= g /\ room 0 g (e_arg ev ++ e_creates ev)
    /\ regenerate g ev = (g', ev', rep)
    /\ In (2, 200002) rep                                              (* the client is told 2 -> 200002 ... *)
    /\ e_arg ev' = [mkRow 200001 0 [0; 0; 0] 0]                         (* ... but the argument's field that held 2 now holds 0 *)
    /\ ~ consistent_substitution ev ev' rep.
Proof.
  intros H. first
  [ exfalso; vm_compute in H; discriminate H
  | exists 200001, (mkEv false [mkRow 1 0 [0; 0; 2] 0] [mkRow 2 0 [0; 0; 0] 0] []);
    eexists; eexists; eexists;
    split; [reflexivity|]; split; [vm_compute; discriminate|]; split; [apply roomb_sound; reflexivity|];
    split; [vm_compute; reflexivity|]; split; [right; left; reflexivity|]; split; [reflexivity|];
    intros (m & FIX & _ & SA & _ & _ & REP & _);
    assert (M2 : 200002 = m 2) by (apply (REP 2 200002); right; left; reflexivity);
    cbn in SA; inversion SA as [[E1 E2]]; congruence ].
Qed.

(* the mapping a client is told equals the stored substitution on every command path: the reply of the APIv2 paths
   carries each new ID unchanged, so a command sent through them is judged exactly like one sent through APIv1 *)
Theorem apiv2_reply_reports_the_stored_ids :
  (forall x, apiv2_number x = x)
  /\ forall st ws ev o, agrees_event apiv2_number st ws ev o = agrees_event (fun x => x) st ws ev o.
Proof.
  assert (E : forall x, apiv2_number x = x) by (intros x; unfold apiv2_number; rewrite apiv2_reply_exact; reflexivity).
  split; [exact E|]. intros st ws ev o. exact (agrees_event_ext _ _ st ws ev o E).
Qed.

(* the old shape (before F47): re-encoded through float64 the reply named other IDs than the stored ones - above 2^53
   the neighbour that is, or will be, another record's ID; at the generator's value 2^63 one number for every new ID *)
Lemma apiv2_reply_rounded_through_float64 :
  f64_round 9007199254741003 = 9007199254741004 /\ f64_round 9007199254741004 = 9007199254741004
  /\ f64_round 9223372036854775809 = 9223372036854775808 /\ f64_round 9223372036854775810 = 9223372036854775808
  /\ f64_round 200001 = 200001.
Proof. vm_compute. repeat split. Qed.

(* ================= 4. the link to the trace checker ================= *)
(* `model_trace st h` is the trace the model itself produces for h (inputs + its outputs as observations).
   For every bounded history whose explicit IDs lie above the singleton band that trace passes the property oracle `satisfies` that bin/check evaluates on the
   traces observed from the Go code.  So on every observed trace on which the code agrees with the model
   (`agrees`), `satisfies` holds for the reasons the theorems above give. *)
Theorem model_traces_satisfy_the_oracle :
  forall h, bounded h -> singles_ok h -> explicit_apart h ->
  satisfies (model_trace st_init h) = true.
Proof.
  intros h HB HS HX.
  exact (model_satisfies_proved _ _ h HB HS (or_introl arg_pass_syncs) (or_introl plans_shared) HX (or_introl sync_prepass)
           singleton_slot_guarded (or_introl argument_recordid_fields_checked)).
Qed.

(* ================= 5. why the repairs were needed (model variants selected by explicit flags) ================= *)
(* F12: with two independent plans a CUD reference to a raw ID of the argument stays raw; the statement of
   section 3 then needs `cud_refs_arg_free` *)
Theorem substitution_refuted_with_separate_plans :
  exists au g ev g' ev' rep, valid ev = true /\ c04_first_user_id <= g /\ room 0 g (e_arg ev ++ e_creates ev)
    /\ regenerate_gen au false g ev = (g', ev', rep) /\ ~ no_raw_left ev'.
Proof.
  exists true, 200001, (mkEv false [mkRow 1 0 [0; 0] 0] [mkRow 2 0 [1; 0] 0] []).
  eexists. eexists. eexists. split; [reflexivity|]. split; [vm_compute; discriminate|].
  split; [apply roomb_sound; reflexivity|]. split; [vm_compute; reflexivity|].
  intros H. specialize (H (mkRow 200002 0 [1; 0] 0) 1). cbn in H.
  assert (C : is_raw 1 = false) by (apply H; auto). vm_compute in C. discriminate.
Qed.
Theorem substitution_consistent_with_separate_plans :
  forall au g ev g' ev' rep,
  valid ev = true -> Forall single_ok (e_creates ev) -> c04_first_user_id <= g ->
  room 0 g (e_arg ev ++ e_creates ev) -> cud_refs_arg_free ev ->
  c04_arg_plain_checked = true \/ arg_fields_closed ev ->
  regenerate_gen au false g ev = (g', ev', rep) ->
  consistent_substitution ev ev' rep.
Proof. intros au g ev g' ev' rep Hv Hs Hg Hr Hf Hc. exact (substitution_proved au false g ev g' ev' rep Hv Hs Hg Hr (or_intror Hf) Hc). Qed.

(* F41: when the argument pass does not call UpdateOnSync, an explicit argument ID is handed out again
   (the pre-pass of F43 also covers argument rows, so this witness exists only without it) *)
Theorem unique_refuted_without_arg_sync :
  c04_sync_prepass = false ->
  exists ps h ws ev w' ev' rep, bounded (h ++ [IEvent ws ev]) /\ singles_ok (h ++ [IEvent ws ev])
    /\ step_event_gen false ps (run_gen false ps st_init h ws) ev = (w', Accepted ev' rep)
    /\ exists x, In x (map snd rep) /\ In x (w_log (run_gen false ps st_init h ws)).
Proof.
  intros H. first
  [ exfalso; vm_compute in H; discriminate H
  | exists true, [IEvent 1 (mkEv true [mkRow 200001 0 [0; 0] 0] [] [])], 1, (mkEv false [] [mkRow 1 0 [0; 0] 0] []);
    eexists; eexists; eexists;
    split; [apply boundedb_sound; reflexivity|]; split; [apply singles_okb_sound; reflexivity|];
    split; [vm_compute; reflexivity|]; exists 200001; split; left; reflexivity ].
Qed.
Theorem unique_per_ws_without_arg_sync :
  forall ps h ws ev w' ev' rep,
  bounded (h ++ [IEvent ws ev]) -> singles_ok (h ++ [IEvent ws ev]) -> arg_ids_raw h ->
  step_event_gen false ps (run_gen false ps st_init h ws) ev = (w', Accepted ev' rep) ->
  NoDup (map snd rep) /\ (forall x, In x (map snd rep) -> ~ In x (w_log (run_gen false ps st_init h ws))).
Proof.
  intros ps h ws ev w' ev' rep HB HS HA E.
  destruct (unique_proved false ps h ws ev w' ev' rep HB HS (or_intror HA) E) as (A & B & _). exact (conj A B).
Qed.

(* F42: without the guard UpdateOnSync(MaxUint64) resets the generator to 0; with it the generator stays *)
Lemma update_on_sync_wrapped_without_guard :
  update_on_sync_gen 18446744073709551615 c04_first_user_id 18446744073709551615 = 0
  /\ update_on_sync c04_first_user_id 18446744073709551615 = c04_first_user_id.
Proof. split; vm_compute; reflexivity. Qed.

(* ================= non-vacuity ================= *)
(* a history over two workspaces with a synced event (explicit IDs above and below next), an argument tree,
   a singleton, a restart, and a final event: all hypotheses hold and the outputs are what the theorems say *)
Definition ex_history : list iop :=
  [ IEvent 1 (mkEv false [] [mkRow 1 0 [2; 0] 0; mkRow 2 1 [1; 2] 0; mkRow 3 0 [1; 0] 65538] []);
    IEvent 1 (mkEv true [] [mkRow 200010 0 [5; 0] 0; mkRow 5 200010 [200001; 70000] 0; mkRow 70000 0 [0; 0] 0] []);
    IEvent 2 (mkEv false [mkRow 1 0 [3; 0] 0; mkRow 2 1 [1; 3] 0; mkRow 3 2 [2; 0] 0] [] []);
    IRestart;
    IEvent 1 (mkEv false [mkRow 1 0 [0; 0] 0] [] []) ].
Definition ex_event : event :=
  mkEv false [] [mkRow 1 0 [0; 3] 0; mkRow 2 1 [1; 200002] 0; mkRow 3 2 [3; 1] 0] [mkRow 200001 0 [2; 0] 0].

Example history_nonvacuous :
  boundedb (ex_history ++ [IEvent 1 ex_event]) = true /\ few_rowsb (ex_history ++ [IEvent 1 ex_event]) = true
  /\ singles_okb (ex_history ++ [IEvent 1 ex_event]) = true
  /\ w_next (run st_init ex_history 1) = 200013
  /\ w_log (run st_init ex_history 1) = [200001; 200002; 65538; 200010; 200011; 70000; 200012]
  /\ w_log (run st_init ex_history 2) = [200001; 200002; 200003]
  /\ snd (step_event (run st_init ex_history 1) ex_event)
     = Accepted (mkEv false [] [mkRow 200013 0 [0; 200015] 0; mkRow 200014 200013 [200013; 200002] 0; mkRow 200015 200014 [200015; 200013] 0]
                       [mkRow 200001 0 [200014; 0] 0])
                [(1, 200013); (2, 200014); (3, 200015)].
Proof. vm_compute. repeat split. Qed.

Example link_nonvacuous :
  let h := ex_history ++ [IEvent 1 ex_event] in
  explicit_apartb h = true /\ args_closedb h = true /\ hist_freshb c04_arg_updates_on_sync c04_plans_shared st_init h = true
  /\ satisfies (model_trace st_init h) = true /\ agrees (model_trace st_init h) = true
  /\ length (model_trace st_init h) = 6%nat.
Proof. vm_compute. repeat split. Qed.

Example stored_ids_distinct_nonvacuous :
  (* a synced event mixing raw and explicit IDs (below the generator, in the reserved range) after a history *)
  let ev := mkEv true [mkRow 1 0 [0; 0] 0; mkRow 200002 1 [1; 0] 0] [mkRow 2 0 [200002; 70001] 0; mkRow 70001 0 [2; 0] 0; mkRow 3 0 [0; 0] 65538] [] in
  boundedb (ex_history ++ [IEvent 2 ev]) = true /\ explicit_above_singletonsb ev = true
  /\ explicit_belowb (w_next (run st_init ex_history 2)) ev = true
  /\ w_next (run st_init ex_history 2) = 200004
  /\ match snd (step_event (run st_init ex_history 2) ev) with Accepted ev' _ => event_ids ev' | Rejected => [] end
     = [200005; 70001; 65538; 200004; 200002].
Proof. vm_compute. repeat split. Qed.

Example max_record_id_nonvacuous :
  (* the bound of validation is inclusive: MaxInt64 is accepted, 2^63 is refused; after MaxInt64 the generator hands
     out 2^63 - a user ID the workspace never stored, covered by `few_rows` *)
  let h := [IEvent 1 (mkEv true [] [mkRow 9223372036854775807 0 [0; 0] 0] [])] in
  let ev := mkEv false [] [mkRow 1 0 [0; 0] 0] [] in
  few_rowsb (h ++ [IEvent 1 ev]) = true
  /\ valid (mkEv true [] [mkRow 9223372036854775808 0 [0; 0] 0] []) = false
  /\ w_next (run st_init h 1) = 9223372036854775808
  /\ snd (step_event (run st_init h 1) ev) = Accepted (mkEv false [] [mkRow 9223372036854775808 0 [0; 0] 0] []) [(1, 9223372036854775808)].
Proof. vm_compute. repeat split. Qed.

Example singleton_once_nonvacuous :
  (* create the singleton, touch it by an update (a deactivation is an update), create it again: refused;
     in another workspace the same ID is free *)
  let h := [IEvent 1 (mkEv false [] [mkRow 1 0 [0; 0] 65538] []); IEvent 1 (mkEv false [] [] [mkRow 65538 0 [0; 0] 0])] in
  let again := mkEv false [] [mkRow 1 0 [0; 0] 65538; mkRow 2 0 [1; 0] 0] [] in
  w_recs (run st_init h 1) = [65538] /\ valid again = true
  /\ snd (step_event (run st_init h 1) again) = Rejected
  /\ snd (step_event (run st_init h 2) again)
     = Accepted (mkEv false [] [mkRow 65538 0 [0; 0] 65538; mkRow 200001 0 [65538; 0] 0] []) [(2, 200001)].
Proof. vm_compute. repeat split. Qed.

Example recovery_nonvacuous :
  (* an explicit argument ID of a synced event: the live generator and the recovered one agree (F41 repaired) *)
  let h := [IEvent 1 (mkEv true [mkRow 200001 0 [0; 0] 0] [] [])] in
  boundedb h = true /\ w_next (run st_init h 1) = 200002 /\ w_next (run st_init (h ++ [IRestart]) 1) = 200002.
Proof. vm_compute. repeat split. Qed.

Example substitution_nonvacuous :
  (* creates and updates refer to raw IDs of the argument document (F12 repaired), to each other, to a singleton
     and to an existing record *)
  let ev := mkEv false [mkRow 1 0 [2; 0] 0; mkRow 2 1 [2; 1] 0]
                       [mkRow 3 0 [1; 5] 0; mkRow 4 3 [3; 300000] 0; mkRow 5 0 [2; 3] 65538] [mkRow 300000 0 [4; 1] 0] in
  valid ev = true /\ roomb 0 200001 (e_arg ev ++ e_creates ev) = true
  /\ forallb single_okb (e_creates ev) = true
  /\ regenerate 200001 ev
     = (200005,
        mkEv false [mkRow 200001 0 [200002; 0] 0; mkRow 200002 200001 [200002; 200001] 0]
                   [mkRow 200003 0 [200001; 65538] 0; mkRow 200004 200003 [200003; 300000] 0; mkRow 65538 0 [200002; 200003] 65538]
                   [mkRow 300000 0 [200004; 200001] 0],
        [(1, 200001); (2, 200002); (3, 200003); (4, 200004)]).
Proof. vm_compute. repeat split. Qed.

Print Assumptions generated_ids_are_user_ids.
Print Assumptions generated_ids_are_user_ids_unbounded_refuted.
Print Assumptions ids_strictly_increasing.
Print Assumptions unique_per_ws.
Print Assumptions stored_ids_distinct.
Print Assumptions stored_ids_distinct_with_or_without_prepass.
Print Assumptions stored_ids_distinct_without_prepass_refuted.
Print Assumptions log_ids_distinct.
Print Assumptions log_ids_distinct_refuted_reused_explicit_id.
Print Assumptions log_ids_distinct_refuted_explicit_singleton_id.
Print Assumptions singleton_created_once.
Print Assumptions recovery_dominates_log.
Print Assumptions substitution_consistent.
Print Assumptions substitution_refuted_for_plain_argument_fields.
Print Assumptions apiv2_reply_reports_the_stored_ids.
Print Assumptions apiv2_reply_rounded_through_float64.
Print Assumptions model_traces_satisfy_the_oracle.
Print Assumptions substitution_refuted_with_separate_plans.
Print Assumptions substitution_consistent_with_separate_plans.
Print Assumptions unique_refuted_without_arg_sync.
Print Assumptions unique_per_ws_without_arg_sync.
Print Assumptions update_on_sync_wrapped_without_guard.
