(* C11 - the sequencer never issues a number twice, whatever fails or restarts.
   Statements only.  The quantifier "for all histories x schedules x fault sequences x crash
   points" is the list of actions `acts`: caller steps (Start/Next/append/Flush/Actualize), the
   lock-delimited steps of the flusher and of the actualizer with its log batcher, storage write
   and read failures (FWriteErr, XReadOff false, XScanErr), LRU eviction (exact, inside CNext)
   and Crash at any position, for every cache capacity and unflushed-value limit `c`. *)
From Coq Require Import List NArith Lia.
From V Require Import Gen.Params C11_Sequencer.Model C11_Sequencer.Lemmas C11_Sequencer.Invariant C11_Sequencer.Preserve C11_Sequencer.Link.
From V Require Import C11_Sequencer.Scan C11_Sequencer.ScanLink C11_Sequencer.Cases.
Import ListNotations.
Local Open Scope N_scope.

(* the batcher publishes the next offset and the event's numbers in one critical section
   (repaired finding F16): with two sections the theorems below are false, see the corpus schedule *)
Lemma batcher_publishes_offset_and_numbers_together : seq_batcher_two_step = false.
Proof. exact batcher_is_one_step. Qed.

(* The persisted (numbers, next-offset) pair is sufficient at every instant - in particular at
   every storage write and at every crash point: every number recorded for a key in a log event
   below the persisted offset is at most the persisted number of that key. *)
Theorem persisted_pair_consistent : forall c acts s,
  run c init acts = Some s ->
  forall k, log_max_below k (p_log s) (p_off s) <= num (p_nums s) k.
Proof. exact (fun c acts s H => i_P1 s (reachable_inv c acts init s Inv_init H)). Qed.

(* Every number returned by Next exceeds every number already recorded for its key in the
   partition log and in sequence storage, and every number returned earlier in the same
   transaction - after any history, including histories with crashes and restarts. *)
Theorem next_is_fresh : forall c acts s k n s',
  run c init acts = Some s -> step c s (CNext k n) = Some s' ->
  log_max k (p_log s) < n /\ num (p_nums s) k < n /\ (forall i, kget k (v_inproc s) = Some i -> i < n).
Proof. exact (fun c acts s k n s' H => cnext_fresh c s k n s' (reachable_inv c acts init s Inv_init H)). Qed.

(* Numbers recorded for one key grow along the log: no number is ever recorded twice. *)
Theorem log_numbers_increase : forall c acts s,
  run c init acts = Some s -> log_mono (p_log s) /\ offs_sorted (p_log s).
Proof.
  exact (fun c acts s H => let HI := reachable_inv c acts init s Inv_init H in conj (i_mono s HI) (i_sorted s HI)).
Qed.

(* The partition-log offsets handed out are consecutive with the log. *)
Theorem start_offset_consecutive : forall c acts s off s',
  run c init acts = Some s -> step c s (CStart true off) = Some s' -> p_log s <> [] ->
  off = last_off (p_log s) + 1.
Proof. exact (fun c acts s off s' H => cstart_offset c s off s' (reachable_inv c acts init s Inv_init H)). Qed.

(* Link: every observed action sequence that the model accepts (`agrees`) passes the oracle the
   check evaluates on the observed values alone (`satisfies`): on every run on which code and
   model agree, the theorems above hold of what the implementation actually did. *)
Theorem agrees_implies_satisfies : forall t, agrees t = true -> satisfies t = true.
Proof. exact agrees_implies_satisfies_proved. Qed.

(* the same link for the history cases of the check's case type (Cases.v); scan cases are evaluated
   by both `agrees_c` and `satisfies_c` on every run, no link theorem is claimed for them *)
Theorem agrees_implies_satisfies_history_case : forall t, agrees_c (CHistory t) = true -> satisfies_c (CHistory t) = true.
Proof. exact agrees_implies_satisfies_proved. Qed.

(* non-vacuity: a history with two transactions, a flush cycle, a crash, re-actualization through the
   batcher and a Next after the restart is accepted by the model (so it is reachable) *)
Example history_nonvacuous :
  let boot := [XStop; XStopped; XClear; XReadOff true; XDone] in
  let acts := boot ++ [CStart true 0; EAppend 0 []; CFlush; FWake; FSkip;
                       CStart true 1; CNext 0 1; EAppend 1 [(0, 1)]; CFlush; FWake; FSnapshot [(0, 1)] 1; FWriteNums; FWriteOff; FRemove;
                       CStart true 2; CNext 0 2; CNext 2 1; EAppend 2 [(2, 1); (0, 2)]; CFlush; Crash]
                   ++ [XStop; XStopped; XClear; XReadOff true; XBatchOff 2; XBatchOff 3; XDone; CStart true 3; CNext 0 3; CNext 2 2] in
  exists s, run (mkCfg 2 2) init acts = Some s /\ p_off s = 1 /\ kget 0 (v_inproc s) = Some 3.
Proof. eexists. split; [vm_compute; reflexivity|]. split; reflexivity. Qed.

(* ======================================================================================
   The real log scan (pkg/appparts/internal/seqstorage ActualizeSequencesFromPLog) and the
   batcher's per-event maximum.  In the theorems above a log event IS (offset, highest number per
   key) - what the scan is supposed to deliver.  Scan.v computes it from the content of a stored
   event exactly as the code does: `event_batch flt e` = ids of the argument ODoc tree, ids of the
   NEW CUD rows (record-id sequence of the event's workspace), the WLog offset (WLog-offset
   sequence); `flt` = the scan leaves ids of the reserved range 65536..200000 (singletons) out
   (translator flag seq_scan_skips_reserved_ids, `true` since the repair of finding C11-F2); `batch_max` = the
   batcher's maxValues map.
   ====================================================================================== *)

(* the scan of the current source leaves the reserved range out (repaired finding C11-F2); the
   theorems below are stated for the scan with the flag the translator read from the source, so an
   edit that removes the guard re-opens them *)
Lemma scan_leaves_reserved_ids_out : seq_scan_skips_reserved_ids = true.
Proof. reflexivity. Qed.

(* the two sequences are different sequences, the reserved range lies below the first issued id *)
Lemma sequences_are_distinct : seq_record_id_seq <> seq_wlog_offset_seq.
Proof. exact seq_ids_differ. Qed.
Lemma reserved_range_below_first_issued_id : seq_max_reserved_id < seq_first_user_id.
Proof. reflexivity. Qed.

(* (a) For an event whose record ids are ids the sequence issued (>= FirstUserRecordID) plus any
   number of singleton / reserved-range ids - in the argument tree or among the new CUD rows, in any
   order, next to any number of updates - the filtered scan and the batcher's maximum give per key
   exactly the largest number the event records for the key: the largest issued record id (nothing
   when none was issued), the WLog offset, nothing for any other key. *)
Theorem scan_batch_is_event_numbers : forall e, ids_ok e ->
  forall k, sk_get k (batch_max (event_batch seq_scan_skips_reserved_ids e)) = event_numbers e k.
Proof. exact scan_batch_spec. Qed.

(* The same statement for the scan without the guard (the code before fbfafe462)
     forall e, ids_ok e -> forall k, sk_get k (batch_max (event_batch false e)) = event_numbers e k
   is false (finding C11-F2): the event that creates a singleton records no number of the record-id
   sequence, the unfiltered scan delivers 65536 for it. *)
Theorem unfiltered_scan_not_event_numbers_refuted : exists e k,
  ids_ok e /\ sk_get k (batch_max (event_batch false e)) <> event_numbers e k.
Proof. exact (ex_intro _ f2_single (ex_intro _ f2_key unfiltered_batch_wrong)). Qed.

(* (b) The bridge to the interleaving model.  For a log written by the protocol (per workspace the
   issued record ids and the WLog offsets grow from event to event, PLog offsets grow, every other
   id is a reserved one) the events the filtered scan delivers satisfy `log_mono` and `offs_sorted`:
   the two hypotheses `Inv_fresh` makes about the log. *)
Theorem real_scan_log_meets_model_hypothesis : forall lg,
  protocol_log lg -> log_mono (model_log seq_scan_skips_reserved_ids lg) /\ offs_sorted (model_log seq_scan_skips_reserved_ids lg).
Proof. exact real_scan_log_ok. Qed.

(* ... so a sequencer started on a fitting persisted pair over such a log, reading it through the
   real scan, starts in a state that satisfies the invariant, and the theorems above hold of every
   history from there: every number it returns is fresh, the persisted pair stays consistent. *)
Theorem restart_on_real_scan_satisfies_invariant : forall lg pn po,
  protocol_log lg -> pair_fits pn po (model_log seq_scan_skips_reserved_ids lg) -> Inv (fresh pn po (model_log seq_scan_skips_reserved_ids lg)).
Proof. exact real_scan_restart_inv. Qed.

Theorem restart_on_real_scan_next_is_fresh : forall c lg pn po acts s k n s',
  protocol_log lg -> pair_fits pn po (model_log seq_scan_skips_reserved_ids lg) ->
  run c (fresh pn po (model_log seq_scan_skips_reserved_ids lg)) acts = Some s -> step c s (CNext k n) = Some s' ->
  log_max k (p_log s) < n /\ num (p_nums s) k < n /\ (forall i, kget k (v_inproc s) = Some i -> i < n).
Proof. exact real_scan_next_fresh. Qed.

Theorem restart_on_real_scan_pair_consistent : forall c lg pn po acts s,
  protocol_log lg -> pair_fits pn po (model_log seq_scan_skips_reserved_ids lg) ->
  run c (fresh pn po (model_log seq_scan_skips_reserved_ids lg)) acts = Some s ->
  forall k, log_max_below k (p_log s) (p_off s) <= num (p_nums s) k.
Proof. exact real_scan_pair_consistent. Qed.

(* Without the guard (the code before fbfafe462)
     forall lg, protocol_log lg -> log_mono (model_log false lg)
   is false, and so is freshness after a restart (finding C11-F2): unflushed tail
   [five documents 200001..200005] [a singleton 65536] in one workspace; the sequencer restarted on
   the unfiltered batches returns 65537 with 200005 in its log. *)
Theorem unfiltered_scan_breaks_model_hypothesis_refuted : exists lg,
  protocol_log lg /\ ~ log_mono (model_log false lg).
Proof. exact (ex_intro _ f2_log (conj f2_log_protocol unfiltered_log_not_mono)). Qed.

Theorem unfiltered_scan_reissues_refuted : exists c lg pn po acts s k n s',
  protocol_log lg /\ pair_fits pn po (model_log false lg) /\
  run c (fresh pn po (model_log false lg)) acts = Some s /\ step c s (CNext k n) = Some s' /\
  n <= log_max k (p_log s).
Proof.
  exact (match unfiltered_reissues with
         | ex_intro _ s (ex_intro _ s' (conj H1 (conj H2 H3))) =>
             ex_intro _ (mkCfg 100 500) (ex_intro _ f2_log (ex_intro _ [] (ex_intro _ 1 (ex_intro _ f2_acts
               (ex_intro _ s (ex_intro _ (enc f2_key) (ex_intro _ 65537 (ex_intro _ s'
                 (conj f2_log_protocol (conj unfiltered_pair_fits (conj H1 (conj H2 H3))))))))))))
         end).
Qed.

(* The order hypothesis of `protocol_log` cannot be dropped:
     forall lg, Forall (fun oe => ids_ok (snd oe)) lg -> offs_sorted (model_log true lg) -> log_mono (model_log true lg)
   is false.  Ids of the sequence's range that the sequence did not issue in this order - explicit
   ids of two synced events, 500000 then 300000 - make the batch maxima fall along the log; the
   sequencer (which is not told about explicit ids while it runs either) is outside its protocol there. *)
Theorem scan_of_unordered_explicit_ids_refuted : exists lg,
  Forall (fun oe => ids_ok (snd oe)) lg /\ offs_sorted (model_log true lg) /\ ~ log_mono (model_log true lg).
Proof. exact (ex_intro _ ooo_log (conj (proj1 ooo_log_shape) (conj (proj2 ooo_log_shape) ooo_log_not_mono))). Qed.

(* The second condition of `pair_fits` (the storage holds no number the log does not have) cannot be
   dropped either:
     forall c L pn po acts s k n s', log_mono L -> offs_sorted L -> (forall k, log_max_below k L po <= num pn k) ->
       (L <> [] -> po <= last_off L + 1) -> run c (fresh pn po L) acts = Some s -> step c s (CNext k n) = Some s' -> num (p_nums s) k < n
   is false: storage holds 102 with offset 5, log event 5 records 101 (numbers of a sixth transaction
   were flushed, its event never reached the log: outside the client protocol, under which Flush
   follows the append); `Next` takes the log-derived toBeFlushed value 101 before it looks at the
   storage and returns 102 again.  Inside the protocol the state is unreachable (clause i_F). *)
Theorem stored_number_ahead_of_log_refuted : exists c L pn po acts s k n s',
  log_mono L /\ offs_sorted L /\ (forall k, log_max_below k L po <= num pn k) /\ (L <> [] -> po <= last_off L + 1) /\
  run c (fresh pn po L) acts = Some s /\ step c s (CNext k n) = Some s' /\ n <= num (p_nums s) k.
Proof.
  exact (match stored_number_ahead_of_log_returned_again, ahead_log_shape with
         | ex_intro _ s (ex_intro _ s' (conj H1 (conj H2 H3))), conj Hm (conj Hs (conj Hp Hl)) =>
             ex_intro _ (mkCfg 100 500) (ex_intro _ ahead_log (ex_intro _ [(0, 102)] (ex_intro _ 5 (ex_intro _ ahead_acts
               (ex_intro _ s (ex_intro _ 0 (ex_intro _ 102 (ex_intro _ s'
                 (conj Hm (conj Hs (conj Hp (conj Hl (conj H1 (conj H2 H3))))))))))))))
         end).
Qed.

(* non-vacuity of (a): an ODoc argument with two nested records, a singleton, an explicit reserved id,
   two issued ids and an update of an old record in one event *)
Example scan_batch_nonvacuous :
  let e := mkSEv 7 12 true [200010; 200011; 200012] [(true, 65536); (true, 200013); (false, 123456789); (true, 150000); (true, 200014)] in
  ids_ok e /\ sk_get (7, seq_record_id_seq) (batch_max (event_batch true e)) = Some 200014
  /\ sk_get (7, seq_wlog_offset_seq) (batch_max (event_batch true e)) = Some 12
  /\ event_numbers e (7, seq_record_id_seq) = Some 200014
  /\ sk_get (7, seq_record_id_seq) (batch_max (event_batch true (mkSEv 7 13 false [] [(true, 65537)]))) = None.
Proof. split; [apply ids_okb_ok; vm_compute; reflexivity|]. repeat split; vm_compute; reflexivity. Qed.

(* non-vacuity of (b): three workspaces' worth of events incl. singletons between issued ids; the
   restart through the filtered scan refuses the re-issued number and accepts the fresh one *)
Example real_scan_nonvacuous :
  let lg := [(1, mkSEv 1 1 true [200001; 200002] [(true, 200003)]); (2, mkSEv 2 1 false [] [(true, 65536); (true, 200001)]);
             (3, mkSEv 1 2 false [] [(true, 65537); (false, 200001)]); (4, mkSEv 1 3 false [] [(true, 200004); (true, 66000)])] in
  protocol_log lg /\ pair_fits [(enc (1, seq_record_id_seq), 200003); (enc (1, seq_wlog_offset_seq), 1)] 2 (model_log true lg)
  /\ exists s s', run (mkCfg 100 500) (fresh [] 1 (model_log true f2_log)) f2_acts = Some s
                  /\ step (mkCfg 100 500) s (CNext (enc f2_key) 65537) = None
                  /\ step (mkCfg 100 500) s (CNext (enc f2_key) 200006) = Some s'.
Proof.
  split; [apply protocol_logb_ok; vm_compute; reflexivity|]. split; [|exact filtered_restart_example].
  split; [|split].
  - intros k. unfold log_max_below, num. cbn [model_log map fold_left model_event fst snd].
    destruct (N.eq_dec k (enc (1, seq_record_id_seq))) as [->|N1]; [vm_compute; discriminate|].
    destruct (N.eq_dec k (enc (1, seq_wlog_offset_seq))) as [->|N2]; [vm_compute; discriminate|].
    apply N.eqb_neq in N1, N2. vm_compute in N1, N2. vm_compute. rewrite N1, N2.
    destruct (k =? 131077); destruct (k =? 131076); vm_compute; discriminate.
  - intros k. unfold num. cbn [kget].
    destruct (N.eqb_spec k (enc (1, seq_record_id_seq))) as [->|N1]; [vm_compute; discriminate|].
    destruct (N.eqb_spec k (enc (1, seq_wlog_offset_seq))) as [->|N2]; [vm_compute; discriminate|]. lia.
  - intros _. vm_compute. discriminate.
Qed.

Print Assumptions persisted_pair_consistent.
Print Assumptions next_is_fresh.
Print Assumptions log_numbers_increase.
Print Assumptions start_offset_consecutive.
Print Assumptions agrees_implies_satisfies.
Print Assumptions scan_batch_is_event_numbers.
Print Assumptions unfiltered_scan_not_event_numbers_refuted.
Print Assumptions real_scan_log_meets_model_hypothesis.
Print Assumptions restart_on_real_scan_satisfies_invariant.
Print Assumptions restart_on_real_scan_next_is_fresh.
Print Assumptions restart_on_real_scan_pair_consistent.
Print Assumptions unfiltered_scan_breaks_model_hypothesis_refuted.
Print Assumptions unfiltered_scan_reissues_refuted.
Print Assumptions scan_of_unordered_explicit_ids_refuted.
Print Assumptions agrees_implies_satisfies_history_case.
Print Assumptions stored_number_ahead_of_log_refuted.
