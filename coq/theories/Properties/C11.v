(* C11 - the sequencer never issues a number twice, whatever fails or restarts.
   Statements only.  The quantifier "for all histories x schedules x fault sequences x crash
   points" is the list of actions `acts`: caller steps (Start/Next/append/Flush/Actualize), the
   lock-delimited steps of the flusher and of the actualizer with its log batcher, storage write
   and read failures (FWriteErr, XReadOff false, XScanErr), LRU eviction (exact, inside CNext)
   and Crash at any position, for every cache capacity and unflushed-value limit `c`. *)
From Coq Require Import List NArith Lia.
From V Require Import Gen.Params C11_Sequencer.Model C11_Sequencer.Lemmas C11_Sequencer.Invariant C11_Sequencer.Preserve C11_Sequencer.Link.
Import ListNotations.
Local Open Scope N_scope.

(* the batcher publishes the next offset and the event's numbers in one critical section
   (repaired finding F16): with two sections the theorems below are false, see the corpus schedule *)
Lemma batcher_publishes_offset_and_numbers_together : seq_batcher_two_step = false.
Proof. exact batcher_is_one_step. Qed.

(* The persisted (numbers, next-offset) pair is sufficient at every instant - in particular at
   every storage write and at every crash point: every number recorded for a key in a log event
   below the persisted offset is at most the persisted number of that key. *)
Theorem persisted_pair_consistent : forall c acts s,
  run c init acts = Some s ->
  forall k, log_max_below k (p_log s) (p_off s) <= num (p_nums s) k.
Proof. exact (fun c acts s H => i_P1 s (reachable_inv c acts init s Inv_init H)). Qed.

(* Every number returned by Next exceeds every number already recorded for its key in the
   partition log and in sequence storage, and every number returned earlier in the same
   transaction - after any history, including histories with crashes and restarts. *)
Theorem next_is_fresh : forall c acts s k n s',
  run c init acts = Some s -> step c s (CNext k n) = Some s' ->
  log_max k (p_log s) < n /\ num (p_nums s) k < n /\ (forall i, kget k (v_inproc s) = Some i -> i < n).
Proof. exact (fun c acts s k n s' H => cnext_fresh c s k n s' (reachable_inv c acts init s Inv_init H)). Qed.

(* Numbers recorded for one key grow along the log: no number is ever recorded twice. *)
Theorem log_numbers_increase : forall c acts s,
  run c init acts = Some s -> log_mono (p_log s) /\ offs_sorted (p_log s).
Proof.
  exact (fun c acts s H => let HI := reachable_inv c acts init s Inv_init H in conj (i_mono s HI) (i_sorted s HI)).
Qed.

(* The partition-log offsets handed out are consecutive with the log. *)
Theorem start_offset_consecutive : forall c acts s off s',
  run c init acts = Some s -> step c s (CStart true off) = Some s' -> p_log s <> [] ->
  off = last_off (p_log s) + 1.
Proof. exact (fun c acts s off s' H => cstart_offset c s off s' (reachable_inv c acts init s Inv_init H)). Qed.

(* Link: every observed action sequence that the model accepts (`agrees`) passes the oracle the
   check evaluates on the observed values alone (`satisfies`): on every run on which code and
   model agree, the theorems above hold of what the implementation actually did. *)
Theorem agrees_implies_satisfies : forall t, agrees t = true -> satisfies t = true.
Proof. exact agrees_implies_satisfies_proved. Qed.

(* non-vacuity: a history with two transactions, a flush cycle, a crash, re-actualization through the
   batcher and a Next after the restart is accepted by the model (so it is reachable) *)
Example history_nonvacuous :
  let boot := [XStop; XStopped; XClear; XReadOff true; XDone] in
  let acts := boot ++ [CStart true 0; EAppend 0 []; CFlush; FWake; FSkip;
                       CStart true 1; CNext 0 1; EAppend 1 [(0, 1)]; CFlush; FWake; FSnapshot [(0, 1)] 1; FWriteNums; FWriteOff; FRemove;
                       CStart true 2; CNext 0 2; CNext 2 1; EAppend 2 [(2, 1); (0, 2)]; CFlush; Crash]
                   ++ [XStop; XStopped; XClear; XReadOff true; XBatchOff 2; XBatchOff 3; XDone; CStart true 3; CNext 0 3; CNext 2 2] in
  exists s, run (mkCfg 2 2) init acts = Some s /\ p_off s = 1 /\ kget 0 (v_inproc s) = Some 3.
Proof. eexists. split; [vm_compute; reflexivity|]. split; reflexivity. Qed.

Print Assumptions persisted_pair_consistent.
Print Assumptions next_is_fresh.
Print Assumptions log_numbers_increase.
Print Assumptions start_offset_consecutive.
Print Assumptions agrees_implies_satisfies.
