(* C11 - the sequencer never issues a number twice. Statements only (being filled in). *)
From Coq Require Import List NArith.
From V Require Import C11_Sequencer.Model.
Import ListNotations.

Example c11_placeholder : agrees (mkTrace 1 1 []) = true.
Proof. reflexivity. Qed.
Print Assumptions c11_placeholder.
