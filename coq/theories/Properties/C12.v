(* C12 - at most one leader per key; a leader that cannot renew steps down in time.
   Statements only; every proof is `exact <lemma>` into C12_Elections/{Proofs,Mutex}.v or a
   computation on a concrete run.  The model (C12_Elections/Model.v) is the timed interleaving
   system of pkg/ielections/impl.go: actions are the pieces of code between storage-call
   boundaries / timer wake-ups of the API callers and renewal goroutines; `run c (init np) acts`
   is the state after the action list `acts` of np participants (None: some action not enabled). *)
From Coq Require Import List NArith ZArith Lia Bool.
From V Require Import Gen.Params C12_Elections.Model C12_Elections.Proofs C12_Elections.Mutex.
Import ListNotations.
Local Open Scope Z_scope.

(* side conditions on what the translator took from the Go source (constants and the control-flow
   choices of releaseLeadership / cleanup / maintainLeadership); the headline theorems below are
   discharged through them, so a regression of the source flips a flag and re-opens them *)
Lemma renewals_at_least_4 : 4 <= c_ren go_cfg.
Proof. vm_compute. discriminate. Qed.
Lemma retry_period_positive : 1 <= c_retry go_cfg.
Proof. vm_compute. discriminate. Qed.
Lemma release_cancels_before_delete : c_cfr go_cfg = true.     (* fix 2d04181e2 (F17) *)
Proof. reflexivity. Qed.
Lemma cleanup_cancels_before_delete : c_cfc go_cfg = true.     (* fix 2d04181e2 (F17) *)
Proof. reflexivity. Qed.
Lemma goroutine_cancels_on_return : c_coe go_cfg = true.       (* fix bbb13e2ab (LEAK) *)
Proof. reflexivity. Qed.

(* the variants of the model the refutation witnesses are about: the control flow before the
   repairs (CompareAndDelete before cancel(); no cancel() when the renewal goroutine returns) *)
Definition delete_first_cfg : cfg := mkCfg elect_renewals elect_retry_ns false false (c_coe go_cfg).
Definition no_defer_cfg : cfg := mkCfg elect_renewals elect_retry_ns (c_cfr go_cfg) (c_cfc go_cfg) false.

(* hypotheses on a history *)
(* durations >= 1 s, and urgency: the clock does not move while a thread is inside a storage call
   or between a call's effect and the code's reaction, and never overtakes a due timer of a live
   participant: timers are delivered at their instant (no AdvanceInCall) *)
Definition well_formed (acts : list action) := Forall wf_action acts.
(* AcquireLeadership(p, k) is only called while p has never led k (failed attempts may be repeated) *)
Definition acquires_once (c : cfg) (np : nat) (acts : list action) := fresh_run c (init np) acts.
Definition distinct_values (acts : list action) := vals_distinct (acq_calls acts).  (* a value belongs to one participant *)
Definition no_external_delete (acts : list action) := Forall no_ext acts.
Ltac hyps := unfold well_formed, acquires_once, distinct_values, no_external_delete, mdom;
  first [ progress (vm_compute; tauto)
        | cbn; repeat (constructor; cbn; try lia; try tauto; try (intuition congruence)) ].


(* ------------------------------------------------------------------------------------------ *)
(* STEP-DOWN BOUND: in every reachable state (every interleaving, every pattern of storage
   outcomes, external deletions, every clock advance allowed by urgency, acquisitions repeated at
   will) a live leadership context is at most two renewal intervals - at most half of the
   leadership duration, because renewalsPerLeadershipDur >= 4 - older than its last successful
   InsertIfNotExist/CompareAndSwap. *)
Theorem step_down_bound :
  forall np acts s i l, well_formed acts ->
  run go_cfg (init np) acts = Some s -> nth_error (lis s) i = Some l -> llive l = true ->
  now s <= llast l + 2 * interval go_cfg (ldur l) /\ 2 * (2 * interval go_cfg (ldur l)) <= ldur l * sec.
Proof.
  exact (fun np acts s i l =>
    step_down_bound_coe_proved go_cfg renewals_at_least_4 np acts s i l goroutine_cancels_on_return).
Qed.

(* The urgency part of `well_formed` is necessary for the code as it is (finding U3): the retry
   deadline is only looked at between attempts and no timeout is handed to the storage, so a
   CompareAndSwap that takes longer than D/2 keeps the context live beyond the bound, and beyond
   the expiry of the record if it takes longer than D: then a second participant acquires. *)
Definition slow_call_run : list action :=
  [AcqCall 0 1 10 40; InsEff 0 ONormal; InsRet 0; Advance 10000000000; Tick 0; AdvanceInCall 41000000000;
   AcqCall 1 1 11 40; InsEff 1 ONormal; InsRet 1].
Theorem step_down_bound_and_mutex_refuted_slow_call :
  exists s l l', run go_cfg (init 2) slow_call_run = Some s /\
    nth_error (lis s) 0 = Some l /\ nth_error (lis s) 1 = Some l' /\
    llive l = true /\ llast l + ldur l * sec < now s /\
    lkey l = lkey l' /\ lown l <> lown l' /\ llive l' = true.
Proof.
  eexists. eexists. eexists. split; [vm_compute; reflexivity|].
  split; [reflexivity|]. split; [reflexivity|]. (* instantiate l, l' before computing with them *)
  vm_compute. repeat split; try reflexivity; discriminate.
Qed.

(* The same hypothesis excludes late timer delivery (a stalled process, a clock that jumps): tick
   and retry deadline are armed relative to the instant the tick is RECEIVED, not relative to the
   last successful renewal, so one 16 s jump with D = 20 puts the give-up at 21 s: the context is
   live after the record expired at 20 s and a second participant acquires (same finding U3). *)
Definition late_timer_run : list action :=
  [AcqCall 0 1 10 20; InsEff 0 ONormal; InsRet 0; AdvanceInCall 16000000000; Tick 0; CasEff 0 OErrBefore; CasRet 0;
   Advance 1000000000; Retry 0; CasEff 0 OErrBefore; CasRet 0; Advance 1000000000; Retry 0; CasEff 0 OErrBefore; CasRet 0;
   Advance 1000000000; Retry 0; CasEff 0 OErrBefore; CasRet 0; Advance 1000000000; Retry 0; CasEff 0 OErrBefore; CasRet 0;
   Advance 500000000; AcqCall 1 1 11 20; InsEff 1 ONormal; InsRet 1].
Theorem step_down_bound_and_mutex_refuted_late_timers :
  exists s l l', run go_cfg (init 2) late_timer_run = Some s /\
    nth_error (lis s) 0 = Some l /\ nth_error (lis s) 1 = Some l' /\
    llive l = true /\ llast l + ldur l * sec < now s /\ lph l = MRetry 21000000000 21000000000 /\
    lkey l = lkey l' /\ lown l <> lown l' /\ llive l' = true.
Proof.
  eexists. eexists. eexists. split; [vm_compute; reflexivity|].
  split; [reflexivity|]. split; [reflexivity|].
  vm_compute. repeat split; try reflexivity; discriminate.
Qed.

(* Without the cancel() on return (the code before bbb13e2ab) the statement is false: when a
   participant acquires a key for which it still holds a live context (possible after an external
   deletion of the record), the first renewal goroutine ends in releaseLeadership without finding
   itself in the map and returns without cancel(): its context stays live for ever (LEAK). *)
Definition leak_run : list action :=
  [AcqCall 0 1 10 4; InsEff 0 ONormal; InsRet 0; ExtDelete 1;
   AcqCall 0 1 10 4; InsEff 0 ONormal; InsRet 0;
   RelCall 0 1; ApiCadEff 0 ONormal; ApiCadRet 0; Exit 1; WaitDone 0;
   Advance 1000000000; Tick 0; CasEff 0 ONormal; CasRet 0; Advance 10000000000].
Theorem step_down_bound_refuted_no_defer :
  exists np acts s i l, well_formed acts /\ run no_defer_cfg (init np) acts = Some s /\
    nth_error (lis s) i = Some l /\ llive l = true /\ lph l = MGone /\
    llast l + ldur l * sec < now s.
Proof.
  exists 1%nat, leak_run. eexists. exists 0%nat. eexists.
  split; [hyps|]. split; [vm_compute; reflexivity|].
  split; [reflexivity|]. vm_compute. auto.
Qed.
(* ... the same run on the code as it is leaves both contexts cancelled *)
Example leak_run_repaired :
  exists s, run go_cfg (init 1) leak_run = Some s /\ map llive (lis s) = [false; false] /\ now s = 11000000000.
Proof. eexists. split; [vm_compute; reflexivity|]. vm_compute. auto. Qed.
(* ... and even that variant keeps the bound for every history in which no participant
   re-acquires a key it has already led (failed attempts may be repeated) *)
Theorem step_down_bound_no_defer_partial :
  forall np acts s i l, well_formed acts -> acquires_once no_defer_cfg np acts ->
  run no_defer_cfg (init np) acts = Some s -> nth_error (lis s) i = Some l -> llive l = true ->
  now s <= llast l + 2 * interval no_defer_cfg (ldur l) /\ 2 * (2 * interval no_defer_cfg (ldur l)) <= ldur l * sec.
Proof.
  assert (4 <= c_ren no_defer_cfg) as R by (vm_compute; discriminate).
  exact (step_down_bound_proved no_defer_cfg R).
Qed.

(* non-vacuity: a leader that renews, hits an error, retries successfully, while a second
   participant is refused *)
Definition sample_run : list action :=
  [AcqCall 0 1 10 20; InsEff 0 ONormal; InsRet 0;
   AcqCall 1 1 11 20; InsEff 1 ONormal; InsRet 1;
   Advance 5000000000; Tick 0; CasEff 0 OErrBefore; CasRet 0;
   Advance 1000000000; Retry 0; CasEff 0 ONormal; CasRet 0; Advance 1500000000].
Example step_down_bound_nonvacuous :
  exists s l, well_formed sample_run /\ acquires_once go_cfg 2 sample_run /\
    run go_cfg (init 2) sample_run = Some s /\ nth_error (lis s) 0 = Some l /\ llive l = true /\
    llast l = 6000000000 /\ now s = 7500000000 /\ lph l = MWait 10000000000.
Proof.
  eexists. eexists. split; [hyps|].
  split; [hyps|].
  split; [vm_compute; reflexivity|]. vm_compute. auto 6.
Qed.

(* ------------------------------------------------------------------------------------------ *)
(* MUTUAL EXCLUSION: for every history without deletion of records by a third party, in which
   participants use different values and no participant re-acquires a key it has already led, at
   most one leadership per key is live in every reachable state. *)
Theorem mutex :
  forall np acts s i j l l', Forall mdom acts -> acquires_once go_cfg np acts -> distinct_values acts ->
  run go_cfg (init np) acts = Some s ->
  nth_error (lis s) i = Some l -> nth_error (lis s) j = Some l' -> lkey l = lkey l' ->
  llive l = true -> llive l' = true -> i = j.
Proof.
  exact (fun np acts s i j l l' =>
    mutex_cancel_first_proved go_cfg renewals_at_least_4 np acts s i j l l'
      release_cancels_before_delete cleanup_cancels_before_delete).
Qed.

(* With CompareAndDelete before cancel() (the code before 2d04181e2) the statement is false (F17):
   a second participant acquires while the releaser's context is still live *)
Definition f17_run : list action :=
  [AcqCall 0 1 10 20; InsEff 0 ONormal; InsRet 0;
   RelCall 0 1; ApiCadEff 0 ONormal;
   AcqCall 1 1 11 20; InsEff 1 ONormal; InsRet 1].
Theorem mutex_refuted_delete_first :
  exists np acts s l l', well_formed acts /\ acquires_once delete_first_cfg np acts /\ distinct_values acts /\
    no_external_delete acts /\ run delete_first_cfg (init np) acts = Some s /\
    nth_error (lis s) 0 = Some l /\ nth_error (lis s) 1 = Some l' /\ lkey l = lkey l' /\
    lown l <> lown l' /\ llive l = true /\ llive l' = true.
Proof.
  exists 2%nat, f17_run. eexists. eexists. eexists.
  split; [hyps|].
  split; [hyps|].
  split; [intros e e' H1 H2; cbn in H1, H2; intuition (subst; cbn in *; congruence)|].
  split; [hyps|].
  split; [vm_compute; reflexivity|]. vm_compute. intuition congruence.
Qed.
(* ... the same run on the code as it is: the releaser's context is dead before the record goes *)
Example f17_run_repaired :
  exists s, run go_cfg (init 2) f17_run = Some s /\ map llive (lis s) = [false; true].
Proof. eexists. split; vm_compute; reflexivity. Qed.
(* ... and that variant still has at most one live leadership per key among those for which no
   release/cleanup CompareAndDelete has been issued yet (lcad = false) *)
Theorem mutex_delete_first_partial :
  forall np acts s i j l l', Forall mdom acts -> acquires_once delete_first_cfg np acts -> distinct_values acts ->
  run delete_first_cfg (init np) acts = Some s ->
  nth_error (lis s) i = Some l -> nth_error (lis s) j = Some l' -> lkey l = lkey l' ->
  llive l = true -> llive l' = true -> lcad l = false -> lcad l' = false -> i = j.
Proof.
  assert (4 <= c_ren delete_first_cfg) as R by (vm_compute; discriminate).
  exact (mutex_window_proved delete_first_cfg R).
Qed.

(* scope note, not a finding: no lease scheme survives deletion of the record by a third party *)
Definition extdel_run : list action :=
  [AcqCall 0 1 10 20; InsEff 0 ONormal; InsRet 0; ExtDelete 1;
   AcqCall 1 1 11 20; InsEff 1 ONormal; InsRet 1].
Theorem mutex_external_delete_refuted :
  exists s l l', run go_cfg (init 2) extdel_run = Some s /\
    nth_error (lis s) 0 = Some l /\ nth_error (lis s) 1 = Some l' /\ lkey l = lkey l' /\
    llive l = true /\ llive l' = true /\ lcad l = false /\ lcad l' = false.
Proof. eexists. eexists. eexists. split; [vm_compute; reflexivity|]. vm_compute. auto 8. Qed.

(* `distinct_values` is what lets a deposed leader notice: with one value for two participants
   (pkg/vvm passes the configured IP, 127.0.0.1 unless the deployment sets it) the old leader's
   CompareAndSwap(v, v) keeps succeeding on the newcomer's record after a third-party deletion:
   both stay live and renewed for ever, where different values end the overlap at the old
   leader's next renewal *)
Definition shared_value_run (v' : N) : list action :=
  [AcqCall 0 1 10 20; InsEff 0 ONormal; InsRet 0; ExtDelete 1;
   AcqCall 1 1 v' 20; InsEff 1 ONormal; InsRet 1;
   Advance 5000000000; Tick 0; CasEff 0 ONormal; CasRet 0; Tick 1; CasEff 1 ONormal; CasRet 1;
   Advance 5000000000; Tick 0; CasEff 0 ONormal; CasRet 0; Tick 1; CasEff 1 ONormal; CasRet 1].
Theorem mutex_shared_value_never_heals_refuted :
  exists s l l', run go_cfg (init 2) (shared_value_run 10) = Some s /\
    nth_error (lis s) 0 = Some l /\ nth_error (lis s) 1 = Some l' /\ lown l <> lown l' /\
    llive l = true /\ llive l' = true /\ llast l = now s /\ llast l' = now s /\ now s = 10000000000.
Proof.
  eexists. eexists. eexists. split; [vm_compute; reflexivity|].
  split; [reflexivity|]. split; [reflexivity|]. (* instantiate l, l' before computing with them *)
  vm_compute. repeat split; try reflexivity; discriminate.
Qed.
Example distinct_values_heal :
  exists s, run go_cfg (init 2)
    [AcqCall 0 1 10 20; InsEff 0 ONormal; InsRet 0; ExtDelete 1; AcqCall 1 1 11 20; InsEff 1 ONormal; InsRet 1;
     Advance 5000000000; Tick 0; CasEff 0 ONormal; CasRet 0] = Some s /\ map llive (lis s) = [false; true].
Proof. eexists. split; vm_compute; reflexivity. Qed.

(* non-vacuity of mutex: the second participant of sample_run was
   refused while the first is live, and takes over after an orderly release *)
Definition handover_run : list action :=
  sample_run ++ [RelCall 0 1; ApiCadEff 0 ONormal; ApiCadRet 0; Exit 0; WaitDone 0;
                 AcqCall 1 2 11 20; InsEff 1 ONormal; InsRet 1;
                 AcqCall 1 1 11 8; InsEff 1 ONormal; InsRet 1].
Example mutex_nonvacuous :
  exists s l0 l1 l2, Forall mdom handover_run /\ acquires_once go_cfg 2 handover_run /\
    run go_cfg (init 2) handover_run = Some s /\
    nth_error (lis s) 0 = Some l0 /\ nth_error (lis s) 1 = Some l1 /\ nth_error (lis s) 2 = Some l2 /\
    llive l0 = false /\ lkey l1 = 2%N /\ llive l1 = true /\ lkey l2 = 1%N /\ llive l2 = true /\ lcad l2 = false.
Proof.
  do 4 eexists. split; [hyps|].
  split; [hyps|].
  split; [vm_compute; reflexivity|]. vm_compute. auto 12.
Qed.

(* ------------------------------------------------------------------------------------------ *)
(* RELEASE / CLEANUP REMOVE ONLY AN OWN RECORD, AND TERMINATE *)
(* the CompareAndDelete of ReleaseLeadership/cleanup of participant p, and the one a renewal
   goroutine of p issues when it releases itself, in any reachable state: every key keeps its
   record or loses a record holding the value of one of p's own leaderships *)
Theorem release_own_only_api :
  forall np acts s p o s' out, well_formed acts -> acquires_once go_cfg np acts ->
  run go_cfg (init np) acts = Some s -> step go_cfg s (ApiCadEff p o) = Some (s', out) -> own_delete s s' p.
Proof.
  intros np acts s p o s' out W O R. exact (api_cad_own go_cfg s p o s' out (reach_InvT go_cfg renewals_at_least_4 np acts s W O R)).
Qed.
Theorem release_own_only_goroutine :
  forall np acts s i l o s' out, well_formed acts -> acquires_once go_cfg np acts ->
  run go_cfg (init np) acts = Some s -> nth_error (lis s) i = Some l ->
  step go_cfg s (GCadEff i o) = Some (s', out) -> own_delete s s' (lown l).
Proof.
  intros np acts s i l o s' out W O R. exact (g_cad_own go_cfg s i l o s' out (reach_InvT go_cfg renewals_at_least_4 np acts s W O R)).
Qed.
(* all other steps of a release or cleanup leave the storage alone (any state) *)
Theorem release_other_steps_keep_store :
  forall s a s' o, quiet_release_action a = true -> step go_cfg s a = Some (s', o) -> stg s' = stg s.
Proof. exact (release_steps_keep_store go_cfg). Qed.

(* termination: every step a ReleaseLeadership/cleanup call takes strictly decreases
   4 * (keys still to clean) + (position inside the iteration), from any state, and every step
   of a cancelled renewal goroutine (the thing the call waits for) strictly decreases its distance
   to returning; nothing the call waits for can be postponed indefinitely *)
Theorem cleanup_terminates_api :
  forall s a s' o p q q', api_work a p = true -> step go_cfg s a = Some (s', o) ->
  nth_error (parts s) p = Some q -> nth_error (parts s') p = Some q' -> (api_measure q' < api_measure q)%nat.
Proof. exact (api_progress go_cfg). Qed.
Theorem cleanup_terminates_goroutine :
  forall s a s' o i l l', g_work a i = true -> step go_cfg s a = Some (s', o) ->
  nth_error (lis s) i = Some l -> llive l = false -> nth_error (lis s') i = Some l' ->
  (grank (lph l') < grank (lph l))%nat /\ llive l' = false.
Proof. exact (cancelled_goroutine_progress go_cfg). Qed.

(* non-vacuity: the cleanup of a participant holding two keys, step by step *)
Definition cleanup_run : list action :=
  [AcqCall 0 1 10 20; InsEff 0 ONormal; InsRet 0; AcqCall 0 2 10 20; InsEff 0 ONormal; InsRet 0;
   ClnCall 0; ClnPick 0 (Some 2%N); ApiCadEff 0 ONormal; ApiCadRet 0; Exit 1; WaitDone 0;
   ClnPick 0 (Some 1%N); ApiCadEff 0 ONormal; ApiCadRet 0; Exit 0; WaitDone 0; ClnPick 0 None].
Example cleanup_nonvacuous :
  exists s q, run go_cfg (init 1) cleanup_run = Some s /\ nth_error (parts s) 0 = Some q /\
    pmap q = [] /\ papi q = AIdle /\ pfin q = true /\ stg s = [] /\ map llive (lis s) = [false; false].
Proof. eexists. eexists. split; [vm_compute; reflexivity|]. vm_compute. auto 8. Qed.

Print Assumptions step_down_bound.
Print Assumptions step_down_bound_and_mutex_refuted_slow_call.
Print Assumptions step_down_bound_and_mutex_refuted_late_timers.
Print Assumptions step_down_bound_refuted_no_defer.
Print Assumptions step_down_bound_no_defer_partial.
Print Assumptions mutex.
Print Assumptions mutex_refuted_delete_first.
Print Assumptions mutex_delete_first_partial.
Print Assumptions mutex_external_delete_refuted.
Print Assumptions mutex_shared_value_never_heals_refuted.
Print Assumptions release_own_only_api.
Print Assumptions release_own_only_goroutine.
Print Assumptions release_other_steps_keep_store.
Print Assumptions cleanup_terminates_api.
Print Assumptions cleanup_terminates_goroutine.
