(* C19 - rate limits are never exceeded; multi-limit checks are all-or-nothing.
   Statements only; every proof is `exact <lemma>` into C19_Rates/Proofs.v.

   The theorems are about X, the exact model of pkg/iratesce: credit in whole nanoseconds (one
   token = I = P/N ns), times in ns since Go's zero time, and one freedom - a request that is
   exactly 1 ns of credit short may be admitted when the credit was refilled by a fractional
   number of tokens (the only place where float64 rounding can change a decision inside the
   domain) - resolved by arbitrary "coins" over which every theorem quantifies.  Requests of a
   history are TakeTokens with any key list and amount n >= 0, GetBucketState, SetBucketState,
   ResetRateBuckets and SetDefaultBucketState at arbitrary points.
   Domain: P <= MaxInt64 - 2 ns; the bucket's interval is max 1 (P/N) ns (lim_ok, fresh_cfg; P < N,
   P = 0 and negative P are clamped to 1 ns since 7348cd5bb / e448004d7, taken > N means empty since
   4e20ebf0e); non-decreasing clock
   (timeline); amounts n >= 0 (nonneg_in).  Float rounding itself is bridged by measurement
   (Model.agrees / tr_xdiff), not by a theorem: hence `_partial` in the manifest wording. *)
From Coq Require Import List NArith ZArith Lia Floats.
From V Require Import Gen.Params C19_Rates.Model C19_Rates.Proofs.
Import ListNotations.
Local Open Scope Z_scope.

(* side conditions on what the translator took from the Go source *)
Lemma allowN_reserves_nothing_in_the_future : rates_max_future_reserve = 0.
Proof. reflexivity. Qed.
Lemma inf_duration_is_max_int64 : rates_inf_duration = maxd.
Proof. reflexivity. Qed.
Lemma reset_clamps_sub_ns_interval : rates_sub_ns_interval_clamped = true.   (* 7348cd5bb *)
Proof. reflexivity. Qed.
Lemma reset_caps_taken_at_count : rates_taken_capped_at_count = true.      (* 4e20ebf0e *)
Proof. reflexivity. Qed.
Lemma reset_clamps_negative_interval : rates_negative_interval_clamped = true. (* e448004d7 *)
Proof. reflexivity. Qed.
Lemma reset_fills_the_new_bucket : rates_new_bucket_full = true.             (* ca6594b47 *)
Proof. reflexivity. Qed.
Lemma wait_saturates_at_inf_duration : rates_wait_saturates = true.          (* ca6594b47 *)
Proof. reflexivity. Qed.
Lemma taken_tokens_are_rounded_up : rates_taken_rounded_up = true.           (* d872ef03d *)
Proof. reflexivity. Qed.
Lemma modelled_rules_present :
  (rates_inf_is_max_float64 && rates_admit_rule_is_burst_and_no_wait && rates_tokens_capped_at_burst
   && rates_interval_is_period_div_count && rates_give_back_on_refusal)%bool = true.
Proof. reflexivity. Qed.

(* 1. In any window [t0, t1] of any history (any coins, any mix of requests, other buckets,
   multi-limit requests with duplicates, refused requests and their give-backs) that does not
   override bucket k, the operations admitted for k number at most N + T/(P/N) + 1. *)
Theorem window_bound : forall s k l h t0 t1,
  has_bucket s k l -> xk l = XNorm -> lim_ok l -> xlast l <= t0 ->
  timeline t0 h t1 ->
  Forall (fun e => nonneg_in (snd e)) h -> Forall (fun e => overrides k (snd e) = false) h ->
  admitted k s h <= xburst l + (t1 - t0) / xI l + 1.
Proof. exact window_bound_proved. Qed.

(* 2. A bucket set (SetBucketState / reset) to any configuration of N >= 1 operations per period
   P <= MaxInt64 - 2 ns (zero and negative included) with any number taken holds fresh_tokens = max 0 (N - taken) tokens: it admits
   exactly that many single operations at that instant and refuses the next, whatever the coins;
   likewise a bucket created from its limit's default state by its first request.  This includes
   P < N (interval clamped to 1 ns) and taken > N (empty bucket). *)
Theorem fresh_admits_exactly_N : forall s t k st cs,
  fresh_cfg st -> maxd <= t -> fst (xset s t k st) = true ->
  length cs = (Z.to_nat (fresh_tokens st) + 1)%nat ->
  take_seq (snd (xset s t k st)) t k cs = repeat true (Z.to_nat (fresh_tokens st)) ++ [false].
Proof. exact fresh_admits_exactly_N_proved. Qed.

Theorem first_use_admits_exactly_N : forall s t k st cs,
  fresh_cfg st -> maxd <= t -> aget key_eqb k (s_b s) = None -> aget N.eqb (fst k) (s_d s) = Some st ->
  length cs = (Z.to_nat (fresh_tokens st) + 1)%nat ->
  take_seq s t k cs = repeat true (Z.to_nat (fresh_tokens st)) ++ [false].
Proof. exact first_use_admits_exactly_N_proved. Qed.

(* 2b. A declared rate above one operation per nanosecond, or no rate at all (P < N: also P = 0
   and a negative P, which is what a period too long for time.Duration used to wrap to) is served by a genuine
   bucket of burst N refilled at 1 token per ns (xI = 1).  Hence, by window_bound / idle_cap with
   I = 1: at most N at one instant, at most N + T + 1 in a window of T ns - never more than the
   declared N + T*N/P, but the long-run rate is capped at 10^9 operations per second, below the
   declared one.  (Whole nanoseconds cannot express a shorter interval.) *)
Theorem sub_ns_interval_bucket : forall st t, fresh_cfg st -> bs_period st < bs_max st -> maxd <= t ->
  x_new st t = mkXL XNorm (bs_max st) 1 (fresh_tokens st) t false.
Proof. exact sub_ns_bucket_proved. Qed.

(* 3. A limit of 0 admits nothing: once a bucket is a zero-limit bucket no history admits a
   single operation for it; both ways such a bucket comes into being produce one. *)
Theorem zero_admits_nothing : forall h s k, zerok s k ->
  Forall (fun e => nonneg_in (snd e)) h -> Forall (fun e => overrides k (snd e) = false) h ->
  admitted k s h = 0.
Proof. exact zero_admits_nothing_proved. Qed.

Theorem zero_limit_buckets : forall s t k st, bs_max st = 0 -> 0 <= bs_taken st ->
  (fst (xset s t k st) = true -> zerok (snd (xset s t k st)) k) /\
  (aget key_eqb k (s_b s) = None -> aget N.eqb (fst k) (s_d s) = Some st -> zerok (snd (bucket_by_key x_new s t k)) k).
Proof. intros s t k st H1 H2. split; [exact (xset_zero s t k st H1 H2)|intros A B; exact (created_zero s t k st A B H1 H2)]. Qed.

(* 4. Capacity regained while idle never exceeds N: after any idle time the bucket holds at most
   N*I ns of credit, and what a single instant admits is at most N (N + 1 when I = 1 ns). *)
Theorem idle_cap : forall s k l h t0 t1,
  has_bucket s k l -> xk l = XNorm -> lim_ok l -> xlast l <= t0 -> t0 <= t1 ->
  pot l t1 <= xburst l * xI l /\
  (timeline t1 h t1 ->
   Forall (fun e => nonneg_in (snd e)) h -> Forall (fun e => overrides k (snd e) = false) h ->
   admitted k s h <= xburst l + 1 /\ (2 <= xI l -> admitted k s h <= xburst l)).
Proof. exact idle_cap_proved. Qed.

(* 5. All-or-nothing: an admitted request charges every one of its buckets n per occurrence; a
   refused request leaves every bucket in a state no later request can tell from the one
   before (lim_equiv: same credit and same rounding freedom at every later time - the refusing
   bucket is untouched, the ones before it were charged and refunded) and names a limit of the
   request; equivalent states take the same decisions and stay equivalent for ever. *)
Theorem multi_all_or_nothing : forall s t coins keys n ok exc s' k l,
  xtake s t coins keys n = (ok, exc, s') -> 0 <= n ->
  has_bucket s k l -> xk l = XNorm -> lim_ok l -> xlast l <= t ->
  exists l', has_bucket s' k l' /\
    if ok then xk l' = XNorm /\ xburst l' = xburst l /\ xI l' = xI l /\ xlast l' <= t /\
               pot l' t = pot l t - count_key k keys * n * xI l
    else lim_equiv t l' l.
Proof. exact all_or_nothing_proved. Qed.

Theorem refused_names_a_limit_of_the_request : forall s t coins keys n exc s',
  xtake s t coins keys n = (false, exc, s') -> exists k0, In k0 keys /\ exc = fst k0.
Proof. intros s t coins keys n exc s' E. exact (take_loop_exc keys s t n coins [] exc s' E). Qed.

Theorem equivalent_states_decide_alike : forall t a b t' coin n, lim_equiv t a b -> t <= t' ->
  fst (x_allow coin a t' n) = fst (x_allow coin b t' n) /\
  lim_equiv t' (snd (x_allow coin a t' n)) (snd (x_allow coin b t' n)).
Proof. exact lim_equiv_future. Qed.

(* 6. Buckets of different keys never influence each other: a step that does not hand bucket k
   to the limiter leaves it (or its absence) exactly as it was. *)
Theorem key_isolation : forall s t i k, touches k i = false ->
  aget key_eqb k (s_b (xstep s t i)) = aget key_eqb k (s_b s).
Proof. exact key_isolation_proved. Qed.

(* 7. The hypotheses above are met by every bucket of every state reachable from the empty
   system on a non-decreasing clock with configurations inside the domain. *)
Theorem reachable_states_are_good : forall s t t' i, good t s -> t <= t' -> 0 <= t' -> wf_in i -> good t' (xstep s t' i).
Proof. exact reachable_good_proved. Qed.
Theorem good_buckets_meet_the_hypotheses : forall t s k l, good t s -> has_bucket s k l -> xk l = XNorm -> lim_ok l /\ xlast l <= t.
Proof. exact good_bucket. Qed.

(* 8. The limiter layer (which limits apply to a request, in which bucket each is accounted):
   a request (resource, operation, workspace, address) is checked against exactly the limits
   whose filter matches the resource and whose operation set contains the operation - wherever
   they stand in the application's limit list - by one TakeTokens over their buckets; it is
   admitted iff every one of them admits one operation (for all coins; read with the strict
   coins: iff each applicable limit's bucket would admit), a refused request consumes nothing,
   and the bucket of every limit that does not apply, like every other bucket, is untouched. *)
Theorem request_admitted_iff_all_applicable_limits_admit : forall ls q s t coins, NoDup (map l_name ls) ->
  fst (fst (xexceeded s t coins ls q)) = negb (all_admit s t 1 coins (req_keys ls q)).
Proof. exact request_admitted_iff_proved. Qed.

Theorem request_admitted_iff_all_applicable_limits_admit_strict : forall ls q s t, NoDup (map l_name ls) ->
  (fst (fst (xexceeded s t [] ls q)) = false <->
   forall l, In l ls -> applies q l = true -> bucket_admits false s t (key_of q l) 1 = true).
Proof. exact request_admitted_iff_strict_proved. Qed.

Theorem non_applicable_limits_untouched : forall ls q s t coins k,
  ~ In k (req_keys ls q) ->
  aget key_eqb k (s_b (snd (xexceeded s t coins ls q))) = aget key_eqb k (s_b s).
Proof. exact non_applicable_untouched_proved. Qed.

Theorem refused_request_consumes_nothing : forall ls q s t coins exc s' k l,
  xexceeded s t coins ls q = (true, exc, s') ->
  has_bucket s k l -> xk l = XNorm -> lim_ok l -> xlast l <= t ->
  exists l', has_bucket s' k l' /\ lim_equiv t l' l.
Proof. exact refused_request_consumes_nothing_proved. Qed.

(* 9. GetBucketState reports the taken tokens rounded up, so writing the reported state back
   (SetBucketState leaves N - taken tokens, theorem 2) never leaves more than the credit the
   bucket holds: a round trip cannot mint capacity (it may lose a fraction of a token). *)
Theorem round_trip_never_mints : forall l t,
  xk l = XNorm -> lim_ok l -> xlast l <= t -> xburst l + 1 <= max_u32 ->
  (xburst l - x_taken l t) * xI l <= pot l t.
Proof. exact round_trip_never_mints_proved. Qed.

(* ---- the float replica F before ca6594b47 (F18, fixed).  With the limiter starting at tokens = 0
   and the zero time (full := false) a bucket of 1 per MaxInt64 ns was created with
   0.99999999999999989 tokens and refused the first request; with the plain float -> Duration
   conversion (sat := false) the wait for one token at that rate, 2^63 ns, came out as MinInt64, a
   "wait" that admits.  The repaired shapes admit exactly one and wait for ever. *)
Theorem fresh_admits_float_refuted_before_ca6594b47 : exists st t,
  1 <= bs_max st /\ 1 <= Z.quot (bs_period st) (bs_max st) /\ bs_taken st = 0 /\ maxd <= t /\
  f_takes_gen false (f_new_gen true true true false false st t) t 1 = [false] /\
  f_dur_from_tokens_gen false (f_every maxd) 1 = mind.
Proof. exists (mkBS 9223372036854775807 1 0), 63902822400000000000. vm_compute. repeat split; discriminate. Qed.
Example float_bucket_of_max_period_repaired :
  f_takes (f_new (mkBS 9223372036854775807 1 0) 63902822400000000000) 63902822400000000000 3 = [true; false; false] /\
  f_dur_from_tokens (f_every maxd) 1 = maxd.
Proof. vm_compute. split; reflexivity. Qed.
(* the float fact the "coin" rule leans on for I = 1 ns: a whole missing token means a wait of
   1 ns, so a fresh bucket of 3 per 3 ns admits exactly 3 (and F agrees with X inside the domain) *)
Example float_whole_token_1ns_refused :
  f_dur_from_tokens (f_every 1) 1 = 1 /\
  f_takes (f_new (mkBS 3 3 0) 63902822400000000000) 63902822400000000000 5 = [true; true; true; false; false].
Proof. vm_compute. split; reflexivity. Qed.

(* ---- the two earlier forms of bucketType.reset (x_new_gen with the flag off) refute clause 2:
   F23, before 7348cd5bb - an interval of 0 ns gave the infinite rate: the limiter admits whatever
        it is asked, at any time, from any state;
   F24, before 4e20ebf0e - taken > N was refused by the priming allowN and the bucket stayed full
        (credit N*I at the instant of the override) although fresh_tokens is 0. *)
Theorem fresh_sub_ns_interval_refuted_before_7348cd5bb : exists st t,
  fresh_cfg st /\ maxd <= t /\ xk (x_new_gen false false true true st t) = XInf /\
  forall l coin now n, xk l = XInf -> fst (x_allow coin l now n) = true.
Proof.
  exists (mkBS 5 10 0), 63902822400000000000. split; [unfold fresh_cfg, capmax; cbn; lia|].
  split; [vm_compute; discriminate|]. split; [reflexivity|]. intros l coin now n K. unfold x_allow. rewrite K. reflexivity.
Qed.
Theorem overtaken_bucket_full_refuted_before_4e20ebf0e : exists st t,
  fresh_cfg st /\ maxd <= t /\ fresh_tokens st = 0 /\
  pot (x_new_gen true true false false st t) t = xcap (x_new_gen true true false false st t) /\ 0 < xcap (x_new_gen true true false false st t).
Proof.
  exists (mkBS 3000 3 5), 63902822400000000000. split; [unfold fresh_cfg, capmax; cbn; lia|].
  split; [vm_compute; discriminate|]. vm_compute. repeat split.
Qed.

(* ---- NEGP before e448004d7 (neg := false): a negative period - RATE r 1 PER 300 YEARS as the
   parser computed it before 474ef3e83 - gave the infinite rate *)
Theorem negative_period_unlimited_refuted_before_e448004d7 : exists st t,
  1 <= bs_max st /\ bs_period st < 0 /\ bs_taken st = 0 /\ maxd <= t /\ xk (x_new_gen true false true true st t) = XInf /\
  forall l coin now n, xk l = XInf -> fst (x_allow coin l now n) = true.
Proof.
  exists (mkBS (-8985944073709551616) 1 0), 63902822400000000000. split; [cbn; lia|]. split; [cbn; lia|]. split; [reflexivity|].
  split; [vm_compute; discriminate|]. split; [reflexivity|]. intros l coin now n K. unfold x_allow. rewrite K. reflexivity.
Qed.
(* ---- RTRIP before d872ef03d (ceil := false): 0.9 of a token regained, 9.1 taken of 10, reported
   as 9: the written-back state holds a whole token the bucket did not have *)
Theorem round_trip_mints_refuted_before_d872ef03d : exists l t,
  xk l = XNorm /\ lim_ok l /\ xlast l <= t /\ pot l t < (xburst l - x_taken_gen false l t) * xI l /\
  x_taken_gen false l t = 9 /\ x_taken l t = 10.
Proof.
  exists (mkXL XNorm 10 1000 0 0 true), 900. split; [reflexivity|]. split; [unfold lim_ok, capmax; cbn; lia|].
  split; [cbn; lia|]. vm_compute. repeat split.
Qed.

(* ---- non-vacuity: concrete states meeting the hypotheses, computed *)
Definition ex_t0 : Z := 63902822400000000000.
Definition ex_sys : xsys :=
  xrun sys0 [(ex_t0, ISetDefault 1 (mkBS 3000 3 0)); (ex_t0, ISetDefault 2 (mkBS 10 2 0));
             (ex_t0, ITake [] [(1, 0); (2, 0)]%N 1); (ex_t0 + 999, ITake [] [(1, 0)]%N 1)].
Definition ex_hist : list (Z * xin) :=
  [(ex_t0 + 1000, ITake [true] [(1, 0)]%N 2); (ex_t0 + 1000, ITake [] [(2, 0); (1, 0)]%N 1);
   (ex_t0 + 1000, IGet (1, 0)%N); (ex_t0 + 2999, ITake [true; true] [(1, 0); (1, 1)]%N 1);
   (ex_t0 + 2999, ISet (2, 0)%N (mkBS 10 2 0)); (ex_t0 + 4000, ITake [] [(1, 0)]%N 1)].

Example window_bound_nonvacuous :
  exists l, has_bucket ex_sys (1, 0)%N l /\ xk l = XNorm /\ lim_ok l /\ xlast l <= ex_t0 + 1000 /\
    timeline (ex_t0 + 1000) ex_hist (ex_t0 + 4000) /\
    Forall (fun e => nonneg_in (snd e)) ex_hist /\ Forall (fun e => overrides (1, 0)%N (snd e) = false) ex_hist /\
    admitted (1, 0)%N ex_sys ex_hist = 4 /\ xburst l + (3000 / xI l) + 1 = 7.
Proof.
  eexists. split; [eexists; vm_compute; reflexivity|].
  split; [reflexivity|]. split; [unfold lim_ok; vm_compute; repeat split; discriminate|].
  split; [vm_compute; discriminate|]. split; [unfold ex_hist, ex_t0; cbn [timeline]; lia|].
  split; [unfold ex_hist; repeat constructor; cbn; lia|].
  split; [unfold ex_hist; repeat constructor|]. split; vm_compute; reflexivity.
Qed.

Example fresh_sub_ns_and_overtaken_nonvacuous :
  (* 10 per 5 ns: exactly 10 at once; 12 of 10 taken: nothing *)
  fresh_cfg (mkBS 5 10 0) /\ fresh_cfg (mkBS 5 10 12) /\
  take_seq (set_default sys0 1 (mkBS 5 10 0)) ex_t0 (1, 0)%N (repeat [true] 11) = repeat true 10 ++ [false] /\
  take_seq (set_default sys0 1 (mkBS 5 10 12)) ex_t0 (1, 0)%N [[true]] = [false] /\
  take_seq (set_default sys0 1 (mkBS 3000 3 5)) ex_t0 (1, 0)%N [[true]] = [false] /\
  (* 1 per "300 years" as it used to be compiled: exactly one *)
  fresh_cfg (mkBS (-8985944073709551616) 1 0) /\
  take_seq (set_default sys0 1 (mkBS (-8985944073709551616) 1 0)) ex_t0 (1, 0)%N [[true]; [true]] = [true; false].
Proof.
  split; [unfold fresh_cfg, capmax; cbn; lia|]. split; [unfold fresh_cfg, capmax; cbn; lia|].
  split; [vm_compute; reflexivity|]. split; [vm_compute; reflexivity|]. split; [vm_compute; reflexivity|].
  split; [unfold fresh_cfg, capmax; cbn; lia|]. vm_compute; reflexivity.
Qed.

Example fresh_nonvacuous :
  let st := mkBS 3000 3 1 in
  fresh_cfg st /\ fst (xset ex_sys ex_t0 (1, 1)%N st) = true /\
  take_seq (snd (xset ex_sys ex_t0 (1, 1)%N st)) ex_t0 (1, 1)%N [[true]; [true]; [true]] = [true; true; false].
Proof. split; [unfold fresh_cfg, capmax; cbn; lia|]. vm_compute. repeat split. Qed.

Example zero_nonvacuous :
  let s := snd (xset (set_default ex_sys 3 (mkBS 1000 0 0)) ex_t0 (3, 0)%N (mkBS 1000 0 0)) in
  zerok s (3, 0)%N /\ xtake s ex_t0 [] [(3, 0)]%N 1 = (false, 3%N, snd (xtake s ex_t0 [] [(3, 0)]%N 1)) /\
  fst (fst (xtake s ex_t0 [] [(1, 0)]%N 1)) = true.
Proof. vm_compute. repeat split. eexists _, _. repeat split. Qed.

Example all_or_nothing_nonvacuous :
  (* limit 2 (2 per 10 ns) is exhausted: the request is refused by it after limit 1 was charged;
     the state of limit 1 differs (it was advanced) but holds the same credit at any later time *)
  let s := snd (xtake ex_sys (ex_t0 + 999) [] [(2, 0)]%N 1) in
  let r := xtake s (ex_t0 + 1500) [] [(1, 0); (2, 0); (2, 0); (2, 0)]%N 1 in
  let before := option_map fst (aget key_eqb (1, 0)%N (s_b s)) in
  let after := option_map fst (aget key_eqb (1, 0)%N (s_b (snd r))) in
  fst r = (false, 2%N) /\ before <> None /\ before <> after /\
  option_map xk before = Some XNorm /\
  option_map (fun l => pot l (ex_t0 + 5000)) after = option_map (fun l => pot l (ex_t0 + 5000)) before.
Proof. vm_compute. repeat split; try discriminate. Qed.

Example isolation_nonvacuous :
  touches (2, 0)%N (ITake [] [(1, 0); (1, 1)]%N 1) = false /\
  aget key_eqb (2, 0)%N (s_b ex_sys) <> None /\
  s_b (xstep ex_sys (ex_t0 + 5000) (ITake [] [(1, 0); (1, 1)]%N 1)) <> s_b ex_sys.
Proof. vm_compute. repeat split; discriminate. Qed.

Example reachable_nonvacuous : good 0 (sys0 (L:=xlim)) /\ good (ex_t0 + 999) ex_sys.
Proof.
  assert (G0 : good 0 (sys0 (L:=xlim))) by (split; constructor).
  split; [exact G0|]. unfold ex_sys. cbn [xrun].
  assert (W1 : wf_cfg (mkBS 3000 3 0)) by (unfold wf_cfg, capmax; cbn; lia).
  assert (W2 : wf_cfg (mkBS 10 2 0)) by (unfold wf_cfg, capmax; cbn; lia).
  apply (reachable_states_are_good _ ex_t0 (ex_t0 + 999)); [|unfold ex_t0; lia|unfold ex_t0; lia|exact I].
  apply (reachable_states_are_good _ ex_t0 ex_t0); [|lia|unfold ex_t0; lia|exact I].
  apply (reachable_states_are_good _ ex_t0 ex_t0); [|lia|unfold ex_t0; lia|exact W2].
  apply (reachable_states_are_good _ 0 ex_t0); [exact G0|unfold ex_t0; lia|unfold ex_t0; lia|exact W1].
Qed.

(* two limits on one table with different operation sets, the one that does not cover INSERT
   first in the list: the INSERT limit (3 per hour) still decides, the SELECT limit is untouched *)
Definition ex_limits : list limit :=
  [mkLimit 1 [5]%N true true false [7]%N 3600000000000 100; mkLimit 2 [1; 2]%N true true false [7]%N 3600000000000 3].
Example limiter_nonvacuous :
  let q := mkReq 7 1 1 1 in
  let s0 := fold_left (fun s l => set_default s (l_name l) (limit_default l)) ex_limits (sys0 (L:=xlim)) in
  let step s := snd (xexceeded s ex_t0 [] ex_limits q) in
  NoDup (map l_name ex_limits) /\ req_keys ex_limits q = [(2, 1010007)]%N /\
  map (fun s => fst (fst (xexceeded s ex_t0 [] ex_limits q))) [s0; step s0; step (step s0); step (step (step s0))]
    = [false; false; false; true] /\
  aget key_eqb (1, 1010007)%N (s_b (step (step (step (step s0))))) = None.
Proof. split; [repeat constructor; cbn; intuition discriminate|]. vm_compute. repeat split. Qed.

Print Assumptions window_bound.
Print Assumptions fresh_admits_exactly_N.
Print Assumptions first_use_admits_exactly_N.
Print Assumptions zero_admits_nothing.
Print Assumptions zero_limit_buckets.
Print Assumptions idle_cap.
Print Assumptions multi_all_or_nothing.
Print Assumptions refused_names_a_limit_of_the_request.
Print Assumptions equivalent_states_decide_alike.
Print Assumptions key_isolation.
Print Assumptions reachable_states_are_good.
Print Assumptions good_buckets_meet_the_hypotheses.
Print Assumptions request_admitted_iff_all_applicable_limits_admit.
Print Assumptions request_admitted_iff_all_applicable_limits_admit_strict.
Print Assumptions non_applicable_limits_untouched.
Print Assumptions refused_request_consumes_nothing.
Print Assumptions sub_ns_interval_bucket.
Print Assumptions round_trip_never_mints.
Print Assumptions negative_period_unlimited_refuted_before_e448004d7.
Print Assumptions round_trip_mints_refuted_before_d872ef03d.
Print Assumptions fresh_sub_ns_interval_refuted_before_7348cd5bb.
Print Assumptions overtaken_bucket_full_refuted_before_4e20ebf0e.
Print Assumptions fresh_admits_float_refuted_before_ca6594b47.
