(* C02 - event logs return exactly what was appended, in order, for every offset range; a
   truncated copy of a stored event is rejected.
   Statements only; every proof is `exact <lemma>` into C02_Logs/ProofsLog.v, ProofsCodec.v. *)
From Coq Require Import List NArith ZArith Lia Bool.
From V Require Import Lib.Lex Lib.SMap Storage.Spec Storage.SpecLaws Gen.Params
  C02_Logs.Model C02_Logs.ProofsLog C02_Logs.ProofsCodec.
Import ListNotations.
Local Open Scope N_scope.

(* ---- side conditions on the constants the translator took from the Go source ---- *)
Lemma low_mask_is_partition_size_minus_one : c02_low_mask + 1 = 2 ^ c02_partition_bits.
Proof. reflexivity. Qed.
Lemma partition_low_part_fits_uint16 : 2 ^ c02_partition_bits <= 65536.
Proof. vm_compute. discriminate. Qed.
Lemma log_keys_big_endian : c02_key_endian = BE.
Proof. reflexivity. Qed.
Lemma read_to_end_is_last_of_its_partition : (c02_read_to_end + 1) mod 2 ^ c02_partition_bits = 0.
Proof. reflexivity. Qed.
Lemma plog_wlog_views_differ : c02_view_plog <> c02_view_wlog /\ c02_view_plog < 65536 /\ c02_view_wlog < 65536.
Proof. repeat split; try reflexivity. vm_compute. discriminate. Qed.
Lemma emptied_fields_in_last_codec : c02_codec_emptied_since <= c02_codec_last /\ c02_codec_last < 256.
Proof. split; [vm_compute; discriminate|reflexivity]. Qed.
Lemma sysfield_mask_bits_distinct :
  [c02_sfm_id; c02_sfm_parent; c02_sfm_container; c02_sfm_active] = [1; 2; 4; 8].
Proof. reflexivity. Qed.

(* the last-partition rule of readLogParts has no `finishOffset%partitionRecordCount != 0` conjunct
   (repaired in /repo by b6deb7b78; if it comes back this lemma and the two theorems using it break) *)
Lemma last_partition_rule_unguarded : c02_last_part_guard = false.
Proof. reflexivity. Qed.

(* PutPlog cuts an event that is not valid down to its error record after encoding it (c96e94a78),
   and storeEventBuildError writes the original name kept in the error record (796fe6f32); if
   either goes back these lemmas and the theorems using them break *)
Lemma putplog_returns_stored_shape_of_invalid_event : c02_putplog_clears_invalid = true.
Proof. reflexivity. Qed.
Lemma reencoding_keeps_original_name : c02_reencode_orig_name = true.
Proof. reflexivity. Qed.
(* PutPlog, after encoding, drops the emptied-field marks of the argument rows (75b678c2b) *)
Lemma putplog_drops_argument_emptied_marks : c02_putplog_drops_arg_nils = true.
Proof. reflexivity. Qed.
(* the system-field mask of a row carries "sys.IsActive was assigned" (bit 16, no payload; 35e511a40):
   written by storeRowSysFields and restored by loadRowSysFields *)
Lemma mask_carries_the_activation_mark : c02_mask_carries_actmod = true /\ c02_sfm_actmod = 16.
Proof. split; reflexivity. Qed.

(* ================= A. range reads ================= *)

(* readLogParts as it is in the code: the closed sub-ranges handed to readPart cover exactly
   [start, start+count), in strictly ascending partition order (so no offset twice), for every
   start and every count >= 1 without uint64 wrap-around - including ranges that start or end on a
   partition boundary. *)
Theorem read_log_parts_exact :
  forall start count x,
  1 <= count -> is_rte count = false -> start + count <= 2 ^ 64 ->
  ((exists t, In t (parts c02_last_part_guard start count) /\ in_sub x t) <-> start <= x < start + count)
  /\ asc (map (fun t => fst (fst t)) (parts c02_last_part_guard start count)).
Proof.
  exact (fun start count x H1 R H2 =>
           conj (parts_exact_unguarded c02_last_part_guard start count x last_partition_rule_unguarded H1 R H2)
                (parts_asc c02_last_part_guard start count)).
Qed.

(* the same for either form of the rule (g = the guard conjunct): with the guard the finish offset
   must not be a multiple of 4096 *)
Theorem read_log_parts_exact_either_rule :
  forall g start count x,
  1 <= count -> is_rte count = false -> start + count <= 2 ^ 64 ->
  (g = true -> (start + count - 1) mod 4096 <> 0) ->
  ((exists t, In t (parts g start count) /\ in_sub x t) <-> start <= x < start + count)
  /\ asc (map (fun t => fst (fst t)) (parts g start count)).
Proof. exact (fun g start count x H1 R H2 Hg => conj (parts_exact_proved g start count x H1 R H2 Hg) (parts_asc g start count)). Qed.

(* ReadToTheEnd: every offset from start up to 2^63-1 *)
Theorem read_log_parts_to_the_end :
  forall g start x, start <= c02_read_to_end ->
  ((exists t, In t (parts g start c02_read_to_end) /\ in_sub x t) <-> start <= x <= c02_read_to_end).
Proof. exact parts_to_end_proved. Qed.

(* Regression record (F9, fixed by b6deb7b78): with the guard conjunct the statement is false - a
   finish offset that is a multiple of 4096 makes the last sub-range the whole partition:
   ReadPLog(4090, 7) also covered 4097..8191. *)
Theorem read_log_parts_exact_refuted :
  exists start count x, 1 <= count /\ is_rte count = false /\ start + count <= 2 ^ 64 /\
    (exists t, In t (parts true start count) /\ in_sub x t) /\ ~ x < start + count.
Proof.
  exists 4090, 7, 4097. repeat split; try (vm_compute; congruence).
  exists (1, 0, 4095). vm_compute. repeat split; auto; discriminate.
Qed.

(* what the guarded rule covers in that case: 4095 offsets too many *)
Theorem read_log_parts_boundary_overread :
  forall start count, 1 <= count -> is_rte count = false -> start + count <= 2 ^ 64 -> (start + count - 1) mod 4096 = 0 ->
  cover_end true start count = start + count - 1 + 4095.
Proof. exact (fun start count H1 R H2 Hm => cover_overread start count R H1 H2 Hm). Qed.

Section Logs.
Context {V : Type}.

(* Every successfully appended event can be read back at its offset; a refused append changes
   nothing; an append never changes another entry of any log. *)
Theorem appended_event_readable :
  forall c (st st' : lstore V) w id o v, log_put c st w id o v = (st', true) -> log_get st' w id o = Some v.
Proof. exact log_get_put_same. Qed.

Theorem refused_append_changes_nothing :
  forall c (st st' : lstore V) w id o v, log_put c st w id o v = (st', false) -> st' = st.
Proof. exact log_put_refused. Qed.

Theorem append_leaves_other_entries :
  forall c (st : lstore V) (w : bool) id o v (w' : bool) id' o',
  id < (if w then 2 ^ 64 else 65536) -> id' < (if w' then 2 ^ 64 else 65536) -> o < 2 ^ 64 -> o' < 2 ^ 64 ->
  (w', id', o') <> (w, id, o) ->
  log_get (fst (log_put c st w id o v)) w' id' o' = log_get st w' id' o'.
Proof. exact log_get_put_other. Qed.

(* ReadPLog/ReadWLog as they are in the code, on a log built by any sequence of appends (incl.
   refused ones and sys.Corrupted overwrites), over the reference storage: a read of count >= 1
   events from start delivers exactly the stored events with offset in [start, start+count), each
   once, ascending.
   Hypotheses: no uint64 wrap-around; no_gap: every 4096-partition between start and a stored event
   of the range holds an event at or after start (true for every log without holes; F10 otherwise). *)
Theorem read_log_exact :
  forall (ops : list (put_op V)) w id start (count : Z),
  let st := run_puts ops in
  (1 <= count)%Z -> is_rte (Z.to_N count) = false -> start + Z.to_N count <= 2 ^ 64 ->
  no_gap st w id start (start + Z.to_N count - 1) ->
  (forall o v, In (o, v) (read_log c02_last_part_guard st w id start count) <-> log_get st w id o = Some v /\ start <= o < start + Z.to_N count)
  /\ asc (map fst (read_log c02_last_part_guard st w id start count)).
Proof.
  exact (fun ops w id start count =>
           read_log_exact_unguarded c02_last_part_guard (run_puts ops) w id start count last_partition_rule_unguarded (run_puts_inv ops)).
Qed.

(* for either form of the rule *)
Theorem read_log_exact_either_rule :
  forall g (ops : list (put_op V)) w id start (count : Z),
  let st := run_puts ops in
  (1 <= count)%Z -> is_rte (Z.to_N count) = false -> start + Z.to_N count <= 2 ^ 64 ->
  (g = true -> (start + Z.to_N count - 1) mod 4096 <> 0) ->
  no_gap st w id start (start + Z.to_N count - 1) ->
  (forall o v, In (o, v) (read_log g st w id start count) <-> log_get st w id o = Some v /\ start <= o < start + Z.to_N count)
  /\ asc (map fst (read_log g st w id start count)).
Proof. exact (fun g ops w id start count => read_log_exact_proved g (run_puts ops) w id start count (run_puts_inv ops)). Qed.

(* ReadToTheEnd delivers every stored event from start on (offsets below 2^63) *)
Theorem read_log_to_the_end :
  forall g (ops : list (put_op V)) w id start,
  let st := run_puts ops in
  start <= c02_read_to_end -> no_gap st w id start c02_read_to_end ->
  (forall o v, In (o, v) (read_log g st w id start (Z.of_N c02_read_to_end)) <->
               log_get st w id o = Some v /\ start <= o <= c02_read_to_end)
  /\ asc (map fst (read_log g st w id start (Z.of_N c02_read_to_end))).
Proof. exact (fun g ops w id start => read_log_rte_proved g (run_puts ops) w id start (run_puts_inv ops)). Qed.

(* Without any side condition on the log: what a multi-event read delivers in general - the stored
   events between start and the end of the covered range, up to the first part of the range that
   holds none. *)
Theorem read_log_delivers :
  forall g (ops : list (put_op V)) w id start c o v,
  let st := run_puts ops in
  start <= fin_of start c -> fin_of start c < 2 ^ 64 ->
  (In (o, v) (read_many g (S (length st)) st w id start c) <->
   log_get st w id o = Some v /\ start <= o <= cover_end g start c /\
   forall q, hi start <= q < hi o -> read_part st w id q (sub_from start q) (sub_to g start c q) <> []).
Proof. exact (fun g ops w id start c o v => read_many_delivers g (run_puts ops) w id start c o v (run_puts_inv ops)). Qed.

Theorem read_log_nothing_for_nonpositive_count :
  forall g (st : lstore V) w id start count, (count <= 0)%Z -> read_log g st w id start count = [].
Proof. exact read_log_nonpositive. Qed.

End Logs.

(* FULL STATEMENT of read_log_exact (refuted): the same without no_gap (F10, below).
   Regression record (F9, fixed by b6deb7b78): with the guarded rule an event beyond the requested
   range was delivered *)
Theorem read_log_boundary_refuted :
  exists (ops : list (put_op N)) start count o v,
    In (o, v) (read_log true (run_puts ops) false 1 start count) /\ ~ o < start + Z.to_N count.
Proof.
  exists [PutOp false false 1 4095 9; PutOp false false 1 4096 10; PutOp false false 1 4097 11], 4090, 7%Z, 4097, 11.
  split; [vm_compute; auto|vm_compute; discriminate].
Qed.

(* F10: a stored event of the range is not delivered when a partition before it holds nothing
   at or after start *)
Theorem read_log_gap_refuted :
  exists (ops : list (put_op N)) start count o v,
    log_get (run_puts ops) false 1 o = Some v /\ start <= o < start + Z.to_N count /\
    ~ In (o, v) (read_log false (run_puts ops) false 1 start count).
Proof.
  exists [PutOp false false 1 5 10; PutOp false false 1 4096 11], 10, 5000%Z, 4096, 11.
  split; [vm_compute; reflexivity|]. split; [vm_compute; split; congruence|]. vm_compute. auto.
Qed.

(* The two bounds of read_log_exact / read_log_to_the_end are needed (domain of the statements:
   offsets below 2^63 for ReadToTheEnd, no uint64 wrap-around of start+count): the code compares
   the start partition with that of MaxInt64 resp. computes start+count-1 in uint64. *)
Theorem read_to_the_end_above_2_63_refuted :
  exists (ops : list (put_op N)) start o v,
    log_get (run_puts ops) false 1 o = Some v /\ start <= o /\
    read_log c02_last_part_guard (run_puts ops) false 1 start (Z.of_N c02_read_to_end) = [].
Proof.
  exists [PutOp false false 1 (2 ^ 63 + 5) 7], (2 ^ 63), (2 ^ 63 + 5), 7.
  split; [vm_compute; reflexivity|]. split; [vm_compute; congruence|vm_compute; reflexivity].
Qed.

Theorem read_log_wraparound_refuted :
  exists (ops : list (put_op N)) start (count : Z) o v,
    log_get (run_puts ops) false 1 o = Some v /\ start <= o < start + Z.to_N count /\
    read_log c02_last_part_guard (run_puts ops) false 1 start count = []
    /\ read_log c02_last_part_guard (run_puts ops) false 1 start (count - 1) <> [].
Proof.
  exists [PutOp false false 1 (2 ^ 64 - 2) 7; PutOp false false 1 (2 ^ 64 - 1) 8], (2 ^ 64 - 2), 3%Z, (2 ^ 64 - 1), 8.
  split; [vm_compute; reflexivity|]. split; [vm_compute; split; congruence|]. split; [vm_compute; reflexivity|vm_compute; congruence].
Qed.

(* ================= B. event codec ================= *)

(* Reading back a stored event gives its stored form, for every event shape the schema allows
   (nested argument trees of any depth, unlogged argument, creates/updates with emptied fields,
   synced events, invalid and corrupted events with error texts of any length and whatever the
   builder left in their argument objects), and the decoder consumes exactly the encoding.
   stored_form e = e for a valid event (the rows' "sys.IsActive was assigned" marks included, since
   35e511a40); of an event that is not valid only the error record is kept: argument objects and CUD rows
     are dropped (since c96e94a78 PutPlog does the same to the object it returns), message and original name are cut to 65535 bytes (C02-F6), the original
     bytes are dropped when the command has an unlogged argument (documented behaviour). *)
Theorem decode_encode :
  forall s e, wf_event s e -> decode s (enc_event e) = Some (stored_form e).
Proof. exact decode_encode_proved. Qed.

(* Headline: an appended event reads back as the object PutPlog returned (and caches), for every
   event shape incl. invalid events with whatever the builder left in their arguments and argument
   fields put empty; remaining exclusion: error texts above 65535 bytes (C02-F6). *)
Theorem appended_event_reads_back :
  forall s e, wf_event s e -> short_texts e ->
  decode s (enc_event e) = Some (returned_form e).
Proof. exact (fun s e => returned_object_reads_back_proved c02_putplog_clears_invalid c02_putplog_drops_arg_nils s e putplog_returns_stored_shape_of_invalid_event putplog_drops_argument_emptied_marks). Qed.

(* The object PutPlog returns lists the same specified (emptied) argument fields as the stored form
   of the event - for every event, no hypothesis (C02-F8, fixed by 75b678c2b) ... *)
Theorem returned_object_lists_the_stored_fields :
  forall e, e_arg (returned_form e) = e_arg (stored_form e) /\ e_unl (returned_form e) = e_unl (stored_form e).
Proof. exact (fun e => returned_lists_stored_fields_proved c02_putplog_clears_invalid c02_putplog_drops_arg_nils e putplog_returns_stored_shape_of_invalid_event putplog_drops_argument_emptied_marks). Qed.

(* ... regression record: before that (drops = false) the returned object kept marks the stored form
   does not have *)
Theorem returned_object_kept_emptied_marks_refuted :
  exists e, wf_event sch_any e /\ stored_valid e = true /\ e_arg (returned_form_with true false e) <> e_arg (stored_form e).
Proof. exact returned_keeps_arg_nils_refuted_proved. Qed.

(* A valid event reads back exactly, up to the emptied-field marks of its argument rows, which are
   not stored ... *)
Theorem valid_event_reads_back_exactly :
  forall s e, wf_event s e -> stored_valid e = true -> decode s (enc_event e) = Some (drop_arg_nils e).
Proof. exact valid_event_roundtrip_proved. Qed.

(* ... in particular ICUDRow.IsActivated / IsDeactivated of the update rows of the event read back
   are those of the appended event (C02-F3, fixed by 35e511a40), and the marks of new rows too. *)
Theorem activation_flags_read_back :
  forall s e, wf_event s e -> stored_valid e = true ->
  exists d, decode s (enc_event e) = Some d /\
            map activated (e_updates d) = map activated (e_updates e) /\
            map deactivated (e_updates d) = map deactivated (e_updates e) /\
            map (fun c => r_mod (c_row c)) (e_creates d) = map (fun c => r_mod (c_row c)) (e_creates e).
Proof. exact activation_flags_read_back_proved. Qed.

(* Regression record (C02-F3): with the mask as it was written before 35e511a40 every row decodes
   with its mark cleared - rows written by the old code stay readable, and under the old writer an
   update that (de)activates a record read back as a plain update. *)
Theorem activation_flags_lost_refuted :
  (forall s v r rest, v <> 0 -> wf_row s r -> dec_row s v (enc_row_with mask_of_old r ++ rest) = Some (clear_row (drop_nils_row r), rest))
  /\ exists r, wf_row sch_any r /\ activated (mkCud r []) || deactivated (mkCud r []) = true
               /\ activated (mkCud (clear_row r) []) || deactivated (mkCud (clear_row r) []) = false.
Proof. exact activation_mark_lost_with_old_mask_proved. Qed.

(* An event decoded from the log and encoded again (PutWlog of an event delivered by a range read)
   gives the bytes it was decoded from. *)
Theorem reencoding_decoded_event_is_identity :
  forall s e, wf_event s e -> exists d, decode s (enc_event e) = Some d /\ reencode d = enc_event e.
Proof. exact (fun s e => reencode_decoded_proved c02_reencode_orig_name s e reencoding_keeps_original_name). Qed.

(* FULL STATEMENT (refuted): forall s e, wf_event s e -> decode s (enc_event e) = Some e.
   Witnesses: error text above 65535 bytes (C02-F6, open); arguments of an invalid event as the
   builder left them - the object PutPlog returned before c96e94a78 (returned_form_with false e = e;
   C02-F4, fixed). *)
Theorem codec_roundtrip_error_arguments_refuted :
  exists s e, wf_event s e /\ decode s (enc_event e) <> Some (returned_form_with false false e).
Proof. exact error_args_refuted_proved. Qed.

Theorem codec_roundtrip_long_error_text_refuted :
  exists s e, wf_event s e /\ e_arg e = null_obj /\ e_creates e = [] /\ decode s (enc_event e) <> Some e.
Proof. exact long_error_refuted_proved. Qed.

(* the hypotheses are exactly what excludes the witnesses (the third: argument fields put empty) *)
Theorem codec_roundtrip_partial :
  forall s e, wf_event s e -> bare_error e -> no_arg_nils e -> decode s (enc_event e) = Some e.
Proof. exact codec_roundtrip_partial_proved. Qed.

(* Regression record (C02-F5, fixed by 796fe6f32): writing the event's own name when re-encoding
   loses the original name of a decoded error event *)
Theorem reencoding_with_own_name_refuted :
  exists e, wf_event sch_any e /\ reencode_with false (stored_form e) <> enc_event (stored_form e).
Proof. exact reencode_own_name_refuted_proved. Qed.

(* loadEventBuildError keeps an original name that ParseQName rejects (3ba98d88a): the application
   schema sch_any accepts every name, so wf_event asks nothing of it *)
Lemma unparsable_original_name_is_kept : c02_errname_parse_strict = false /\ forall en, s_name sch_any en = true.
Proof. split; reflexivity. Qed.

(* Regression record (C02-F7, fixed by 3ba98d88a): with the strict decoder (sch_strict: the name must
   have exactly one dot, name_one_dot = appdef.ParseQName) an error event whose original name has a
   second dot - the builders accept any QName - was appended successfully and its stored row then
   failed to decode; with any one-dot name it decodes. *)
Theorem error_event_with_unparsable_name_unreadable :
  exists e, e_valid e = false /\ decode sch_strict (enc_event e) = None
            /\ forall en, name_one_dot en = true ->
               decode sch_strict (enc_event (mkEvent (e_qid e) (e_part e) (e_poffs e) (e_ws e) (e_woffs e) (e_reg e) (e_sync e) (e_dev e)
                                                  (e_syncat e) (e_valid e) (e_errstr e) en (e_errbytes e) (e_arg e) (e_unl e) (e_creates e) (e_updates e))) <> None
               \/ 65535 < nlen en.
Proof. exact unparsable_name_unreadable_proved. Qed.

(* The original name is kept as text; as a (package, entity) pair it comes back exactly when the
   package part has no dot (every name the router parses), and not otherwise (C02-F7b, open: the
   text a.b.c does not say where the package ends). *)
Theorem original_name_pair_reads_back :
  forall pkg ent, (forall x, In x pkg -> x <> 46) -> split_first_dot (qname_text pkg ent) = (pkg, ent).
Proof. exact split_qname_text. Qed.

Theorem original_name_pair_refuted : exists pkg ent, split_first_dot (qname_text pkg ent) <> (pkg, ent).
Proof. exact split_qname_text_refuted. Qed.

(* A truncated copy of a stored event is rejected, whatever the schema: every proper prefix of
   every encoding fails to decode. *)
Theorem truncated_event_rejected :
  forall s e p, wf_event s e -> proper_prefix p (enc_event e) -> decode s p = None.
Proof. exact prefix_rejected_proved. Qed.

(* The decoder never looks beyond what it consumes: extending the input does not change the result
   (structural bounds safety: every read is length-checked first). *)
Theorem decoder_ignores_what_follows :
  forall s f b e r ext, dec_event s f b = Some (e, r) -> dec_event s f (b ++ ext) = Some (e, r ++ ext).
Proof. exact (fun s f => dec_event_ext s f f (le_n f)). Qed.

(* ---- non-vacuity ---- *)
Example read_log_parts_nonvacuous :
  parts c02_last_part_guard 4090 7 = [(0, 4090, 4095); (1, 0, 0)] /\ parts false 4090 7 = [(0, 4090, 4095); (1, 0, 0)] /\ parts true 4000 10000 = [(0, 4000, 4095); (1, 0, 4095); (2, 0, 4095); (3, 0, 1711)]
  /\ parts true 4090 7 = [(0, 4090, 4095); (1, 0, 4095)].
Proof. vm_compute. repeat split. Qed.

Definition ex_ops : list (put_op N) :=
  [PutOp false false 1 4094 1; PutOp false false 1 4095 2; PutOp false false 1 4096 3; PutOp false false 1 4097 4;
   PutOp false true 7 4095 5; PutOp false false 1 4095 6; PutOp true false 1 4096 7; PutOp false false 1 8192 8].

Example read_log_nonvacuous :
  let g := c02_last_part_guard in
  read_log g (run_puts ex_ops) false 1 4095 3%Z = [(4095, 2); (4096, 7); (4097, 4)]
  /\ read_log g (run_puts ex_ops) false 1 4094 2%Z = [(4094, 1); (4095, 2)]
  /\ read_log g (run_puts ex_ops) false 1 4094 3%Z = [(4094, 1); (4095, 2); (4096, 7)]
  /\ read_log g (run_puts ex_ops) false 1 4096 1%Z = [(4096, 7)]
  /\ read_log g (run_puts ex_ops) true 7 0 (Z.of_N c02_read_to_end) = [(4095, 5)]
  /\ read_log g (run_puts ex_ops) false 1 4095 (Z.of_N c02_read_to_end) = [(4095, 2); (4096, 7); (4097, 4); (8192, 8)].
Proof. vm_compute. repeat split. Qed.

Definition ex_event : event :=
  mkEvent 300 3 4096 77 12 1000 true 9 2000 true [] [] []
    (Obj (mkRow 301 200001 0 0 true [1; 2; 3] false [])
         [Obj (mkRow 302 200002 200001 64 true [4] false []) [Obj (mkRow 303 200003 200002 65 false [] true []) []]; Obj (mkRow 302 200004 200001 64 true [] false []) []])
    (Obj (mkRow 304 0 0 0 true [42] false []) [])
    [mkCud (mkRow 305 200005 0 0 true [7; 7] true []) [2; 3]]
    [mkCud (mkRow 305 200009 0 0 false [] true []) [1]; mkCud (mkRow 305 200010 0 0 true [] true []) []].
Definition ex_invalid : event :=
  mkEvent 1 3 4097 77 13 1000 false 0 0 false [101; 114; 114] [116; 46; 99] [1; 2; 3] null_obj null_obj [] [].

Example codec_nonvacuous :
  decode sch_any (enc_event ex_event) = Some ex_event /\ decode sch_any (enc_event ex_invalid) = Some ex_invalid
  /\ length (enc_event ex_event) = 234%nat
  /\ accepted_prefixes (enc_event ex_event) = [] /\ accepted_prefixes (enc_event ex_invalid) = [].
Proof. vm_compute. repeat split. Qed.

Print Assumptions read_log_parts_exact.
Print Assumptions read_log_parts_exact_either_rule.
Print Assumptions read_log_parts_to_the_end.
Print Assumptions read_log_parts_exact_refuted.
Print Assumptions read_log_parts_boundary_overread.
Print Assumptions appended_event_readable.
Print Assumptions refused_append_changes_nothing.
Print Assumptions append_leaves_other_entries.
Print Assumptions read_log_exact.
Print Assumptions read_log_exact_either_rule.
Print Assumptions read_log_to_the_end.
Print Assumptions read_log_delivers.
Print Assumptions read_log_nothing_for_nonpositive_count.
Print Assumptions read_log_boundary_refuted.
Print Assumptions read_log_gap_refuted.
Print Assumptions read_to_the_end_above_2_63_refuted.
Print Assumptions read_log_wraparound_refuted.
Print Assumptions original_name_pair_reads_back.
Print Assumptions original_name_pair_refuted.
Print Assumptions decode_encode.
Print Assumptions appended_event_reads_back.
Print Assumptions reencoding_decoded_event_is_identity.
Print Assumptions reencoding_with_own_name_refuted.
Print Assumptions valid_event_reads_back_exactly.
Print Assumptions returned_object_lists_the_stored_fields.
Print Assumptions returned_object_kept_emptied_marks_refuted.
Print Assumptions activation_flags_read_back.
Print Assumptions activation_flags_lost_refuted.
Print Assumptions error_event_with_unparsable_name_unreadable.
Print Assumptions unparsable_original_name_is_kept.
Print Assumptions codec_roundtrip_error_arguments_refuted.
Print Assumptions codec_roundtrip_long_error_text_refuted.
Print Assumptions codec_roundtrip_partial.
Print Assumptions truncated_event_rejected.
Print Assumptions decoder_ignores_what_follows.
