(* Byte strings (list N, each < 256) and their lexicographic order: the order every
   istorage backend sorts clustering columns by (bytes.Compare). *)
From Coq Require Import List NArith Lia Bool.
Import ListNotations.
Local Open Scope N_scope.

Definition bytes := list N.
Definition wf (b : bytes) := Forall (fun x => x < 256) b.
Definition wfb (b : bytes) : bool := forallb (fun x => x <? 256) b.

Lemma wfb_wf b : wfb b = true <-> wf b.
Proof.
  unfold wfb, wf. rewrite forallb_forall, Forall_forall.
  split; intros H x Hx; specialize (H x Hx); [apply N.ltb_lt|apply N.ltb_lt]; exact H.
Qed.

Fixpoint lex_cmp (a b : bytes) : comparison :=
  match a, b with
  | [], [] => Eq
  | [], _ :: _ => Lt
  | _ :: _, [] => Gt
  | x :: a', y :: b' => match N.compare x y with Eq => lex_cmp a' b' | c => c end
  end.

Definition lex_lt a b := match lex_cmp a b with Lt => true | _ => false end.
Definition lex_le a b := match lex_cmp a b with Gt => false | _ => true end.
Definition lex_eqb a b := match lex_cmp a b with Eq => true | _ => false end.

Lemma lex_cmp_eq a b : lex_cmp a b = Eq <-> a = b.
Proof.
  revert b; induction a as [|x a IH]; intros [|y b]; cbn; try (split; congruence).
  destruct (N.compare_spec x y) as [E|L|G].
  - subst. rewrite IH. split; congruence.
  - split; [discriminate | intros H; inversion H; lia].
  - split; [discriminate | intros H; inversion H; lia].
Qed.

Lemma lex_cmp_refl a : lex_cmp a a = Eq.
Proof. apply lex_cmp_eq. reflexivity. Qed.

Lemma lex_eqb_eq a b : lex_eqb a b = true <-> a = b.
Proof.
  unfold lex_eqb. rewrite <- lex_cmp_eq. destruct (lex_cmp a b); split; congruence.
Qed.

Lemma lex_eqb_refl a : lex_eqb a a = true.
Proof. apply lex_eqb_eq. reflexivity. Qed.

Lemma lex_eqb_neq a b : lex_eqb a b = false <-> a <> b.
Proof.
  rewrite <- lex_eqb_eq. destruct (lex_eqb a b); split; congruence.
Qed.

Lemma lex_cmp_antisym a b : lex_cmp b a = CompOpp (lex_cmp a b).
Proof.
  revert b; induction a as [|x a IH]; intros [|y b]; cbn; auto.
  rewrite (N.compare_antisym x y). destruct (N.compare x y); cbn; auto.
Qed.

Lemma lex_cmp_gt_lt a b : lex_cmp a b = Gt <-> lex_cmp b a = Lt.
Proof.
  rewrite (lex_cmp_antisym a b). destruct (lex_cmp a b); cbn; split; congruence.
Qed.

Lemma lex_lt_trans a b c : lex_lt a b = true -> lex_lt b c = true -> lex_lt a c = true.
Proof.
  unfold lex_lt. revert b c; induction a as [|x a IH]; intros [|y b] [|z c]; cbn; try congruence.
  destruct (x ?= y) eqn:Exy; try congruence; destruct (y ?= z) eqn:Eyz; try congruence; intros H1 H2.
  - apply N.compare_eq_iff in Exy, Eyz. subst. rewrite N.compare_refl. eapply IH; eauto.
  - apply N.compare_eq_iff in Exy. subst. rewrite Eyz. reflexivity.
  - apply N.compare_eq_iff in Eyz. subst. rewrite Exy. reflexivity.
  - apply N.compare_lt_iff in Exy. apply N.compare_lt_iff in Eyz.
    assert (L: x < z) by (eapply N.lt_trans; eauto). apply N.compare_lt_iff in L. rewrite L. reflexivity.
Qed.

Lemma lex_cmp_lt_trans a b c : lex_cmp a b = Lt -> lex_cmp b c = Lt -> lex_cmp a c = Lt.
Proof.
  intros H1 H2. pose proof (lex_lt_trans a b c) as T. unfold lex_lt in T.
  rewrite H1, H2 in T. specialize (T eq_refl eq_refl). destruct (lex_cmp a c); congruence.
Qed.

Lemma lex_lt_irrefl a : lex_lt a a = false.
Proof. unfold lex_lt. rewrite lex_cmp_refl. reflexivity. Qed.

Lemma lex_lt_neq a b : lex_lt a b = true -> a <> b.
Proof. intros H E. subst. rewrite lex_lt_irrefl in H. discriminate. Qed.

Lemma lex_le_lt_or_eq a b : lex_le a b = true <-> (lex_lt a b = true \/ a = b).
Proof.
  unfold lex_le, lex_lt. rewrite <- lex_cmp_eq. destruct (lex_cmp a b); split; intros; try tauto; try congruence; try intuition congruence.
Qed.

Lemma lex_le_refl a : lex_le a a = true.
Proof. unfold lex_le. rewrite lex_cmp_refl. reflexivity. Qed.

Lemma lex_lt_le_trans a b c : lex_lt a b = true -> lex_le b c = true -> lex_lt a c = true.
Proof.
  intros H1 H2. apply lex_le_lt_or_eq in H2. destruct H2 as [H2|H2].
  - eapply lex_lt_trans; eauto.
  - subst. exact H1.
Qed.

Lemma lex_le_lt_trans a b c : lex_le a b = true -> lex_lt b c = true -> lex_lt a c = true.
Proof.
  intros H1 H2. apply lex_le_lt_or_eq in H1. destruct H1 as [H1|H1].
  - eapply lex_lt_trans; eauto.
  - subst. exact H2.
Qed.

Lemma lex_le_trans a b c : lex_le a b = true -> lex_le b c = true -> lex_le a c = true.
Proof.
  intros H1 H2. apply lex_le_lt_or_eq in H1. destruct H1 as [H1|H1].
  - apply lex_le_lt_or_eq. left. eapply lex_lt_le_trans; eauto.
  - subst. exact H2.
Qed.

Lemma lex_lt_not_le a b : lex_lt a b = negb (lex_le b a).
Proof.
  unfold lex_lt, lex_le. rewrite (lex_cmp_antisym a b). destruct (lex_cmp a b); reflexivity.
Qed.

Lemma lex_total a b : lex_lt a b = true \/ a = b \/ lex_lt b a = true.
Proof.
  unfold lex_lt. rewrite (lex_cmp_antisym a b). destruct (lex_cmp a b) eqn:E; cbn; auto.
  apply lex_cmp_eq in E. auto.
Qed.

Lemma lex_nil_le a : lex_le [] a = true.
Proof. destruct a; reflexivity. Qed.

(* ---------- prefixes and the IncBytes upper bound ---------- *)

Fixpoint is_prefix (p k : bytes) : bool :=
  match p, k with
  | [], _ => true
  | _ :: _, [] => false
  | x :: p', y :: k' => (x =? y) && is_prefix p' k'
  end.

Lemma is_prefix_app p s : is_prefix p (p ++ s) = true.
Proof. induction p as [|x p IH]; cbn; auto. rewrite N.eqb_refl. exact IH. Qed.

Lemma is_prefix_spec p k : is_prefix p k = true <-> exists s, k = p ++ s.
Proof.
  split.
  - revert k; induction p as [|x p IH]; intros k H.
    + exists k. reflexivity.
    + destruct k as [|y k]; [discriminate|]. cbn in H. apply andb_prop in H. destruct H as [E H].
      apply N.eqb_eq in E. subst. destruct (IH k H) as [s ->]. exists s. reflexivity.
  - intros [s ->]. apply is_prefix_app.
Qed.

(* model of utils.IncBytes: None when empty or all 0xff; the length is kept on carry *)
Fixpoint inc_bytes (b : bytes) : option bytes :=
  match b with
  | [] => None
  | x :: r =>
      match inc_bytes r with
      | Some r' => Some (x :: r')
      | None => if x <? 255 then Some ((x + 1) :: map (fun _ => 0) r) else None
      end
  end.

Definition in_range (p k : bytes) : bool :=
  lex_le p k && match inc_bytes p with Some q => lex_lt k q | None => true end.

Lemma inc_none_all_ff b : wf b -> inc_bytes b = None -> Forall (fun x => x = 255) b.
Proof.
  induction b as [|x r IH]; intros W H; [constructor|].
  inversion W; subst. cbn in H. destruct (inc_bytes r) eqn:E; [discriminate|].
  destruct (N.ltb_spec x 255); [discriminate|]. constructor; [lia|auto].
Qed.

Lemma cmp_zeros (r k0 : bytes) : (length r <= length k0)%nat -> lex_cmp k0 (map (fun _ => 0) r) <> Lt.
Proof.
  revert k0; induction r as [|a r IHr]; intros [|b k0]; cbn; intros HL; try congruence; try lia.
  destruct (N.compare_spec b 0); try lia; try congruence. apply IHr. lia.
Qed.

(* the code's bound is exact only when the key is at least as long as the prefix *)
Theorem prefix_range p k : wf p -> wf k -> (length p <= length k)%nat -> is_prefix p k = in_range p k.
Proof.
  unfold in_range, lex_le, lex_lt.
  revert k; induction p as [|x p IH]; intros k Wp Wk HL.
  - cbn. destruct k; reflexivity.
  - destruct k as [|y k]; [cbn in HL; lia|].
    inversion Wp as [|? ? Hx Wp']; subst. inversion Wk as [|? ? Hy Wk']; subst.
    cbn in HL. assert (HL' : (length p <= length k)%nat) by lia.
    specialize (IH k Wp' Wk' HL').
    cbn [is_prefix lex_cmp inc_bytes].
    destruct (N.compare_spec x y) as [E|L|G].
    + subst y. rewrite N.eqb_refl. cbn [andb]. rewrite IH.
      destruct (inc_bytes p) as [q|] eqn:Eq.
      * cbn [lex_cmp]. rewrite N.compare_refl. reflexivity.
      * destruct (N.ltb_spec x 255) as [Hl|Hl].
        -- cbn [lex_cmp]. destruct (N.compare_spec x (x+1)); try lia.
           destruct (lex_cmp p k); reflexivity.
        -- destruct (lex_cmp p k); reflexivity.
    + destruct (N.eqb_spec x y); [lia|]. cbn [andb].
      destruct (inc_bytes p) as [q|] eqn:Eq.
      * cbn [lex_cmp]. destruct (N.compare_spec y x); try lia; try reflexivity.
      * destruct (N.ltb_spec x 255) as [Hl|Hl]; [|lia].
        cbn [lex_cmp]. destruct (N.compare_spec y (x+1)) as [E2|L2|G2].
        -- pose proof (cmp_zeros p k HL') as Z.
           destruct (lex_cmp k (map (fun _ : N => 0) p)); try reflexivity. congruence.
        -- lia.
        -- reflexivity.
    + destruct (N.eqb_spec x y); [lia|]. reflexivity.
Qed.

(* without the length hypothesis the statement is false *)
Example prefix_range_refuted : exists p k, wf p /\ wf k /\ is_prefix p k <> in_range p k.
Proof.
  exists [1; 255], [2]. repeat split; try (repeat constructor; reflexivity).
  vm_compute. discriminate.
Qed.

(* ---------- fixed-width big/little-endian encodings ---------- *)

Fixpoint be_bytes (w : nat) (n : N) : bytes :=
  match w with
  | O => []
  | S w' => (n / 256 ^ N.of_nat w') mod 256 :: be_bytes w' n
  end.

Fixpoint le_bytes (w : nat) (n : N) : bytes :=
  match w with
  | O => []
  | S w' => n mod 256 :: le_bytes w' (n / 256)
  end.

Lemma be_bytes_length w n : length (be_bytes w n) = w.
Proof. induction w; cbn; auto. Qed.

Lemma le_bytes_length w n : length (le_bytes w n) = w.
Proof. revert n; induction w; intros; cbn; auto. Qed.

Lemma be_bytes_wf w n : wf (be_bytes w n).
Proof.
  induction w as [|w IH]; cbn; constructor.
  - apply N.mod_lt. lia.
  - apply IH.
Qed.

Lemma le_bytes_wf w n : wf (le_bytes w n).
Proof.
  revert n; induction w as [|w IH]; intros n; cbn; constructor.
  - apply N.mod_lt. lia.
  - apply IH.
Qed.

Lemma be_bytes_mod w n : be_bytes w (n mod 256 ^ N.of_nat w) = be_bytes w n.
Proof.
  assert (G : forall v m, (v <= w)%nat -> be_bytes v (m mod 256 ^ N.of_nat w) = be_bytes v m).
  { induction v as [|v IHv]; intros m Hv; cbn; auto.
    rewrite IHv by lia. f_equal.
    replace (N.of_nat w) with (N.of_nat v + (N.of_nat w - N.of_nat v)) by lia.
    rewrite N.pow_add_r.
    rewrite N.mod_mul_r by (apply N.pow_nonzero; lia).
    rewrite N.mul_comm, N.div_add by (apply N.pow_nonzero; lia).
    rewrite (N.div_small (m mod 256 ^ N.of_nat v)) by (apply N.mod_lt, N.pow_nonzero; lia).
    cbn [N.add].
    replace (N.of_nat w - N.of_nat v) with (N.succ (N.of_nat w - N.of_nat v - 1)) by lia.
    rewrite N.pow_succ_r'.
    rewrite N.mod_mul_r by (try apply N.pow_nonzero; lia).
    rewrite N.mul_comm, N.mod_add by lia. apply N.mod_mod. lia. }
  apply G. lia.
Qed.

(* big-endian fixed-width encoding is strictly monotone: byte order = numeric order *)
Lemma be_bytes_cmp w a b : a < 256 ^ N.of_nat w -> b < 256 ^ N.of_nat w ->
  lex_cmp (be_bytes w a) (be_bytes w b) = N.compare a b.
Proof.
  revert a b; induction w as [|w IH]; intros a b Ha Hb.
  - cbn in *. assert (a = 0) by lia. assert (b = 0) by lia. subst. reflexivity.
  - cbn [be_bytes lex_cmp].
    rewrite Nat2N.inj_succ, N.pow_succ_r' in Ha, Hb.
    assert (HP0 : 256 ^ N.of_nat w <> 0) by (apply N.pow_nonzero; lia).
    remember (256 ^ N.of_nat w) as P eqn:EP. pose proof HP0 as HP.
    assert (Hqa : a / P < 256) by (apply N.div_lt_upper_bound; lia).
    assert (Hqb : b / P < 256) by (apply N.div_lt_upper_bound; lia).
    rewrite !N.mod_small by assumption.
    rewrite <- (be_bytes_mod w a), <- (be_bytes_mod w b). rewrite <- EP.
    rewrite IH by (apply N.mod_lt; assumption).
    pose proof (N.div_mod a P HP) as Da. pose proof (N.div_mod b P HP) as Db.
    pose proof (N.mod_lt a P HP) as La. pose proof (N.mod_lt b P HP) as Lb.
    remember (a / P) as qa. remember (b / P) as qb. remember (a mod P) as ra. remember (b mod P) as rb.
    destruct (N.compare_spec qa qb) as [E|L|G].
    + destruct (N.compare_spec ra rb) as [E2|L2|G2].
      * symmetry. apply N.compare_eq_iff. rewrite Da, Db, E, E2. reflexivity.
      * symmetry. apply N.compare_lt_iff. rewrite Da, Db, E. lia.
      * symmetry. apply N.compare_gt_iff. rewrite Da, Db, E. lia.
    + symmetry. apply N.compare_lt_iff.
      assert (P * qa + P <= P * qb) by nia. lia.
    + symmetry. apply N.compare_gt_iff.
      assert (P * qb + P <= P * qa) by nia. lia.
Qed.

Lemma be_bytes_inj w a b : a < 256 ^ N.of_nat w -> b < 256 ^ N.of_nat w ->
  be_bytes w a = be_bytes w b -> a = b.
Proof.
  intros Ha Hb E. apply lex_cmp_eq in E. rewrite be_bytes_cmp in E by assumption.
  apply N.compare_eq_iff in E. exact E.
Qed.

(* little-endian is injective but not monotone *)
Lemma le_bytes_inj w a b : a < 256 ^ N.of_nat w -> b < 256 ^ N.of_nat w ->
  le_bytes w a = le_bytes w b -> a = b.
Proof.
  revert a b; induction w as [|w IH]; intros a b Ha Hb E.
  - cbn in *. lia.
  - cbn in E. inversion E as [[E1 E2]].
    rewrite Nat2N.inj_succ, N.pow_succ_r' in Ha, Hb.
    assert (a / 256 = b / 256).
    { apply IH; auto; apply N.div_lt_upper_bound; lia. }
    rewrite (N.div_mod a 256), (N.div_mod b 256) by lia. congruence.
Qed.

Example le_bytes_not_monotone : lex_lt (le_bytes 8 256) (le_bytes 8 255) = true.
Proof. vm_compute. reflexivity. Qed.
