(* Helpers for the generated case files (coq/run/cases_*.v): indices of the cases on which a
   boolean check fails.  Evaluated with vm_compute by bin/check. *)
From Coq Require Import List NArith Bool.
Import ListNotations.
Local Open Scope N_scope.

Fixpoint bad_idx_from {T} (f : T -> bool) (i : N) (l : list T) : list N :=
  match l with
  | [] => []
  | x :: r => if f x then bad_idx_from f (i + 1) r else i :: bad_idx_from f (i + 1) r
  end.

Definition bad_idx {T} (f : T -> bool) (l : list T) : list N := bad_idx_from f 0 l.

Lemma bad_idx_from_nil {T} (f : T -> bool) i l : bad_idx_from f i l = [] -> forallb f l = true.
Proof.
  revert i; induction l as [|x r IH]; intros i H; cbn in *; auto.
  destruct (f x); [cbn; eapply IH; eauto | discriminate].
Qed.

Fixpoint list_eqb {T} (eqb : T -> T -> bool) (a b : list T) : bool :=
  match a, b with
  | [], [] => true
  | x :: a', y :: b' => eqb x y && list_eqb eqb a' b'
  | _, _ => false
  end.

Lemma list_eqb_eq {T} (eqb : T -> T -> bool) :
  (forall x y, eqb x y = true <-> x = y) -> forall a b, list_eqb eqb a b = true <-> a = b.
Proof.
  intros H a; induction a as [|x a IH]; intros [|y b]; cbn; try (split; congruence).
  rewrite andb_true_iff, H, IH. split; [intros [-> ->]; reflexivity | intros E; inversion E; auto].
Qed.

Definition option_eqb {T} (eqb : T -> T -> bool) (a b : option T) : bool :=
  match a, b with
  | None, None => true
  | Some x, Some y => eqb x y
  | _, _ => false
  end.
