(* Sorted association lists keyed by byte strings in lexicographic order.
   Used as the "rows of one partition" of every storage model: range reads are
   filters over an ascending list, so order and uniqueness come for free. *)
From Coq Require Import List NArith Lia Bool Sorting.Sorted.
From V Require Import Lib.Lex.
Import ListNotations.

Section SMap.
Context {V : Type}.

Definition smap := list (bytes * V).

Fixpoint sm_get (k : bytes) (m : smap) : option V :=
  match m with
  | [] => None
  | (k', v) :: r => match lex_cmp k k' with Eq => Some v | Lt => None | Gt => sm_get k r end
  end.

Fixpoint sm_put (k : bytes) (v : V) (m : smap) : smap :=
  match m with
  | [] => [(k, v)]
  | (k', v') :: r =>
      match lex_cmp k k' with
      | Lt => (k, v) :: m
      | Eq => (k, v) :: r
      | Gt => (k', v') :: sm_put k v r
      end
  end.

Fixpoint sm_del (k : bytes) (m : smap) : smap :=
  match m with
  | [] => []
  | (k', v') :: r =>
      match lex_cmp k k' with
      | Lt => m
      | Eq => r
      | Gt => (k', v') :: sm_del k r
      end
  end.

Definition keys (m : smap) : list bytes := map fst m.

(* strictly ascending keys *)
Inductive sorted : smap -> Prop :=
| sorted_nil : sorted []
| sorted_one k v : sorted [(k, v)]
| sorted_cons k v k' v' r : lex_lt k k' = true -> sorted ((k', v') :: r) -> sorted ((k, v) :: (k', v') :: r).

Definition lt_all (k : bytes) (m : smap) := Forall (fun kv => lex_lt k (fst kv) = true) m.

Lemma sorted_tail kv m : sorted (kv :: m) -> sorted m.
Proof. intros H; inversion H; subst; auto. constructor. Qed.

Lemma sorted_lt_all k v m : sorted ((k, v) :: m) -> lt_all k m.
Proof.
  revert k v; induction m as [|[k' v'] r IH]; intros k v H; [constructor|].
  inversion H as [| |? ? ? ? ? Hlt Hs]; subst. constructor; [assumption|].
  specialize (IH k' v' Hs).
  eapply Forall_impl; [|exact IH]. intros [a b] Ha; cbn in *. eapply lex_lt_trans; eauto.
Qed.

Lemma lt_all_sorted k v m : lt_all k m -> sorted m -> sorted ((k, v) :: m).
Proof.
  intros L S. destruct m as [|[k' v'] r]; [constructor|].
  inversion L; subst. constructor; auto.
Qed.

Lemma sm_get_lt_all k m : lt_all k m -> sm_get k m = None.
Proof.
  intros L. destruct m as [|[k' v'] r]; [reflexivity|].
  inversion L as [|? ? Hh Ht]; subst. cbn in *. unfold lex_lt in Hh. destruct (lex_cmp k k'); try discriminate. reflexivity.
Qed.

Lemma lt_all_put k k0 v m : lex_lt k k0 = true -> lt_all k m -> lt_all k (sm_put k0 v m).
Proof.
  intros Hk L. induction m as [|[k' v'] r IH]; cbn.
  - constructor; [exact Hk|constructor].
  - inversion L as [|? ? Hh Ht]; subst. destruct (lex_cmp k0 k'); repeat (constructor; cbn; auto); apply IH; exact Ht.
Qed.

Lemma sm_put_sorted k v m : sorted m -> sorted (sm_put k v m).
Proof.
  induction m as [|[k' v'] r IH]; intros S; cbn; [constructor|].
  destruct (lex_cmp k k') eqn:E.
  - apply lex_cmp_eq in E; subst. apply lt_all_sorted.
    + eapply sorted_lt_all; eauto.
    + eapply sorted_tail; eauto.
  - constructor; auto. unfold lex_lt. rewrite E. reflexivity.
  - apply lt_all_sorted.
    + apply lt_all_put.
      * unfold lex_lt. apply lex_cmp_gt_lt in E. rewrite E. reflexivity.
      * eapply sorted_lt_all; eauto.
    + apply IH. eapply sorted_tail; eauto.
Qed.

Lemma lt_all_del k k0 m : lt_all k m -> lt_all k (sm_del k0 m).
Proof.
  intros L. induction m as [|[k' v'] r IH]; cbn; [constructor|].
  inversion L as [|? ? Hh Ht]; subst. destruct (lex_cmp k0 k'); auto. constructor; auto. apply IH; exact Ht.
Qed.

Lemma sm_del_sorted k m : sorted m -> sorted (sm_del k m).
Proof.
  induction m as [|[k' v'] r IH]; intros S; cbn; [constructor|].
  destruct (lex_cmp k k') eqn:E; auto.
  - eapply sorted_tail; eauto.
  - apply lt_all_sorted.
    + apply lt_all_del. eapply sorted_lt_all; eauto.
    + apply IH. eapply sorted_tail; eauto.
Qed.

Lemma sm_get_put_same k v m : sm_get k (sm_put k v m) = Some v.
Proof.
  induction m as [|[k' v'] r IH]; cbn.
  - rewrite lex_cmp_refl. reflexivity.
  - destruct (lex_cmp k k') eqn:E; cbn; rewrite ?lex_cmp_refl, ?E; auto.
Qed.

Lemma sm_get_put_other k k0 v m : k <> k0 -> sm_get k (sm_put k0 v m) = sm_get k m.
Proof.
  intros N. induction m as [|[k' v'] r IH]; cbn.
  - destruct (lex_cmp k k0) eqn:E; auto. apply lex_cmp_eq in E. contradiction.
  - destruct (lex_cmp k0 k') eqn:E0; cbn.
    + apply lex_cmp_eq in E0; subst k'. destruct (lex_cmp k k0) eqn:E; auto.
      apply lex_cmp_eq in E. contradiction.
    + destruct (lex_cmp k k0) eqn:E.
      * apply lex_cmp_eq in E. contradiction.
      * rewrite (lex_cmp_lt_trans _ _ _ E E0). reflexivity.
      * reflexivity.
    + destruct (lex_cmp k k'); auto.
Qed.

Lemma sm_get_del_same k m : sorted m -> sm_get k (sm_del k m) = None.
Proof.
  induction m as [|[k' v'] r IH]; intros S; cbn; auto.
  destruct (lex_cmp k k') eqn:E; cbn.
  - apply lex_cmp_eq in E; subst. apply sm_get_lt_all. eapply sorted_lt_all; eauto.
  - rewrite E. reflexivity.
  - rewrite E. apply IH. eapply sorted_tail; eauto.
Qed.

Lemma sm_get_del_other k k0 m : k <> k0 -> sorted m -> sm_get k (sm_del k0 m) = sm_get k m.
Proof.
  intros N. induction m as [|[k' v'] r IH]; intros S; cbn; auto.
  destruct (lex_cmp k0 k') eqn:E0; cbn.
  - apply lex_cmp_eq in E0; subst k'. destruct (lex_cmp k k0) eqn:E; auto.
    + apply lex_cmp_eq in E. contradiction.
    + apply sm_get_lt_all.
      pose proof (sorted_lt_all _ _ _ S) as L.
      eapply Forall_impl; [|exact L]. intros [a b] Ha; cbn in *.
      eapply lex_lt_trans; eauto. unfold lex_lt. rewrite E. reflexivity.
  - reflexivity.
  - destruct (lex_cmp k k'); auto. apply IH. eapply sorted_tail; eauto.
Qed.

Lemma sm_get_In k v m : sorted m -> (sm_get k m = Some v <-> In (k, v) m).
Proof.
  induction m as [|[k' v'] r IH]; intros S; cbn.
  - split; [discriminate|tauto].
  - pose proof (sorted_lt_all _ _ _ S) as L. pose proof (sorted_tail _ _ S) as S'.
    destruct (lex_cmp k k') eqn:E.
    + apply lex_cmp_eq in E; subst k'. split.
      * intros H; inversion H; subst. left; reflexivity.
      * intros [H|H]; [inversion H; reflexivity|].
        unfold lt_all in L; rewrite Forall_forall in L; specialize (L _ H). cbn in L. rewrite lex_lt_irrefl in L. discriminate.
    + split; [discriminate|]. intros [H|H].
      * inversion H; subst. rewrite lex_cmp_refl in E. discriminate.
      * unfold lt_all in L; rewrite Forall_forall in L; specialize (L _ H). cbn in L.
        assert (Hkk : lex_lt k k = true) by (eapply lex_lt_trans; [unfold lex_lt; rewrite E; reflexivity|exact L]).
        rewrite lex_lt_irrefl in Hkk. discriminate.
    + rewrite (IH S'). split; [tauto|]. intros [H|H]; auto.
      inversion H; subst. rewrite lex_cmp_refl in E. discriminate.
Qed.

(* ---------- range reads ---------- *)

(* rows with lo <= key and (hi = None or key < hi) *)
Definition in_bounds (lo : bytes) (hi : option bytes) (k : bytes) : bool :=
  lex_le lo k && match hi with Some h => lex_lt k h | None => true end.

Definition sm_range (lo : bytes) (hi : option bytes) (m : smap) : smap :=
  filter (fun kv => in_bounds lo hi (fst kv)) m.

Lemma filter_sorted (f : bytes * V -> bool) m : sorted m -> sorted (filter f m).
Proof.
  induction m as [|[k v] r IH]; intros S; cbn; [constructor|].
  pose proof (sorted_lt_all _ _ _ S) as L. pose proof (sorted_tail _ _ S) as S'.
  destruct (f (k, v)); auto.
  apply lt_all_sorted; auto.
  unfold lt_all in *. rewrite Forall_forall in *. intros x Hx. apply filter_In in Hx. apply L. tauto.
Qed.

Lemma sm_range_sorted lo hi m : sorted m -> sorted (sm_range lo hi m).
Proof. apply filter_sorted. Qed.

Lemma sm_range_In lo hi m k v :
  In (k, v) (sm_range lo hi m) <-> In (k, v) m /\ in_bounds lo hi k = true.
Proof. unfold sm_range. rewrite filter_In. cbn. tauto. Qed.

Lemma sorted_NoDup_keys m : sorted m -> NoDup (keys m).
Proof.
  induction m as [|[k v] r IH]; intros S; cbn; constructor.
  - pose proof (sorted_lt_all _ _ _ S) as L. intros Hin. apply in_map_iff in Hin.
    destruct Hin as [[k' v'] [E Hin]]. cbn in E; subst k'.
    unfold lt_all in L. rewrite Forall_forall in L. specialize (L _ Hin). cbn in L.
    rewrite lex_lt_irrefl in L. discriminate.
  - apply IH. eapply sorted_tail; eauto.
Qed.

(* appending a key above all existing keys puts it last *)
Definition gt_all (k : bytes) (m : smap) := Forall (fun kv => lex_lt (fst kv) k = true) m.

Lemma sm_put_gt_all k v m : gt_all k m -> sm_put k v m = m ++ [(k, v)].
Proof.
  induction m as [|[k' v'] r IH]; intros G; cbn; auto.
  inversion G as [|? ? Hh Ht]; subst. cbn in Hh. unfold lex_lt in Hh.
  rewrite (lex_cmp_antisym k' k). destruct (lex_cmp k' k); try discriminate. cbn.
  rewrite IH by assumption. reflexivity.
Qed.

Lemma gt_all_app k m kv : gt_all k m -> lex_lt (fst kv) k = true -> gt_all k (m ++ [kv]).
Proof. intros G H. apply Forall_app. split; auto. Qed.

Lemma gt_all_mono k k' m : gt_all k m -> lex_lt k k' = true -> gt_all k' m.
Proof.
  intros G H. eapply Forall_impl; [|exact G]. intros a Ha. cbn in *. eapply lex_lt_trans; [exact Ha|exact H].
Qed.

End SMap.

Arguments smap : clear implicits.

(* ---------- extensionality of sorted maps ---------- *)
Section Ext.
Context {V : Type}.

Lemma sm_get_head_lt k k' (v' : V) r : lex_lt k k' = true -> sorted ((k', v') :: r) -> sm_get k ((k', v') :: r) = None.
Proof.
  intros H S. cbn. unfold lex_lt in H. destruct (lex_cmp k k'); try discriminate. reflexivity.
Qed.

Theorem sorted_ext (m1 m2 : smap V) : sorted m1 -> sorted m2 ->
  (forall k, sm_get k m1 = sm_get k m2) -> m1 = m2.
Proof.
  revert m2. induction m1 as [|[k1 v1] r1 IH]; intros m2 S1 S2 H.
  - destruct m2 as [|[k2 v2] r2]; auto. specialize (H k2). cbn in H. rewrite lex_cmp_refl in H. discriminate.
  - destruct m2 as [|[k2 v2] r2].
    + specialize (H k1). cbn in H. rewrite lex_cmp_refl in H. discriminate.
    + destruct (lex_total k1 k2) as [L|[E|G]].
      * pose proof (H k1) as H1. rewrite (sm_get_head_lt k1 k2 v2 r2 L S2) in H1. cbn in H1. rewrite lex_cmp_refl in H1. discriminate.
      * subst k2. pose proof (H k1) as H1. cbn in H1. rewrite lex_cmp_refl in H1. inversion H1; subst v2. f_equal.
        apply IH; [eapply sorted_tail; eauto|eapply sorted_tail; eauto|].
        intros k. specialize (H k). cbn in H. destruct (lex_cmp k k1) eqn:Ek; auto.
        -- apply lex_cmp_eq in Ek. subst k.
           rewrite (sm_get_lt_all k1 r1 (sorted_lt_all _ _ _ S1)), (sm_get_lt_all k1 r2 (sorted_lt_all _ _ _ S2)). reflexivity.
        -- assert (La : forall r (v : V), sorted ((k1, v) :: r) -> sm_get k r = None).
           { intros r v S. apply sm_get_lt_all. pose proof (sorted_lt_all _ _ _ S) as L.
             eapply Forall_impl; [|exact L]. intros [a b] Ha; cbn in *. eapply lex_lt_trans; [|exact Ha].
             unfold lex_lt. rewrite Ek. reflexivity. }
           rewrite (La r1 v1 S1), (La r2 v1 S2). reflexivity.
      * pose proof (H k2) as H2. rewrite (sm_get_head_lt k2 k1 v1 r1 G S1) in H2. cbn in H2. rewrite lex_cmp_refl in H2. discriminate.
Qed.

End Ext.
