(* C12 - mutual exclusion: while a leadership is live and no release/cleanup CompareAndDelete has
   been issued for it, the storage holds its record, unexpired; hence at most one such
   leadership per key.  Also: release/cleanup remove only an own record; termination measures. *)
From Coq Require Import List NArith ZArith Lia Bool Arith.
From V Require Import Lib.Check Gen.Params C12_Elections.Model C12_Elections.Proofs.
Import ListNotations.
Local Open Scope Z_scope.

(* ---- storage calls ---- *)
Lemma lookup_some now st k r : lookup now st k = Some r -> sget k st = Some r /\ expired now (snd r) = false.
Proof.
  unfold lookup. destruct (sget k st) as [[v e]|]; [|discriminate].
  destruct (expired now e) eqn:E; [discriminate|]. intros H; inversion H; subst; auto.
Qed.
Lemma lookup_live now st k v e : sget k st = Some (v, e) -> now < e -> lookup now st k = Some (v, e).
Proof.
  intros H L. unfold lookup. rewrite H. unfold expired.
  destruct (e <=? now) eqn:E; [apply Z.leb_le in E; lia|]. rewrite andb_false_r. reflexivity.
Qed.
Lemma ins_cases o now st k v d st' r : apply_out o st (st_ins now st k v d) = (st', r) ->
  (st' = st /\ r <> RTrue) \/ (lookup now st k = None /\ st' = sput k (v, exp_of now d) st).
Proof.
  unfold st_ins. destruct (lookup now st k) eqn:L; destruct o; cbn; intros H; inversion H; subst; auto;
    left; split; auto; discriminate.
Qed.
Lemma cas_cases o now st k v d st' r : apply_out o st (st_cas now st k v d) = (st', r) ->
  (st' = st /\ r <> RTrue) \/ (exists e0, lookup now st k = Some (v, e0) /\ st' = sput k (v, exp_of now d) st).
Proof.
  unfold st_cas. destruct (lookup now st k) as [[v' e0]|] eqn:L.
  - destruct (N.eqb_spec v' v).
    + subst. destruct o; cbn; intros H; inversion H; subst; eauto; left; split; auto; discriminate.
    + destruct o; cbn; intros H; inversion H; subst; left; split; auto; discriminate.
  - destruct o; cbn; intros H; inversion H; subst; left; split; auto; discriminate.
Qed.
Lemma cad_cases o now st k v st' r : apply_out o st (st_cad now st k v) = (st', r) ->
  st' = st \/ (exists e0, lookup now st k = Some (v, e0) /\ st' = sdel k st).
Proof.
  unfold st_cad. destruct (lookup now st k) as [[v' e0]|] eqn:L.
  - destruct (N.eqb_spec v' v).
    + subst. destruct o; cbn; intros H; inversion H; subst; eauto.
    + destruct o; cbn; intros H; inversion H; subst; auto.
  - destruct o; cbn; intros H; inversion H; subst; auto.
Qed.

(* storage calls leave the unexpired record (lv, e) of key lk alone unless they act on that
   key and compare with that value *)
Lemma A_ins now st st' k lk lv e (r : sres) x :
  sget lk st = Some (lv, e) -> now < e ->
  ((st' = st /\ r <> RTrue) \/ (lookup now st k = None /\ st' = sput k x st)) -> sget lk st' = Some (lv, e).
Proof.
  intros Hs Hn [(-> & _) | (L & ->)]; auto.
  rewrite sget_sput. destruct (N.eqb_spec lk k); auto. subst.
  rewrite (lookup_live _ _ _ _ _ Hs Hn) in L. discriminate.
Qed.
Lemma A_cas now st st' k (v : N) lk lv e (r : sres) x :
  sget lk st = Some (lv, e) -> now < e ->
  ((st' = st /\ r <> RTrue) \/ (exists e0, lookup now st k = Some (v, e0) /\ st' = sput k x st)) ->
  (lk = k -> lv <> v) -> sget lk st' = Some (lv, e).
Proof.
  intros Hs Hn [(-> & _) | (e0 & L & ->)] Hne; auto.
  rewrite sget_sput. destruct (N.eqb_spec lk k); auto. subst.
  apply lookup_some in L. destruct L as (L & _). rewrite Hs in L. inversion L. subst. exfalso. apply Hne; auto.
Qed.
Lemma A_cad now st st' k (v : N) lk lv e :
  sget lk st = Some (lv, e) -> now < e ->
  (st' = st \/ (exists e0, lookup now st k = Some (v, e0) /\ st' = sdel k st)) ->
  (lk = k -> lv <> v) -> sget lk st' = Some (lv, e).
Proof.
  intros Hs Hn [-> | (e0 & L & ->)] Hne; auto.
  rewrite sget_sdel. destruct (N.eqb_spec lk k); auto. subst.
  apply lookup_some in L. destruct L as (L & _). rewrite Hs in L. inversion L. subst. exfalso. apply Hne; auto.
Qed.

Section Mutex.
Variable c : cfg.
Hypothesis Hren : 4 <= c_ren c.

Ltac unf := unfold cancel, cancel_if, gone in *; unfold upd_li, upd_part in *;
  unfold set_lis, set_parts, set_stg, set_now, set_hist,
  set_live, set_ph, set_last, set_cad, set_api, set_map, set_fin in *; cbn [now stg parts lis hist
  lown lkey lval ldur llive lph llast lcad pfin pmap papi] in *.

Ltac inv_step H :=
  unfold step, g_release in H;
  repeat (match type of H with context [match ?x with _ => _ end] => destruct x eqn:? end; try discriminate H);
  inversion H; subst; clear H.

Ltac case_eqb :=
  match goal with
  | H : context [Nat.eqb ?a ?b] |- _ => destruct (Nat.eqb_spec a b); [subst|]
  | |- context [Nat.eqb ?a ?b] => destruct (Nat.eqb_spec a b); [subst|]
  | H : context [N.eqb ?a ?b] |- _ => destruct (N.eqb_spec a b); [subst|]
  | |- context [N.eqb ?a ?b] => destruct (N.eqb_spec a b); [subst|]
  end.

Ltac omap :=
  match goal with
  | H : option_map _ ?x = Some _ |- _ => destruct x eqn:?; cbn in H; [inversion H; subst; clear H | discriminate H]
  | H : Some _ = Some _ |- _ => inversion H; subst; clear H
  end.

Ltac rw_nth :=
  repeat match goal with
  | H : context [nth_error (upd _ _ _) _] |- _ => rewrite nth_upd in H
  | |- context [nth_error (upd _ _ _) _] => rewrite nth_upd
  | H : context [nth_error (_ ++ [_]) _] |- _ => rewrite nth_app_new in H
  | |- context [nth_error (_ ++ [_]) _] => rewrite nth_app_new
  | H : context [mget _ (mdel _ _)] |- _ => rewrite mget_mdel in H
  | |- context [mget _ (mdel _ _)] => rewrite mget_mdel
  | H : context [mget _ (mset _ _ _)] |- _ => rewrite mget_mset in H
  | |- context [mget _ (mset _ _ _)] => rewrite mget_mset
  end.

Ltac nthsimp := unfold li_at, pt_at in *; unf; rw_nth;
  repeat (first [case_eqb | omap]); cbn [lown lkey lval ldur llive lph llast lcad pfin pmap papi option_map] in *.

Ltac sat I :=
  repeat match goal with
  | H : nth_error (lis ?s) ?i = Some ?l |- _ =>
    lazymatch goal with _ : seen (i, l) |- _ => fail | _ => idtac end;
    assert (seen (i, l)) by exact Logic.I;
    pose proof (iL _ _ I _ _ H); pose proof (iH1 _ _ I _ _ H); pose proof (iT _ _ I _ _ H);
    pose proof (iM2 _ _ I _ _ H); pose proof (iG _ _ I _ _ H); pose proof (iP _ _ I _ _ H)
  | H : nth_error (parts ?s) ?p = Some ?q |- _ =>
    lazymatch goal with _ : seen (p, q) |- _ => fail | _ => idtac end;
    assert (seen (p, q)) by exact Logic.I;
    pose proof (iPc _ _ I _ _ H);
    pose proof (fun k j => iM1 _ _ I _ _ k j H)
  end.

Ltac rw_ph := repeat match goal with
  | E : papi ?q = _ |- _ => rewrite E in *
  | E : lph ?q = _ |- _ => rewrite E in * end.

Ltac destr := repeat match goal with H : _ /\ _ |- _ => destruct H | H : exists _, _ |- _ => destruct H end.

Ltac scbn := cbn [now stg parts lis hist lown lkey lval ldur llive lph llast lcad pfin pmap papi option_map early negb andb orb fst snd app length] in *.

Ltac start I H a := destruct a; inv_step H; intros; nthsimp; sat I; unfold timing, api_target, self_target, releasing, itv in *; rw_ph; scbn; destr.

Ltac same_idx := repeat match goal with
  | H1 : nth_error ?x ?i = Some ?a, H2 : nth_error ?x ?i = Some ?b |- _ =>
    tryif constr_eq a b then fail else (rewrite H1 in H2; inversion H2; subst; clear H2) end.

Ltac useM1 := repeat match goal with
  | Hm : forall k j, mget k (pmap ?q) = Some j -> exists _, _, E : mget ?k (pmap ?q) = Some ?j |- _ =>
    lazymatch goal with _ : seen (k, j, q) |- _ => fail | _ => idtac end;
    assert (seen (k, j, q)) by exact Logic.I;
    let l := fresh "lm" in destruct (Hm k j E) as (l & ? & ? & ?) end.

Ltac uniq I := unfold li_at in *; same_idx; repeat match goal with
  | H1 : nth_error (lis ?s) ?i = Some ?l1, H2 : nth_error (lis ?s) ?j = Some ?l2 |- _ =>
    tryif constr_eq i j then fail else
    (assert (i = j) by (apply (iI2 _ _ I i j l1 l2 H1 H2); congruence); subst; same_idx)
  end.

Ltac brk := repeat match goal with
  | |- context [match lph ?l with _ => _ end] => destruct (lph l) eqn:?
  | H : context [match lph ?l with _ => _ end] |- _ => destruct (lph l) eqn:?
  | |- context [match papi ?l with _ => _ end] => destruct (papi l) eqn:?
  | H : context [match papi ?l with _ => _ end] |- _ => destruct (papi l) eqn:?
  end.

Ltac bools := repeat match goal with
  | |- context [c_cfr ?c] => destruct (c_cfr c) eqn:?
  | |- context [c_cfc ?c] => destruct (c_cfc c) eqn:?
  | |- context [llive ?l] => destruct (llive l) eqn:?
  end.

Ltac useNo := match goal with
  | Hn : forall i l, nth_error (lis ?s) i = Some l -> lown l = _ -> lkey l = _ -> False,
    H : nth_error (lis ?s) ?i = Some ?l |- _ => solve [exfalso; apply (Hn i l H); congruence] end.

Ltac easy1 := first [tauto | lia | congruence | discriminate | useNo].

Ltac fin I := scbn; destr; try easy1; useM1; uniq I; try easy1; brk; scbn; destr; try easy1; bools; scbn;
  try easy1; try solve [intuition (try lia; try congruence; eauto)].

Ltac rw_known := repeat match goal with H : nth_error ?x ?i = Some _ |- context [nth_error ?x ?i] => rewrite H end.

Ltac andb_h := repeat match goal with
  | H : _ && _ = true |- _ => apply andb_true_iff in H; destruct H
  | H : negb (negb _) = true |- _ => rewrite negb_involutive in H
  | H : negb _ = true |- _ => apply negb_true_iff in H end.

Ltac m2old := repeat match goal with
  | H : _ -> _ -> exists q, _ |- _ =>
    first [ destruct H as (? & ? & ?); [ solve [auto | congruence] .. | ] | clear H ] end.

Ltac itvb := repeat match goal with
  | H : 1 <= ?d |- _ =>
    lazymatch goal with _ : seen (interval c d) |- _ => fail | _ => idtac end;
    assert (seen (interval c d)) by exact Logic.I;
    pose proof (interval_bound c d Hren H) end.

Ltac quiet_h := repeat match goal with
  | F : forallb (quiet_li ?t) (lis ?s) = true, H : nth_error (lis ?s) ?i = Some ?l |- _ =>
    lazymatch goal with _ : seen (t, l) |- _ => fail | _ => idtac end;
    assert (seen (t, l)) by exact Logic.I;
    let Q := fresh "Q" in pose proof (quiet_at _ _ _ _ F H) as Q; unfold quiet_li in Q
  | F : forallb idle_part (parts ?s) = true, H : nth_error (parts ?s) ?p = Some ?q |- _ =>
    lazymatch goal with _ : seen (F, q) |- _ => fail | _ => idtac end;
    assert (seen (F, q)) by exact Logic.I;
    pose proof (idle_at _ _ _ F H)
  end.

Ltac zb := repeat match goal with
  | H : (_ <=? _) = true |- _ => apply Z.leb_le in H
  | H : (_ <=? _) = false |- _ => apply Z.leb_gt in H
  | H : (_ <? _) = true |- _ => apply Z.ltb_lt in H
  | H : (_ <? _) = false |- _ => apply Z.ltb_ge in H end.

Ltac live_h := repeat match goal with H : llive ?l = true -> _, E : llive ?l = true |- _ => specialize (H E) end.

Ltac brk_goal := repeat match goal with
  | |- context [match lph ?l with _ => _ end] => destruct (lph l) eqn:?
  end.

(* participants use different values: a value determines the participant *)
Definition vals_distinct (h : list (nat * N * N)) : Prop :=
  forall e e', In e h -> In e' h -> snd e = snd e' -> fst (fst e) = fst (fst e').
Definition no_ext (a : action) : Prop := match a with ExtDelete _ => False | _ => True end.

Record InvA (s : state) : Prop := mkInvA {
  aA : forall i l, li_at s i l -> llive l = true -> lcad l = false ->
       exists e, sget (lkey l) (stg s) = Some (lval l, e) /\ llast l + ldur l * sec - msn < e;
  aB : forall p q k v d, pt_at s p q -> papi q = AInsRet k v d RTrue ->
       exists e, sget k (stg s) = Some (v, e) /\ now s + d * sec - msn < e
}.

(* a live, not yet released leadership's record has not expired *)
Lemma live_not_expired s i l e : InvT c s -> li_at s i l -> llive l = true ->
  llast l + ldur l * sec - msn < e -> now s < e.
Proof.
  intros I Hl Hv He. destruct (iL _ _ I _ _ Hl) as (_ & Hd).
  pose proof (interval_bound c _ Hren Hd) as (H0 & H4).
  pose proof (iT _ _ I _ _ Hl Hv) as T. unfold timing, itv in T.
  assert (now s <= llast l + 2 * interval c (ldur l)) by (destruct (lph l); lia).
  unfold sec, msn in *. lia.
Qed.

(* same key and same value: same leaderInfo *)
Lemma same_key_val s i j l l' : InvT c s -> vals_distinct (hist s) -> li_at s i l -> li_at s j l' ->
  lkey l = lkey l' -> lval l = lval l' -> i = j.
Proof.
  intros I V H1 H2 Ek Ev. apply (iI2 _ _ I i j l l' H1 H2); auto.
  apply (V _ _ (iH1 _ _ I _ _ H1) (iH1 _ _ I _ _ H2)). exact Ev.
Qed.

Ltac satA A :=
  repeat match goal with
  | H : nth_error (lis ?s) ?i = Some ?l |- _ =>
    lazymatch goal with _ : seen (A, i, l) |- _ => fail | _ => idtac end;
    assert (seen (A, i, l)) by exact Logic.I;
    pose proof (aA _ A _ _ H)
  end.

Lemma step_aA s a s' o : InvT c s -> InvA s -> vals_distinct (hist s) -> no_ext a -> step c s a = Some (s', o) ->
  forall i l, li_at s' i l -> llive l = true -> lcad l = false ->
  exists e, sget (lkey l) (stg s') = Some (lval l, e) /\ llast l + ldur l * sec - msn < e.
Proof.
  intros I A V NE H. start I H a; andb_h; unfold pt_at, li_at in *; same_idx; satA A; scbn; live_h;
    try contradiction; try easy1; try solve [eauto].
  all: try (match goal with Hc : apply_out _ _ (st_ins _ _ _ _ _) = _ |- _ => pose proof (ins_cases _ _ _ _ _ _ _ _ Hc) as Hcases
            | Hc : apply_out _ _ (st_cas _ _ _ _ _) = _ |- _ => pose proof (cas_cases _ _ _ _ _ _ _ _ Hc) as Hcases
            | Hc : apply_out _ _ (st_cad _ _ _ _) = _ |- _ => pose proof (cad_cases _ _ _ _ _ _ _ Hc) as Hcases end).
  all: try (match goal with Ha : lcad ?l = false -> exists e, _, Hc : lcad ?l = false |- _ => destruct (Ha Hc) as (e & Hs & He) end).
  all: try (match goal with Hl : nth_error (lis ?s0) ?i = Some ?l, Hs : sget (lkey ?l) (stg ?s0) = Some (lval ?l, ?e) |- _ =>
              assert (now s0 < e) as Hne by (apply (live_not_expired s0 i l e I Hl); assumption) end).
  all: try solve [exists e; split; [|assumption];
         first [ eapply A_ins; [exact Hs | exact Hne | exact Hcases]
               | eapply A_cas; [exact Hs | exact Hne | exact Hcases | ]
               | eapply A_cad; [exact Hs | exact Hne | exact Hcases | ] ];
         intros Ek Ev; match goal with
           | Ha : nth_error (lis ?s0) ?i = Some ?l, Hb : nth_error (lis ?s0) ?j = Some ?l', Hn : ?i <> ?j |- _ =>
             apply Hn; apply (same_key_val s0 i j l l' I V Ha Hb); congruence end].
  all: try solve [destruct Hcases as [(-> & Hr) | (e0 & L & ->)];
         [ first [congruence | exists e; split; [exact Hs | assumption]]
         | rewrite sget_sput, N.eqb_refl; eexists; split; [reflexivity|];
           match goal with Hd : 1 <= ldur ?l |- context [exp_of ?n (ldur ?l)] => pose proof (exp_of_gt n (ldur l) Hd) end; lia ]].
  exact (aB _ A _ _ _ _ _ Heqo0 Heqa).
Qed.

Lemma step_aB s a s' o : InvT c s -> InvA s -> vals_distinct (hist s) -> no_ext a -> wf_action a -> step c s a = Some (s', o) ->
  forall p q k v d, pt_at s' p q -> papi q = AInsRet k v d RTrue ->
  exists e, sget k (stg s') = Some (v, e) /\ now s' + d * sec - msn < e.
Proof.
  intros I A V NE W H. start I H a; try (exfalso; exact W); andb_h; unfold pt_at, li_at in *; same_idx; scbn;
    try contradiction; try easy1;
    try solve [match goal with Hq : nth_error (parts _) _ = Some ?q, E : papi ?q = AInsRet _ _ _ RTrue |- _ => exact (aB _ A _ _ _ _ _ Hq E) end].
  all: try (match goal with Hc : apply_out _ _ (st_ins _ _ _ _ _) = _ |- _ => pose proof (ins_cases _ _ _ _ _ _ _ _ Hc) as Hcases
            | Hc : apply_out _ _ (st_cas _ _ _ _ _) = _ |- _ => pose proof (cas_cases _ _ _ _ _ _ _ _ Hc) as Hcases
            | Hc : apply_out _ _ (st_cad _ _ _ _) = _ |- _ => pose proof (cad_cases _ _ _ _ _ _ _ Hc) as Hcases end).
  all: try solve [exfalso; match goal with F : forallb idle_part _ = true, Hq : nth_error (parts _) _ = Some ?q, E : papi ?q = _ |- _ =>
                    pose proof (idle_at _ _ _ F Hq); congruence end].
  all: try (match goal with Hq : nth_error (parts _) _ = Some ?q, E : papi ?q = AInsRet _ _ _ RTrue |- _ =>
              destruct (aB _ A _ _ _ _ _ Hq E) as (e & Hs & He);
              assert (now s < e) as Hne by (unfold sec, msn in *; lia) end).
  all: try solve [exists e; split; [|assumption];
         first [ eapply A_ins; [exact Hs | exact Hne | exact Hcases]
               | eapply A_cas; [exact Hs | exact Hne | exact Hcases | ]
               | eapply A_cad; [exact Hs | exact Hne | exact Hcases | ] ];
         intros Ek Ev;
         match goal with Hx : In (lown ?x, lkey ?x, lval ?x) (hist ?s0), Hp : In (?p1, ?k, ?v) (hist ?s0),
                         Hno : forall i l, nth_error (lis ?s0) i = Some l -> lown l = ?p1 -> lkey l = ?k -> False,
                         Hl : nth_error (lis ?s0) ?j = Some ?x |- _ =>
           apply (Hno j x Hl); [ apply (V _ _ Hx Hp); cbn; congruence | congruence ] end].
  inversion H0; subst. destruct Hcases as [(_ & Hr) | (L & ->)]; [congruence|].
  rewrite sget_sput, N.eqb_refl. eexists; split; [reflexivity|]. apply exp_of_gt; assumption.
Qed.

Lemma step_InvA s a s' o : InvT c s -> InvA s -> vals_distinct (hist s) -> no_ext a -> wf_action a -> step c s a = Some (s', o) -> InvA s'.
Proof. intros I A V NE W H. constructor; [eapply step_aA | eapply step_aB]; eauto. Qed.

Lemma init_InvA np : InvA (init np).
Proof.
  constructor; unfold li_at, pt_at, init; cbn; intros.
  - destruct i; discriminate.
  - apply nth_error_In in H. apply repeat_spec in H. subst. discriminate.
Qed.

Definition mdom (a : action) : Prop := wf_action a /\ no_ext a.

Lemma vals_suffix (l h : list (nat * N * N)) : vals_distinct (l ++ h) -> vals_distinct h.
Proof. intros V e e' H1 H2. apply V; apply in_or_app; auto. Qed.

Lemma run_InvA acts : forall s s', InvT c s -> InvA s -> Forall mdom acts ->
  fresh_run c s acts -> vals_distinct (hist s') ->
  run c s acts = Some s' -> InvT c s' /\ InvA s'.
Proof.
  induction acts as [|a r IH]; intros s s' I A W F V H; cbn in H.
  - inversion H; subst; auto.
  - cbn in F. destruct F as (Fa & Fr). destruct (step c s a) as [[s1 o]|] eqn:E; [|discriminate].
    inversion W as [|? ? (Wa & Na) Wr]; subst.
    pose proof (run_hist c _ _ _ H) as Hh. pose proof (step_hist c _ _ _ _ E) as Hs.
    assert (vals_distinct (hist s1)) as V1 by (rewrite Hh in V; eapply vals_suffix; eauto).
    assert (vals_distinct (hist s)) as V0.
    { intros e e' H1 H2. apply V1; rewrite Hs; destruct a; auto; right; auto. }
    apply (IH s1 s'); auto.
    + eapply step_InvT; eauto.
    + eapply step_InvA; eauto.
Qed.

(* at most one live leadership per key among those for which no release/cleanup CompareAndDelete
   has been issued yet *)
Lemma mutex_window_proved np acts s i j l l' :
  Forall mdom acts -> fresh_run c (init np) acts -> vals_distinct (acq_calls acts) ->
  run c (init np) acts = Some s ->
  li_at s i l -> li_at s j l' -> lkey l = lkey l' ->
  llive l = true -> llive l' = true -> lcad l = false -> lcad l' = false -> i = j.
Proof.
  intros W ND' V R Hi Hj Ek L1 L2 C1 C2.
  pose proof (run_hist c _ _ _ R) as Hh. cbn in Hh. rewrite app_nil_r in Hh.
  assert (vals_distinct (hist s)) as V'.
  { rewrite Hh. intros e e' H1 H2. apply V; apply in_rev; auto. }
  destruct (run_InvA acts (init np) s (init_InvT c np) (init_InvA np) W ND' V' R) as (I & A).
  destruct (aA _ A _ _ Hi L1 C1) as (e1 & S1 & _). destruct (aA _ A _ _ Hj L2 C2) as (e2 & S2 & _).
  rewrite Ek, S2 in S1. inversion S1. eapply same_key_val; eauto.
Qed.

(* with cancel() before CompareAndDelete a leadership for which the delete was issued is dead *)
Definition cad_dead (s : state) : Prop := forall i l, li_at s i l -> lcad l = true -> llive l = false.

Lemma step_cad_dead s a s' o : c_cfr c = true -> c_cfc c = true -> InvT c s -> cad_dead s ->
  step c s a = Some (s', o) -> cad_dead s'.
Proof.
  intros Cr Cc I D H. unfold cad_dead in *.
  start I H a; andb_h; unfold pt_at, li_at in *; same_idx; scbn;
    repeat match goal with Hl : nth_error (lis _) ?i = Some ?l |- _ =>
      lazymatch goal with _ : seen (D, i) |- _ => fail | _ => idtac end;
      assert (seen (D, i)) by exact Logic.I; pose proof (D _ _ Hl) end;
    rewrite ?Cr, ?Cc in *; scbn; rewrite ?andb_false_r; try easy1; try solve [auto];
    try solve [intuition congruence].
  all: rewrite ?andb_true_r; try (match goal with |- ?a && _ = false => assert (a = false) as -> by auto; reflexivity end); auto.
Qed.

Lemma run_cad_dead acts : forall s s', c_cfr c = true -> c_cfc c = true -> InvT c s -> cad_dead s ->
  Forall wf_action acts -> fresh_run c s acts -> run c s acts = Some s' -> cad_dead s'.
Proof.
  induction acts as [|a r IH]; intros s s' Cr Cc I D W F H; cbn in H.
  - inversion H; subst; auto.
  - cbn in F. destruct F as (Fa & Fr). destruct (step c s a) as [[s1 o]|] eqn:E; [|discriminate]. inversion W; subst.
    apply (IH s1 s'); auto.
    + eapply step_InvT; eauto.
    + eapply step_cad_dead; eauto.
Qed.

(* full mutual exclusion for the cancel-first order of release and cleanup *)
Lemma mutex_cancel_first_proved np acts s i j l l' :
  c_cfr c = true -> c_cfc c = true ->
  Forall mdom acts -> fresh_run c (init np) acts -> vals_distinct (acq_calls acts) ->
  run c (init np) acts = Some s ->
  li_at s i l -> li_at s j l' -> lkey l = lkey l' -> llive l = true -> llive l' = true -> i = j.
Proof.
  intros Cr Cc W ND V R Hi Hj Ek L1 L2.
  assert (cad_dead s) as D.
  { eapply (run_cad_dead acts (init np) s); eauto using init_InvT.
    - intros i0 l0 H. destruct i0; discriminate H.
    - eapply Forall_impl; [|exact W]. intros a (Wa & _); exact Wa. }
  assert (forall k l0, li_at s k l0 -> llive l0 = true -> lcad l0 = false) as Nc.
  { intros k l0 Hk Hv. destruct (lcad l0) eqn:E; auto. rewrite (D _ _ Hk E) in Hv. discriminate. }
  eapply mutex_window_proved; eauto.
Qed.

(* ---- release / cleanup touch only an own record ---- *)
Definition quiet_release_action (a : action) : bool :=
  match a with RelCall _ _ | ClnCall _ | ClnPick _ _ | ApiCadRet _ | WaitDone _ | GCadRet _ => true | _ => false end.

Lemma release_steps_keep_store s a s' o : quiet_release_action a = true -> step c s a = Some (s', o) -> stg s' = stg s.
Proof. intros Q H. destruct a; try discriminate Q; inv_step H; reflexivity. Qed.

(* the CompareAndDelete of a release/cleanup by participant p: every key keeps its record, or
   loses a record that holds the value of one of p's own leaderships *)
Definition own_delete (s s' : state) (p : nat) : Prop :=
  forall k, sget k (stg s') = sget k (stg s) \/
    (sget k (stg s') = None /\ exists j lj e, li_at s j lj /\ lown lj = p /\ sget k (stg s) = Some (lval lj, e)).

Lemma sdel_own s k0 v e0 p j lj : li_at s j lj -> lown lj = p -> lval lj = v ->
  lookup (now s) (stg s) k0 = Some (v, e0) ->
  forall k, sget k (sdel k0 (stg s)) = sget k (stg s) \/
    (sget k (sdel k0 (stg s)) = None /\ exists j lj e, li_at s j lj /\ lown lj = p /\ sget k (stg s) = Some (lval lj, e)).
Proof.
  intros Hl Ho Ev L k. rewrite sget_sdel. destruct (N.eqb_spec k k0); auto. subst k.
  right. split; auto. apply lookup_some in L. destruct L as (L & _). exists j, lj, e0. subst v. auto.
Qed.

Lemma api_cad_own s p o s' out : InvT c s -> step c s (ApiCadEff p o) = Some (s', out) -> own_delete s s' p.
Proof.
  intros I H. unfold own_delete. inv_step H; unf;
    match goal with Hq : nth_error (parts s) p = Some ?q |- _ => pose proof (iPc _ _ I _ _ Hq) as T end;
    unfold api_target in T;
    match goal with E : papi _ = _ |- _ => rewrite E in T end; destruct T as (lj & Hj & Ho & T);
    unfold li_at in Hj; same_idx;
    match goal with Hc : apply_out _ _ (st_cad _ _ _ _) = _ |- _ => destruct (cad_cases _ _ _ _ _ _ _ Hc) as [-> | (e0 & L & ->)] end;
    auto; eapply sdel_own; eauto.
Qed.

Lemma g_cad_own s i l o s' out : InvT c s -> li_at s i l -> step c s (GCadEff i o) = Some (s', out) -> own_delete s s' (lown l).
Proof.
  intros I Hl H. unfold own_delete, li_at in *. pose proof (iP _ _ I _ _ Hl) as T. unfold self_target in T.
  inv_step H; unf. same_idx.
  inversion Hl; subst l0. rewrite Heqm in T. destruct T as (-> & _). same_idx.
  match goal with Hc : apply_out _ _ (st_cad _ _ _ _) = _ |- _ => destruct (cad_cases _ _ _ _ _ _ _ Hc) as [-> | (e0 & L & ->)] end;
    auto; eapply sdel_own; eauto.
Qed.

(* ---- termination measures ---- *)
Definition arank (a : aphase) : nat :=
  match a with
  | ACln | ARelCad _ => 3 | AClnCad _ _ | ARelCadRet _ => 2 | AClnCadRet _ _ | ARelWait _ => 1 | _ => 0
  end.
Definition cln_keys (q : part) : nat :=
  match papi q with
  | AClnCad k _ | AClnCadRet k _ | AClnWait k _ =>
    match mget k (pmap q) with Some _ => length (pmap q) | None => S (length (pmap q)) end
  | _ => length (pmap q)
  end.
Definition api_measure (q : part) : nat := 4 * cln_keys q + arank (papi q).
Definition api_work (a : action) (p : nat) : bool :=
  match a with
  | ClnPick p' (Some _) | ApiCadEff p' _ | ApiCadRet p' | WaitDone p' => Nat.eqb p p'
  | _ => false
  end.

Lemma mdel_none_len k m : mget k m = None -> length (mdel k m) = length m.
Proof.
  induction m as [|[a j] t IH]; cbn; auto. destruct (N.eqb k a); [discriminate|]. cbn. intros H. rewrite IH; auto.
Qed.

(* every step of a release or cleanup call strictly decreases the caller's measure *)
Lemma api_progress s a s' o p q q' : api_work a p = true -> step c s a = Some (s', o) ->
  pt_at s p q -> pt_at s' p q' -> (api_measure q' < api_measure q)%nat.
Proof.
  intros Wk H Hq Hq'. unfold pt_at in *.
  destruct a; try discriminate Wk; try (destruct k; try discriminate Wk);
    apply Nat.eqb_eq in Wk; subst; inv_step H; unf; rw_nth; rewrite ?Nat.eqb_refl in *; same_idx; repeat omap; same_idx;
    unfold api_measure, cln_keys; scbn;
    repeat match goal with E : papi _ = _ |- _ => rewrite E end; scbn; rw_nth; rewrite ?N.eqb_refl;
    repeat match goal with E : mget _ _ = _ |- _ => rewrite E end; try lia.
  all: cbn [arank]; try (destruct (mget k (pmap q)) eqn:Em); try lia.
  - pose proof (mdel_len_lt _ _ _ Em). lia.
  - rewrite (mdel_none_len _ _ Em). lia.
Qed.

Definition grank (ph : mphase) : nat :=
  match ph with MCas _ => 6 | MCasRet _ _ => 5 | MRetry _ _ | MWait _ => 4 | MCad _ => 2 | MCadRet _ => 1 | MGone => 0 end.
Definition g_work (a : action) (i : nat) : bool :=
  match a with
  | Tick j | CasEff j _ | CasRet j | Retry j | Deadline j | GCadEff j _ | GCadRet j | Exit j => Nat.eqb i j
  | _ => false
  end.

(* every step of a cancelled renewal goroutine brings it closer to its return *)
Lemma cancelled_goroutine_progress s a s' o i l l' : g_work a i = true -> step c s a = Some (s', o) ->
  li_at s i l -> llive l = false -> li_at s' i l' -> (grank (lph l') < grank (lph l))%nat /\ llive l' = false.
Proof.
  intros Wk H Hl Hv Hl'. unfold li_at in *.
  destruct a; try discriminate Wk; apply Nat.eqb_eq in Wk; subst; inv_step H; unf; rw_nth;
    rewrite ?Nat.eqb_refl in *; same_idx; repeat (first [case_eqb | omap]); same_idx; scbn;
    repeat match goal with E : lph _ = _ |- _ => rewrite E end; scbn; rewrite ?Hv; scbn;
    try (split; [lia | reflexivity]); try congruence.
  all: cbn [grank]; split; [lia | reflexivity].
Qed.

(* ---- step-down bound when the renewal goroutine cancels its context on every return ---- *)
Definition dur_ok (a : aphase) : Prop := match a with AIns _ _ d | AInsRet _ _ d _ => 1 <= d | _ => True end.
Record InvS (s : state) : Prop := mkInvS {
  sL : forall i l, li_at s i l -> llast l <= now s /\ 1 <= ldur l;
  sD : forall p q, pt_at s p q -> dur_ok (papi q);
  sT : forall i l, li_at s i l -> llive l = true -> timing c s i l /\ lph l <> MGone
}.
Ltac satS S :=
  repeat match goal with
  | H : nth_error (lis ?s) ?i = Some ?l |- _ =>
    lazymatch goal with _ : seen (S, i, l) |- _ => fail | _ => idtac end;
    assert (seen (S, i, l)) by exact Logic.I;
    pose proof (sL _ S _ _ H); pose proof (sT _ S _ _ H)
  | H : nth_error (parts ?s) ?p = Some ?q |- _ =>
    lazymatch goal with _ : seen (S, p, q) |- _ => fail | _ => idtac end;
    assert (seen (S, p, q)) by exact Logic.I;
    pose proof (sD _ S _ _ H)
  end.

Lemma step_InvS s a s' o : c_coe c = true -> InvS s -> wf_action a -> step c s a = Some (s', o) -> InvS s'.
Proof.
  intros Ce S W H. constructor.
  - destruct a; inv_step H; intros; nthsimp; satS S; unfold dur_ok in *; rw_ph; scbn; destr; try lia.
  - destruct a; inv_step H; intros; nthsimp; satS S; unfold dur_ok in *; rw_ph; scbn; destr; try easy1; cbn in W; try lia.
  - destruct a; inv_step H; try (exfalso; exact W); intros; nthsimp; satS S; unfold dur_ok, timing, itv in *; rewrite ?Ce in *; rw_ph; scbn;
      andb_h; quiet_h; rw_ph; scbn; andb_h; zb; destr; itvb; destr; try easy1; live_h; destr;
      brk_goal; rw_ph; scbn; andb_h; zb; destr; try easy1;
      try (split; [repeat split; first [lia | discriminate | intros; lia] | discriminate]).
  split; [pose proof (H10 eq_refl); lia | discriminate].
Qed.

Lemma init_InvS np : InvS (init np).
Proof.
  constructor; unfold li_at, pt_at, init; cbn; intros;
    try (match goal with H : nth_error [] ?i = Some _ |- _ => destruct i; discriminate H end).
  apply nth_error_In in H. apply repeat_spec in H. subst. exact Logic.I.
Qed.

Lemma run_InvS acts : forall s s', c_coe c = true -> InvS s -> Forall wf_action acts ->
  run c s acts = Some s' -> InvS s'.
Proof.
  induction acts as [|a r IH]; intros s s' Ce S W H; cbn in H.
  - inversion H; subst; auto.
  - destruct (step c s a) as [[s1 o]|] eqn:E; [|discriminate]. inversion W; subst.
    apply (IH s1 s'); auto. eapply step_InvS; eauto.
Qed.

(* with cancel() on every return of the renewal goroutine the bound holds for every history *)
Lemma step_down_bound_coe_proved np acts s i l :
  c_coe c = true -> Forall wf_action acts -> run c (init np) acts = Some s ->
  li_at s i l -> llive l = true ->
  now s <= llast l + 2 * interval c (ldur l) /\ 2 * (2 * interval c (ldur l)) <= ldur l * sec.
Proof.
  intros Ce W R Hl Hv. pose proof (run_InvS acts _ _ Ce (init_InvS np) W R) as S.
  destruct (sL _ S _ _ Hl) as (_ & Hd). pose proof (interval_bound c _ Hren Hd) as (H0 & H4).
  destruct (sT _ S _ _ Hl Hv) as (T & _). unfold timing, itv in T. split; [|lia].
  destruct (lph l); lia.
Qed.
End Mutex.
