(* C12 - leader elections (pkg/ielections/impl.go) as a timed interleaving model.
   Definitions only.  Threads: one API caller per participant (AcquireLeadership /
   ReleaseLeadership / cleanup, sequential per participant) and one maintainLeadership goroutine
   per acquired leadership (leaderInfo).  An action is the piece of code a thread executes between
   two storage-call boundaries (entry or return of InsertIfNotExist / CompareAndSwap /
   CompareAndDelete), a timer wake-up, or a return of the API call: exactly the points at which the
   harness can hold a thread.  Time is in ns; the TTL storage keeps expiry in whole ms like
   istorage (DataWithExpiration.IsExpired: expired iff now >= expireAt). *)
From Coq Require Import List NArith ZArith Lia Bool.
From V Require Import Lib.Check Gen.Params.
Import ListNotations.
Local Open Scope Z_scope.

(* ---- configuration taken from the Go source by the translator ---- *)
Record cfg := mkCfg {
  c_ren : Z;          (* renewalsPerLeadershipDur *)
  c_retry : Z;        (* retry period in renewWithRetry, ns *)
  c_cfr : bool;       (* releaseLeadership: cancel() before CompareAndDelete *)
  c_cfc : bool;       (* cleanup: cancel() before CompareAndDelete *)
  c_coe : bool        (* maintainLeadership: cancel() whenever the goroutine returns *)
}.
Definition go_cfg : cfg :=
  mkCfg elect_renewals elect_retry_ns elect_release_cancel_first elect_cleanup_cancel_first elect_cancel_on_exit.

Definition sec : Z := 1000000000.
Definition msn : Z := 1000000.
(* tickerInterval := time.Duration(D) * time.Second / renewalsPerLeadershipDur (Go division truncates) *)
Definition interval (c : cfg) (d : Z) : Z := Z.quot (d * sec) (c_ren c).

(* ---- TTL storage: key -> (value, expireAt ns, 0 = none) ---- *)
Inductive outcome := ONormal | OErrBefore | OErrAfter | OForceFalse.
Inductive sres := RTrue | RFalse | RErr.
Definition sres_eqb (a b : sres) : bool :=
  match a, b with RTrue, RTrue | RFalse, RFalse | RErr, RErr => true | _, _ => false end.

Definition store := list (N * (N * Z)).
Fixpoint sget (k : N) (s : store) : option (N * Z) :=
  match s with [] => None | (k', r) :: t => if N.eqb k k' then Some r else sget k t end.
Fixpoint sdel (k : N) (s : store) : store :=
  match s with [] => [] | (k', r) :: t => if N.eqb k k' then sdel k t else (k', r) :: sdel k t end.
Definition sput (k : N) (r : N * Z) (s : store) : store := (k, r) :: sdel k s.

Definition expired (now e : Z) : bool := (0 <? e) && (e <=? now).
Definition lookup (now : Z) (s : store) (k : N) : option (N * Z) :=
  match sget k s with Some (v, e) => if expired now e then None else Some (v, e) | None => None end.
(* expireAt = now.Add(ttl seconds).UnixMilli() *)
Definition exp_of (now d : Z) : Z := if 0 <? d then (now + d * sec) / msn * msn else 0.

Definition st_ins (now : Z) (s : store) (k v : N) (d : Z) : store * bool :=
  match lookup now s k with Some _ => (s, false) | None => (sput k (v, exp_of now d) s, true) end.
Definition st_cas (now : Z) (s : store) (k v : N) (d : Z) : store * bool :=
  match lookup now s k with
  | Some (v', _) => if N.eqb v' v then (sput k (v, exp_of now d) s, true) else (s, false)
  | None => (s, false) end.
Definition st_cad (now : Z) (s : store) (k v : N) : store * bool :=
  match lookup now s k with
  | Some (v', _) => if N.eqb v' v then (sdel k s, true) else (s, false)
  | None => (s, false) end.
(* scripted outcome of one storage call *)
Definition apply_out (o : outcome) (s : store) (r : store * bool) : store * sres :=
  match o with
  | ONormal => (fst r, if snd r then RTrue else RFalse)
  | OErrBefore => (s, RErr)
  | OErrAfter => (fst r, RErr)
  | OForceFalse => (s, RFalse)
  end.

(* ---- threads ---- *)
Inductive mphase :=
| MWait (tick : Z)                 (* parked on the ticker *)
| MCas (dl : Z)                    (* at the entry of CompareAndSwap; dl = retry deadline = next tick *)
| MCasRet (dl : Z) (r : sres)      (* CompareAndSwap performed, its return not yet delivered *)
| MRetry (dl rt : Z)               (* parked on ctx.Done / deadline / retry timer *)
| MCad (j : nat)                   (* releaseLeadership found leaderInfo j; at the entry of CompareAndDelete *)
| MCadRet (j : nat)                (* CompareAndDelete performed, return not yet delivered *)
| MGone.                           (* goroutine returned *)

Inductive aphase :=
| AIdle
| AIns (k v : N) (d : Z)
| AInsRet (k v : N) (d : Z) (r : sres)
| ARelCad (j : nat) | ARelCadRet (j : nat) | ARelWait (j : nat)
| ACln
| AClnCad (k : N) (j : nat) | AClnCadRet (k : N) (j : nat) | AClnWait (k : N) (j : nat).

Record linfo := mkLi {
  lown : nat; lkey : N; lval : N; ldur : Z;
  llive : bool;        (* ctx not cancelled *)
  lph : mphase;
  llast : Z;           (* ghost: instant of the last successful InsertIfNotExist/CompareAndSwap *)
  lcad : bool          (* ghost: a release/cleanup CompareAndDelete for it has been performed *)
}.
Definition set_live (b : bool) (l : linfo) := mkLi (lown l) (lkey l) (lval l) (ldur l) b (lph l) (llast l) (lcad l).
Definition set_ph (p : mphase) (l : linfo) := mkLi (lown l) (lkey l) (lval l) (ldur l) (llive l) p (llast l) (lcad l).
Definition set_last (t : Z) (l : linfo) := mkLi (lown l) (lkey l) (lval l) (ldur l) (llive l) (lph l) t (lcad l).
Definition set_cad (l : linfo) := mkLi (lown l) (lkey l) (lval l) (ldur l) (llive l) (lph l) (llast l) true.

Record part := mkPart { pfin : bool; pmap : list (N * nat); papi : aphase }.
Definition set_api (a : aphase) (p : part) := mkPart (pfin p) (pmap p) a.
Definition set_map (m : list (N * nat)) (p : part) := mkPart (pfin p) m (papi p).
Definition set_fin (p : part) := mkPart true (pmap p) (papi p).

Fixpoint mget (k : N) (m : list (N * nat)) : option nat :=
  match m with [] => None | (k', j) :: t => if N.eqb k k' then Some j else mget k t end.
Fixpoint mdel (k : N) (m : list (N * nat)) : list (N * nat) :=
  match m with [] => [] | (k', j) :: t => if N.eqb k k' then mdel k t else (k', j) :: mdel k t end.
Definition mset (k : N) (j : nat) (m : list (N * nat)) := (k, j) :: mdel k m.

Record state := mkSt {
  now : Z; stg : store; parts : list part; lis : list linfo;
  hist : list (nat * N * N)   (* ghost: (participant, key, value) of every AcquireLeadership call, newest first *)
}.
Definition set_now t s := mkSt t (stg s) (parts s) (lis s) (hist s).
Definition set_stg x s := mkSt (now s) x (parts s) (lis s) (hist s).
Definition set_parts x s := mkSt (now s) (stg s) x (lis s) (hist s).
Definition set_lis x s := mkSt (now s) (stg s) (parts s) x (hist s).
Definition set_hist x s := mkSt (now s) (stg s) (parts s) (lis s) x.

Fixpoint upd {A} (l : list A) (i : nat) (f : A -> A) : list A :=
  match l, i with
  | [], _ => []
  | x :: t, O => f x :: t
  | x :: t, S i' => x :: upd t i' f
  end.
Definition upd_li (i : nat) (f : linfo -> linfo) (s : state) := set_lis (upd (lis s) i f) s.
Definition upd_part (p : nat) (f : part -> part) (s : state) := set_parts (upd (parts s) p f) s.
Definition cancel (j : nat) (s : state) := upd_li j (set_live false) s.
Definition cancel_if (b : bool) (j : nat) (s : state) := upd_li j (fun l => set_live (llive l && negb b) l) s.
(* the renewal goroutine returns *)
Definition gone (c : cfg) (l : linfo) := set_live (llive l && negb (c_coe c)) (set_ph MGone l).

Inductive gate := GIns | GCas | GCad.
Inductive out :=
| ONone
| ORes (r : sres)                       (* result the storage call hands to the election code *)
| ORetNil                               (* the API call returned (AcquireLeadership: nil) *)
| ORetCtx (id : nat)                    (* AcquireLeadership returned the context of leaderInfo id *)
| OGate (g : gate) (k v : N) (d : Z).   (* the thread arrived at a storage call with these arguments *)

Inductive action :=
| Advance (dt : Z)
| AdvanceInCall (dt : Z)   (* time the code does not notice, outside the urgency assumption: the clock moves
                              while threads are inside storage calls / between a call's effect and the code's
                              reaction, or past due timers (late timer delivery: stall, clock jump) *)
| ExtDelete (k : N)
| AcqCall (p : nat) (k v : N) (d : Z)
| InsEff (p : nat) (o : outcome)
| InsRet (p : nat)
| RelCall (p : nat) (k : N)
| ClnCall (p : nat)
| ClnPick (p : nat) (k : option N)
| ApiCadEff (p : nat) (o : outcome)
| ApiCadRet (p : nat)
| WaitDone (p : nat)
| Tick (i : nat)
| CasEff (i : nat) (o : outcome)
| CasRet (i : nat)
| Retry (i : nat)
| Deadline (i : nat)
| GCadEff (i : nat) (o : outcome)
| GCadRet (i : nat)
| Exit (i : nat).

(* urgency: time passes only while every thread is parked, and not beyond a due timer of a live one *)
Definition quiet_li (t : Z) (l : linfo) : bool :=
  match lph l with
  | MGone => true
  | MWait tk => llive l && (t <=? tk)
  | MRetry dl rt => llive l && (t <=? dl) && (t <=? rt)
  | _ => false
  end.
Definition idle_part (p : part) : bool := match papi p with AIdle => true | _ => false end.

(* releaseLeadership called by the goroutine of leaderInfo i (value li): LoadAndDelete, then the
   CompareAndDelete call (preceded by cancel() when the order is cancel-first) *)
Definition g_release (c : cfg) (s : state) (i : nat) (li : linfo) : option (state * out) :=
  match nth_error (parts s) (lown li) with
  | None => None
  | Some pt =>
    match mget (lkey li) (pmap pt) with
    | None => Some (upd_li i (gone c) s, ONone)
    | Some j =>
      match nth_error (lis s) j with
      | None => None
      | Some lj =>
        let s1 := upd_part (lown li) (set_map (mdel (lkey li) (pmap pt))) s in
        let s2 := cancel_if (c_cfr c) j s1 in
        Some (upd_li i (set_ph (MCad j)) s2, OGate GCad (lkey li) (lval lj) 0)
      end
    end
  end.

Definition step (c : cfg) (s : state) (a : action) : option (state * out) :=
  match a with
  | Advance dt =>
    if (0 <=? dt) && forallb idle_part (parts s) && forallb (quiet_li (now s + dt)) (lis s)
    then Some (set_now (now s + dt) s, ONone) else None
  | AdvanceInCall dt =>
    if 0 <=? dt then Some (set_now (now s + dt) s, ONone) else None
  | ExtDelete k => Some (set_stg (sdel k (stg s)) s, ONone)
  | AcqCall p k v d =>
    match nth_error (parts s) p with
    | Some pt =>
      match papi pt with
      | AIdle =>
        let s1 := set_hist ((p, k, v) :: hist s) s in
        if pfin pt then Some (s1, ORetNil)
        else Some (upd_part p (set_api (AIns k v d)) s1, OGate GIns k v d)
      | _ => None end
    | None => None end
  | InsEff p o =>
    match nth_error (parts s) p with
    | Some pt =>
      match papi pt with
      | AIns k v d =>
        let (st', r) := apply_out o (stg s) (st_ins (now s) (stg s) k v d) in
        Some (upd_part p (set_api (AInsRet k v d r)) (set_stg st' s), ORes r)
      | _ => None end
    | None => None end
  | InsRet p =>
    match nth_error (parts s) p with
    | Some pt =>
      match papi pt with
      | AInsRet k v d RTrue =>
        let id := length (lis s) in
        let li := mkLi p k v d true (MWait (now s + interval c d)) (now s) false in
        let s1 := set_lis (lis s ++ [li]) s in
        Some (upd_part p (fun q => set_api AIdle (set_map (mset k id (pmap q)) q)) s1, ORetCtx id)
      | AInsRet _ _ _ _ => Some (upd_part p (set_api AIdle) s, ORetNil)
      | _ => None end
    | None => None end
  | RelCall p k =>
    match nth_error (parts s) p with
    | Some pt =>
      match papi pt with
      | AIdle =>
        match mget k (pmap pt) with
        | None => Some (s, ORetNil)
        | Some j =>
          match nth_error (lis s) j with
          | Some lj =>
            let s1 := upd_part p (fun q => set_api (ARelCad j) (set_map (mdel k (pmap q)) q)) s in
            Some (cancel_if (c_cfr c) j s1, OGate GCad k (lval lj) 0)
          | None => None end
        end
      | _ => None end
    | None => None end
  | ClnCall p =>
    match nth_error (parts s) p with
    | Some pt =>
      match papi pt with
      | AIdle => Some (upd_part p (fun q => set_api ACln (set_fin q)) s, ONone)
      | _ => None end
    | None => None end
  | ClnPick p ok =>
    match nth_error (parts s) p with
    | Some pt =>
      match papi pt, ok with
      | ACln, None => match pmap pt with [] => Some (upd_part p (set_api AIdle) s, ORetNil) | _ => None end
      | ACln, Some k =>
        match mget k (pmap pt) with
        | Some j =>
          match nth_error (lis s) j with
          | Some lj => Some (cancel_if (c_cfc c) j (upd_part p (set_api (AClnCad k j)) s), OGate GCad k (lval lj) 0)
          | None => None end
        | None => None end
      | _, _ => None end
    | None => None end
  | ApiCadEff p o =>
    match nth_error (parts s) p with
    | Some pt =>
      match papi pt with
      | ARelCad j =>
        match nth_error (lis s) j with
        | Some lj =>
          let (st', r) := apply_out o (stg s) (st_cad (now s) (stg s) (lkey lj) (lval lj)) in
          Some (upd_part p (set_api (ARelCadRet j)) (upd_li j set_cad (set_stg st' s)), ORes r)
        | None => None end
      | AClnCad k j =>
        match nth_error (lis s) j with
        | Some lj =>
          let (st', r) := apply_out o (stg s) (st_cad (now s) (stg s) k (lval lj)) in
          Some (upd_part p (set_api (AClnCadRet k j)) (upd_li j set_cad (set_stg st' s)), ORes r)
        | None => None end
      | _ => None end
    | None => None end
  | ApiCadRet p =>
    match nth_error (parts s) p with
    | Some pt =>
      match papi pt with
      | ARelCadRet j => Some (upd_part p (set_api (ARelWait j)) (cancel_if (negb (c_cfr c)) j s), ONone)
      | AClnCadRet k j => Some (upd_part p (set_api (AClnWait k j)) (cancel_if (negb (c_cfc c)) j s), ONone)
      | _ => None end
    | None => None end
  | WaitDone p =>
    match nth_error (parts s) p with
    | Some pt =>
      match papi pt with
      | ARelWait j =>
        match nth_error (lis s) j with
        | Some lj => match lph lj with MGone => Some (upd_part p (set_api AIdle) s, ORetNil) | _ => None end
        | None => None end
      | AClnWait k j =>
        match nth_error (lis s) j with
        | Some lj =>
          match lph lj with
          | MGone => Some (upd_part p (fun q => set_api ACln (set_map (mdel k (pmap q)) q)) s, ONone)
          | _ => None end
        | None => None end
      | _ => None end
    | None => None end
  | Tick i =>
    match nth_error (lis s) i with
    | Some li =>
      match lph li with
      | MWait tk =>
        if tk <=? now s then
          if llive li then Some (upd_li i (set_ph (MCas (now s + interval c (ldur li)))) s, OGate GCas (lkey li) (lval li) (ldur li))
          else Some (upd_li i (gone c) s, ONone)
        else None
      | _ => None end
    | None => None end
  | CasEff i o =>
    match nth_error (lis s) i with
    | Some li =>
      match lph li with
      | MCas dl =>
        let (st', r) := apply_out o (stg s) (st_cas (now s) (stg s) (lkey li) (lval li) (ldur li)) in
        let f := fun l => set_ph (MCasRet dl r) (match r with RTrue => set_last (now s) l | _ => l end) in
        Some (upd_li i f (set_stg st' s), ORes r)
      | _ => None end
    | None => None end
  | CasRet i =>
    match nth_error (lis s) i with
    | Some li =>
      match lph li with
      | MCasRet dl RTrue => Some (upd_li i (if llive li then set_ph (MWait dl) else gone c) s, ONone)
      | MCasRet dl RFalse => g_release c s i li
      | MCasRet dl RErr => Some (upd_li i (set_ph (MRetry dl (now s + c_retry c))) s, ONone)
      | _ => None end
    | None => None end
  | Retry i =>
    match nth_error (lis s) i with
    | Some li =>
      match lph li with
      | MRetry dl rt =>
        if rt <=? now s then
          if llive li then Some (upd_li i (set_ph (MCas dl)) s, OGate GCas (lkey li) (lval li) (ldur li))
          else Some (upd_li i (gone c) s, ONone)
        else None
      | _ => None end
    | None => None end
  | Deadline i =>
    match nth_error (lis s) i with
    | Some li =>
      match lph li with
      | MRetry dl rt => if dl <=? now s then g_release c s i li else None
      | _ => None end
    | None => None end
  | GCadEff i o =>
    match nth_error (lis s) i with
    | Some li =>
      match lph li with
      | MCad j =>
        match nth_error (lis s) j with
        | Some lj =>
          let (st', r) := apply_out o (stg s) (st_cad (now s) (stg s) (lkey li) (lval lj)) in
          Some (upd_li i (set_ph (MCadRet j)) (upd_li j set_cad (set_stg st' s)), ORes r)
        | None => None end
      | _ => None end
    | None => None end
  | GCadRet i =>
    match nth_error (lis s) i with
    | Some li =>
      match lph li with
      | MCadRet j => Some (upd_li i (gone c) (cancel_if (negb (c_cfr c)) j s), ONone)
      | _ => None end
    | None => None end
  | Exit i =>
    match nth_error (lis s) i with
    | Some li =>
      match lph li, llive li with
      | MWait _, false | MRetry _ _, false => Some (upd_li i (gone c) s, ONone)
      | _, _ => None end
    | None => None end
  end.

Definition init (np : nat) : state := mkSt 0 [] (repeat (mkPart false [] AIdle) np) [] [].

Fixpoint run (c : cfg) (s : state) (acts : list action) : option state :=
  match acts with
  | [] => Some s
  | a :: r => match step c s a with Some (s', _) => run c s' r | None => None end
  end.

(* ---- observed traces ---- *)
(* The harness stimulates the system (starts an API call, lets one storage call take effect, lets
   one storage call return, advances the clock, deletes a record), waits until every thread is
   parked again and then samples the observables: one batch = the actions that happened, with
   their outputs, and the observation at the end. *)
Record obs := mkObs {
  o_now : Z;
  o_store : list (N * option N);    (* TTL-aware Get of every key of the scenario *)
  o_live : list bool                (* ctx.Err()==nil of every context handed out, in order of creation *)
}.
Record batch := mkB { b_evs : list (action * out); b_obs : obs }.
Record trace := mkTrace { t_np : nat; t_batches : list batch }.

Definition gate_eqb (a b : gate) : bool :=
  match a, b with GIns, GIns | GCas, GCas | GCad, GCad => true | _, _ => false end.
Definition out_eqb (a b : out) : bool :=
  match a, b with
  | ONone, ONone | ORetNil, ORetNil => true
  | ORes x, ORes y => sres_eqb x y
  | ORetCtx x, ORetCtx y => Nat.eqb x y
  | OGate g k v d, OGate g' k' v' d' => gate_eqb g g' && N.eqb k k' && N.eqb v v' && (d =? d')
  | _, _ => false
  end.
Definition obs_ok (s : state) (o : obs) : bool :=
  (now s =? o_now o)
  && forallb (fun kv => option_eqb N.eqb (option_map fst (lookup (now s) (stg s) (fst kv))) (snd kv)) (o_store o)
  && list_eqb Bool.eqb (map llive (lis s)) (o_live o).

Fixpoint run_evs (c : cfg) (s : state) (evs : list (action * out)) : option state :=
  match evs with
  | [] => Some s
  | (a, o) :: r =>
    match step c s a with
    | Some (s', o') => if out_eqb o' o then run_evs c s' r else None
    | None => None
    end
  end.
Fixpoint agrees_from (c : cfg) (s : state) (bs : list batch) : bool :=
  match bs with
  | [] => true
  | b :: r =>
    match run_evs c s (b_evs b) with
    | Some s' => obs_ok s' (b_obs b) && agrees_from c s' r
    | None => false
    end
  end.
(* trace inclusion: every observed action is enabled in the model with the observed output, and
   after every batch the model has the observed clock, storage content and context liveness *)
Definition agrees (t : trace) : bool := agrees_from go_cfg (init (t_np t)) (t_batches t).

(* ---- the property judged on the observations only ---- *)
(* what the observer knows about a context: participant, key, value, duration, last success *)
Record cinfo := mkCi { ci_p : nat; ci_k : N; ci_v : N; ci_d : Z; ci_last : Z }.
Record ost := mkOst {
  os_pend : list (nat * (N * N * Z * Z)); (* AcquireLeadership calls in progress: key, value, D, instant of the insert *)
  os_ctx : list cinfo;                  (* contexts handed out *)
  os_vals : list (nat * N);             (* values each participant ever used *)
  os_open : list nat;                   (* participants inside ReleaseLeadership / cleanup *)
  os_ext : list N                       (* keys whose record was deleted by a third party *)
}.
Fixpoint aget {A} (p : nat) (l : list (nat * A)) : option A :=
  match l with [] => None | (q, x) :: t => if Nat.eqb p q then Some x else aget p t end.
Fixpoint adel {A} (p : nat) (l : list (nat * A)) : list (nat * A) :=
  match l with [] => [] | (q, x) :: t => if Nat.eqb p q then adel p t else (q, x) :: adel p t end.
(* participants use different values (else CompareAndDelete(own value) removes a namesake's record:
   outside the property, exercised by the malformed stream only) *)
Definition vals_ok (l : list (nat * N)) : bool :=
  forallb (fun e => forallb (fun e' => negb (N.eqb (snd e) (snd e')) || Nat.eqb (fst e) (fst e')) l) l.
Definition has_val (p : nat) (v : N) (l : list (nat * N)) : bool :=
  existsb (fun e => Nat.eqb (fst e) p && N.eqb (snd e) v) l.

(* at most one live context per key among different participants; keys whose record a third party
   deleted are outside the property (no lease survives that: mutex_external_delete_refuted) *)
Fixpoint mutex_ok (ext : list N) (cs : list cinfo) (live : list bool) : bool :=
  match cs, live with
  | c1 :: cs', b :: live' =>
    (negb b || existsb (N.eqb (ci_k c1)) ext
     || forallb (fun cb => negb (snd cb) || negb (N.eqb (ci_k (fst cb)) (ci_k c1)) || Nat.eqb (ci_p (fst cb)) (ci_p c1))
                (combine cs' live'))
    && mutex_ok ext cs' live'
  | _, _ => true
  end.
(* a live context is never older than D/2 since its last successful InsertIfNotExist/CompareAndSwap
   (contexts acquired with a duration below one second are outside the property: malformed stream) *)
Definition bound_ok (t : Z) (cs : list cinfo) (live : list bool) : bool :=
  forallb (fun cb => negb (snd cb) || (ci_d (fst cb) <? 1) || (2 * (t - ci_last (fst cb)) <=? ci_d (fst cb) * sec)) (combine cs live).
(* storage difference caused by a release/cleanup step of participant p: only own records vanish *)
Definition own_only (p : nat) (vals : list (nat * N)) (before after : list (N * option N)) : bool :=
  Nat.eqb (length before) (length after) &&
  forallb (fun ba =>
    let b := snd (fst ba) in let a := snd (snd ba) in
    N.eqb (fst (fst ba)) (fst (snd ba)) &&
    (option_eqb N.eqb b a || match b, a with Some v, None => has_val p v vals | _, _ => false end))
    (combine before after).
Definition same_store (before after : list (N * option N)) : bool :=
  list_eqb (fun x y => N.eqb (fst x) (fst y) && option_eqb N.eqb (snd x) (snd y)) before after.

Definition upd_last (id : nat) (t : Z) (cs : list cinfo) : list cinfo :=
  upd cs id (fun c => mkCi (ci_p c) (ci_k c) (ci_v c) (ci_d c) t).

(* one observed action at clock t: what the observer learns (None: inconsistent record) *)
Definition sat_ev (t : Z) (o : ost) (e : action * out) : option ost :=
  match e with
  | (AcqCall p k v d, OGate _ _ _ _) => Some (mkOst ((p, (k, v, d, t)) :: os_pend o) (os_ctx o) ((p, v) :: os_vals o) (os_open o) (os_ext o))
  | (AcqCall p k v d, _) => Some (mkOst (os_pend o) (os_ctx o) ((p, v) :: os_vals o) (os_open o) (os_ext o))
  | (InsRet p, ORetCtx id) =>
    match aget p (os_pend o) with
    | Some (k, v, d, t0) =>
      if Nat.eqb id (length (os_ctx o))
      then Some (mkOst (adel p (os_pend o)) (os_ctx o ++ [mkCi p k v d t0]) (os_vals o) (os_open o) (os_ext o))
      else None
    | None => None end
  | (InsEff p _, ORes RTrue) =>
    match aget p (os_pend o) with
    | Some (k, v, d, _) => Some (mkOst ((p, (k, v, d, t)) :: adel p (os_pend o)) (os_ctx o) (os_vals o) (os_open o) (os_ext o))
    | None => Some o end
  | (InsRet p, _) => Some (mkOst (adel p (os_pend o)) (os_ctx o) (os_vals o) (os_open o) (os_ext o))
  | (CasEff i _, ORes RTrue) => Some (mkOst (os_pend o) (upd_last i t (os_ctx o)) (os_vals o) (os_open o) (os_ext o))
  | (RelCall p _, OGate _ _ _ _) | (ClnCall p, _) => Some (mkOst (os_pend o) (os_ctx o) (os_vals o) (p :: os_open o) (os_ext o))
  | (WaitDone p, ORetNil) | (ClnPick p None, ORetNil) =>
    Some (mkOst (os_pend o) (os_ctx o) (os_vals o) (filter (fun q => negb (Nat.eqb p q)) (os_open o)) (os_ext o))
  | (ExtDelete k, _) => Some (mkOst (os_pend o) (os_ctx o) (os_vals o) (os_open o) (k :: os_ext o))
  | _ => Some o
  end.
Fixpoint sat_evs (t : Z) (o : ost) (evs : list (action * out)) : option ost :=
  match evs with
  | [] => Some o
  | e :: r => match sat_ev t o e with Some o' => sat_evs t o' r | None => None end
  end.
(* which storage changes the batch may show, by the stimulus (its first action) *)
Definition store_ok (o : ost) (prev : list (N * option N)) (b : batch) : bool :=
  match b_evs b with
  | (ApiCadEff p _, _) :: _ => own_only p (os_vals o) prev (o_store (b_obs b))
  | (GCadEff i _, _) :: _ =>
    match nth_error (os_ctx o) i with Some c => own_only (ci_p c) (os_vals o) prev (o_store (b_obs b)) | None => false end
  | (Advance _, _) :: _ | (AdvanceInCall _, _) :: _ | (ExtDelete _, _) :: _ | (InsEff _ _, _) :: _ | (CasEff _ _, _) :: _ => true
  | _ => same_store prev (o_store (b_obs b))      (* calls and returns touch no record *)
  end.
Definition sat_batch (o : ost) (prev : list (N * option N)) (b : batch) : option ost :=
  match sat_evs (o_now (b_obs b)) o (b_evs b) with
  | None => None
  | Some o2 =>
    let ob := b_obs b in
    if (negb (vals_ok (os_vals o2)) || (store_ok o2 prev b && mutex_ok (os_ext o2) (os_ctx o2) (o_live ob)))
       && Nat.eqb (length (o_live ob)) (length (os_ctx o2))
       && bound_ok (o_now ob) (os_ctx o2) (o_live ob)
    then Some o2 else None
  end.
Fixpoint sat_from (o : ost) (prev : list (N * option N)) (bs : list batch) : bool :=
  match bs with
  | [] => match os_open o with [] => true | _ => false end   (* every release / cleanup returned *)
  | b :: r => match sat_batch o prev b with Some o' => sat_from o' (o_store (b_obs b)) r | None => false end
  end.
Definition satisfies (t : trace) : bool :=
  match t_batches t with
  | [] => true
  | b :: _ => sat_from (mkOst [] [] [] [] []) (map (fun kv => (fst kv, None)) (o_store (b_obs b))) (t_batches t)
  end.
