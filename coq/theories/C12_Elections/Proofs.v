(* C12 - proofs about the elections model: list/update lemmas, the structural invariant of every
   run (maps, phases, timers), the step-down bound, mutual exclusion outside the release window. *)
From Coq Require Import List NArith ZArith Lia Bool Arith.
From V Require Import Lib.Check Gen.Params C12_Elections.Model.
Import ListNotations.
Local Open Scope Z_scope.

(* ---- lists ---- *)
Lemma nth_upd {A} (l : list A) i f n :
  nth_error (upd l i f) n = if Nat.eqb n i then option_map f (nth_error l n) else nth_error l n.
Proof.
  revert i n; induction l as [|x t IH]; intros [|i] [|n]; cbn; auto;
    try (destruct (Nat.eqb _ _); reflexivity); try apply IH.
Qed.
Lemma len_upd {A} (l : list A) i f : length (upd l i f) = length l.
Proof. revert i; induction l as [|x t IH]; intros [|i]; cbn; auto. Qed.
Lemma nth_app_new {A} (l : list A) x n :
  nth_error (l ++ [x]) n = if Nat.eqb n (length l) then Some x else nth_error l n.
Proof.
  revert n; induction l as [|y t IH]; intros [|n]; cbn; auto; try apply IH.
  destruct n; reflexivity.
Qed.
Lemma nth_some_lt {A} (l : list A) n x : nth_error l n = Some x -> (n < length l)%nat.
Proof. intros H. apply nth_error_Some. congruence. Qed.

(* ---- association lists ---- *)
Lemma mget_mdel k k' m : mget k (mdel k' m) = if N.eqb k k' then None else mget k m.
Proof.
  induction m as [|[a j] t IH]; cbn.
  - destruct (N.eqb k k'); auto.
  - destruct (N.eqb k' a) eqn:E1; cbn.
    + rewrite IH. destruct (N.eqb k k') eqn:E2; auto.
      apply N.eqb_eq in E1. subst a. rewrite E2. auto.
    + rewrite IH. destruct (N.eqb k a) eqn:E3; auto.
      destruct (N.eqb k k') eqn:E2; auto.
      apply N.eqb_eq in E3, E2. subst. rewrite N.eqb_refl in E1. discriminate.
Qed.
Lemma mget_mset k k' j m : mget k (mset k' j m) = if N.eqb k k' then Some j else mget k m.
Proof. unfold mset; cbn. destruct (N.eqb k k') eqn:E; auto. rewrite mget_mdel, E. auto. Qed.
Lemma sget_sdel k k' m : sget k (sdel k' m) = if N.eqb k k' then None else sget k m.
Proof.
  induction m as [|[a j] t IH]; cbn.
  - destruct (N.eqb k k'); auto.
  - destruct (N.eqb k' a) eqn:E1; cbn.
    + rewrite IH. destruct (N.eqb k k') eqn:E2; auto.
      apply N.eqb_eq in E1. subst a. rewrite E2. auto.
    + rewrite IH. destruct (N.eqb k a) eqn:E3; auto.
      destruct (N.eqb k k') eqn:E2; auto.
      apply N.eqb_eq in E3, E2. subst. rewrite N.eqb_refl in E1. discriminate.
Qed.
Lemma sget_sput k k' r m : sget k (sput k' r m) = if N.eqb k k' then Some r else sget k m.
Proof. unfold sput; cbn. destruct (N.eqb k k') eqn:E; auto. rewrite sget_sdel, E. auto. Qed.
Lemma mdel_len k m : (length (mdel k m) <= length m)%nat.
Proof. induction m as [|[a j] t IH]; cbn; auto. destruct (N.eqb k a); cbn; lia. Qed.
Lemma mdel_len_lt k m j : mget k m = Some j -> (length (mdel k m) < length m)%nat.
Proof.
  induction m as [|[a i] t IH]; cbn; [discriminate|].
  destruct (N.eqb k a); cbn; intros H.
  - pose proof (mdel_len k t). lia.
  - apply IH in H. lia.
Qed.

(* ---- arithmetic of intervals and expiry ---- *)
Lemma interval_bound c d : 4 <= c_ren c -> 1 <= d -> 0 <= interval c d /\ 4 * interval c d <= d * sec.
Proof.
  intros Hr Hd. unfold interval, sec.
  rewrite Z.quot_div_nonneg by lia.
  pose proof (Z.mul_div_le (d * 1000000000) (c_ren c) ltac:(lia)) as H1.
  assert (0 <= d * 1000000000 / c_ren c) as H0 by (apply Z.div_pos; lia).
  split; [exact H0|]. nia.
Qed.
Lemma exp_of_gt now d : 1 <= d -> now + d * sec - msn < exp_of now d.
Proof.
  intros Hd. unfold exp_of. destruct (0 <? d) eqn:E; [|lia].
  unfold msn. pose proof (Z.mul_succ_div_gt (now + d * sec) 1000000 ltac:(lia)). lia.
Qed.

(* ---- setters ---- *)
Ltac unf := unfold cancel, cancel_if, gone in *; unfold upd_li, upd_part in *;
  unfold set_lis, set_parts, set_stg, set_now, set_hist,
  set_live, set_ph, set_last, set_cad, set_api, set_map, set_fin in *; cbn [now stg parts lis hist
  lown lkey lval ldur llive lph llast lcad pfin pmap papi] in *.

(* ---- the run relation ---- *)
(* durations of at least a second; storage calls take no time (urgency) *)
Definition wf_action (a : action) : Prop :=
  match a with AcqCall _ _ _ d => 1 <= d | AdvanceInCall _ => False | _ => True end.
(* AcquireLeadership(p, k) is called only while p holds no leaderInfo, live or not, for k:
   a participant does not acquire a key it has already led (failed attempts may be repeated) *)
Definition fresh_b (s : state) (a : action) : bool :=
  match a with
  | AcqCall p k _ _ => negb (existsb (fun l => Nat.eqb (lown l) p && N.eqb (lkey l) k) (lis s))
  | _ => true
  end.
Fixpoint fresh_run (c : cfg) (s : state) (acts : list action) : Prop :=
  match acts with
  | [] => True
  | a :: r => fresh_b s a = true /\ match step c s a with Some (s', _) => fresh_run c s' r | None => True end
  end.
Lemma fresh_spec s p k v d i l : fresh_b s (AcqCall p k v d) = true ->
  nth_error (lis s) i = Some l -> lown l = p -> lkey l = k -> False.
Proof.
  cbn. intros F H E1 E2. apply negb_true_iff in F.
  assert (existsb (fun l => Nat.eqb (lown l) p && N.eqb (lkey l) k) (lis s) = true) as T.
  { apply existsb_exists. exists l. split; [eapply nth_error_In; eauto|].
    subst. rewrite Nat.eqb_refl, N.eqb_refl. reflexivity. }
  congruence.
Qed.

Section Inv.
Variable c : cfg.
Hypothesis Hren : 4 <= c_ren c.

Definition li_at (s : state) (i : nat) (l : linfo) := nth_error (lis s) i = Some l.
Definition pt_at (s : state) (p : nat) (q : part) := nth_error (parts s) p = Some q.
Definition early (ph : mphase) : bool :=
  match ph with MWait _ | MCas _ | MCasRet _ _ | MRetry _ _ => true | _ => false end.
Definition releasing (a : aphase) (i : nat) : Prop :=
  match a with ARelCad j | ARelCadRet j => j = i | _ => False end.
Definition itv (l : linfo) := interval c (ldur l).

Definition timing (s : state) (i : nat) (l : linfo) : Prop :=
  match lph l with
  | MWait t => now s <= t /\ t <= llast l + itv l
  | MCas dl | MRetry dl _ => now s <= dl /\ dl <= now s + itv l /\ dl <= llast l + 2 * itv l
  | MCasRet dl r => now s <= dl /\ dl <= now s + itv l /\ dl <= llast l + 2 * itv l /\ (r = RTrue -> dl <= llast l + itv l)
  | MCad _ | MCadRet _ => now s <= llast l + 2 * itv l
  | MGone => now s <= llast l + 2 * itv l
  end.

Definition api_target (s : state) (p : nat) (a : aphase) : Prop :=
  match a with
  | ARelCad j | ARelCadRet j => exists l, li_at s j l /\ lown l = p /\ (c_cfr c = true -> llive l = false)
  | ARelWait j => exists l, li_at s j l /\ lown l = p /\ llive l = false
  | AClnCad k j | AClnCadRet k j => exists l, li_at s j l /\ lown l = p /\ lkey l = k /\ (c_cfc c = true -> llive l = false)
  | AClnWait k j => exists l, li_at s j l /\ lown l = p /\ lkey l = k
  | AIns k v d | AInsRet k v d _ =>
    1 <= d /\ In (p, k, v) (hist s) /\ forall i l, li_at s i l -> lown l = p -> lkey l = k -> False
  | _ => True
  end.
Definition self_target (i : nat) (l : linfo) : Prop :=
  match lph l with MCad j | MCadRet j => j = i /\ (c_cfr c = true -> llive l = false) | _ => True end.

Record InvT (s : state) : Prop := mkInvT {
  iH1 : forall i l, li_at s i l -> In (lown l, lkey l, lval l) (hist s);
  iI2 : forall i j l l', li_at s i l -> li_at s j l' -> lown l = lown l' -> lkey l = lkey l' -> i = j;
  iM1 : forall p q k j, pt_at s p q -> mget k (pmap q) = Some j -> exists l, li_at s j l /\ lown l = p /\ lkey l = k;
  iM2 : forall i l, li_at s i l -> early (lph l) = true -> llive l = true ->
        exists q, pt_at s (lown l) q /\ (mget (lkey l) (pmap q) = Some i \/ releasing (papi q) i);
  iG : forall i l, li_at s i l -> lph l = MGone -> llive l = true ->
        exists q, pt_at s (lown l) q /\ releasing (papi q) i;
  iP : forall i l, li_at s i l -> self_target i l;
  iPc : forall p q, pt_at s p q -> api_target s p (papi q);
  iL : forall i l, li_at s i l -> llast l <= now s /\ 1 <= ldur l;
  iT : forall i l, li_at s i l -> llive l = true -> timing s i l
}.

Ltac inv_step H :=
  unfold step, g_release in H;
  repeat (match type of H with context [match ?x with _ => _ end] => destruct x eqn:? end; try discriminate H);
  inversion H; subst; clear H.

Ltac case_eqb :=
  match goal with
  | H : context [Nat.eqb ?a ?b] |- _ => destruct (Nat.eqb_spec a b); [subst|]
  | |- context [Nat.eqb ?a ?b] => destruct (Nat.eqb_spec a b); [subst|]
  | H : context [N.eqb ?a ?b] |- _ => destruct (N.eqb_spec a b); [subst|]
  | |- context [N.eqb ?a ?b] => destruct (N.eqb_spec a b); [subst|]
  end.
Ltac omap :=
  match goal with
  | H : option_map _ ?x = Some _ |- _ => destruct x eqn:?; cbn in H; [inversion H; subst; clear H | discriminate H]
  | H : Some _ = Some _ |- _ => inversion H; subst; clear H
  end.
Ltac rw_nth :=
  repeat match goal with
  | H : context [nth_error (upd _ _ _) _] |- _ => rewrite nth_upd in H
  | |- context [nth_error (upd _ _ _) _] => rewrite nth_upd
  | H : context [nth_error (_ ++ [_]) _] |- _ => rewrite nth_app_new in H
  | |- context [nth_error (_ ++ [_]) _] => rewrite nth_app_new
  | H : context [mget _ (mdel _ _)] |- _ => rewrite mget_mdel in H
  | |- context [mget _ (mdel _ _)] => rewrite mget_mdel
  | H : context [mget _ (mset _ _ _)] |- _ => rewrite mget_mset in H
  | |- context [mget _ (mset _ _ _)] => rewrite mget_mset
  end.
Ltac nthsimp := unfold li_at, pt_at in *; unf; rw_nth;
  repeat (first [case_eqb | omap]); cbn [lown lkey lval ldur llive lph llast lcad pfin pmap papi option_map] in *.

Definition seen {A} (x : A) := True.
(* saturate the context with the per-leaderInfo / per-participant clauses of the old invariant *)
Ltac sat I :=
  repeat match goal with
  | H : nth_error (lis ?s) ?i = Some ?l |- _ =>
    lazymatch goal with _ : seen (i, l) |- _ => fail | _ => idtac end;
    assert (seen (i, l)) by exact Logic.I;
    pose proof (iL _ I _ _ H); pose proof (iH1 _ I _ _ H); pose proof (iT _ I _ _ H);
    pose proof (iM2 _ I _ _ H); pose proof (iG _ I _ _ H); pose proof (iP _ I _ _ H)
  | H : nth_error (parts ?s) ?p = Some ?q |- _ =>
    lazymatch goal with _ : seen (p, q) |- _ => fail | _ => idtac end;
    assert (seen (p, q)) by exact Logic.I;
    pose proof (iPc _ I _ _ H);
    pose proof (fun k j => iM1 _ I _ _ k j H)
  end.
Ltac rw_ph := repeat match goal with
  | E : papi ?q = _ |- _ => rewrite E in *
  | E : lph ?q = _ |- _ => rewrite E in * end.
Ltac destr := repeat match goal with H : _ /\ _ |- _ => destruct H | H : exists _, _ |- _ => destruct H end.
Ltac scbn := cbn [now stg parts lis hist lown lkey lval ldur llive lph llast lcad pfin pmap papi option_map early negb andb orb fst snd app length] in *.
Ltac start I H a := destruct a; inv_step H; intros; nthsimp; sat I; unfold timing, api_target, self_target, releasing, itv in *; rw_ph; scbn; destr.

Lemma step_iL s a s' o : InvT s -> wf_action a -> step c s a = Some (s', o) ->
  forall i l, li_at s' i l -> llast l <= now s' /\ 1 <= ldur l.
Proof. intros I W H. start I H a; try lia. Qed.

Lemma hist_mono s a s' o : step c s a = Some (s', o) -> incl (hist s) (hist s').
Proof. intros H. destruct a; inv_step H; unf; try apply incl_refl. all: apply incl_tl, incl_refl. Qed.

Lemma step_iH1 s a s' o : InvT s -> step c s a = Some (s', o) ->
  forall i l, li_at s' i l -> In (lown l, lkey l, lval l) (hist s').
Proof. intros I H. start I H a; auto; try (right; assumption). Qed.

Ltac same_idx := repeat match goal with
  | H1 : nth_error ?x ?i = Some ?a, H2 : nth_error ?x ?i = Some ?b |- _ =>
    tryif constr_eq a b then fail else (rewrite H1 in H2; inversion H2; subst; clear H2) end.
Ltac useM1 := repeat match goal with
  | Hm : forall k j, mget k (pmap ?q) = Some j -> exists _, _, E : mget ?k (pmap ?q) = Some ?j |- _ =>
    lazymatch goal with _ : seen (k, j, q) |- _ => fail | _ => idtac end;
    assert (seen (k, j, q)) by exact Logic.I;
    let l := fresh "lm" in destruct (Hm k j E) as (l & ? & ? & ?) end.
Ltac uniq I := unfold li_at in *; same_idx; repeat match goal with
  | H1 : nth_error (lis ?s) ?i = Some ?l1, H2 : nth_error (lis ?s) ?j = Some ?l2 |- _ =>
    tryif constr_eq i j then fail else
    (assert (i = j) by (apply (iI2 _ I i j l1 l2 H1 H2); congruence); subst; same_idx)
  end.
Ltac brk := repeat match goal with
  | |- context [match lph ?l with _ => _ end] => destruct (lph l) eqn:?
  | H : context [match lph ?l with _ => _ end] |- _ => destruct (lph l) eqn:?
  | |- context [match papi ?l with _ => _ end] => destruct (papi l) eqn:?
  | H : context [match papi ?l with _ => _ end] |- _ => destruct (papi l) eqn:?
  end.
Ltac bools := repeat match goal with
  | |- context [c_cfr ?c] => destruct (c_cfr c) eqn:?
  | |- context [c_cfc ?c] => destruct (c_cfc c) eqn:?
  | |- context [llive ?l] => destruct (llive l) eqn:?
  end.
Ltac useNo := match goal with
  | Hn : forall i l, nth_error (lis ?s) i = Some l -> lown l = _ -> lkey l = _ -> False,
    H : nth_error (lis ?s) ?i = Some ?l |- _ => solve [exfalso; apply (Hn i l H); congruence] end.
Ltac easy1 := first [tauto | lia | congruence | discriminate | useNo].
Ltac fin I := scbn; destr; try easy1; useM1; uniq I; try easy1; brk; scbn; destr; try easy1; bools; scbn;
  try easy1; try solve [intuition (try lia; try congruence; eauto)].

Lemma step_iP s a s' o : InvT s -> step c s a = Some (s', o) ->
  forall i l, li_at s' i l -> self_target i l.
Proof. intros I H. start I H a; fin I. Qed.

Lemma step_iI2 s a s' o : InvT s -> step c s a = Some (s', o) ->
  forall i j l l', li_at s' i l -> li_at s' j l' -> lown l = lown l' -> lkey l = lkey l' -> i = j.
Proof. intros I H. start I H a; fin I. Qed.

Lemma li_pres s a s' o : step c s a = Some (s', o) ->
  forall j l, li_at s j l -> exists l', li_at s' j l' /\ lown l' = lown l /\ lkey l' = lkey l /\ lval l' = lval l /\ ldur l' = ldur l
    /\ (llive l = false -> llive l' = false).
Proof.
  intros H j0 l0 Hl. unfold li_at in *.
  destruct a; inv_step H; unf; rw_nth; rewrite ?Hl; repeat case_eqb; cbn; eauto 7;
    try (eexists; split; [reflexivity|]; cbn; intuition auto; match goal with E : llive _ = false |- _ => rewrite E; reflexivity end).
  exfalso. apply nth_some_lt in Hl. lia.
Qed.

Lemma parts_pres s a s' o : step c s a = Some (s', o) ->
  forall p q k j, pt_at s' p q -> mget k (pmap q) = Some j ->
  (exists q0, pt_at s p q0 /\ mget k (pmap q0) = Some j) \/
  (j = length (lis s) /\ exists l, li_at s' j l /\ lown l = p /\ lkey l = k).
Proof.
  intros H p1 q1 k1 j1 Hq Hm. unfold li_at, pt_at in *.
  destruct a; inv_step H; unf; rw_nth; repeat (first [case_eqb | omap]); cbn in *; rw_nth; repeat case_eqb;
    try discriminate; try congruence; eauto.
  right. split; auto. eexists; split; [reflexivity|]. auto.
Qed.

Lemma step_iM1 s a s' o : InvT s -> step c s a = Some (s', o) ->
  forall p q k j, pt_at s' p q -> mget k (pmap q) = Some j -> exists l, li_at s' j l /\ lown l = p /\ lkey l = k.
Proof.
  intros I H p q k j Hq Hm.
  destruct (parts_pres _ _ _ _ H _ _ _ _ Hq Hm) as [(q0 & Hq0 & Hm0) | (_ & Hx)]; auto.
  destruct (iM1 _ I _ _ _ _ Hq0 Hm0) as (l & Hl & E1 & E2).
  destruct (li_pres _ _ _ _ H _ _ Hl) as (l' & Hl' & ? & ? & _). exists l'. intuition congruence.
Qed.

Ltac rw_known := repeat match goal with H : nth_error ?x ?i = Some _ |- context [nth_error ?x ?i] => rewrite H end.
Ltac andb_h := repeat match goal with
  | H : _ && _ = true |- _ => apply andb_true_iff in H; destruct H
  | H : negb (negb _) = true |- _ => rewrite negb_involutive in H
  | H : negb _ = true |- _ => apply negb_true_iff in H end.
Ltac m2old := repeat match goal with
  | H : _ -> _ -> exists q, _ |- _ =>
    first [ destruct H as (? & ? & ?); [ solve [auto | congruence] .. | ] | clear H ] end.

Lemma step_iM2 s a s' o : InvT s -> step c s a = Some (s', o) ->
  forall i l, li_at s' i l -> early (lph l) = true -> llive l = true ->
  exists q, pt_at s' (lown l) q /\ (mget (lkey l) (pmap q) = Some i \/ releasing (papi q) i).
Proof.
  intros I H. start I H a; andb_h; m2old; unfold pt_at, li_at in *; same_idx; repeat case_eqb; same_idx; rw_known; rw_ph; scbn; destr;
    try easy1;
    try solve [eexists; split; [first [reflexivity | eassumption] |]; cbn; rw_nth; repeat case_eqb;
               solve [left; first [assumption | congruence] | right; cbn; first [reflexivity | assumption | congruence] | fin I]].
Qed.

Lemma li_back s a s' o : step c s a = Some (s', o) ->
  forall i l', li_at s' i l' ->
  (exists l, li_at s i l /\ lown l = lown l' /\ lkey l = lkey l' /\ lval l = lval l' /\ ldur l = ldur l') \/
  (i = length (lis s) /\ exists q k v d, pt_at s (lown l') q /\ papi q = AInsRet k v d RTrue /\ lkey l' = k /\ a = InsRet (lown l')).
Proof.
  intros H i0 l0 Hl. unfold li_at, pt_at in *.
  destruct a; inv_step H; unf; rw_nth; repeat (first [case_eqb | omap]); scbn; eauto 7.
  right. split; auto. eauto 8.
Qed.

Lemma api_target_mono s s' p a :
  (forall j l, li_at s j l -> exists l', li_at s' j l' /\ lown l' = lown l /\ lkey l' = lkey l /\ lval l' = lval l /\ ldur l' = ldur l
     /\ (llive l = false -> llive l' = false)) ->
  incl (hist s) (hist s') ->
  (forall i l', li_at s' i l' -> lown l' = p -> exists l, li_at s i l /\ lown l = lown l' /\ lkey l = lkey l') ->
  api_target s p a -> api_target s' p a.
Proof.
  intros P1 P2 P3 T. destruct a; cbn in *; auto.
  1,2: destruct T as (? & ? & T); split; [auto|]; split; [auto|];
       intros i l' Hl E1 E2; destruct (P3 _ _ Hl E1) as (l0 & ? & ? & ?); apply (T _ _ H1); congruence.
  all: destruct T as (l & Hl & T); destruct (P1 _ _ Hl) as (l' & ? & ? & ? & ? & ? & ?); exists l';
       intuition congruence.
Qed.

Lemma step_iPc s a s' o : InvT s -> wf_action a -> fresh_b s a = true -> step c s a = Some (s', o) ->
  forall p q, pt_at s' p q -> api_target s' p (papi q).
Proof.
  intros I W ND H p1 q1 Hq.
  pose proof (li_pres _ _ _ _ H) as P1. pose proof (hist_mono _ _ _ _ H) as P2. pose proof (li_back _ _ _ _ H) as P3.
  assert (forall q0, pt_at s p1 q0 -> papi q0 = papi q1 -> (forall pp, a = InsRet pp -> pp <> p1) -> api_target s' p1 (papi q1)) as Same.
  { intros q0 Hq0 E NI. rewrite <- E. apply (api_target_mono s s'); auto.
    - intros i l' Hl E1. destruct (P3 _ _ Hl) as [(l & ? & ? & ? & _) | (_ & ? & ? & ? & ? & _ & _ & _ & E')]; eauto.
      exfalso; eapply NI; eauto.
    - apply (iPc _ I _ _ Hq0). }
  pose proof H as H'. clear P1 P3.
  destruct a; inv_step H'; unfold pt_at in *; unf; rw_nth; repeat (first [case_eqb | omap]); scbn;
    try solve [eapply Same; [eassumption | scbn; congruence | intros; first [discriminate | congruence]]];
    try exact Logic.I.
  all: try solve [eapply Same; [first [eassumption | reflexivity] | reflexivity | intros; discriminate]].
  all: clear Same H; sat I; useM1; unfold api_target, li_at, pt_at in *; rw_ph; scbn; destr; rw_nth; same_idx;
    rw_known; rewrite ?Nat.eqb_refl; scbn.
  - cbn in W. split; [lia|]. split; [left; reflexivity|]. intros i l Hl E1 E2.
    eapply fresh_spec; eauto.
  - auto.
  - eexists; split; [reflexivity|]; scbn. split; auto. intros E; rewrite E. destruct (llive lm); reflexivity.
  - eexists; split; [reflexivity|]; scbn. split; auto. split; auto. intros E; rewrite E. destruct (llive lm); reflexivity.
  - eexists; split; [reflexivity|]; scbn. auto.
  - eexists; split; [reflexivity|]; scbn. auto.
  - eexists; split; [reflexivity|]; scbn. split; auto. destruct (c_cfr c); scbn; [rewrite andb_true_r; auto | apply andb_false_r].
  - eexists; split; [reflexivity|]; scbn. auto.
Qed.

Ltac itvb := repeat match goal with
  | H : 1 <= ?d |- _ =>
    lazymatch goal with _ : seen (interval c d) |- _ => fail | _ => idtac end;
    assert (seen (interval c d)) by exact Logic.I;
    pose proof (interval_bound c d Hren H) end.
Lemma quiet_at t (ls : list linfo) i l : forallb (quiet_li t) ls = true -> nth_error ls i = Some l -> quiet_li t l = true.
Proof. intros F H. rewrite forallb_forall in F. apply F. eapply nth_error_In; eauto. Qed.
Lemma idle_at (ps : list part) p q : forallb idle_part ps = true -> nth_error ps p = Some q -> papi q = AIdle.
Proof.
  intros F H. rewrite forallb_forall in F. pose proof (F q (nth_error_In _ _ H)) as E.
  unfold idle_part in E. destruct (papi q); auto; discriminate.
Qed.
Ltac quiet_h := repeat match goal with
  | F : forallb (quiet_li ?t) (lis ?s) = true, H : nth_error (lis ?s) ?i = Some ?l |- _ =>
    lazymatch goal with _ : seen (t, l) |- _ => fail | _ => idtac end;
    assert (seen (t, l)) by exact Logic.I;
    let Q := fresh "Q" in pose proof (quiet_at _ _ _ _ F H) as Q; unfold quiet_li in Q
  | F : forallb idle_part (parts ?s) = true, H : nth_error (parts ?s) ?p = Some ?q |- _ =>
    lazymatch goal with _ : seen (F, q) |- _ => fail | _ => idtac end;
    assert (seen (F, q)) by exact Logic.I;
    pose proof (idle_at _ _ _ F H)
  end.
Ltac zb := repeat match goal with
  | H : (_ <=? _) = true |- _ => apply Z.leb_le in H
  | H : (_ <=? _) = false |- _ => apply Z.leb_gt in H
  | H : (_ <? _) = true |- _ => apply Z.ltb_lt in H
  | H : (_ <? _) = false |- _ => apply Z.ltb_ge in H end.

Ltac live_h := repeat match goal with H : llive ?l = true -> _, E : llive ?l = true |- _ => specialize (H E) end.

Ltac brk_goal := repeat match goal with
  | |- context [match lph ?l with _ => _ end] => destruct (lph l) eqn:?
  end.

Lemma step_iT s a s' o : InvT s -> wf_action a -> step c s a = Some (s', o) ->
  forall i l, li_at s' i l -> llive l = true -> timing s' i l.
Proof.
  intros I W H. start I H a; try (exfalso; exact W); andb_h; unfold pt_at, li_at in *; same_idx; quiet_h; rw_ph; scbn; andb_h; zb; destr; itvb; destr; try easy1;
    live_h; brk_goal; rw_ph; scbn; andb_h; zb; destr; try easy1; try (repeat split; first [lia | discriminate | intros; lia]).
  - match goal with H6 : MGone = MGone -> _ |- _ => destruct (H6 eq_refl H0) as (q & Hq & R) end.
    pose proof (idle_at _ _ _ H11 Hq) as E. rewrite E in R. contradiction.
Qed.

Lemma step_iG s a s' o : InvT s -> step c s a = Some (s', o) ->
  forall i l, li_at s' i l -> lph l = MGone -> llive l = true ->
  exists q, pt_at s' (lown l) q /\ releasing (papi q) i.
Proof.
  intros I H. start I H a; andb_h; m2old; unfold pt_at, li_at in *; same_idx; repeat case_eqb; same_idx; rw_known; rw_ph; scbn; destr;
    try easy1;
    try solve [eexists; split; [first [reflexivity | eassumption] |]; scbn; first [reflexivity | assumption | congruence | tauto]];
    try solve [exfalso; match goal with Hc : c_cfr c = true -> llive ?x = false, E : c_cfr c = true, L : llive ?x = true |- _ =>
                 rewrite (Hc E) in L; discriminate end];
    try solve [match goal with Hd : mget _ _ = Some _ \/ _ |- _ =>
                 destruct Hd as [?|?]; [congruence | eexists; split; [reflexivity | assumption]] end].
  match goal with H3 : _ = l |- _ => rewrite <- H3 in H0; discriminate H0 end.
Qed.

Lemma step_InvT s a s' o : InvT s -> wf_action a -> fresh_b s a = true -> step c s a = Some (s', o) -> InvT s'.
Proof.
  intros I W ND H. constructor.
  - eapply step_iH1; eauto.
  - eapply step_iI2; eauto.
  - eapply step_iM1; eauto.
  - eapply step_iM2; eauto.
  - eapply step_iG; eauto.
  - eapply step_iP; eauto.
  - eapply step_iPc; eauto.
  - eapply step_iL; eauto.
  - eapply step_iT; eauto.
Qed.

(* ---- runs ---- *)
Fixpoint acq_calls (acts : list action) : list (nat * N * N) :=
  match acts with
  | [] => []
  | AcqCall p k v _ :: r => (p, k, v) :: acq_calls r
  | _ :: r => acq_calls r
  end.

Lemma step_hist s a s' o : step c s a = Some (s', o) ->
  hist s' = match a with AcqCall p k v _ => (p, k, v) :: hist s | _ => hist s end.
Proof. intros H. destruct a; inv_step H; reflexivity. Qed.

Lemma run_hist acts : forall s s', run c s acts = Some s' -> hist s' = rev (acq_calls acts) ++ hist s.
Proof.
  induction acts as [|a r IH]; intros s s' H; cbn in H.
  - inversion H; reflexivity.
  - destruct (step c s a) as [[s1 o]|] eqn:E; [|discriminate].
    rewrite (IH _ _ H), (step_hist _ _ _ _ E). destruct a; cbn; auto.
    rewrite <- app_assoc. reflexivity.
Qed.

Lemma init_InvT np : InvT (init np).
Proof.
  assert (forall p q, nth_error (repeat (mkPart false [] AIdle) np) p = Some q -> q = mkPart false [] AIdle) as R.
  { intros p q H. apply nth_error_In in H. apply repeat_spec in H. exact H. }
  constructor; unfold li_at, pt_at, init; cbn; intros;
    try (match goal with H : nth_error [] ?i = Some _ |- _ => destruct i; discriminate H end).
  - apply R in H. subst. discriminate.
  - apply R in H. subst. exact Logic.I.
Qed.

Lemma run_InvT acts : forall s s', InvT s -> Forall wf_action acts -> fresh_run c s acts ->
  run c s acts = Some s' -> InvT s'.
Proof.
  induction acts as [|a r IH]; intros s s' I W F H; cbn in H.
  - inversion H; subst; auto.
  - cbn in F. destruct F as (Fa & Fr). destruct (step c s a) as [[s1 o]|] eqn:E; [|discriminate].
    inversion W; subst. apply (IH s1 s'); auto. eapply step_InvT; eauto.
Qed.

Lemma reach_InvT np acts s : Forall wf_action acts -> fresh_run c (init np) acts ->
  run c (init np) acts = Some s -> InvT s.
Proof. intros W F R. eapply run_InvT; eauto using init_InvT. Qed.

(* every live leadership is at most two renewal intervals (<= D/2) older than its last success *)
Lemma step_down_bound_proved np acts s i l :
  Forall wf_action acts -> fresh_run c (init np) acts ->
  run c (init np) acts = Some s -> li_at s i l -> llive l = true ->
  now s <= llast l + 2 * interval c (ldur l) /\ 2 * (2 * interval c (ldur l)) <= ldur l * sec.
Proof.
  intros W ND R Hl Hv.
  assert (InvT s) as I by (eapply reach_InvT; eauto).
  destruct (iL _ I _ _ Hl) as (_ & Hd). pose proof (interval_bound c _ Hren Hd) as (H0 & H4).
  pose proof (iT _ I _ _ Hl Hv) as T. unfold timing, itv in T. split; [|lia].
  destruct (lph l); lia.
Qed.
End Inv.
