(* C20 - Update never waits on watchers: from every reachable state the notifier alone (no
   watcher step, whatever the tokens and watcher pcs are) empties the event queue, after which
   every pending enqueue is enabled. *)
From Coq Require Import List NArith Bool Lia.
From V Require Import Lib.Check Gen.Params C20_Notify.Model C20_Notify.Base C20_Notify.Views.
Import ListNotations.
Local Open Scope N_scope.

Ltac inv H := inversion H; subst; clear H.

Definition is_notif (a : action) : bool := match a with ANDeq | ANMerge | ANSend _ => true | _ => false end.
Definition notif_ok (s : state) : Prop := forall p, notif s <> NSend p [].

Lemma uns_core_notif c p s s1 b : uns_core c p s = Some (s1, b) -> notif s1 = notif s.
Proof. intros H. destruct (uns_core_spec _ _ _ _ _ H) as (_ & _ & _ & _ & _ & _ & N & _). exact N. Qed.

(* only the notifier's own steps change its pc *)
Lemma step_notif_frame s a s' o : is_notif a = false -> step s a = Some (s', o) -> notif s' = notif s.
Proof.
  intros Hn H. destruct a; try discriminate Hn; cbn [step] in H.
  - inv H. unfold new_chan in H1. destruct (q_ch (quo s) <=? count_live (chans s)); [inv H1; auto|].
    destruct (get subj (metrics s)) as [[nc ns]|]; [destruct (q_chs (quo s) <=? nc)|rewrite first_checked_true in H1; destruct (q_chs (quo s) <=? 0)]; inv H1; reflexivity.
  - inv H. unfold upd_store. cbn. apply ensure_notif.
  - destruct (upd_enq p s) as [s1|] eqn:E; inv H. apply upd_enq_spec in E; subst. reflexivity.
  - destruct (has (KUpd p) (calls s) && negb (can_enq s) && upd_blocking); inv H. reflexivity.
  - inv H. destruct (sub_reg_cases _ _ _ _ _ H1) as [->|(_ & s0 & H0 & ->)]; [reflexivity|].
    destruct (sub_reg0_spec _ _ _ _ H0) as (ch & _ & _ & _ & _ & _ & _ & _ & _ & Nf). rewrite mark_notif. exact Nf.
  - destruct (has (KSub c p false) (calls s)); inv H. reflexivity.
  - destruct (has (KSub c p true) (calls s) && can_enq s); inv H. reflexivity.
  - inv H. unfold uns_reg in H1. destruct (live_chan s c); [|inv H1; auto].
    destruct (uns_core c p s) as [[s1 [|]]|] eqn:U; inv H1; auto; cbn; eapply uns_core_notif; eauto.
  - destruct (has (KUns c p false) (calls s)); inv H. reflexivity.
  - destruct (has (KUns c p true) (calls s) && can_enq s); inv H. reflexivity.
  - unfold cln_term in H. destruct (nextc s <=? c); [discriminate|]. destruct (live_chan s c) as [ch|]; [|inv H; auto].
    destruct (c_term ch); inv H; reflexivity.
  - destruct (cln_reg c p s) as [s1|] eqn:E; inv H. unfold cln_reg in E.
    destruct (cln_rem c (calls s)); [|discriminate]. destruct (memN p l); [|discriminate].
    destruct (uns_core c p s) as [[s1 [|]]|] eqn:U; inv E; cbn; eapply uns_core_notif; eauto.
  - destruct (cln_fin c s) as [s1|] eqn:E; inv H. unfold cln_fin in E.
    destruct (has (KCln c [] false) (calls s)); [|discriminate]. destruct (get c (chans s)); [|discriminate].
    destruct (metric s (c_subj c0)). inv E. reflexivity.
  - destruct (live_chan s c) as [ch|]; [|inv H; auto]. destruct (c_w ch); inv H; reflexivity.
  - destruct (get c (chans s)) as [ch|]; [|discriminate]. destruct (c_w ch); try discriminate. destruct (c_tok ch); inv H. reflexivity.
  - destruct (get c (chans s)) as [ch|]; [|discriminate]. destruct (c_w ch); inv H. reflexivity.
  - destruct (get c (chans s)) as [ch|]; [|discriminate]. destruct (c_w ch); inv H. reflexivity.
  - destruct (get c (chans s)) as [ch|]; [|discriminate]. destruct (c_w ch); inv H; reflexivity.
  - inv H. reflexivity.
  - destruct (m =? 1); [destruct (calls s); inv H; auto|]. destruct (m =? 2); [destruct (quiet s); inv H; auto|].
    destruct (m =? 3); [destruct (quiet s && (count_live (chans s) =? 0)); inv H; auto|]. inv H. auto.
  - discriminate.
Qed.

Lemma after_send_ok p rem q : after_send p rem <> NSend q [].
Proof. destruct rem; cbn; congruence. Qed.

Lemma reach_notif_ok P q s evs : reach P q s evs -> notif_ok s.
Proof.
  apply reach_inv; [intros p; discriminate|].
  intros s0 a s1 o I _ H p. destruct (is_notif a) eqn:E.
  - destruct a; try discriminate E; cbn [step] in H.
    + destruct (notif s0); try discriminate. destruct (queue s0); inv H. discriminate.
    + destruct (notif s0); inv H. apply after_send_ok.
    + destruct (notif s0); try discriminate. destruct (memN c rem); inv H. apply after_send_ok.
  - rewrite (step_notif_frame _ _ _ _ E H). apply I.
Qed.

(* what a notifier-only run leaves untouched *)
Definition same_rest (s s' : state) : Prop :=
  calls s' = calls s /\ (forall c, wv (chans s') c = wv (chans s) c) /\ quo s' = quo s /\ nsubs s' = nsubs s /\ metrics s' = metrics s.

Lemma same_rest_refl s : same_rest s s.
Proof. repeat split. Qed.
Lemma same_rest_trans a b c : same_rest a b -> same_rest b c -> same_rest a c.
Proof.
  intros (A1 & A2 & A3 & A4 & A5) (B1 & B2 & B3 & B4 & B5). repeat split; try congruence.
Qed.

Lemma run_app P s l1 l2 s1 e1 s2 e2 :
  run P s l1 = Some (s1, e1) -> run P s1 l2 = Some (s2, e2) -> run P s (l1 ++ l2) = Some (s2, e1 ++ e2).
Proof.
  revert s e1. induction l1 as [|a r IH]; intros s e1 H1 H2; cbn in *.
  - inv H1. exact H2.
  - destruct (P s a); [|discriminate]. destruct (step s a) as [[s' o]|]; [|discriminate].
    destruct (run P s' r) as [[s'' e]|] eqn:E; [|discriminate]. inv H1.
    rewrite (IH _ _ E H2). reflexivity.
Qed.

Lemma filter_len_le {T} (f : T -> bool) l : (length (filter f l) <= length l)%nat.
Proof. induction l as [|x r IH]; cbn; [lia|]. destruct (f x); cbn; lia. Qed.

(* the sends of one event *)
Lemma drain_send n : forall s p rem, (length rem <= n)%nat -> notif s = NSend p rem -> rem <> [] ->
  exists l s' evs, forallb is_notif l = true /\ run adm_any s l = Some (s', evs)
                   /\ notif s' = NIdle /\ queue s' = queue s /\ same_rest s s'.
Proof.
  induction n as [|n IH]; intros s p rem Hl Hn Hne.
  - destruct rem; [congruence | cbn in Hl; lia].
  - destruct rem as [|c r]; [congruence|].
    set (rem' := filter (fun x => negb (x =? c)) (c :: r)).
    set (s1 := set_notif (match get c (chans s) with Some ch => putc c (ch_tok ch true) s | None => s end) (after_send p rem')).
    assert (St : step s (ANSend c) = Some (s1, ONone)).
    { cbn [step]. rewrite Hn. cbn [memN existsb]. rewrite N.eqb_refl. reflexivity. }
    assert (Sr : same_rest s s1 /\ queue s1 = queue s).
    { unfold s1. destruct (get c (chans s)) as [ch|] eqn:G; cbn; repeat split.
      intros c'. eapply wv_set_same; eauto. }
    assert (Hlen : (length rem' <= n)%nat).
    { unfold rem'. cbn [filter]. rewrite N.eqb_refl. cbn. pose proof (filter_len_le (fun x => negb (x =? c)) r). cbn in Hl. lia. }
    destruct rem' as [|c2 r2] eqn:Er.
    + exists [ANSend c], s1, [(ANSend c, ONone)]. cbn [run forallb is_notif adm_any]. rewrite St.
      destruct Sr as [Sr Sq]. split; [reflexivity|]. split; [reflexivity|]. split; [reflexivity|]. split; [exact Sq | exact Sr].
    + destruct (IH s1 p (c2 :: r2) Hlen eq_refl ltac:(discriminate)) as (l & s2 & evs & L1 & L2 & L3 & L4 & L5).
      exists (ANSend c :: l), s2, ((ANSend c, ONone) :: evs). cbn [run forallb is_notif adm_any]. rewrite St, L2, L1.
      destruct Sr as [Sr Sq]. split; [reflexivity|]. split; [reflexivity|]. split; [exact L3|]. split; [congruence|].
      eapply same_rest_trans; [exact Sr | exact L5].
Qed.

(* finishing the event in hand *)
Lemma drain_event s : notif_ok s ->
  exists l s' evs, forallb is_notif l = true /\ run adm_any s l = Some (s', evs)
                   /\ notif s' = NIdle /\ queue s' = queue s /\ same_rest s s'.
Proof.
  intros Hok. destruct (notif s) as [|p|p rem] eqn:Hn.
  - exists [], s, []. split; [reflexivity|]. split; [reflexivity|]. split; [exact Hn|]. split; [reflexivity | apply same_rest_refl].
  - set (x := getp p s). set (sd := merged (p_tosub x) (p_subd x)).
    set (s1 := set_notif (putp p (mkProj (p_off x) [] sd) s) (after_send p sd)).
    assert (St : step s ANMerge = Some (s1, ONone)) by (cbn [step]; rewrite Hn; reflexivity).
    assert (Sr : same_rest s s1) by (repeat split).
    destruct sd as [|c r] eqn:Es.
    + exists [ANMerge], s1, [(ANMerge, ONone)]. cbn [run forallb is_notif adm_any]. rewrite St.
      split; [reflexivity|]. split; [reflexivity|]. split; [reflexivity|]. split; [reflexivity | exact Sr].
    + destruct (drain_send (length (c :: r)) s1 p (c :: r) (le_n _) eq_refl ltac:(discriminate)) as (l & s2 & evs & L1 & L2 & L3 & L4 & L5).
      exists (ANMerge :: l), s2, ((ANMerge, ONone) :: evs). cbn [run forallb is_notif adm_any]. rewrite St, L2, L1.
      split; [reflexivity|]. split; [reflexivity|]. split; [exact L3|]. split; [exact L4|]. eapply same_rest_trans; [exact Sr | exact L5].
  - destruct rem as [|c r]; [exfalso; eapply Hok; eauto|].
    apply (drain_send (length (c :: r)) s p (c :: r) (le_n _) Hn). discriminate.
Qed.

Lemma drain_queue n : forall s, (length (queue s) <= n)%nat -> notif_ok s ->
  exists l s' evs, forallb is_notif l = true /\ run adm_any s l = Some (s', evs)
                   /\ notif s' = NIdle /\ queue s' = [] /\ same_rest s s'.
Proof.
  induction n as [|n IH]; intros s Hl Hok.
  - destruct (drain_event s Hok) as (l & s1 & evs & L1 & L2 & L3 & L4 & L5).
    exists l, s1, evs. split; [exact L1|]. split; [exact L2|]. split; [exact L3|]. split; [|exact L5].
    rewrite L4. destruct (queue s); [reflexivity | cbn in Hl; lia].
  - destruct (drain_event s Hok) as (l & s1 & evs & L1 & L2 & L3 & L4 & L5).
    destruct (queue s1) as [|p r] eqn:Eq.
    + exists l, s1, evs. split; [exact L1|]. split; [exact L2|]. split; [exact L3|]. split; [exact Eq | exact L5].
    + set (s2 := set_notif (set_queue s1 r) (NGot p)).
      assert (St : step s1 ANDeq = Some (s2, ONone)) by (cbn [step]; rewrite L3, Eq; reflexivity).
      assert (Hok2 : notif_ok s2) by (intros q; discriminate).
      assert (Hl2 : (length (queue s2) <= n)%nat) by (cbn; rewrite <- L4 in Hl; cbn in Hl; lia).
      destruct (IH s2 Hl2 Hok2) as (l2 & s3 & evs2 & M1 & M2 & M3 & M4 & M5).
      exists (l ++ ANDeq :: l2), s3, (evs ++ (ANDeq, ONone) :: evs2).
      split; [rewrite forallb_app, L1; cbn; exact M1|].
      split; [eapply run_app; [exact L2|]; cbn [run adm_any]; rewrite St, M2; reflexivity|].
      split; [exact M3|]. split; [exact M4|].
      eapply same_rest_trans; [exact L5|]. eapply same_rest_trans; [|exact M5]. repeat split.
Qed.

Theorem notifier_drains_alone_proved :
  forall P q s evs, reach P q s evs ->
  exists l s' evs', forallb is_notif l = true /\ run adm_any s l = Some (s', evs')
                    /\ notif s' = NIdle /\ queue s' = [] /\ calls s' = calls s
                    /\ (forall c, wv (chans s') c = wv (chans s) c).
Proof.
  intros P q s evs R. destruct (drain_queue (length (queue s)) s (le_n _) (reach_notif_ok _ _ _ _ R)) as (l & s1 & e & L1 & L2 & L3 & L4 & L5 & L6 & _).
  exists l, s1, e. auto 10.
Qed.

(* the two steps of Update: the store is always enabled; the enqueue becomes enabled after
   notifier steps alone - no watcher has to move, whatever tokens and watcher pcs are *)
Theorem update_store_enabled_proved : forall s p x, step s (AUpdStore p x) = Some (upd_store p x s, ONone).
Proof. reflexivity. Qed.

Theorem update_completes_without_watchers_proved :
  0 < cap ->
  forall P q s evs p, reach P q s evs -> In (KUpd p) (calls s) ->
  exists l s1 evs1 s2, forallb is_notif l = true /\ run adm_any s l = Some (s1, evs1)
                       /\ (forall c, wv (chans s1) c = wv (chans s) c)
                       /\ step s1 (AUpdEnq p) = Some (s2, ONone).
Proof.
  intros Hcap P q s evs p R Hin.
  destruct (notifier_drains_alone_proved _ _ _ _ R) as (l & s1 & e & L1 & L2 & L3 & L4 & L5 & L6).
  exists l, s1, e. eexists. repeat split; eauto.
  cbn [step]. rewrite upd_enq_enabled; [reflexivity | rewrite L5; apply has_In; exact Hin |].
  unfold can_enq. rewrite L4. apply N.ltb_lt. exact Hcap.
Qed.
