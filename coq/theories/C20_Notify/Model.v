(* C20 - in10nmem notification broker: interleaving model at the granularity of the code's
   critical sections (pkg/in10nmem/impl.go).  Definitions only.

   One action = one lock-delimited step of one goroutine:
     Update        AUpdStore (nb.Lock: store offset)            ; AUpdEnq  (events <- e; blocking: enabled only while the queue has room)
     Subscribe     ASubReg  (nb.Lock: checks, subscription, toSubscribe[ch]=channel) ; ASubMark (hook window only) ; ASubEnq
     Unsubscribe   AUnsReg  (nb.Lock: remove subscription, toSubscribe[ch]=nil)      ; AUnsMark (hook window only) ; AUnsEnq
   (in the unrepaired shape of the code, mark_early = false, the toSubscribe write is the A*Mark step)
     cleanup       AClnTerm (nb.Lock: clone, terminated)        ; per cloned key AClnReg + the Unsubscribe steps ; AClnFin
     notifier      ANDeq (<-events) ; ANMerge (prj.Lock: merge toSubscribe) ; ANSend c (non-blocking token send, one per channel)
     WatchChannel  AWStart ; AWTake (<-cchan) ; AWScan (nb.Lock: collect + mark delivered) ; AWDeliver (callbacks) ; AWStop
   Channels are numbered in creation order (the harness maps the UUIDs), projections and subjects
   are small numbers.  A cleaned-up channel stays in [chans] with c_live = false: the Go object
   is still referenced by its watcher and by stale subscribedChannels entries. *)
From Coq Require Import List NArith Bool Lia.
From V Require Import Lib.Check Gen.Params.
Import ListNotations.
Local Open Scope N_scope.

(* ---- association lists keyed by N (kept sorted by key) ---- *)
Fixpoint get {V} (k : N) (m : list (N * V)) : option V :=
  match m with [] => None | (k', v) :: r => if k =? k' then Some v else get k r end.
Fixpoint set {V} (k : N) (v : V) (m : list (N * V)) : list (N * V) :=
  match m with
  | [] => [(k, v)]
  | (k', v') :: r => if k =? k' then (k, v) :: r else if k <? k' then (k, v) :: (k', v') :: r else (k', v') :: set k v r
  end.
Fixpoint del {V} (k : N) (m : list (N * V)) : list (N * V) :=
  match m with [] => [] | (k', v') :: r => if k =? k' then del k r else (k', v') :: del k r end.
Definition memN (c : N) (l : list N) : bool := existsb (N.eqb c) l.
Definition sadd (c : N) (l : list N) : list N := if memN c l then l else c :: l.
Definition lenN {T} (l : list T) : N := N.of_nat (length l).

(* ---- state ---- *)
Inductive wpc := WNone | WIdle | WGot | WPend (u : list (N * N)) | WDone.
Record chan := mkChan { c_subj : N; c_subs : list (N * N); c_term : bool; c_live : bool; c_tok : bool; c_w : wpc }.
Record proj := mkProj { p_off : N; p_tosub : list (N * bool); p_subd : list N }.
Inductive npc := NIdle | NGot (p : N) | NSend (p : N) (rem : list N).
Inductive call :=
| KUpd (p : N)                         (* Update: offset stored, event not yet queued *)
| KSub (c p : N) (marked : bool)       (* Subscribe: registered; marked = toSubscribe already set *)
| KUns (c p : N) (marked : bool)       (* Unsubscribe (also the ones issued by cleanup) *)
| KCln (c : N) (rem : list N) (busy : bool).  (* cleanup: keys still to unsubscribe; busy = inside an Unsubscribe *)
Record quotas := mkQ { q_ch : N; q_chs : N; q_sub : N; q_subs : N }.
Record state := mkSt { quo : quotas; chans : list (N * chan); nextc : N; projs : list (N * proj);
                       queue : list N; notif : npc; calls : list call; nsubs : N; metrics : list (N * (N * N)) }.

Definition init (q : quotas) : state := mkSt q [] 0 [] [] NIdle [] 0 [].

Definition set_chans s x := mkSt (quo s) x (nextc s) (projs s) (queue s) (notif s) (calls s) (nsubs s) (metrics s).
Definition set_nextc s x := mkSt (quo s) (chans s) x (projs s) (queue s) (notif s) (calls s) (nsubs s) (metrics s).
Definition set_projs s x := mkSt (quo s) (chans s) (nextc s) x (queue s) (notif s) (calls s) (nsubs s) (metrics s).
Definition set_queue s x := mkSt (quo s) (chans s) (nextc s) (projs s) x (notif s) (calls s) (nsubs s) (metrics s).
Definition set_notif s x := mkSt (quo s) (chans s) (nextc s) (projs s) (queue s) x (calls s) (nsubs s) (metrics s).
Definition set_calls s x := mkSt (quo s) (chans s) (nextc s) (projs s) (queue s) (notif s) x (nsubs s) (metrics s).
Definition set_nsubs s x := mkSt (quo s) (chans s) (nextc s) (projs s) (queue s) (notif s) (calls s) x (metrics s).
Definition set_metrics s x := mkSt (quo s) (chans s) (nextc s) (projs s) (queue s) (notif s) (calls s) (nsubs s) x.

Definition ch_subs ch x := mkChan (c_subj ch) x (c_term ch) (c_live ch) (c_tok ch) (c_w ch).
Definition ch_term ch x := mkChan (c_subj ch) (c_subs ch) x (c_live ch) (c_tok ch) (c_w ch).
Definition ch_live ch x := mkChan (c_subj ch) (c_subs ch) (c_term ch) x (c_tok ch) (c_w ch).
Definition ch_tok ch x := mkChan (c_subj ch) (c_subs ch) (c_term ch) (c_live ch) x (c_w ch).
Definition ch_w ch x := mkChan (c_subj ch) (c_subs ch) (c_term ch) (c_live ch) (c_tok ch) x.

Definition proj0 := mkProj 0 [] [].
Definition getp (p : N) (s : state) : proj := match get p (projs s) with Some x => x | None => proj0 end.
Definition offset (s : state) (p : N) : N := p_off (getp p s).
Definition putp (p : N) (x : proj) (s : state) : state := set_projs s (set p x (projs s)).
Definition putc (c : N) (x : chan) (s : state) : state := set_chans s (set c x (chans s)).
(* the channel as the API sees it (nb.channels) *)
Definition live_chan (s : state) (c : N) : option chan :=
  match get c (chans s) with Some ch => if c_live ch then Some ch else None | None => None end.
Definition count_live (m : list (N * chan)) : N := lenN (filter (fun x => c_live (snd x)) m).
Definition metric (s : state) (subj : N) : N * N := match get subj (metrics s) with Some x => x | None => (0, 0) end.

(* ---- in-flight calls (a multiset) ---- *)
Definition call_eqb (a b : call) : bool :=
  match a, b with
  | KUpd p, KUpd p' => p =? p'
  | KSub c p m, KSub c' p' m' => (c =? c') && (p =? p') && Bool.eqb m m'
  | KUns c p m, KUns c' p' m' => (c =? c') && (p =? p') && Bool.eqb m m'
  | KCln c r b, KCln c' r' b' => (c =? c') && list_eqb N.eqb r r' && Bool.eqb b b'
  | _, _ => false
  end.
Definition has (k : call) (l : list call) : bool := existsb (call_eqb k) l.
Fixpoint rm1 (k : call) (l : list call) : list call :=
  match l with [] => [] | x :: r => if call_eqb k x then r else x :: rm1 k r end.
Definition repl (k k' : call) (l : list call) : list call := k' :: rm1 k l.
(* the cleanup call of channel c that is between two Unsubscribe calls *)
Fixpoint cln_rem (c : N) (l : list call) : option (list N) :=
  match l with
  | [] => None
  | KCln c' r false :: t => if c =? c' then Some r else cln_rem c t
  | _ :: t => cln_rem c t
  end.
Definition unbusy (c : N) (l : list call) : list call :=
  map (fun k => match k with KCln c' r true => if c =? c' then KCln c' r false else k | _ => k end) l.

Definition cap : N := in10n_events_cap.
Definition can_enq (s : state) : bool := lenN (queue s) <? cap.
Definition enq (p : N) (s : state) : state := set_queue s (queue s ++ [p]).

(* ---- results and outputs ---- *)
Inductive res := ROk | ROkNoProj | RNoChan | RTerm | RNoMetric | RQSubs | RQSubsSubj | RQChans | RQChansSubj | RPanic.
Inductive out :=
| ONone
| ORes (r : res)
| OUnits (u : list (N * N))
| OMet (nch nsub : N) (subj : list (N * (N * N))) (psub : list (N * N)).

Inductive action :=
| ANewChan (subj : N)
| AUpdStore (p o : N) | AUpdEnq (p : N)
| ABlocked (p : N)   (* observation: the Update of p, released into its enqueue with the queue full, did not return *)
| ASubReg (c p : N) | ASubMark (c p : N) | ASubEnq (c p : N)
| AUnsReg (c p : N) | AUnsMark (c p : N) | AUnsEnq (c p : N)
| AClnTerm (c : N) | AClnReg (c p : N) | AClnFin (c : N)
| ANDeq | ANMerge | ANSend (c : N)
| AWStart (c : N) | AWTake (c : N) | AWScan (c : N) | AWDeliver (c : N) | AWStop (c : N)
| AProbe
| AMark (m : N)     (* harness phase markers: 0 watchers parked from here, 1 every call returned, 2 quiescent, 3 all cleaned *)
| AStuck (who : N). (* a goroutine did not arrive where the schedule sent it: never accepted *)

(* ---- shape of the code, detected by the translator ---- *)
(* Subscribe/Unsubscribe write toSubscribe inside their broker critical section (repaired code,
   fix of F19); false = the write is a separate step after the broker lock was released *)
Definition mark_early : bool := in10n_mark_under_broker_lock.
(* NewChannel applies ChannelsPerSubject to a subject's first channel too (fix of C20-Q0) *)
Definition first_checked : bool := in10n_first_channel_checked.

(* Update queues its event with an unconditional blocking send; false = a select with default,
   i.e. the event is dropped when the queue is full *)
Definition upd_blocking : bool := in10n_update_enqueue_blocking.

(* ---- the steps ---- *)
Definition new_chan (subj : N) (s : state) : state * out :=
  if q_ch (quo s) <=? count_live (chans s) then (s, ORes RQChans)
  else
    let mk (nc ns : N) :=
      let c := nextc s in
      (set_metrics (set_nextc (putc c (mkChan subj [] false true false WNone) s) (c + 1)) (set subj (nc + 1, ns) (metrics s)), ORes ROk) in
    match get subj (metrics s) with
    | Some (nc, ns) => if q_chs (quo s) <=? nc then (s, ORes RQChansSubj) else mk nc ns
    | None => if first_checked
              then (if q_chs (quo s) <=? 0
                    then (set_metrics s (set subj (0, 0) (metrics s)), ORes RQChansSubj)  (* the metric record is created before the check *)
                    else mk 0 0)
              else mk 0 0   (* unrepaired shape: a subject's first channel is not checked *)
    end.

(* guaranteeProjection *)
Definition ensure_proj (p : N) (s : state) : state :=
  match get p (projs s) with Some _ => s | None => putp p proj0 s end.

Definition upd_store (p o : N) (s : state) : state :=
  let s1 := ensure_proj p s in
  let x := getp p s1 in
  set_calls (putp p (mkProj o (p_tosub x) (p_subd x)) s1) (KUpd p :: calls s1).

(* the enqueue step of Update; [blk] = blocking send *)
Definition upd_enq_gen (blk : bool) (p : N) (s : state) : option state :=
  if has (KUpd p) (calls s) then
    if can_enq s then Some (enq p (set_calls s (rm1 (KUpd p) (calls s))))
    else if blk then None                                  (* blocked until the notifier dequeues *)
    else Some (set_calls s (rm1 (KUpd p) (calls s)))       (* select/default: the event is dropped *)
  else None.
Definition upd_enq := upd_enq_gen upd_blocking.

Definition mark (c p : N) (b : bool) (s : state) : state :=
  let x := getp p s in putp p (mkProj (p_off x) (set c b (p_tosub x)) (p_subd x)) s.
Definition mark_if (c p : N) (b : bool) (s : state) : state := if mark_early then mark c p b s else s.
Definition mark_late (c p : N) (b : bool) (s : state) : state := if mark_early then s else mark c p b s.

(* the broker part of Subscribe without the toSubscribe write *)
Definition sub_reg0 (c p : N) (s : state) : state * out :=
  match live_chan s c with
  | None => (s, ORes RNoChan)
  | Some ch =>
    if c_term ch then (s, ORes RTerm) else
    match get (c_subj ch) (metrics s) with
    | None => (s, ORes RNoMetric)
    | Some (nc, ns) =>
      if q_sub (quo s) <=? nsubs s then (s, ORes RQSubs)
      else if q_subs (quo s) <=? ns then (s, ORes RQSubsSubj)
      else
        let s1 := ensure_proj p s in
        let s2 := match get p (c_subs ch) with
                  | Some _ => s1
                  | None => set_metrics (set_nsubs (putc c (ch_subs ch (set p 0 (c_subs ch))) s1) (nsubs s + 1))
                                        (set (c_subj ch) (nc, ns + 1) (metrics s))
                  end in
        (set_calls s2 (KSub c p false :: calls s2), ORes ROk)
    end
  end.

Definition sub_reg (c p : N) (s : state) : state * out :=
  match sub_reg0 c p s with
  | (s', ORes ROk) => (mark_if c p true s', ORes ROk)
  | r => r
  end.

(* the broker part of Unsubscribe without the toSubscribe write; the flag says whether the projection exists *)
Definition uns_core0 (c p : N) (s : state) : option (state * bool) :=
  match live_chan s c with
  | None => None
  | Some ch =>
    let s1 := match get p (c_subs ch) with
              | None => Some s
              | Some _ => match get (c_subj ch) (metrics s) with
                          | None => None
                          | Some (nc, ns) => Some (set_metrics (set_nsubs (putc c (ch_subs ch (del p (c_subs ch))) s) (nsubs s - 1))
                                                               (set (c_subj ch) (nc, ns - 1) (metrics s)))
                          end
              end in
    match s1 with
    | None => None
    | Some s1 => Some (s1, match get p (projs s1) with Some _ => true | None => false end)
    end
  end.

Definition uns_core (c p : N) (s : state) : option (state * bool) :=
  match uns_core0 c p s with
  | Some (s1, true) => Some (mark_if c p false s1, true)
  | r => r
  end.

Definition uns_reg (c p : N) (s : state) : state * out :=
  match live_chan s c with
  | None => (s, ORes RNoChan)
  | Some _ =>
    match uns_core c p s with
    | None => (s, ORes RNoMetric)
    | Some (s1, true) => (set_calls s1 (KUns c p false :: calls s1), ORes ROk)
    | Some (s1, false) => (s1, ORes ROkNoProj)
    end
  end.

Definition cln_term (c : N) (s : state) : option (state * out) :=
  if nextc s <=? c then None else
  match live_chan s c with
  | None => Some (s, ORes RPanic)
  | Some ch => if c_term ch then Some (s, ORes RPanic)
               else let s1 := putc c (ch_term ch true) s in
                    Some (set_calls s1 (KCln c (map fst (c_subs ch)) false :: calls s1), ORes ROk)
  end.

Definition cln_reg (c p : N) (s : state) : option state :=
  match cln_rem c (calls s) with
  | None => None
  | Some r =>
    if memN p r then
      match uns_core c p s with
      | None => None
      | Some (s1, true) => Some (set_calls s1 (KUns c p false :: repl (KCln c r false) (KCln c (filter (fun x => negb (x =? p)) r) true) (calls s1)))
      | Some (s1, false) => Some (set_calls s1 (repl (KCln c r false) (KCln c (filter (fun x => negb (x =? p)) r) false) (calls s1)))
      end
    else None
  end.

Definition cln_fin (c : N) (s : state) : option state :=
  if has (KCln c [] false) (calls s) then
    match get c (chans s) with
    | None => None
    | Some ch =>
      let '(nc, ns) := metric s (c_subj ch) in
      Some (set_calls (set_metrics (putc c (ch_live ch false) s) (set (c_subj ch) (nc - 1, ns) (metrics s)))
                      (rm1 (KCln c [] false) (calls s)))
    end
  else None.

(* merge of toSubscribe into subscribedChannels *)
Definition merged (ts : list (N * bool)) (sd : list N) : list N :=
  fold_right sadd (filter (fun c => match get c ts with None => true | Some _ => false end) sd)
                  (filter (fun c => match get c ts with Some true => true | _ => false end) (map fst ts)).

Definition after_send (p : N) (rem : list N) : npc := match rem with [] => NIdle | _ => NSend p rem end.

Definition scan_units (s : state) (subs : list (N * N)) : list (N * N) :=
  flat_map (fun pd => if snd pd <? offset s (fst pd) then [(fst pd, offset s (fst pd))] else []) subs.
Definition scan_mark (s : state) (subs : list (N * N)) : list (N * N) :=
  map (fun pd => if snd pd <? offset s (fst pd) then (fst pd, offset s (fst pd)) else pd) subs.

Definition wpc_idle (w : wpc) : bool := match w with WNone | WIdle | WDone => true | _ => false end.
Definition quiet (s : state) : bool :=
  match queue s, notif s, calls s with
  | [], NIdle, [] => forallb (fun x => wpc_idle (c_w (snd x)) && (negb (c_tok (snd x)) || match c_w (snd x) with WIdle => false | _ => true end)) (chans s)
  | _, _, _ => false
  end.

Definition probe (s : state) : out :=
  OMet (count_live (chans s)) (nsubs s) (metrics s)
       (filter (fun x => negb (snd x =? 0)) (map (fun x => (fst x, lenN (p_subd (snd x)))) (projs s))).

Definition step (s : state) (a : action) : option (state * out) :=
  match a with
  | ANewChan subj => Some (new_chan subj s)
  | AUpdStore p o => Some (upd_store p o s, ONone)
  | AUpdEnq p => match upd_enq p s with Some s' => Some (s', ONone) | None => None end
  | ABlocked p => if has (KUpd p) (calls s) && negb (can_enq s) && upd_blocking then Some (s, ONone) else None
  | ASubReg c p => Some (sub_reg c p s)
  | ASubMark c p => if has (KSub c p false) (calls s)
                    then Some (set_calls (mark_late c p true s) (repl (KSub c p false) (KSub c p true) (calls s)), ONone) else None
  | ASubEnq c p => if has (KSub c p true) (calls s) && can_enq s then Some (enq p (set_calls s (rm1 (KSub c p true) (calls s))), ONone) else None
  | AUnsReg c p => Some (uns_reg c p s)
  | AUnsMark c p => if has (KUns c p false) (calls s)
                    then Some (set_calls (mark_late c p false s) (repl (KUns c p false) (KUns c p true) (calls s)), ONone) else None
  | AUnsEnq c p => if has (KUns c p true) (calls s) && can_enq s
                   then Some (enq p (set_calls s (unbusy c (rm1 (KUns c p true) (calls s)))), ONone) else None
  | AClnTerm c => cln_term c s
  | AClnReg c p => match cln_reg c p s with Some s' => Some (s', ONone) | None => None end
  | AClnFin c => match cln_fin c s with Some s' => Some (s', ONone) | None => None end
  | ANDeq => match notif s, queue s with NIdle, p :: r => Some (set_notif (set_queue s r) (NGot p), ONone) | _, _ => None end
  | ANMerge => match notif s with
               | NGot p => let x := getp p s in
                           let sd := merged (p_tosub x) (p_subd x) in
                           Some (set_notif (putp p (mkProj (p_off x) [] sd) s) (after_send p sd), ONone)
               | _ => None
               end
  | ANSend c => match notif s with
                | NSend p rem =>
                  if memN c rem then
                    let s1 := match get c (chans s) with Some ch => putc c (ch_tok ch true) s | None => s end in
                    Some (set_notif s1 (after_send p (filter (fun x => negb (x =? c)) rem)), ONone)
                  else None
                | _ => None
                end
  | AWStart c => match live_chan s c with
                 | None => Some (s, ORes RPanic)
                 | Some ch => match c_w ch with
                              | WNone => Some (putc c (ch_w ch WIdle) s, ORes ROk)
                              | WDone => None                      (* watching a channel again: outside the modelled domain *)
                              | _ => Some (s, ORes RPanic)
                              end
                 end
  | AWTake c => match get c (chans s) with
                | Some ch => match c_w ch with
                             | WIdle => if c_tok ch then Some (putc c (ch_w (ch_tok ch false) WGot) s, ONone) else None
                             | _ => None
                             end
                | None => None
                end
  | AWScan c => match get c (chans s) with
                | Some ch => match c_w ch with
                             | WGot => Some (putc c (ch_w (ch_subs ch (scan_mark s (c_subs ch))) (WPend (scan_units s (c_subs ch)))) s, ONone)
                             | _ => None
                             end
                | None => None
                end
  | AWDeliver c => match get c (chans s) with
                   | Some ch => match c_w ch with WPend u => Some (putc c (ch_w ch WIdle) s, OUnits u) | _ => None end
                   | None => None
                   end
  | AWStop c => match get c (chans s) with
                | Some ch => match c_w ch with WIdle | WGot => Some (putc c (ch_w ch WDone) s, ONone) | _ => None end
                | None => None
                end
  | AProbe => Some (s, probe s)
  | AMark m => if m =? 1 then (match calls s with [] => Some (s, ONone) | _ => None end)
               else if m =? 2 then (if quiet s then Some (s, ONone) else None)
               else if m =? 3 then (if quiet s && (count_live (chans s) =? 0) then Some (s, ONone) else None)
               else Some (s, ONone)
  | AStuck _ => None
  end.

(* ---- admissible steps: the hypotheses of the theorems, as a predicate on (state, action) ---- *)
(* updates of one projection carry non-decreasing offsets *)
Definition adm_mono (s : state) (a : action) : bool :=
  match a with AUpdStore p o => offset s p <=? o | _ => true end.
Definition adm_any (s : state) (a : action) : bool := true.

Definition ev := (action * out)%type.

Inductive reach (P : state -> action -> bool) (q : quotas) : state -> list ev -> Prop :=
| reach_init : reach P q (init q) []
| reach_step s evs a s' o : reach P q s evs -> P s a = true -> step s a = Some (s', o) -> reach P q s' (evs ++ [(a, o)]).

(* executable form: run a list of actions *)
Fixpoint run (P : state -> action -> bool) (s : state) (l : list action) : option (state * list ev) :=
  match l with
  | [] => Some (s, [])
  | a :: r => if P s a then
                match step s a with
                | Some (s', o) => match run P s' r with Some (s'', evs) => Some (s'', (a, o) :: evs) | None => None end
                | None => None
                end
              else None
  end.

(* ---- traces ---- *)
Record trace := mkTrace { t_quotas : quotas; t_evs : list ev }.

Definition res_eqb (a b : res) : bool :=
  match a, b with
  | ROk, ROk | ROkNoProj, ROkNoProj | RNoChan, RNoChan | RTerm, RTerm | RNoMetric, RNoMetric | RQSubs, RQSubs
  | RQSubsSubj, RQSubsSubj | RQChans, RQChans | RQChansSubj, RQChansSubj | RPanic, RPanic => true
  | _, _ => false
  end.
Definition nn_eqb (a b : N * N) : bool := (fst a =? fst b) && (snd a =? snd b).
Definition nnn_eqb (a b : N * (N * N)) : bool := (fst a =? fst b) && nn_eqb (snd a) (snd b).
Definition out_eqb (a b : out) : bool :=
  match a, b with
  | ONone, ONone => true
  | ORes r, ORes r' => res_eqb r r'
  | OUnits u, OUnits u' => list_eqb nn_eqb u u'
  | OMet a1 a2 a3 a4, OMet b1 b2 b3 b4 => (a1 =? b1) && (a2 =? b2) && list_eqb nnn_eqb a3 b3 && list_eqb nn_eqb a4 b4
  | _, _ => false
  end.

Fixpoint replay (s : state) (l : list ev) : bool :=
  match l with
  | [] => true
  | (a, o) :: r => match step s a with Some (s', o') => out_eqb o o' && replay s' r | None => false end
  end.

(* every action the harness linearised is enabled in the model and gives the observed output *)
Definition agrees (t : trace) : bool := replay (init (t_quotas t)) (t_evs t).

(* ---- the property judged on the observed events only (no implementation model) ---- *)
Definition key (c p : N) : N := c * 65536 + p.
Record ost := mkO {
  o_q : quotas;
  o_live : list (N * N);       (* channel -> subject: created, cleanup not finished *)
  o_term : list N;       (* cleanup started *)
  o_nextc : N;
  o_subs : list (N * N);       (* key c p -> offset last notified to this subscription (instance) *)
  o_last : list (N * N);       (* projection -> offset of the last Update *)
  o_bad : list N;       (* projections whose updates were not non-decreasing (outside the domain of the delivery clauses) *)
  o_maxrep : list (N * N);       (* key c p -> largest offset reported so far *)
  o_snap : list N;       (* keys whose subscription existed at the channel's last scan and still is the same subscription *)
  o_watch : list N;       (* channels with a running WatchChannel *)
  o_open : N;       (* API calls in flight *)
  o_parked : bool;       (* between markers 0 and 1: no watcher may have moved *)
  o_final : bool;
  o_ok : bool }.

Definition o0 (q : quotas) := mkO q [] [] 0 [] [] [] [] [] [] 0 false false true.
Definition getd (k : N) (m : list (N * N)) : N := match get k m with Some v => v | None => 0 end.
Definition fail (o : ost) := mkO (o_q o) (o_live o) (o_term o) (o_nextc o) (o_subs o) (o_last o) (o_bad o) (o_maxrep o) (o_snap o) (o_watch o) (o_open o) (o_parked o) (o_final o) false.
Definition chk (b : bool) (o : ost) := if b then o else fail o.
Definition w_live o x := mkO (o_q o) x (o_term o) (o_nextc o) (o_subs o) (o_last o) (o_bad o) (o_maxrep o) (o_snap o) (o_watch o) (o_open o) (o_parked o) (o_final o) (o_ok o).
Definition w_term o x := mkO (o_q o) (o_live o) x (o_nextc o) (o_subs o) (o_last o) (o_bad o) (o_maxrep o) (o_snap o) (o_watch o) (o_open o) (o_parked o) (o_final o) (o_ok o).
Definition w_nextc o x := mkO (o_q o) (o_live o) (o_term o) x (o_subs o) (o_last o) (o_bad o) (o_maxrep o) (o_snap o) (o_watch o) (o_open o) (o_parked o) (o_final o) (o_ok o).
Definition w_subs o x := mkO (o_q o) (o_live o) (o_term o) (o_nextc o) x (o_last o) (o_bad o) (o_maxrep o) (o_snap o) (o_watch o) (o_open o) (o_parked o) (o_final o) (o_ok o).
Definition w_last o x := mkO (o_q o) (o_live o) (o_term o) (o_nextc o) (o_subs o) x (o_bad o) (o_maxrep o) (o_snap o) (o_watch o) (o_open o) (o_parked o) (o_final o) (o_ok o).
Definition w_bad o x := mkO (o_q o) (o_live o) (o_term o) (o_nextc o) (o_subs o) (o_last o) x (o_maxrep o) (o_snap o) (o_watch o) (o_open o) (o_parked o) (o_final o) (o_ok o).
Definition w_maxrep o x := mkO (o_q o) (o_live o) (o_term o) (o_nextc o) (o_subs o) (o_last o) (o_bad o) x (o_snap o) (o_watch o) (o_open o) (o_parked o) (o_final o) (o_ok o).
Definition w_snap o x := mkO (o_q o) (o_live o) (o_term o) (o_nextc o) (o_subs o) (o_last o) (o_bad o) (o_maxrep o) x (o_watch o) (o_open o) (o_parked o) (o_final o) (o_ok o).
Definition w_watch o x := mkO (o_q o) (o_live o) (o_term o) (o_nextc o) (o_subs o) (o_last o) (o_bad o) (o_maxrep o) (o_snap o) x (o_open o) (o_parked o) (o_final o) (o_ok o).
Definition w_open o x := mkO (o_q o) (o_live o) (o_term o) (o_nextc o) (o_subs o) (o_last o) (o_bad o) (o_maxrep o) (o_snap o) (o_watch o) x (o_parked o) (o_final o) (o_ok o).
Definition w_parked o x := mkO (o_q o) (o_live o) (o_term o) (o_nextc o) (o_subs o) (o_last o) (o_bad o) (o_maxrep o) (o_snap o) (o_watch o) (o_open o) x (o_final o) (o_ok o).
Definition w_final o x := mkO (o_q o) (o_live o) (o_term o) (o_nextc o) (o_subs o) (o_last o) (o_bad o) (o_maxrep o) (o_snap o) (o_watch o) (o_open o) (o_parked o) x (o_ok o).

Definition subj_of (o : ost) (c : N) : N := getd c (o_live o).
Definition chans_of_subj (o : ost) (subj : N) : N := lenN (filter (fun x => snd x =? subj) (o_live o)).
Definition subs_of_subj (o : ost) (subj : N) : N :=
  lenN (filter (fun x => match get (fst x / 65536) (o_live o) with Some sj => sj =? subj | None => false end) (o_subs o)).
Definition watcher_moved (o : ost) : ost := chk (negb (o_parked o)) o.

(* quiescence: every subscription of a live, watched channel has been told the last offset *)
Definition quiet_ok (o : ost) : bool :=
  forallb (fun kn =>
    let c := fst kn / 65536 in let p := fst kn mod 65536 in
    match get c (o_live o) with
    | None => true
    | Some _ => memN c (o_term o) || negb (memN c (o_watch o)) || memN p (o_bad o) || (snd kn =? getd p (o_last o))
    end) (o_subs o).

Definition chan_of_key (k : N) : N := k / 65536.
Definition unsnap (k : N) (o : ost) : ost := w_snap o (filter (fun x => negb (x =? k)) (o_snap o)).
(* a scan collects units of the subscriptions that exist at that moment *)
Definition snap_chan (c : N) (o : ost) : ost :=
  w_snap o (filter (fun x => negb (chan_of_key x =? c)) (o_snap o) ++ filter (fun x => chan_of_key x =? c) (map fst (o_subs o))).

Definition deliver1 (c : N) (o : ost) (po : N * N) : ost :=
  let k := key c (fst po) in
  (* across unsubscribe / re-subscribe: only where the projection's updates did not decrease *)
  let o1 := chk (memN (fst po) (o_bad o) || (getd k (o_maxrep o) <=? snd po)) o in
  let o2 := w_maxrep o1 (set k (N.max (getd k (o_maxrep o1)) (snd po)) (o_maxrep o1)) in
  (* within one subscription reports never decrease, whatever the updates do; a unit collected
     for an earlier subscription of the same key says nothing about the present one *)
  if memN k (o_snap o2) then
    match get k (o_subs o2) with
    | Some n => w_subs (chk (n <=? snd po) o2) (set k (snd po) (o_subs o2))
    | None => o2
    end
  else o2.

Definition met_ok (o : ost) (nch nsub : N) (subj : list (N * (N * N))) (psub : list (N * N)) : bool :=
  let q := o_q o in
  (nch <=? q_ch q) && (nsub <=? q_sub q)
  && forallb (fun x => (fst (snd x) <=? q_chs q) && (snd (snd x) <=? q_subs q)) subj
  && (nch =? lenN (o_live o)) && (nsub =? lenN (o_subs o))
  && forallb (fun x => (fst (snd x) =? chans_of_subj o (fst x)) && (snd (snd x) =? subs_of_subj o (fst x))) subj
  && (negb (o_final o) || ((nch =? 0) && (nsub =? 0) && forallb (fun x => (fst (snd x) =? 0) && (snd (snd x) =? 0)) subj
                           && match psub with [] => true | _ => false end)).

Definition observe (o : ost) (e : ev) : ost :=
  match e with
  | (ANewChan subj, ORes ROk) =>
      let o1 := w_nextc (w_live o (set (o_nextc o) subj (o_live o))) (o_nextc o + 1) in
      chk ((lenN (o_live o1) <=? q_ch (o_q o)) && (chans_of_subj o1 subj <=? q_chs (o_q o))) o1
  | (AUpdStore p x, _) =>
      let o1 := if x <? getd p (o_last o) then w_bad o (sadd p (o_bad o)) else o in
      w_open (w_last o1 (set p x (o_last o1))) (o_open o1 + 1)
  | (AUpdEnq _, _) | (ASubEnq _ _, _) | (AUnsEnq _ _, _) => w_open o (o_open o - 1)
  | (ASubReg c p, ORes ROk) =>
      let o1 := match get (key c p) (o_subs o) with Some _ => o | None => unsnap (key c p) (w_subs o (set (key c p) 0 (o_subs o))) end in
      let o2 := w_open o1 (o_open o1 + 1) in
      chk ((lenN (o_subs o2) <=? q_sub (o_q o)) && (subs_of_subj o2 (subj_of o2 c) <=? q_subs (o_q o))) o2
  | (AUnsReg c p, ORes ROk) => w_open (unsnap (key c p) (w_subs o (del (key c p) (o_subs o)))) (o_open o + 1)
  | (AUnsReg c p, ORes ROkNoProj) => unsnap (key c p) (w_subs o (del (key c p) (o_subs o)))
  | (AClnTerm c, ORes ROk) => w_open (w_term o (sadd c (o_term o))) (o_open o + 1)
  | (AClnReg c p, _) => w_open (unsnap (key c p) (w_subs o (del (key c p) (o_subs o)))) (o_open o + 1)
  | (AClnFin c, _) => w_open (w_live o (del c (o_live o))) (o_open o - 1)
  | (AWStart c, ORes ROk) => w_watch o (sadd c (o_watch o))
  | (AWStop c, _) => w_watch o (filter (fun x => negb (x =? c)) (o_watch o))
  | (AWTake _, _) => watcher_moved o
  | (AWScan c, _) => snap_chan c (watcher_moved o)
  | (AWDeliver c, OUnits u) => fold_left (deliver1 c) u (watcher_moved o)
  | (AProbe, OMet nch nsub subj psub) => chk (met_ok o nch nsub subj psub) o
  | (AMark m, _) =>
      if m =? 0 then w_parked o true
      else if m =? 1 then w_parked (chk (o_open o =? 0) o) false
      else if m =? 2 then chk (quiet_ok o) o
      else if m =? 3 then w_final (chk (match o_live o with [] => true | _ => false end) o) true
      else o
  | (AStuck _, _) => fail o
  | _ => o
  end.

Definition satisfies (t : trace) : bool := o_ok (fold_left observe (t_evs t) (o0 (t_quotas t))).
