(* C20 - no stale notifier subscription: at quiescence a channel is in subscribedChannels of a
   projection only if its subscription exists (so after cleanup nothing is left).
   (For the repaired code: the toSubscribe write is part of the broker critical section.) *)
From Coq Require Import List NArith Bool Lia.
From V Require Import Lib.Check Gen.Params C20_Notify.Model C20_Notify.Base C20_Notify.Views C20_Notify.Wake C20_Notify.Quota.
Import ListNotations.
Local Open Scope N_scope.

Ltac inv H := inversion H; subst; clear H.

Definition tsv (m : list (N * proj)) (p c : N) : option bool := get c (p_tosub (gp m p)).

Record SInv (s : state) : Prop := mkSInv {
  S2 : forall p c, eff (projs s) p c -> subv (chans s) c p <> None;
  S5 : forall p c, tsv (projs s) p c <> None -> pend s p }.

Lemma SInv_init q : SInv (init q).
Proof. split; cbn; intros; tauto. Qed.

Definition same_subs (m m' : list (N * proj)) : Prop :=
  forall p, p_tosub (gp m' p) = p_tosub (gp m p) /\ p_subd (gp m' p) = p_subd (gp m p).

Lemma same_subs_eff m m' p c : same_subs m m' -> (eff m' p c <-> eff m p c).
Proof. intros H. unfold eff. destruct (H p) as [-> ->]. tauto. Qed.
Lemma same_subs_tsv m m' p c : same_subs m m' -> tsv m' p c = tsv m p c.
Proof. intros H. unfold tsv. destruct (H p) as [-> _]. reflexivity. Qed.
Lemma same_subs_refl m : same_subs m m. Proof. intros p. split; reflexivity. Qed.

Lemma SInv_transfer s s' :
  SInv s ->
  (forall c p, subv (chans s) c p <> None -> subv (chans s') c p <> None) ->
  same_subs (projs s) (projs s') ->
  (forall p, pend s p -> pend s' p) ->
  SInv s'.
Proof.
  intros I Hs Hp Hq. split.
  - intros p c H. apply (same_subs_eff _ _ _ _ Hp) in H. apply Hs. eapply S2; eauto.
  - intros p c H. rewrite (same_subs_tsv _ _ _ _ Hp) in H. apply Hq. eapply S5; eauto.
Qed.

Lemma pend_calls s s' p :
  queue s' = queue s -> notif s' = notif s -> (forall q, pendc (calls s) q -> pendc (calls s') q) -> pend s p -> pend s' p.
Proof. intros Hq Hn Hk. unfold pend. rewrite Hq, Hn. intros [W|[W|W]]; auto. Qed.

Lemma pend_enq s k p l p' :
  cp k = Some p -> (forall q, pendc (rm1 k (calls s)) q -> pendc l q) -> pend s p' -> pend (enq p (set_calls s l)) p'.
Proof.
  intros Hk Hl. unfold pend. cbn. intros [W|[W|W]]; auto.
  - left. apply in_or_app. left. exact W.
  - destruct (pendc_rm1 k _ _ W) as [E|E]; [left; apply in_or_app; right; left; congruence | auto].
Qed.

Lemma subv_keep_set m c ch x :
  get c m = Some ch -> (forall p, get p (c_subs ch) <> None -> get p (c_subs x) <> None) ->
  forall c' p, subv m c' p <> None -> subv (set c x m) c' p <> None.
Proof.
  intros G K c' p. rewrite subv_set. destruct (c' =? c) eqn:E; [|auto].
  apply N.eqb_eq in E; subst. unfold subv. rewrite G. apply K.
Qed.

Lemma subv_keep_same m c ch x : get c m = Some ch -> c_subs x = c_subs ch -> forall c' p, subv m c' p <> None -> subv (set c x m) c' p <> None.
Proof. intros G E. eapply subv_keep_set; eauto. rewrite E. auto. Qed.

Lemma SInv_uns_core s c p s1 b l :
  SInv s -> uns_core c p s = Some (s1, b) -> (forall q, pendc (calls s) q -> pendc l q) -> cp (KUns c p false) = Some p ->
  (b = true -> pendc l p) -> SInv (set_calls s1 l).
Proof.
  intros I U Hl _ Hb. destruct (uns_core_spec _ _ _ _ _ U) as (Sv & _ & _ & Pj & Cl & Qu & Nf & _ & Nb).
  split; cbn.
  - intros p' c' K. rewrite Sv. destruct ((c' =? c) && (p' =? p)) eqn:Eb.
    + exfalso. apply andb_true_iff in Eb. destruct Eb as [E1 E2]. apply N.eqb_eq in E1, E2; subst.
      rewrite Pj in K. destruct b.
      * apply mark_eff in K. rewrite !N.eqb_refl in K. discriminate.
      * unfold eff, gp in K. rewrite (Nb eq_refl) in K. cbn in K. contradiction.
    + apply (S2 _ I). rewrite Pj in K. destruct b; [|exact K]. apply mark_eff in K.
      rewrite andb_comm in Eb. rewrite Eb in K. exact K.
  - intros p' c' K. rewrite Pj in K. unfold pend. cbn. rewrite Qu, Nf.
    destruct b.
    + unfold tsv in K. rewrite mark_gp in K. destruct (p' =? p) eqn:Ep.
      * apply N.eqb_eq in Ep; subst. right; right. apply Hb. reflexivity.
      * assert (W : pend s p') by (eapply S5; eauto). unfold pend in W. destruct W as [W|[W|W]]; auto.
    + assert (W : pend s p') by (eapply S5; eauto). unfold pend in W. destruct W as [W|[W|W]]; auto.
Qed.

Theorem SInv_step s a s' o :
  (forall c, nextc s <= c -> get c (chans s) = None) ->
  SInv s -> step s a = Some (s', o) -> SInv s'.
Proof.
  intros Fresh I H.
  assert (KeepC : forall c ch x, get c (chans s) = Some ch -> c_subs x = c_subs ch -> SInv (putc c x s)).
  { intros c ch x G E. apply (SInv_transfer s); auto; cbn.
    - eapply subv_keep_same; eauto.
    - apply same_subs_refl. }
  assert (Calls : forall s0 l, SInv s0 -> (forall q, pendc (calls s0) q -> pendc l q) -> SInv (set_calls s0 l)).
  { intros s0 l I0 Hl. apply (SInv_transfer s0); auto; [apply same_subs_refl|]. intros p. apply pend_calls; auto. }
  destruct a; cbn [step] in H.
  - (* ANewChan *)
    inv H. unfold new_chan in H1. destruct (q_ch (quo s) <=? count_live (chans s)); [inv H1; exact I|].
    assert (K : forall m, SInv (set_metrics (set_nextc (putc (nextc s) (mkChan subj [] false true false WNone) s) (nextc s + 1)) m)).
    { intros m. apply (SInv_transfer s); auto; cbn; [|apply same_subs_refl].
      intros c p. rewrite subv_set. destruct (c =? nextc s) eqn:E; [|auto].
      apply N.eqb_eq in E; subst. unfold subv. rewrite (Fresh (nextc s)); [congruence | lia]. }
    destruct (get subj (metrics s)) as [[nc ns]|]; [destruct (q_chs (quo s) <=? nc); inv H1; auto|].
    rewrite first_checked_true in H1. destruct (q_chs (quo s) <=? 0); inv H1; auto.
    apply (SInv_transfer s); auto. apply same_subs_refl.
  - (* AUpdStore *)
    inv H. unfold upd_store. apply (SInv_transfer s); auto; cbn; rewrite ?ensure_chans, ?ensure_calls; auto.
    + intros p'. rewrite gp_set, getp_gp, !gp_ensure. destruct (p' =? p) eqn:E; [apply N.eqb_eq in E; subst; cbn|]; split; reflexivity.
    + intros p'. unfold pend. cbn. rewrite ?ensure_queue, ?ensure_notif, ?ensure_calls.
      intros [W|[W|W]]; auto. right; right. apply pendc_cons. exact W.
  - (* AUpdEnq *)
    destruct (upd_enq p s) as [s1|] eqn:E; inv H. apply upd_enq_spec in E; subst.
    apply (SInv_transfer s); auto; [apply same_subs_refl|]. intros p'. apply (pend_enq s (KUpd p)); auto.
  - (* ABlocked *) destruct (has (KUpd p) (calls s) && negb (can_enq s) && upd_blocking); inv H. exact I.
  - (* ASubReg *)
    inv H. destruct (sub_reg_cases _ _ _ _ _ H1) as [->|(_ & s0 & H0 & ->)]; [exact I|].
    destruct (sub_reg0_spec _ _ _ _ H0) as (ch & L & Et & Sv & _ & _ & P & C & Q & Nf).
    split; rewrite ?mark_chans.
    + intros p' c' K. apply mark_eff in K. rewrite Sv. destruct ((p' =? p) && (c' =? c)) eqn:Eb.
      * rewrite andb_comm in Eb. rewrite Eb. discriminate.
      * rewrite andb_comm in Eb. rewrite Eb. apply (S2 _ I). unfold eff in *. rewrite <- P. exact K.
    + intros p' c' K. unfold pend. rewrite mark_queue, mark_notif, mark_calls, C, Q, Nf.
      unfold tsv in K. rewrite mark_gp in K. destruct (p' =? p) eqn:Ep.
      * apply N.eqb_eq in Ep; subst. right; right. apply pendc_here. reflexivity.
      * assert (W : pend s p') by (apply (S5 _ I p' c'); unfold tsv; rewrite <- P; exact K).
        unfold pend in W. destruct W as [W|[W|W]]; auto. right; right. apply pendc_cons. exact W.
  - (* ASubMark *)
    destruct (has (KSub c p false) (calls s)); inv H. rewrite mark_late_eq.
    apply Calls; auto. intros q. apply pendc_repl. reflexivity.
  - (* ASubEnq *)
    destruct (has (KSub c p true) (calls s) && can_enq s); inv H.
    apply (SInv_transfer s); auto; [apply same_subs_refl|]. intros p'. apply (pend_enq s (KSub c p true)); auto.
  - (* AUnsReg *)
    inv H. unfold uns_reg in H1. destruct (live_chan s c) as [ch|] eqn:L; [|inv H1; exact I].
    destruct (uns_core c p s) as [[s1 [|]]|] eqn:U; inv H1; try exact I.
    + destruct (uns_core_spec _ _ _ _ _ U) as (_ & _ & _ & _ & C & _). rewrite C.
      eapply SInv_uns_core; eauto; [intros q; apply pendc_cons | intros _; apply pendc_here; reflexivity].
    + destruct (uns_core_spec _ _ _ _ _ U) as (_ & _ & _ & _ & C & _).
      replace s' with (set_calls s' (calls s)) by (rewrite <- C; destruct s'; reflexivity).
      eapply SInv_uns_core; eauto. discriminate.
  - (* AUnsMark *)
    destruct (has (KUns c p false) (calls s)); inv H. rewrite mark_late_eq.
    apply Calls; auto. intros q. apply pendc_repl. reflexivity.
  - (* AUnsEnq *)
    destruct (has (KUns c p true) (calls s) && can_enq s); inv H.
    apply (SInv_transfer s); auto; [apply same_subs_refl|]. intros p'. apply (pend_enq s (KUns c p true)); auto.
    intros q. apply pendc_unbusy.
  - (* AClnTerm *)
    unfold cln_term in H. destruct (nextc s <=? c); [discriminate|]. destruct (live_chan s c) as [ch|] eqn:L; [|inv H; exact I].
    pose proof (live_chan_get _ _ _ L) as G. destruct (c_term ch); inv H; [exact I|].
    apply Calls; [eapply KeepC; eauto | intros q; apply pendc_cons].
  - (* AClnReg *)
    destruct (cln_reg c p s) as [s1|] eqn:E; inv H. unfold cln_reg in E.
    destruct (cln_rem c (calls s)) as [r|]; [|discriminate]. destruct (memN p r); [|discriminate].
    destruct (uns_core c p s) as [[s1 [|]]|] eqn:U; inv E;
      destruct (uns_core_spec _ _ _ _ _ U) as (_ & _ & _ & _ & C & _); rewrite C; eapply SInv_uns_core; eauto.
    + intros q K. apply pendc_cons. eapply pendc_incl; [|exact K]. intros x Hx Hin. apply In_repl_cln; auto.
    + intros _. apply pendc_here. reflexivity.
    + intros q K. eapply pendc_incl; [|exact K]. intros x Hx Hin. apply In_repl_cln; auto.
    + discriminate.
  - (* AClnFin *)
    destruct (cln_fin c s) as [s1|] eqn:E; inv H. unfold cln_fin in E.
    destruct (has (KCln c [] false) (calls s)); [|discriminate]. destruct (get c (chans s)) as [ch|] eqn:G; [|discriminate].
    destruct (metric s (c_subj ch)) as [nc ns]. inv E.
    apply (Calls (set_metrics (putc c (ch_live ch false) s) (set (c_subj ch) (nc - 1, ns) (metrics s)))).
    + apply (SInv_transfer s); auto; cbn; [eapply subv_keep_same; eauto | apply same_subs_refl].
    + cbn. intros q K. eapply pendc_incl; [|exact K]. intros x Hx Hin. apply In_rm1_neq; [exact Hin | intros ->; discriminate].
  - (* ANDeq *)
    destruct (notif s) eqn:En; try discriminate. destruct (queue s) as [|p r] eqn:Eq; [discriminate|]. inv H.
    apply (SInv_transfer s); auto; cbn; [apply same_subs_refl|].
    intros p'. unfold pend. cbn. rewrite En, Eq. intros [[W|W]|[W|W]]; [subst; auto | auto | discriminate | auto].
  - (* ANMerge *)
    destruct (notif s) as [|p|] eqn:En; try discriminate. inv H.
    set (x := getp p s). set (sd := merged (p_tosub x) (p_subd x)).
    split; cbn.
    + intros p' c K. apply (S2 _ I). unfold eff in *. rewrite gp_set in K. destruct (p' =? p) eqn:E; [|exact K].
      apply N.eqb_eq in E; subst p'. cbn in K. unfold sd in K. rewrite In_merged in K. unfold x in K. rewrite getp_gp in K. exact K.
    + intros p' c K. unfold tsv in K. rewrite gp_set in K. destruct (p' =? p) eqn:E; [cbn in K; congruence|].
      assert (W : pend s p') by (eapply S5; eauto). unfold pend in *. cbn. rewrite En in W.
      destruct W as [W|[W|W]]; auto. inv W. rewrite N.eqb_refl in E. discriminate.
  - (* ANSend *)
    destruct (notif s) as [| |p rem] eqn:En; try discriminate. destruct (memN c rem); inv H.
    assert (K : SInv (match get c (chans s) with Some ch => putc c (ch_tok ch true) s | None => s end)).
    { destruct (get c (chans s)) as [ch|] eqn:G; [eapply KeepC; eauto | exact I]. }
    apply (SInv_transfer _ _ K); auto; cbn; [apply same_subs_refl|].
    intros p'. unfold pend. cbn.
    assert (Nn : notif (match get c (chans s) with Some ch => putc c (ch_tok ch true) s | None => s end) = notif s) by (destruct (get c (chans s)); reflexivity).
    rewrite Nn, En. intros [W|[W|W]]; [auto | discriminate | auto].
  - (* AWStart *)
    destruct (live_chan s c) as [ch|] eqn:L; [|inv H; exact I]. pose proof (live_chan_get _ _ _ L) as G.
    destruct (c_w ch); inv H; try exact I. eapply KeepC; eauto.
  - (* AWTake *)
    destruct (get c (chans s)) as [ch|] eqn:G; [|discriminate]. destruct (c_w ch); try discriminate. destruct (c_tok ch); inv H.
    eapply KeepC; eauto.
  - (* AWScan *)
    destruct (get c (chans s)) as [ch|] eqn:G; [|discriminate]. destruct (c_w ch); inv H.
    apply (SInv_transfer s); auto; cbn; [|apply same_subs_refl].
    eapply subv_keep_set; eauto. intros p K. cbn. rewrite get_scan_mark. destruct (get p (c_subs ch)); congruence.
  - (* AWDeliver *)
    destruct (get c (chans s)) as [ch|] eqn:G; [|discriminate]. destruct (c_w ch); inv H. eapply KeepC; eauto.
  - (* AWStop *)
    destruct (get c (chans s)) as [ch|] eqn:G; [|discriminate].
    assert (K : s' = putc c (ch_w ch WDone) s) by (destruct (c_w ch); inv H; reflexivity). subst s'. eapply KeepC; eauto.
  - inv H. exact I.
  - destruct (m =? 1); [destruct (calls s); inv H; exact I|]. destruct (m =? 2); [destruct (quiet s); inv H; exact I|].
    destruct (m =? 3); [destruct (quiet s && (count_live (chans s) =? 0)); inv H; exact I|]. inv H. exact I.
  - discriminate.
Qed.

Theorem reach_SInv P q s evs : reach P q s evs -> QInv q s /\ SInv s.
Proof.
  intros R. induction R as [|s evs a s' o R IH A H]; [split; [apply QInv_init | apply SInv_init]|].
  destruct IH as [IQ IS]. split; [eapply QInv_step; eauto|].
  eapply SInv_step; eauto. apply (Q_fresh _ _ IQ).
Qed.

(* at quiescence the notifier serves exactly the existing subscriptions: no stale entry, hence
   nothing is left in subscribedChannels once every channel has been cleaned up *)
Theorem quiescent_no_stale_proved :
  forall P q s evs, reach P q s evs ->
  queue s = [] -> notif s = NIdle -> calls s = [] ->
  forall p c, In c (p_subd (getp p s)) ->
  exists ch d, get c (chans s) = Some ch /\ get p (c_subs ch) = Some d.
Proof.
  intros P q s evs R Hqe Hn Hc p c Hin.
  destruct (reach_SInv _ _ _ _ R) as [_ I].
  assert (T : tsv (projs s) p c = None).
  { destruct (tsv (projs s) p c) eqn:E; [|reflexivity]. exfalso.
    assert (W : pend s p) by (apply (S5 _ I p c); rewrite E; discriminate). unfold pend in W. rewrite Hqe, Hn, Hc in W.
    destruct W as [[]|[W|(k & [] & _)]]. discriminate. }
  assert (E : eff (projs s) p c) by (unfold eff; unfold tsv in T; rewrite T; rewrite getp_gp in Hin; exact Hin).
  pose proof (S2 _ I _ _ E) as K.
  unfold subv in K. destruct (get c (chans s)) as [ch|]; [|congruence].
  destruct (get p (c_subs ch)) as [d|] eqn:G; [|congruence]. eauto.
Qed.
